#!/usr/bin/env python3
"""Writes /verif/MANIFEST.json from the table below (kept here so that the manifest stays consistent)."""
import json, os, sys

ROOT = os.path.dirname(os.path.dirname(os.path.abspath(__file__)))

ALL = ["C%02d" % i for i in range(1, 20)]

# property id -> (level category, level text, level_note, technique, design_ref)
CLAIMS = {}

ADDED = json.load(open(os.path.join(ROOT, "checker", "added_rules.json")))

def claim(pid, text, note, technique, level="other"):
    CLAIMS[pid] = dict(level=level, text=text + ADDED.get(pid, ""), note=note, technique=technique, ref="DESIGN.md §2 " + pid + ", §9, §10")

claim("C09",
      "Decides a structural necessary condition, not the behaviour: no source of nondeterminism inside goverter's own code can reach "
      "output bytes or diagnostics. Every `range` over a map is classified as order-insensitive (commutative accumulation, "
      "append-then-sort in the function or in every caller, constant quantifier, audited effect loop); every comparator sort is total "
      "on an identifying key or stable over a canonical input; the package list of every packages.Load is canonicalised before "
      "order-sensitive use; no ambient input (time, rand, env, pid, cwd, goroutines, %p) is read; no package-level variable is mutated. "
      "This is all-paths reasoning over the generator's source, which the golden tests (one path per input, one hash seed) cannot give.",
      "Trusted: go/types+AST of x/tools v0.29.0, determinism of jennifer's renderer and of go list, table of identifying sort keys "
      "(checker/c09.go identifyingKeys/stableOverCanonical) and the audited effect loop goverter.writeFiles. Not decided: equality of "
      "bytes across runs as such, absolute paths leaking into bytes, history independence beyond C16's tag wiring.",
      "static analysis: AST+types classification of map-range loops, sort-key totality table, who-may-call for ambient inputs, package-level state writes")

claim("C15",
      "Structural necessary conditions decided on every run: who-may-write (only goverter.writeFiles, only os.MkdirAll/os.WriteFile), written path = key of the generated map = "
      "getOutputDir(converter), constant modes 0644/0755, same-file/different-package rejection by a plain PackageID comparison that dominates every hand-out of a file, "
      "jen.NewFile* only in fileManager.Get with the converter's package path/name, documented default locations, @cwd paths made absolute. "
      "All-paths statements about the generator; the goldens only sample layouts.",
      "Not decided: the path arithmetic (relative/parent/absolute), package-name inference and jennifer's normalisation; well-formedness of merged files (C01). "
      "Trusted: os/filepath semantics, list of FS mutators in checker/cfiles.go.",
      "static analysis: who-may-call over resolved callees, SSA dominance of the package comparison, AST wiring of paths/modes/defaults")

claim("C16",
      "Decides the wiring that the property depends on: generated-code header then //go:build + unmodified constraint (guarded only by != \"\") on every created file before it is stored; "
      "complementary flag defaults evaluated semantically with go/build/constraint; flag -> config -> loader/header field wiring not swapped; both packages.Load sites pass -tags with the unmodified tag string.",
      "Not decided: that go list skips constrained files and hence the recovery consequence itself (trusted). Trusted: jennifer places HeaderComment before the package clause.",
      "static analysis: SSA must-pass-through on the file-creating path, constant evaluation of flag defaults, composite-literal wiring, sibling agreement of the two loaders")

claim("C17",
      "Proof of the structural theorem formed by obligations O1-O7 (see evidence.explanation): no file-system mutation can happen unless every selected converter was generated, and every error arm of cli.Run "
      "prints to stderr and exits 1, help exits 0. Each obligation is discharged mechanically on /repo's current SSA/AST on every run (who-may-call, dominance, must-pass-through, error-flow path search); "
      "obligations == discharged is required for exit 0.",
      "Trusted base: go/ssa + go/types of x/tools v0.29.0, the list of FS mutators and exit functions in checker/cfiles.go, documented semantics of os.WriteFile/MkdirAll/os.Exit. "
      "Not proved: partial writes when the OS fails mid-way (outside the property's quantifier); go list does not write into the user's tree.",
      "static analysis: who-may-call + SSA dominance / must-pass-through / error-flow path search (structural proof over the call graph)", level="proof")

claim("C18",
      "Who-may-emit analysis: every import-producing emission (jen.Qual) is classified by the origin of its package path; literals are allowed only at audited (function, package) pairs under their gating arms; "
      "no reflect/unsafe constant in any emission argument; top-level declarations are limited to raw text, comment, empty struct, init and functions; method bodies reach the file only as function blocks; "
      "no go/defer/select/goto/recover emission. Decides that no emission site of the generator can add a forbidden import or package-level state, for all inputs.",
      "Not decided: imports forced by the user's own types (reflect.Type / unsafe.Pointer fields), content of output:raw, jennifer adding exactly the imports of the Qual calls (trusted). "
      "Audited table: literalQualAllowed in checker/c18.go.",
      "static analysis: enumeration and origin classification of jennifer emission chains (AST + types)")

claim("C13",
      "Obligation inventory over goverter's own code, each discharged mechanically or by an audited row whose sub-facts are re-verified on every run: explicit panic sites (switch exhaustiveness over closed universes "
      "read from go/types, caller-established guards via an SSA struct-fact analysis, audited ArgUse arms), implicit partial operations (single-value type assertions, Object.Pkg() nil contract, strings.Repeat counts, "
      "MustCompile arguments, constant indexes vs. length facts, nil-map stores), error discipline (no success return reachable while an error may be non-nil), recursion cycles of the VTA call graph (visited set when "
      "named types are unfolded), unbounded loops and the monotonicity of the generator's Dirty fix-point. Decides that no input can drive own code into these panics/hangs; tests sample inputs, this covers all paths.",
      "Not decided: termination in general, panics inside go/packages/jennifer/regexp, OOM, wording of diagnostics. "
      "Trusted: audited tables in checker/c13*.go (switch exclusions, audited panics/asserts/lengths/error drops/loops), go/ssa.",
      "static analysis: switch exhaustiveness vs. type-checked universes, SSA dominance/path search (error flow, struct facts, clamps), VTA call-graph SCCs")

claim("C12",
      "Decides the structural conditions behind `method > converter > CLI > default` and `validated where written`: documented level table vs. the case labels of the three setting parsers, delegation of all other keys to "
      "parseCommon with the caller's own Common, error arms for empty/unknown keys, documented key -> field table with typed value parsers applied to the unmodified value, parse.Bool semantics, order of application "
      "(defaults, -g, converter, value copy, method lines), converter-level settings for shared generated sub-methods, method-level regex for method-level custom functions, isolation of Common, the conflicting pair, "
      "located errors and absence of mutable package state. These hold for every setting x level x sibling combination, which the exhaustive product the property quantifies over would need ~10^4 runs to sample.",
      "Not decided: the observable effect of a setting value on the generated code. Reference tables (level table, key->field table) in checker/c12.go are the documented behaviour; the discrepancy `enum` (documented converter-level, implemented inheritable) is frozen as-is.",
      "static analysis: switch-label tables (AST+constants), composite-literal/assignment wiring, SSA dominance for ordering, error-flow for located errors")

claim("C14",
      "Decides structural necessary conditions of method.Parse and its users: exactly one role per parameter and one RawArgs entry per parameter in declared order, one emitted parameter per entry; presence and error-return of every "
      "validation guard before the success return (the result-arity condition is evaluated for 0..4 results); isError = built-in error only; the documented ParseOpts per use site including the context regex of the right level.",
      "Not decided: the classification as a function over all signature permutations and the run-time routing of arguments. Reference table optsTable in checker/c14.go is the documented behaviour (DESIGN Appendix B2).",
      "static analysis: AST shape rules with constant evaluation, composite-literal tables resolved through helpers")

claim("C19",
      "Decides structural necessary conditions of comment recognition: comment text enters only through .Doc of the five declaration kinds; RawLines only from SettingLines(CommentToString(doc of the same declaration)) or -g; "
      "no reordering between extraction and application; wrong-kind markers are errors checked before use; the `goverter:` prefix test is applied to strings.TrimSpace(line); parse.Command returns the verbatim text after the first space.",
      "Not decided: CommentToString's treatment of every comment layout (string function over unbounded input). Trusted: go/parser's attachment of doc comments.",
      "static analysis: field-access inventory over go/ast types, AST origin tracing of doc text, SSA dataflow of the prefix subject and of Command's results")

claim("C01",
      "Decides four necessary conditions for valid, non-clashing identifiers in emitted code: fresh-name discipline of every declaring emission (names from the allocator in scope or reserved literals; file-level allocator for generated "
      "functions), the allocator's own contract (tested-and-inserted on every path to a return), totality of type rendering over go/types, and accessibility tests dominating every emitted member selector.",
      "Not decided: that the emitted file type-checks in general; clashes with import aliases chosen by jennifer (D17); uniqueness of helper names across two output files of one package (D16, described in DESIGN.md, no sound local rule); "
      "interface satisfaction. Trusted: jennifer renders identifiers verbatim.",
      "static analysis: emission-chain enumeration with origin tracing of declared names, SSA dominance for the allocator contract and accessibility guards, switch exhaustiveness")

claim("C03",
      "Decides the `no silent acceptance` direction on every path of the generator: dispatcher agreement (overlap check, same rule table, Matches/Build on the same element, typeMismatch fall-through), non-nil mismatch errors, "
      "opt-in gates and shape/identity predicates of every Matches as SSA path facts, error discipline in builder+generator with the single sanctioned ignoreMissing continuation, accessibility before selection, no rendering before all converters succeeded.",
      "Not decided: the full iff over (source type, target type, settings) and that no documented conversion is rejected. Gate table in checker/c03.go is the documented behaviour.",
      "static analysis: SSA path facts (conditions known true/false at each `return true`), error-flow path search, AST shape of the dispatchers")

claim("C02",
      "Decides the panic-freedom, termination-shape and nil-ness clauses for the code goverter itself emits, as properties of the closed set of emission sites: audited operator/construct vocabulary, guarded dereference "
      "(everything computed from JenID.Deref is returned only inside If(source != nil); mapField guards pointer hops), make(T, len(source)) under source != nil before indexing, bounded loop shapes over the source, panic only for enum @panic, "
      "Build/Assign derived from one another, map entries always assigned. One known finding (D12, golden-pinned) is reported as KNOWN-FINDING.",
      "Not decided: equality of converted values with the structural mapping, order/length preservation as run-time relations. Trusted: jennifer renders each construct as named; vocabulary tables in checker/c02.go.",
      "static analysis: emission-chain inventory, AST taint from Deref to returns with If-guard sanitiser, shape rules for make/loops")

claim("C04",
      "Emission-site analysis: the unconverted source expression reaches an identity sink (result JenID, RHS of emitted =/:=, target index) only in audited owners; no emitted write has a left-hand side derived from the source; "
      "containers are assigned from make() only; empty receiver struct, no package state, converter-level settings for shared sub-methods. Decides that no emission site of the generator can alias or mutate the source, for all inputs.",
      "Not decided: sharing under skipCopySameType through type combinations (SkipCopy is an audited owner), the dynamic race detector's view. Owner table identitySinkOwners in checker/c04.go.",
      "static analysis: AST source-expression taint over builder/generator functions with converter calls as sanitisers")

claim("C05",
      "Decides structural necessary conditions of `field settings select sources as documented and are never silently dropped`: method-local settings are read only under a FieldsTarget comparison (here or at every caller), "
      "unused-setting detection (delete at loop head, left-over check dominating success), validation before build on the complete record RawFieldSettings with the documented field-setting classification, "
      "overlap check first in both dispatchers, unconditional candidate enumeration and exact>case-insensitive resolution with none/one/many outcomes, lookup only when no explicit path is configured.",
      "Not decided: which source value a field receives at run time; nil behaviour of dotted paths at run time (shape: C02.R2).",
      "static analysis: guarded-read analysis (AST guards incl. early exits, one level of callers), SSA dominance of the left-over check, switch/assignment tables")

claim("C06",
      "Decides the layering behind `custom functions are used wherever their types occur`: lookup-before-build on every path of generator.Build/Assign, callExisting consults extend then method index before reporting nothing found, "
      "who-may-call of the rule dispatchers, builders reach nested conversions only through the Generator interface, explicit methods consult extend first; argument assembly by role agrees between CallMethod and delegateMethod and covers all roles; "
      "missing context is a generation error; local settings of a custom function are looked up under the name of the parsed object.",
      "Not decided: that the chosen function's result is what comes out at run time, regex selection semantics, convergence of dirty sub-methods (termination shape in C13.R5).",
      "static analysis: SSA must-pass-through path search, who-may-call over resolved callees, switch exhaustiveness over ArgUse, SSA value identity for the looked-up name")

claim("C07",
      "Decides structural necessary conditions of error propagation in generated code: who-may-call(qualMethod), shape of the fallible-call emission (bind to the reserved err, immediate `if err != nil` with the return built by ReturnError from that identifier), "
      "refusal before flipping ReturnError and at both users, %w last in every emitted fmt.Errorf with an error operand, Wrap(err, …) with the error first, pass-through default, blank identifier only for the unused source, "
      "and identity of path elements (Field(target field) for every nested call of Struct.Assign, one index identifier in List.Assign, the range key in Map.Assign, every ErrorElement kind rendered).",
      "Not decided: the concatenated path text at run time; multi-fault behaviour.",
      "static analysis: emission-chain shape rules, SSA dominance (refusal before flip), SSA/AST value identity of path-element arguments")

claim("C08",
      "Decides structural necessary conditions of enum conversion: agreement of the declared, validated and implemented action sets with error defaults; totality of member collection (Detect filters only on constant-ness and type identity), "
      "of SortedMembers and of the case loop (every member ends in a case, a justified skip-comment or an error; enum:unknown required; default arm appended; mapped target must exist; enum:map > transformers > same name); "
      "exact canonicalisation (constant.Make(v).ExactString()) wherever member values are compared or keyed; unused enum:map keys reported.",
      "Not decided: the run-time result per member/non-member value; custom transformers (user code).",
      "static analysis: switch-set agreement, guard inventory on the member store, AST shape of the case loop with SSA dominance of the unknown/default steps, use-site analysis of member values")

claim("C10",
      "Decides structural necessary conditions of update methods: signature guards in method.Parse, shape guards and nil-source guard of convertTo which emits no assignment of its own, the zero-value category table as SSA path facts "
      "(flag read on every true path, own category, update-only, target type only via types.Identical), the shape of the emitted zero guard, comparability established before `!= ZeroValue`, and writes only through the target.",
      "Not decided: which fields survive for a given pre-state and source value at run time.",
      "static analysis: SSA path facts over shouldCheckAgainstZero, emission-chain shape rules, AST guard ordering for comparability")

claim("C11",
      "Decides structural necessary conditions of pointer/default semantics: opt-in gate and dedicated hint for *T -> U, documented precedence of overlapping builders in BuildSteps, non-nil address-of results for T -> *U, "
      "constructor typestate (guarded by UseConstructor and identity of both method types, cleared before the single call), default:update applied under If(source != nil), map values always assigned.",
      "Not decided: the values returned for nil/non-nil inputs at run time. Precedence table precedencePairs in checker/c10.go is the documented behaviour.",
      "static analysis: SSA path facts for gates, order table over the rule list, AST/SSA dominance for the constructor typestate")

NOT_APPLICABLE_REASON = "rules for this property are designed (DESIGN.md §2) but the checker code is not built yet in this round; not claimed until it runs"

def main():
    checks = []
    for pid in ALL:
        if pid not in CLAIMS:
            continue
        c = CLAIMS[pid]
        checks.append({
            "property_id": pid,
            "quick_cmd": "./check.sh %s quick" % pid,
            "thorough_cmd": "./check.sh %s thorough" % pid,
            "evidence_file": "/verif/evidence/%s.json" % pid,
            "replay_cmd_template": "bin/gvlint replay {path}",
            "engine": "gvlint",
            "level_claimed": {"category": c["level"], "text": c["text"], "design_ref": c["ref"]},
            "level_note": c["note"],
            "technique": c["technique"],
        })
    na = [{"property_id": pid, "reason": NOT_APPLICABLE_REASON} for pid in ALL if pid not in CLAIMS]
    m = {
        "version": 1,
        "setup_cmd": "cd /verif/checker && GOFLAGS=-mod=mod GOPROXY=off GOSUMDB=off GOTOOLCHAIN=local GOWORK=off CGO_ENABLED=0 go build -o /verif/bin/gvlint .",
        "hooks": {
            "guard": "verif",
            "enable": "none needed: the checks are static and read /repo's source; no hook or instrumentation exists in /repo (the build tag `verif` is reserved but unused)",
            "baseline_off_cmd": "cd /repo && GOFLAGS=-mod=mod GOPROXY=off go test -mod=mod -json -vet=off -count=1 ./...",
            "source_commits": [],
            "add_only": True,
        },
        "engines": [{
            "name": "gvlint",
            "path": "/verif/checker",
            "serves_properties": [c["property_id"] for c in checks],
            "kind_free_text": "repository-specific static analyser (go/packages + go/types + go/ssa + VTA call graph, x/tools v0.29.0); loads /repo's current working tree on every run, never executes goverter",
        }],
        "checks": checks,
        "not_applicable": na,
        "notes": "All checks are static analysis of /repo's current source (DESIGN.md). Exit 0 = every obligation discharged; exit 1 + VIOLATION line = an obligation is violated or cannot be discharged on this tree; exit 2 + UNDECIDED line = the tree does not load/type-check or an anchor of a rule is missing (no verdict). Known findings: /verif/known_findings.json.",
    }
    with open(os.path.join(ROOT, "MANIFEST.json"), "w") as f:
        json.dump(m, f, indent=1)
        f.write("\n")

if __name__ == "__main__":
    main()
