#!/bin/bash
# usage: tools/try_benign.sh <diff> — applies a behaviour-preserving diff to a scratch copy of /repo and runs all quick checks; prints alarms
set -u
diff="$1"; name=$(basename $(dirname "$diff"))-$(basename "$diff" .diff)
export GOFLAGS=-mod=mod GOPROXY=off GOSUMDB=off GOTOOLCHAIN=local GOWORK=off
d=$(mktemp -d /tmp/benign.XXXXXX); trap 'rm -rf $d' EXIT
rsync -a --exclude .git --exclude execution /repo/ $d/r/
( cd $d/r && GIT_CEILING_DIRECTORIES=$d git apply --whitespace=nowarn "$diff" ) 2>/dev/null || { echo "$name: DOES-NOT-APPLY"; exit 0; }
( cd $d/r && go build ./... ) >/dev/null 2>&1 || { echo "$name: DOES-NOT-BUILD"; exit 0; }
mkdir -p $d/v; cp /verif/known_findings.json $d/v/
alarms=""
for p in $(seq -w 1 19); do
  out=$(/verif/bin/gvlint check -property C$p -repo $d/r -verif $d/v 2>&1); ec=$?
  if [ $ec -ne 0 ]; then alarms="$alarms C$p"; echo "$out" | grep -A1 -E '^(VIOLATION|UNDECIDED)' | grep -v '^--' | grep -v '^VIOLATION' | sed "s#$d/r/##g" | cut -c1-330 | sed "s/^/    [$name C$p] /"; fi
done
echo "$name: alarms=[$alarms ]"
