#!/bin/bash
# usage: tools/alpha_check.sh [suffix] — α-renames every local/parameter of a scratch copy of /repo and runs all quick checks on it; prints alarms (all false by construction)
set -u
export GOFLAGS=-mod=mod GOPROXY=off GOSUMDB=off GOTOOLCHAIN=local GOWORK=off
suffix="${1:-Q7}"
d=$(mktemp -d /tmp/alpha.XXXXXX); trap 'rm -rf $d' EXIT
rsync -a --exclude .git --exclude execution /repo/ $d/r/
/verif/bin/gvlint alpharename -dir $d/r -suffix "$suffix" >/dev/null || { echo "alpharename failed"; exit 2; }
(cd $d/r && go build ./...) || { echo "renamed tree does not build"; exit 2; }
mkdir -p $d/v; cp /verif/known_findings.json $d/v/
n=0
for p in $(seq -w 1 19); do
  out=$(/verif/bin/gvlint check -property C$p -repo $d/r -verif $d/v 2>&1); ec=$?
  if [ $ec -ne 0 ]; then echo "$out" | grep -A1 -E '^(VIOLATION|UNDECIDED)' | grep -v '^--' | grep -v '^VIOLATION' | sed "s#$d/r/##g" | cut -c1-300; n=$((n+1)); fi
done
echo "alpha-rename($suffix): $n of 19 checks raise an alarm"
