#!/usr/bin/env python3
"""Regenerates the two machine-made tables of DESIGN.md (between the RULES-TABLE / SEEDED-TABLE markers) from
evidence/*.json (run all quick checks first) and seeded/*/meta.json + detection.txt."""
import json, glob, os, re
ROOT = "/verif"

def esc(s): return s.replace("|", "\\|").replace("\n", " ")

def rules_table():
    out = ["| rule | instances today (floor) | what the rule decides (first sentence) |", "|------|------|------|"]
    for f in sorted(glob.glob(ROOT + "/evidence/C??.json")):
        ev = json.load(open(f))
        for r in ev["coverage"]["rules"]:
            text = r["text"]
            m = re.match(r"(.{40,260}?)(: |; | — |\. )", text)
            short = (m.group(1) if m else text[:200])
            out.append("| %s | %d (%d) | %s |" % (r["rule"], r["instances"], r["floor"], esc(short)))
    return "\n".join(out)

def seeded_table():
    out = ["| id | file(s) | change (abridged) | own rule(s) that report it | all checks that report it |", "|----|---------|-------------------|----------------|-----------|"]
    for d in sorted(glob.glob(ROOT + "/seeded/*")):
        id = os.path.basename(d)
        m = json.load(open(d + "/meta.json"))
        prop = id.split("-")[0]
        files = m.get("files_changed") or []
        if isinstance(files, str): files = [files]
        det = open(d + "/detection.txt", errors="replace").read() if os.path.exists(d + "/detection.txt") else ""
        own = sorted(set(re.findall(r"rule (%s\.[A-Za-z0-9]+) " % prop, det)))
        allc = " ".join(m.get("detected_by_quick_checks", []))
        out.append("| %s | %s | %s | %s | %s |" % (id, esc(",".join(files))[:70], esc(m.get("summary", ""))[:170] + "…", " ".join(own), allc))
    return "\n".join(out)

def splice(s, name, body):
    b, e = "<!-- %s:BEGIN -->" % name, "<!-- %s:END -->" % name
    assert b in s and e in s, name
    return s[:s.index(b) + len(b)] + "\n" + body + "\n" + s[s.index(e):]

p = ROOT + "/DESIGN.md"
s = open(p).read()
s = splice(s, "RULES-TABLE", rules_table())
s = splice(s, "SEEDED-TABLE", seeded_table())
open(p, "w").write(s)
print("tables regenerated")
