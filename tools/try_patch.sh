#!/bin/bash
# usage: tools/try_patch.sh <patch.diff> <prop> [<prop>...]   — applies the patch to /repo, runs the quick checks, reverts.
set -u
patch="$1"; shift
cd /verif
git -C /repo diff --quiet || { echo "/repo is dirty"; exit 3; }
git -C /repo apply "$patch" 2>/dev/null || git -C /repo apply --3way "$patch" >/dev/null 2>&1 || { echo "patch does not apply"; git -C /repo reset -q --hard; exit 3; }
trap 'git -C /repo reset -q --hard ; git -C /repo clean -fdq -e execution >/dev/null' EXIT
if ! (cd /repo && GOFLAGS=-mod=mod GOPROXY=off go build ./... 2>/dev/null); then echo "patched tree does not build"; exit 3; fi
mkdir -p /tmp/vtmp; cp -f known_findings.json /tmp/vtmp/ 2>/dev/null
for p in "$@"; do
  out=$(bin/gvlint check -property "$p" -verif /tmp/vtmp 2>&1); ec=$?
  echo "== $p exit=$ec"
  echo "$out" | grep -A1 -E '^(VIOLATION|UNDECIDED)' | cut -c1-330
done
