#!/bin/bash
# usage: tools/redetect.sh [id...]   — re-runs all 19 quick checks on each seeded change (scratch copy of /repo + patch) and refreshes
# seeded/<id>/meta.json (detected_by_quick_checks) and detection.txt.  Does not touch /repo.
set -u
export GOFLAGS=-mod=mod GOPROXY=off GOSUMDB=off GOTOOLCHAIN=local GOWORK=off
cd /verif
ids=("$@"); [ ${#ids[@]} -eq 0 ] && ids=($(ls seeded))
one() {
  id="$1"; d=/tmp/redet/$id; rm -rf $d; mkdir -p $d/repo $d/v
  rsync -a --exclude .git /repo/ $d/repo/
  ( cd $d/repo && patch -p1 -s < /verif/seeded/$id/patch.diff ) || { echo "$id: PATCH-DOES-NOT-APPLY"; rm -rf $d; return; }
  cp /verif/known_findings.json $d/v/
  det=""
  for p in $(seq -w 1 19); do
    ${GVLINT:-/verif/bin/gvlint} check -property C$p -repo $d/repo -verif $d/v > $d/v/out.C$p 2>&1; ec=$?
    [ $ec -eq 1 ] && det="$det C$p"
    [ $ec -ge 2 ] && det="$det C$p(undecided)"
  done
  grep -h -A1 '^VIOLATION' $d/v/out.C* 2>/dev/null | grep -v '^--' | sed "s#$d/v#<verif>#g; s#$d/repo/##g" | cut -c1-400 > /verif/seeded/$id/detection.txt
  python3 - "/verif/seeded/$id/meta.json" "$det" <<'PY' 2>/dev/null
import json,sys
m=json.load(open(sys.argv[1])); m['detected_by_quick_checks']=sys.argv[2].split(); json.dump(m,open(sys.argv[1],'w'),indent=1)
PY
  own=${id%%-*}
  case " $det " in *" $own "*) tag=own;; *) tag=NOT-BY-OWN;; esac
  echo "$id: [$det ] $tag"
  rm -rf $d
}
export -f one
printf '%s\n' "${ids[@]}" | xargs -P 8 -I{} bash -c 'one {}' 2>&1 | grep -v conda | sort
rm -rf /tmp/redet
