#!/usr/bin/env python3
"""Builds the rule-level mutant corpus /verif/checker/selftest/mutants/*.diff.

Each entry is a small textual edit of one /repo file that must still compile and that a NAMED rule must
report. These are tests of the rules (is the rule blind?), not realistic changes: they need not pass the
test suite. The thorough tier re-applies every diff that still applies to /repo's current tree and requires the
property's check to report it. Run:  tools/make_mutants.py [id-prefix]
"""
import json, os, subprocess, sys, tempfile, shutil

ROOT = "/verif"
OUT = ROOT + "/checker/selftest/mutants"
ENV = dict(os.environ, GOFLAGS="-mod=mod", GOPROXY="off", GOSUMDB="off", GOTOOLCHAIN="local", GOWORK="off")

M = []
def m(id, prop, rule, file, old, new, count=1):
    M.append(dict(id=id, prop=prop, rule=rule, file=file, old=old, new=new, count=count))

# ---- C01
m("C01-R1-literal-name", "C01", "C01.R1", "builder/basic.go", 'name := ctx.Name(target.ID())\n\tctx.SetErrorTargetVar(jen.Nil())\n\n\tstmt, id, err := gen.Build(ctx, sourceID, source, target.PointerInner, errPath)', 'name := target.ID()\n\tctx.SetErrorTargetVar(jen.Nil())\n\n\tstmt, id, err := gen.Build(ctx, sourceID, source, target.PointerInner, errPath)')
m("C01-R1-submethod-namer", "C01", "C01.R1", "generator/generator.go", 'name := g.namer.Name(source.UnescapedID() + "To" + strings.Title(target.UnescapedID()))', 'name := ctx.Name(source.UnescapedID() + "To" + strings.Title(target.UnescapedID()))')
m("C01-R2-register-no-store", "C01", "C01.R2", "namer/namer.go", '\t\tm.lookup[name] = struct{}{}\n\t\treturn true', '\t\treturn true')
m("C01-R3-tocode-arm", "C01", "C01.R3", "xtype/tocode.go", '\tcase types.Complex64:\n\t\treturn jen.Complex64()\n', '')
m("C01-R4-accessible-removed", "C01", "C01.R4", "builder/struct.go", 'if !xtype.Accessible(targetField, ctx.OutputPackagePath) {', 'if false {')
m("C01-R4b-accessible-name", "C01", "C01.R4b", "xtype/access.go", 'return pkg == nil || pkg.Path() == outputPackagePath', 'return pkg == nil || pkg.Name() == outputPackagePath')
# ---- C02
m("C02-R2-sourcepointer-noguard", "C02", "C02.R2", "builder/pointer.go", '''	stmt := []jen.Code{
		jen.If(sourceID.Code.Clone().Op("!=").Nil()).Block(
			append(nextInner, assignTo.Stmt.Clone().Op("=").Add(nextID.Code))...,
		),
	}

	return stmt, nil''', '''	stmt := append(nextInner, assignTo.Stmt.Clone().Op("=").Add(nextID.Code))

	return stmt, nil''')
m("C02-R3-map-nomake", "C02", "C02.R3", "builder/map.go", '\t\t\tassignTo.Stmt.Clone().Op("=").Make(target.TypeAsJen(), jen.Len(sourceID.Code.Clone())),\n\t\t\tjen.For(jen.List(', '\t\t\tjen.For(jen.List(')
m("C02-R4-loop-bound", "C02", "C02.R4", "builder/list.go", 'jen.Id(index).Op("<").Len(sourceID.Code.Clone())', 'jen.Id(index).Op("<").Len(assignTo.Stmt.Clone())')
m("C02-R5-panic", "C02", "C02.R5", "builder/struct.go", 'stmt = append(stmt, jen.Id("_").Op("=").Add(sourceID.Code.Clone()))', 'stmt = append(stmt, jen.Panic(jen.Lit("unused")))')
m("C02-R1-operator", "C02", "C02.R1", "builder/list.go", 'jen.Id(index).Op("++")', 'jen.Id(index).Op("+=").Lit(1)')
# ---- C03
m("C03-R1-assign-skips-overlap", "C03", "C03.R1", "generator/generator.go", '''	if err := g.getOverlappingStructDefinition(ctx, source, target); err != nil {
		return nil, err
	}

	for _, rule := range BuildSteps {
		if rule.Matches(ctx, source, target) {
			return rule.Assign(''', '''	for _, rule := range BuildSteps {
		if rule.Matches(ctx, source, target) {
			return rule.Assign(''')
m("C03-R3-basic-info", "C03", "C03.R3", "builder/basic.go", 'source.BasicType.Kind() == target.BasicType.Kind()', 'source.BasicType.Info()&types.IsNumeric == target.BasicType.Info()&types.IsNumeric')
m("C03-R3-sourcepointer-flag", "C03", "C03.R3", "builder/pointer.go", 'return ctx.Conf.UseZeroValueOnPointerInconsistency && source.Pointer && !target.Pointer', 'return source.Pointer && !target.Pointer')
m("C03-R3-list-array-target", "C03", "C03.R3", "builder/list.go", 'return source.List && target.List && !target.ListFixed', 'return source.List && target.List')
m("C03-R4-continue-on-error", "C03", "C03.R4", "builder/struct.go", '''			fieldStmt, err := gen.Assign(ctx, AssignOf(assignTo.Stmt.Clone().Dot(targetField.Name())), nextID, nextSource, targetFieldType, targetFieldPath)
			if err != nil {
				return nil, err.Lift(lift...)
			}''', '''			fieldStmt, err := gen.Assign(ctx, AssignOf(assignTo.Stmt.Clone().Dot(targetField.Name())), nextID, nextSource, targetFieldType, targetFieldPath)
			if err != nil {
				continue
			}''')
m("C03-R7-array-not-fixed", "C03", "C03.R7", "xtype/type.go", '\t\trt.List = true\n\t\trt.ListFixed = true\n', '\t\trt.List = true\n')
m("C03-R2-mismatch-nil", "C03", "C03.R2", "generator/generator.go", '''	return builder.NewError(fmt.Sprintf(`TypeMismatch: Cannot convert %s to %s

You can define a custom conversion method with extend:
https://goverter.jmattheis.de/reference/extend`, source.T, target.T))''', '''	if source.Interface && target.Interface {
		return nil
	}
	return builder.NewError(fmt.Sprintf(`TypeMismatch: Cannot convert %s to %s

You can define a custom conversion method with extend:
https://goverter.jmattheis.de/reference/extend`, source.T, target.T))''')
# ---- C04
m("C04-R1-list-identity", "C04", "C04.R1", "builder/list.go", '\t\treturn BuildByAssign(l, gen, ctx, sourceID, source, target, path)\n\t}\n\ttargetSlice := ctx.Name(target.ID())\n', '\t\treturn BuildByAssign(l, gen, ctx, sourceID, source, target, path)\n\t}\n\tif source.String == target.String {\n\t\treturn nil, sourceID, nil\n\t}\n\ttargetSlice := ctx.Name(target.ID())\n')
m("C04-R1-pointer-assign-identity", "C04", "C04.R1", "builder/pointer.go", '\tctx.SetErrorTargetVar(jen.Nil())\n\n\tnextBlock, id, err := gen.Build(ctx, sourceID.Deref(source)', '\tctx.SetErrorTargetVar(jen.Nil())\n\tif source.String == target.String {\n\t\treturn []jen.Code{assignTo.Stmt.Clone().Op("=").Add(sourceID.Code)}, nil\n\t}\n\n\tnextBlock, id, err := gen.Build(ctx, sourceID.Deref(source)')
m("C04-R2-write-source", "C04", "C04.R2", "builder/struct.go", 'stmt = append(stmt, jen.Id("_").Op("=").Add(sourceID.Code.Clone()))', 'stmt = append(stmt, sourceID.Code.Clone().Op("=").Add(sourceID.Code.Clone()))')
m("C04-R4-struct-field", "C04", "C04.R4", "generator/generator.go", 'f.Type().Id(g.conf.Name).Struct()', 'f.Type().Id(g.conf.Name).Struct(jen.Id("cache").Map(jen.String()).Int())')
# ---- C05
m("C05-R1-field-ungated", "C05", "C05.R1", "builder/builder.go", '''func (ctx *MethodContext) Field(target *xtype.Type, name string) *config.FieldMapping {
	if ctx.FieldsTarget != target.String {
		return emptyMapping
	}
''', '''func (ctx *MethodContext) Field(target *xtype.Type, name string) *config.FieldMapping {
''')
m("C05-R2-delete-after-ignore", "C05", "C05.R2", "builder/struct.go", '''		targetField := target.StructType.Field(i)
		delete(definedFields, targetField.Name())

		fieldMapping := ctx.Field(target, targetField.Name())

		if fieldMapping.Ignore {
			continue
		}''', '''		targetField := target.StructType.Field(i)

		fieldMapping := ctx.Field(target, targetField.Name())

		if fieldMapping.Ignore {
			continue
		}
		delete(definedFields, targetField.Name())''')
m("C05-R3-ignore-not-fieldsetting", "C05", "C05.R3", "config/method.go", '''	case "ignore":
		fieldSetting = true''', '''	case "ignore":''')
# ---- C06
m("C06-R1-direct-builder", "C06", "C06.R1", "builder/list.go", 'forBlock, err := gen.Assign(ctx, assignTo.WithIndex(jen.Id(index)), indexedSource, source.ListInner, target.ListInner, path.Index(jen.Id(index)))', 'forBlock, err := (&Struct{}).Assign(gen, ctx, assignTo.WithIndex(jen.Id(index)), indexedSource, source.ListInner, target.ListInner, path.Index(jen.Id(index)))')
m("C06-R1-create-before-lookup", "C06", "C06.R1", "generator/generator.go", '''	stmt, nextID, err := g.callExisting(ctx, sourceID, source, target, errPath)
	if nextID != nil || err != nil {
		return stmt, nextID, err
	}

	if g.shouldCreateSubMethod(ctx, source, target) {
		return g.createSubMethod(ctx, sourceID, source, target, errPath)
	}

	return g.buildNoLookup(ctx, sourceID, source, target, errPath)''', '''	if g.shouldCreateSubMethod(ctx, source, target) {
		return g.createSubMethod(ctx, sourceID, source, target, errPath)
	}
	stmt, nextID, err := g.callExisting(ctx, sourceID, source, target, errPath)
	if nextID != nil || err != nil {
		return stmt, nextID, err
	}

	return g.buildNoLookup(ctx, sourceID, source, target, errPath)''')
m("C06-R2-context-as-source", "C06", "C06.R2", "generator/generator.go", '''		case method.ArgUseContext:
			params = append(params, ctx.Context[arg.Type.String].Code.Clone())''', '''		case method.ArgUseContext:
			params = append(params, sourceID.Code)''')
m("C06-R3-context-ignored", "C06", "C06.R3", "generator/generator.go", '''			if !g.requireContext(ctx, arg.Type) {
				return nil, nil, formatErr("Could not satisfy all required context parameters:\\n" + strings.Join(method.AvailableContextDebug(definition.Context, ctx.AvailableContext), "\\n"))
			}''', '''			_ = g.requireContext(ctx, arg.Type)''')
m("C06-R5-get-ignores-context", "C06", "C06.R5", "method/index.go", '''	for _, hit := range hits {
		if satisfiesContext(hit.Def.Context, m) {
			return hit.Item, nil
		}
	}''', '''	for _, hit := range hits {
		return hit.Item, nil
	}''')
m("C06-R6-no-assignable-check", "C06", "C06.R6", "generator/generator.go", 'if !definition.Target.AssignableTo(target) && !definition.TypeParams {', 'if false && !definition.Target.AssignableTo(target) && !definition.TypeParams {')
# ---- C07
m("C07-R1-blank-error", "C07", "C07.R1", "generator/generator.go", 'jen.List(jen.Id(name), jen.Id("err")).Op(":=").Add(qual.Call(params...)),', 'jen.List(jen.Id(name), jen.Id("_")).Op(":=").Add(qual.Call(params...)),')
m("C07-R2-explicit-not-refused", "C07", "C07.R2", "generator/generator.go", '''			if check.Explicit && !check.ReturnError {
				return nil, false
			}
''', '')
m("C07-R3-percent-v", "C07", "C07.R3", "builder/errorpath.go", 'jen.Lit("error setting field "+string(elm)+": %w")', 'jen.Lit("error setting field "+string(elm)+": %v")')
m("C07-R5-list-no-index", "C07", "C07.R5", "builder/list.go", 'target.ListInner, path.Index(jen.Id(index)))', 'target.ListInner, path)')
m("C07-R5-wraperrors-first", "C07", "C07.R5", "builder/errorpath.go", 'switch elm := e[len(e)-1].(type) {', 'switch elm := e[0].(type) {')
# ---- C08
m("C08-R1-no-ignore-arm", "C08", "C08.R1", "builder/enum.go", '''		case config.EnumActionIgnore:
			return jen.Comment("ignored"), nil
''', '')
m("C08-R2-default-conditional", "C08", "C08.R2", "builder/enum.go", '\tcases = append(cases, jen.Default().Add(body))\n', '\tif enumUnknown != config.EnumActionIgnore {\n\t\tcases = append(cases, jen.Default().Add(body))\n\t}\n')
m("C08-R3-raw-key", "C08", "C08.R3", "builder/enum.go", 'return enumValueKey(targetEnum.Members[previous.Target]) != enumValueKey(targetEnum.Members[targetName])', 'return targetEnum.Members[previous.Target] != targetEnum.Members[targetName]')
# ---- C09
m("C09-R1-unsorted-members", "C09", "C09.R1", "xtype/enum.go", '\tsort.Strings(m)\n\treturn m', '\t_ = sort.Strings\n\treturn m')
m("C09-R1-unsorted-unused", "C09", "C09.R1", "xtype/usage.go", '\tsort.Strings(keys)\n', '\t_ = sort.Strings\n')
m("C09-R2-unstable", "C09", "C09.R2", "config/config.go", 'sort.SliceStable(converters, func(i, j int) bool {', 'sort.Slice(converters, func(i, j int) bool {')
m("C09-R3-pkgs-unsorted", "C09", "C09.R3", "comments/parse_docs.go", '\tsort.Slice(pkgs, func(i, j int) bool { return pkgs[i].ID < pkgs[j].ID })\n', '\t_ = sort.Slice\n')
m("C09-R4-time", "C09", "C09.R4", "generator/filemanager.go", 'f.Content.HeaderComment("// Code generated by github.com/jmattheis/goverter, DO NOT EDIT.")', 'f.Content.HeaderComment("// Code generated by github.com/jmattheis/goverter, DO NOT EDIT.")\n\t\tf.Content.Comment(os.Getenv("USER"))')
m("C09-R5-global-cache", "C09", "C09.R5", "builder/builder.go", '\tprop, ok := ctx.Conf.Fields[name]\n\tif !ok {\n\t\treturn emptyMapping\n\t}\n\treturn prop', '\tprop, ok := ctx.Conf.Fields[name]\n\tif !ok {\n\t\treturn emptyMapping\n\t}\n\temptyMapping = prop\n\treturn prop')
# ---- C10
m("C10-R2-no-nil-guard", "C10", "C10.R2", "generator/generator.go", '\tif sourcePointer {\n\t\tstmt = []jen.Code{jen.If(sourceID.Code.Clone().Op("!=").Nil()).Block(stmt...)}\n\t}\n', '\t_ = sourcePointer\n')
m("C10-R3-flag-ignored", "C10", "C10.R3", "builder/struct.go", '\tcase s.Basic && ctx.Conf.IgnoreBasicZeroValueField:\n\t\treturn true', '\tcase s.Basic:\n\t\treturn true')
m("C10-R4-no-comparable", "C10", "C10.R4", "builder/struct.go", '\t\t\t\tif err := requireComparable(nextSource); err != nil {\n\t\t\t\t\treturn nil, err.Lift(lift...)\n\t\t\t\t}\n', '')
# ---- C11
m("C11-R2-order", "C11", "C11.R2", "generator/generate.go", '\t&builder.BasicTargetPointerRule{},\n\t&builder.Pointer{},\n\t&builder.SourcePointer{},\n\t&builder.TargetPointer{},', '\t&builder.Pointer{},\n\t&builder.SourcePointer{},\n\t&builder.TargetPointer{},\n\t&builder.BasicTargetPointerRule{},')
m("C11-R4-constructor-not-cleared", "C11", "C11.R4", "builder/default.go", '\tctx.UseConstructor = false\n', '')
m("C11-R5-no-nil-guard", "C11", "C11.R5", "builder/pointer.go", '\t\tbuildStmt = append(buildStmt, jen.If(sourceID.Code.Clone().Op("!=").Nil()).Block(stmt...))\n\n\t\treturn buildStmt, xtype.VariableID(valueVar), nil\n\t}\n\n\treturn BuildByAssign(p, gen', '\t\tbuildStmt = append(buildStmt, stmt...)\n\n\t\treturn buildStmt, xtype.VariableID(valueVar), nil\n\t}\n\n\treturn BuildByAssign(p, gen')
# ---- C12
m("C12-R1-name-in-common", "C12", "C12.R1", "config/common.go", '\tcase "":\n\t\terr = fmt.Errorf("missing setting key")', '\tcase "name":\n\t\t_, err = parse.String(rest)\n\tcase "":\n\t\terr = fmt.Errorf("missing setting key")')
m("C12-R2-constant-true", "C12", "C12.R2", "config/common.go", '\t\tc.IgnoreMissing, err = parse.Bool(rest)', '\t\tc.IgnoreMissing = true')
m("C12-R2-wrong-field", "C12", "C12.R2", "config/common.go", '\t\tc.SkipCopySameType, err = parse.Bool(rest)', '\t\tc.UseUnderlyingTypeMethods, err = parse.Bool(rest)')
m("C12-R3-order-swapped", "C12", "C12.R3", "config/converter.go", '''	if err := parseConverterLines(ctx, c, "global", global); err != nil {
		return nil, err
	}
	if err := parseConverterLines(ctx, c, c.IDString(), rawConverter.Converter); err != nil {
		return nil, err
	}''', '''	if err := parseConverterLines(ctx, c, c.IDString(), rawConverter.Converter); err != nil {
		return nil, err
	}
	if err := parseConverterLines(ctx, c, "global", global); err != nil {
		return nil, err
	}''')
m("C12-R5-no-conflict", "C12", "C12.R5", "config/common.go", '''		if c.WrapErrors {
			return false, fmt.Errorf("cannot be used in combination with wrapErrors")
		}
''', '')
m("C12-R6-unlocated", "C12", "C12.R6", "config/converter.go", '\t\t\treturn formatLineError(raw, source, value, err)', '\t\t\treturn err')
# ---- C13
m("C13-R1-complex-arm", "C13", "C13.R1", "xtype/tocode.go", '\tcase types.Complex64:\n\t\treturn jen.Complex64()\n', '')
m("C13-R2d-len-check", "C13", "C13.R2d", "enum/transformer_builtin.go", '''	if len(parts) != 2 {
		return nil, fmt.Errorf("invalid config, expected two strings separated by space")
	}
''', '')
m("C13-R1-struct-guard", "C13", "C13.R1", "builder/struct.go", '''		if !nextSource.Struct {
			cause := fmt.Sprintf("Cannot access '%s' on %s.", path[i], nextSource.T)''', '''		if false {
			cause := fmt.Sprintf("Cannot access '%s' on %s.", path[i], nextSource.T)''')
m("C13-R5-dirty-unguarded", "C13", "C13.R5", "generator/generator.go", '''			if !check.ReturnError {
				check.ReturnError = true
				check.Dirty = true
				g.signatureChanged()
			}''', '''			check.ReturnError = true
			check.Dirty = true
			g.signatureChanged()''')
m("C13-R3-dropped-error", "C13", "C13.R3", "generator/generate.go", '''		if err := generateConverter(converter, jenFile, n); err != nil {
			return nil, err
		}''', '''		_ = generateConverter(converter, jenFile, n)''')
m("C13-R4-no-visited", "C13", "C13.R4", "xtype/type.go", '''	if isNamed {
		if rt, ok := seen[named]; ok {
			return rt
		}
	}''', '''	_ = isNamed''')
m("C13-R2b-pkg-nil", "C13", "C13.R2b", "xtype/enum.go", '''	if t.Obj().Pkg() == nil {
		// universe types like error are never enums
		return disabled
	}
''', '')
m("C13-R2c-no-clamp", "C13", "C13.R2c", "builder/error.go", '\tif l < 0 {\n\t\tl = 0\n\t}\n', '')
# ---- C14
m("C14-R2-arity", "C14", "C14.R2", "method/parse.go", 'if resultsLen == 0 || resultsLen > 2 {', 'if resultsLen == 0 || resultsLen > 3 {')
m("C14-R3-iserror", "C14", "C14.R3", "method/parse.go", 'return ok && t.Obj().Name() == "error" && t.Obj().Pkg() == nil', 'return ok && t.Obj().Name() == "error"')
m("C14-R4-extend-optional", "C14", "C14.R4", "config/converter.go", '''				Converter:         c.typeForMethod(),
				Params:            method.ParamsRequired,''', '''				Converter:         c.typeForMethod(),
				Params:            method.ParamsOptional,''')
m("C14-R1-role-order", "C14", "C14.R1", "method/parse.go", '''		methodDef.RawArgs = append(methodDef.RawArgs, arg)
	}''', '''		if arg.Use != ArgUseContext {
			methodDef.RawArgs = append(methodDef.RawArgs, arg)
		}
	}''')
# ---- C15
m("C15-R3-mode", "C15", "C15.R3", "runner.go", 'os.WriteFile(path, content, 0o644)', 'os.WriteFile(path, content, 0o600)')
m("C15-R4-no-package-check", "C15", "C15.R4", "generator/filemanager.go", 'if f.PackageID != conv.PackageID() {', 'if false && f.PackageID != conv.PackageID() {')
m("C15-R1-remove", "C15", "C15.R1", "generator/filemanager.go", '\toutput := getOutputDir(conv)\n', '\toutput := getOutputDir(conv)\n\t_ = os.Remove(output)\n')
m("C15-R2b-wrong-key", "C15", "C15.R2b", "generator/filemanager.go", '\t\tm.Files[output] = f\n', '\t\tm.Files[conv.OutputFile] = f\n')
# ---- C16
m("C16-R1-header-one-arm", "C16", "C16.R1", "generator/filemanager.go", '''		f.Content.HeaderComment("// Code generated by github.com/jmattheis/goverter, DO NOT EDIT.")
		if cfg.BuildConstraint != "" {''', '''		if conv.OutputPackageName == "" {
			f.Content.HeaderComment("// Code generated by github.com/jmattheis/goverter, DO NOT EDIT.")
		}
		if cfg.BuildConstraint != "" {''')
m("C16-R2-default-constraint", "C16", "C16.R2", "cli/parse.go", 'fs.String("output-constraint", "!goverter", "")', 'fs.String("output-constraint", "goverter", "")')
m("C16-R4-no-tags", "C16", "C16.R4", "pkgload/pkgload.go", '''	if buildTags != "" {
		packagesCfg.BuildFlags = append(packagesCfg.BuildFlags, "-tags", buildTags)
	}
''', '''	_ = buildTags
''')
m("C16-R3-swapped", "C16", "C16.R3", "runner.go", '\t\tBuildTags:  c.BuildTags,\n\t\tWorkDir:    c.WorkingDir,', '\t\tBuildTags:  c.OutputBuildConstraint,\n\t\tWorkDir:    c.WorkingDir,')
# ---- C17
m("C17-O2-write-before-check", "C17", "C17.O2", "runner.go", '''	files, err := generateConvertersRaw(c)
	if err != nil {
		return err
	}

	return writeFiles(files)''', '''	files, err := generateConvertersRaw(c)
	if werr := writeFiles(files); werr != nil {
		return werr
	}
	return err''')
m("C17-O6-exit0", "C17", "C17.O6", "cli/run.go", '''		if err = goverter.GenerateConverters(cmd.Config); err != nil {
			_, _ = fmt.Fprintln(os.Stderr, err)
			os.Exit(1)
		}''', '''		if err = goverter.GenerateConverters(cmd.Config); err != nil {
			_, _ = fmt.Fprintln(os.Stderr, err)
			os.Exit(0)
		}''')
m("C17-O3-swallowed", "C17", "C17.O3", "runner.go", '''	files, err := generateConvertersRaw(c)
	if err != nil {
		return err
	}
''', '''	files, _ := generateConvertersRaw(c)
''')
m("C17-O4-render-in-loop", "C17", "C17.O4", "generator/generate.go", '''		if err := generateConverter(converter, jenFile, n); err != nil {
			return nil, err
		}
	}
''', '''		if err := generateConverter(converter, jenFile, n); err != nil {
			return manager.renderFiles()
		}
	}
''')
# ---- C18
m("C18-R2-var", "C18", "C18.R2", "generator/generator.go", '\tif len(init) > 0 {\n\t\tf.Func().Id("init").Params().Block(init...)\n\t}', '\tf.Var().Id("initialized").Bool()\n\tif len(init) > 0 {\n\t\tf.Func().Id("init").Params().Block(init...)\n\t}')
m("C18-R1-reflect", "C18", "C18.R1", "builder/struct.go", 'stmt = append(stmt, jen.Id("_").Op("=").Add(sourceID.Code.Clone()))', 'stmt = append(stmt, jen.Id("_").Op("=").Qual("reflect", "TypeOf").Call(sourceID.Code.Clone()))')
# ---- C19
m("C19-R1-trailing", "C19", "C19.R1", "comments/parse_docs.go", 'result[name] = parseRawLines(fileWithLine(location), parse.CommentToString(method.Doc))', 'result[name] = parseRawLines(fileWithLine(location), parse.CommentToString(method.Doc)+parse.CommentToString(method.Comment))')
m("C19-R4-tok-check", "C19", "C19.R4", "comments/parse_docs.go", '''		if decl.Tok != token.TYPE {
			return nil, fmt.Errorf("%s must be defined on %q-block but was %q", converterMarker, token.TYPE, decl.Tok.String())
		}
''', '')
m("C19-R3-sorted-lines", "C19", "C19.R3", "config/parse/line.go", '\treturn lines\n}', '\tsort.Strings(lines)\n\treturn lines\n}')
m("C19-R2-text", "C19", "C19.R2", "pkgload/pkgload.go", 'lines := parse.SettingLines(parse.CommentToString(fn.Doc))', 'lines := parse.SettingLines(fn.Doc.Text())')

# ---- rules added in round 2
m("C01-R5-explicit-methods", "C01", "C01.R5", "config/method.go", 'for i := 0; i < interf.NumMethods(); i++ {\n\t\t\tfun := interf.Method(i)', 'for i := 0; i < interf.NumExplicitMethods(); i++ {\n\t\t\tfun := interf.ExplicitMethod(i)')
m("C01-R5-setup-skip", "C01", "C01.R5", "generator/setup.go", '\t\tgen := &generatedMethod{\n\t\t\tMethod:   cMethod,', '\t\tif len(cMethod.RawFieldSettings) > 100 {\n\t\t\tcontinue\n\t\t}\n\t\tgen := &generatedMethod{\n\t\t\tMethod:   cMethod,')
m("C01-R5-format-arm", "C01", "C01.R5", "generator/generator.go", '\t\tcase config.FormatFunction:\n\t\t\tfuncs = append(funcs, jen.Func().Id(def.Name).Add(def.Jen))\n', '')
m("C01-R6-generated-only", "C01", "C01.R6", "generator/generator.go", 'case g.conf.OutputFormat == config.FormatFunction && m.Generated:', 'case m.Generated:')
m("C01-R7-no-remark-context", "C01", "C01.R7", "generator/generator.go", '\t\tcheck.Dirty = true\n\t\tg.signatureChanged()\n\t}\n\treturn true', '\t\tcheck.Dirty = true\n\t}\n\treturn true')
m("C06-R10-no-remark-context", "C06", "C06.R10", "generator/generator.go", '\t\tcheck.Dirty = true\n\t\tg.signatureChanged()\n\t}\n\treturn true', '\t\tcheck.Dirty = true\n\t}\n\treturn true')
m("C07-R8-no-remark-error", "C07", "C07.R8", "generator/generator.go", '\t\t\t\tcheck.Dirty = true\n\t\t\t\tg.signatureChanged()\n', '\t\t\t\tcheck.Dirty = true\n')
m("C07-R6-flip-no-dirty", "C07", "C07.R6", "generator/generator.go", '\t\t\t\tcheck.ReturnError = true\n\t\t\t\tcheck.Dirty = true\n\t\t\t\tg.signatureChanged()\n', '\t\t\t\tcheck.ReturnError = true\n')
m("C02-R8-list-array-target", "C02", "C02.R8", "builder/list.go", 'return source.List && target.List && !target.ListFixed', 'return source.List && target.List')
m("C04-R5-assignable", "C04", "C04.R5", "builder/skipcopy.go", 'return ctx.Conf.SkipCopySameType && source.String == target.String', 'return ctx.Conf.SkipCopySameType && source.AssignableTo(target)')
m("C05-R6-extra-condition", "C05", "C05.R6", "builder/struct.go", 'if !targetField.Exported() && ctx.Conf.IgnoreUnexported {', 'if !targetField.Exported() && ctx.Conf.IgnoreUnexported && fieldMapping.Source == "" {')
m("C05-R7-map-skip", "C05", "C05.R7", "config/method.go", '\t\tf := m.Field(target)\n\t\tf.Source = source\n', '\t\tif source == "" && custom == "" {\n\t\t\tbreak\n\t\t}\n\t\tf := m.Field(target)\n\t\tf.Source = source\n')
m("C06-R7-prepend", "C06", "C06.R7", "method/index.go", '\tl.Exact[def.Signature] = append(l.Exact[def.Signature], newEntry)\n\treturn IndexID{', '\tl.Exact[def.Signature] = append([]IndexEntry[T]{newEntry}, l.Exact[def.Signature]...)\n\treturn IndexID{')
m("C07-R7-prepend", "C07", "C07.R7", "method/index.go", '\tl.Exact[def.Signature] = append(l.Exact[def.Signature], newEntry)\n\treturn IndexID{', '\tl.Exact[def.Signature] = append([]IndexEntry[T]{newEntry}, l.Exact[def.Signature]...)\n\treturn IndexID{')
m("C06-R8-extend-error-dropped", "C06", "C06.R8", "generator/generator.go", '''	if def, err := g.extend.Get(signature, ctx.AvailableContext); def != nil {
		return g.CallMethod(ctx, def, sourceID, source, target, errPath)
	} else if err != nil {
		return nil, nil, builder.NewError(err.Error())
	}''', '''	if def, _ := g.extend.Get(signature, ctx.AvailableContext); def != nil {
		return g.CallMethod(ctx, def, sourceID, source, target, errPath)
	}''')
m("C06-R9-any-mapping", "C06", "C06.R9", "builder/struct.go", 'if fieldMapping.Source == "." && sourceID.ParentPointer != nil &&', 'if sourceID.ParentPointer != nil &&')
m("C08-R5-counter", "C08", "C08.R5", "xtype/enum.go", 'func loadEnum(t *types.Named, cfg *enum.Config) *Enum {\n', 'var enumLoads int\n\nfunc loadEnum(t *types.Named, cfg *enum.Config) *Enum {\n\tenumLoads++\n')
m("C08-R6-transform-conditional", "C08", "C08.R6", "config/method.go", '\t\tm.EnumMapping.Transformers = append(m.EnumMapping.Transformers, t)\n', '\t\tif config != "" {\n\t\t\tm.EnumMapping.Transformers = append(m.EnumMapping.Transformers, t)\n\t\t}\n')
m("C09-R6-no-abs", "C09", "C09.R6", "config/parse/file.go", 'return filepath.Abs(filepath.Join(cwd, strings.TrimPrefix(field, "@cwd/")))', 'return filepath.Join(cwd, strings.TrimPrefix(field, "@cwd/")), nil')
m("C11-R9-no-update-branch", "C11", "C11.R9", "generator/generator.go", '''	if assignTo.Update && source.Struct && target.Struct && !g.hasDeclared(ctx, source, target) {
		// The source is applied on top of the existing target value. Calling a
		// generated method would replace that value as a whole.
		return g.assignNoLookup(ctx, assignTo, sourceID, source, target, errPath)
	}
''', '')
m("C11-R9-bypass-declared", "C11", "C11.R9", "generator/generator.go", 'if assignTo.Update && source.Struct && target.Struct && !g.hasDeclared(ctx, source, target) {', 'if assignTo.Update && source.Struct && target.Struct {')
m("C06-R1-bypass-declared", "C06", "C06.R1", "generator/generator.go", 'if assignTo.Update && source.Struct && target.Struct && !g.hasDeclared(ctx, source, target) {', 'if assignTo.Update && source.Struct && target.Struct {')
m("C06-R1-declared-ignores-extend", "C06", "C06.R1", "generator/generator.go", '''	if def, err := g.extend.Get(signature, ctx.AvailableContext); def != nil || err != nil {
		return true
	}
	genMethod, err := g.lookup.Get''', '''	genMethod, err := g.lookup.Get''')
# (`return val != "no", err` used to be listed here: it is equivalent under Enum's contract — only "", yes, no come back —
# and the evaluated three-row table rightly accepts it; the bare form below is a real change)
m("C12-R10-bool-bare-false", "C12", "C12.R10", "config/parse/parse.go", 'return val == "" || val == "yes", err', 'return val == "yes", err')
m("C12-R9-name-conditional", "C12", "C12.R9", "config/converter.go", '\t\tc.Name, err = parse.String(rest)\n', '\t\tif rest != "" {\n\t\t\tc.Name, err = parse.String(rest)\n\t\t}\n')
m("C12-R8-update-conditional", "C12", "C12.R8", "config/method.go", '\t\tm.updateParam, err = parse.String(rest)\n', '\t\tif m.updateParam == "" {\n\t\t\tm.updateParam, err = parse.String(rest)\n\t\t}\n')
m("C13-R5-candidate-mod", "C13", "C13.R5", "namer/namer.go", '\t\tnumberedName := name\n\t\tif i > 1 {\n\t\t\tnumberedName += fmt.Sprint(i)\n\t\t}', '\t\tnumberedName := name\n\t\tif i > 1 {\n\t\t\tnumberedName = name + fmt.Sprint(i%10)\n\t\t}')
m("C14-R5-package-fallback", "C14", "C14.R5", "config/method.go", '''		m.Constructor, err = ctx.Loader.GetOne(c.Package, rest, opts)''', '''		if opts.OutputPackagePath == "" {
			opts.OutputPackagePath = c.Package
		}
		m.Constructor, err = ctx.Loader.GetOne(c.Package, rest, opts)''')
m("C15-R7-first-converter", "C15", "C15.R7", "config/package.go", 'registerConverterLines(lookup, raw.WorkDir, c.FileName, c.PackagePath, raw.Global)', 'registerConverterLines(lookup, raw.WorkDir, raw.Converters[0].FileName, raw.Converters[0].PackagePath, raw.Global)')
m("C16-R5-remove", "C16", "C16.R5", "generator/filemanager.go", '\toutput := getOutputDir(conv)\n', '\toutput := getOutputDir(conv)\n\t_ = os.Remove(output)\n')
m("C16-R6-stat", "C16", "C16.R6", "generator/filemanager.go", '\toutput := getOutputDir(conv)\n', '\toutput := getOutputDir(conv)\n\tif st, err := os.Stat(output); err == nil && st.IsDir() {\n\t\treturn nil, nil, fmt.Errorf("output %s is a directory", output)\n\t}\n')
m("C17-O8-skip-empty", "C17", "C17.O8", "generator/generate.go", '\t\tif err := generateConverter(converter, jenFile, n); err != nil {', '\t\tif len(converter.Methods) == 0 && len(converter.OutputRaw) == 0 && len(converter.Comments) == 0 {\n\t\t\tcontinue\n\t\t}\n\t\tif err := generateConverter(converter, jenFile, n); err != nil {')
m("C18-R5-counter", "C18", "C18.R5", "xtype/enum.go", 'func loadEnum(t *types.Named, cfg *enum.Config) *Enum {\n', 'var enumLoads int\n\nfunc loadEnum(t *types.Named, cfg *enum.Config) *Enum {\n\tenumLoads++\n')
m("C19-R7-stop-at-blank", "C19", "C19.R7", "config/parse/line.go", '\t\tline := strings.TrimSpace(line)\n', '\t\tline := strings.TrimSpace(line)\n\t\tif line == "" && len(lines) > 0 {\n\t\t\tbreak\n\t\t}\n')
m("C03-R8-exported-only", "C03", "C03.R8", "enum/detect.go", '\t\tif !ok {\n\t\t\tcontinue\n\t\t}\n', '\t\tif !ok || !c.Exported() {\n\t\t\tcontinue\n\t\t}\n')

# ---- round 4/5 rules
m("C11-R10-list-drops-default", "C11", "C11.R10", "builder/list.go", '\tif ctx.UseConstructor && !source.ListFixed {\n', '\tif false {\n')
m("C02-R11-unguarded-deref", "C02", "C02.R11", "builder/struct.go", '\t\t\tnextSource = nextSource.PointerInner\n\t\t}\n\t\tif !nextSource.Struct {', '\t\t\tnextSource = nextSource.PointerInner\n\t\t\tfor nextSource.Pointer {\n\t\t\t\tnextIDCode = jen.Parens(jen.Op("*").Add(nextIDCode.Clone()))\n\t\t\t\tnextSource = nextSource.PointerInner\n\t\t\t}\n\t\t}\n\t\tif !nextSource.Struct {')
m("C07-R10-nil-path", "C07", "C07.R10", "builder/pointer.go", 'nextInner, nextID, err := gen.Build(ctx, sourceID.Deref(source), source.PointerInner, target, path)', 'nextInner, nextID, err := gen.Build(ctx, sourceID.Deref(source), source.PointerInner, target, nil)')
m("C16-R8-split-tags", "C16", "C16.R8", "pkgload/pkgload.go", '\tif buildTags != "" {\n', '\tif len(strings.Split(buildTags, ",")) > 0 && buildTags != "" {\n')
m("C13-R4-fresh-seen", "C13", "C13.R4", "xtype/type.go", '\t\trt.MapKey = typeOf(value.Key(), seen)', '\t\trt.MapKey = TypeOf(value.Key())')
m("C03-R10-basic-extra", "C03", "C03.R10", "builder/basic.go", 'return source.Basic && target.Basic &&\n\t\tsource.BasicType.Kind() == target.BasicType.Kind()', 'return source.Basic && target.Basic && !target.Named &&\n\t\tsource.BasicType.Kind() == target.BasicType.Kind()')
m("C01-R10-explicit-other", "C01", "C01.R10", "generator/generator.go", '\t\t\tif check.Explicit && !check.ReturnError {', '\t\t\tif current.Explicit && !check.ReturnError {')
m("C12-R16-one-direction", "C12", "C12.R16", "method/index.go", 'if satisfiesContext(entry.Def.Context, def.Context) || satisfiesContext(def.Context, entry.Def.Context) {', 'if satisfiesContext(entry.Def.Context, def.Context) {')
m("C07-R11-replace-last", "C07", "C07.R11", "builder/errorpath.go", 'func (e ErrorPath) Index(code *jen.Statement) ErrorPath { return append(e, errElmIndex{code}) }', 'func (e ErrorPath) Index(code *jen.Statement) ErrorPath {\n\tif len(e) > 8 {\n\t\treturn e\n\t}\n\treturn append(e, errElmIndex{code})\n}')

# ---- round 7 rules
m("C19-R13-skip-const-decls", "C19", "C19.R13", "comments/parse_docs.go", 'if genDecl, ok := decl.(*ast.GenDecl); ok {', 'if genDecl, ok := decl.(*ast.GenDecl); ok && genDecl.Tok != token.CONST {')
m("C08-R18-builtin-first", "C08", "C08.R18", "config/enum.go", '\tt, ok := ctx.EnumTransformers[name]\n\tif !ok {\n\t\tt, ok = enum.DefaultTransformers[name]\n\t}', '\tt, ok := enum.DefaultTransformers[name]\n\tif !ok {\n\t\tt, ok = ctx.EnumTransformers[name]\n\t}')
m("C08-R17-enabled-ignored", "C08", "C08.R17", "xtype/enum.go", 'if !cfg.Enabled || cfg.Excludes.Matches(path, name) {', 'if cfg.Excludes.Matches(path, name) {')
m("C18-R9-enabled-ignored", "C18", "C18.R9", "xtype/enum.go", 'if !cfg.Enabled || cfg.Excludes.Matches(path, name) {', 'if cfg.Excludes.Matches(path, name) {')
m("C12-R20-enabled-ignored", "C12", "C12.R20", "xtype/enum.go", 'if !cfg.Enabled || cfg.Excludes.Matches(path, name) {', 'if cfg.Excludes.Matches(path, name) {')
m("C06-R20-forward-conditional", "C06", "C06.R20", "generator/generator.go", '} else if def, err := g.extend.Get(ctx.Signature, context); def != nil {', '} else if def, err := g.extend.Get(ctx.Signature, context); def != nil && !genMethod.ReturnError {')
m("C07-R12-map-key-path", "C07", "C07.R12", "builder/map.go", '\terrPath = errPath.Key(jen.Id(key))\n', '')
m("C05-R15-accessor-overwrites", "C05", "C05.R15", "config/method.go", '\ttarget, ok := m.Fields[targetName]\n\tif !ok {', '\ttarget, ok := m.Fields[targetName]\n\tif !ok || target.Ignore {')
m("C10-R10-accessor-overwrites", "C10", "C10.R10", "config/method.go", '\ttarget, ok := m.Fields[targetName]\n\tif !ok {', '\ttarget, ok := m.Fields[targetName]\n\tif !ok || target.Ignore {')
m("C14-R14-names-only-without-regex", "C14", "C14.R14", "method/parse.go", '|| localOpts.Context[arg.Name]:', '|| (opts.ContextMatch == nil && localOpts.Context[arg.Name]):')
m("C03-R15-key-not-converted", "C03", "C03.R15", "builder/map.go", 'source.MapKey, target.MapKey, errPath)', 'source.MapKey, source.MapKey, errPath)')
m("C02-R14-elem-not-converted", "C02", "C02.R14", "builder/list.go", 'indexedSource, source.ListInner, target.ListInner, path.Index(jen.Id(index)))', 'indexedSource, target.ListInner, target.ListInner, path.Index(jen.Id(index)))')
m("C03-R16-enum-before-skipcopy", "C03", "C03.R16", "generator/generate.go", '\t&builder.SkipCopy{},\n\t&builder.Enum{},', '\t&builder.Enum{},\n\t&builder.SkipCopy{},')
m("C12-R19-enum-gate", "C12", "C12.R19", "builder/enum.go", '\treturn ctx.Conf.Enum.Enabled &&\n\t\tsource.Enum(&ctx.Conf.Enum).OK &&', '\treturn source.Enum(&ctx.Conf.Enum).OK &&')
m("C15-R13-register-no-store", "C15", "C15.R13", "namer/namer.go", '\t\tm.lookup[name] = struct{}{}\n\t\treturn true', '\t\treturn true')

m("C04-R9-deref-variable", "C04", "C04.R9", "xtype/type.go", '\tinnerID.ParentPointer = j\n', '\tinnerID.Variable = j.Variable\n\tinnerID.ParentPointer = j\n')
m("C11-R14-needs-default-update", "C11", "C11.R14", "builder/struct.go", 'case !ctx.Conf.UpdateTarget && !isUpdate:', 'case !ctx.Conf.UpdateTarget && !(isUpdate && ctx.Conf.DefaultUpdate):')

m("C15-R14-errors-read", "C15", "C15.R14", "config/converter.go", '\tif pkg == nil {\n\t\treturn\n\t}\n\n\tif c.OutputPackageName == "" {', '\tif pkg == nil || pkg.IllTyped {\n\t\treturn\n\t}\n\n\tif c.OutputPackageName == "" {')
m("C16-R10-errors-read", "C16", "C16.R10", "config/converter.go", '\tif pkg == nil {\n\t\treturn\n\t}\n\n\tif c.OutputPackageName == "" {', '\tif pkg == nil || pkg.IllTyped {\n\t\treturn\n\t}\n\n\tif c.OutputPackageName == "" {')
m("C18-R10-typed-basic-zero", "C18", "C18.R10", "xtype/zero.go", '\t\t} else if cast.Kind() == types.UnsafePointer {\n\t\t\treturn jen.Nil()', '\t\t} else if cast.Kind() == types.UnsafePointer {\n\t\t\treturn toCodeBasic(cast.Kind()).Call(jen.Nil())')

def run(cmd, cwd=None):
    return subprocess.run(cmd, cwd=cwd, env=ENV, shell=isinstance(cmd, str), capture_output=True, text=True, errors='replace')

def main():
    prefix = sys.argv[1] if len(sys.argv) > 1 else ""
    os.makedirs(OUT, exist_ok=True)
    ok = bad = 0
    for e in M:
        if not e["id"].startswith(prefix):
            continue
        d = tempfile.mkdtemp(prefix="gvmut-")
        try:
            run(["rsync", "-a", "--exclude", ".git", "--exclude", "execution", "/repo/", d + "/a/"])
            shutil.copytree(d + "/a", d + "/b", symlinks=True)
            p = os.path.join(d, "b", e["file"])
            s = open(p).read()
            if s.count(e["old"]) < 1:
                print("%-34s ANCHOR-NOT-FOUND" % e["id"]); bad += 1; continue
            s = s.replace(e["old"], e["new"], e["count"])
            # imports that some edits need
            if "sort.Strings(lines)" in e["new"] and '"sort"' not in s:
                s = s.replace('import (\n', 'import (\n\t"sort"\n', 1)
            if "os.Getenv" in e["new"] and '"os"' not in s:
                s = s.replace('import (\n', 'import (\n\t"os"\n', 1)
            if "os.Stat" in e["new"] and '"os"' not in s:
                s = s.replace('import (\n', 'import (\n\t"os"\n', 1)
            if "os.Remove" in e["new"] and '"os"' not in s:
                s = s.replace('import (\n', 'import (\n\t"os"\n', 1)
            if "types.IsNumeric" in e["new"] and '"go/types"' not in s:
                s = s.replace('import (\n', 'import (\n\t"go/types"\n', 1)
            open(p, "w").write(s)
            run(["gofmt", "-w", p])
            b = run("go build ./...", cwd=d + "/b")
            if b.returncode != 0:
                # remove unused imports automatically is out of scope: report
                print("%-34s DOES-NOT-BUILD %s" % (e["id"], (b.stderr or b.stdout).strip().split("\n")[1:2])); bad += 1; continue
            diff = run(["diff", "-u", "--label", "a/" + e["file"], "--label", "b/" + e["file"], d + "/a/" + e["file"], p]).stdout
            v = tempfile.mkdtemp(prefix="gvmutv-")
            shutil.copy(ROOT + "/known_findings.json", v)
            c = run([ROOT + "/bin/gvlint", "check", "-property", e["prop"], "-repo", d + "/b", "-verif", v])
            shutil.rmtree(v, ignore_errors=True)
            hit = [l for l in c.stdout.split("\n") if "rule " + e["rule"] + " " in l]
            if c.returncode == 1 and hit:
                open(os.path.join(OUT, e["id"] + ".diff"), "w").write(diff)
                ok += 1
                print("%-34s ok   %s" % (e["id"], hit[0].strip()[:150]))
            else:
                bad += 1
                other = [l.strip()[:160] for l in c.stdout.split("\n") if l.startswith("  ")][:2]
                print("%-34s MISSED exit=%d expected rule %s; got %s" % (e["id"], c.returncode, e["rule"], other))
        finally:
            shutil.rmtree(d, ignore_errors=True)
    print("ok=%d bad=%d" % (ok, bad))

if __name__ == "__main__":
    main()
