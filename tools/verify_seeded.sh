#!/bin/bash
# usage: tools/verify_seeded.sh <src dir with patch.diff demo.sh meta.json> <id>   → writes /verif/seeded/<id>/ if all confirmations hold
# Confirms in a scratch worktree of /repo's HEAD: patch applies+builds, whole suite passes with it, demo fails with it and passes without it;
# then records which checks report it.
set -u
src="$1"; id="$2"
export GOFLAGS=-mod=mod GOPROXY=off GOSUMDB=off GOTOOLCHAIN=local GOWORK=off
wt=/tmp/seedwt/$id
rm -rf "$wt"; git -C /repo worktree prune; git -C /repo worktree add -q --detach "$wt" HEAD || exit 3
cleanup() { git -C /repo worktree remove --force "$wt" >/dev/null 2>&1; rm -rf "$wt"; }
trap cleanup EXIT
log=/tmp/seedwt/$id.log; : > $log
cd "$wt"
( git apply "$src/patch.diff" 2>/dev/null || git apply --3way "$src/patch.diff" >/dev/null 2>&1 ) || { echo "$id: PATCH-DOES-NOT-APPLY"; exit 1; }
git reset -q 2>/dev/null
go build ./... >>$log 2>&1 || { echo "$id: DOES-NOT-BUILD"; exit 1; }
git diff > /tmp/seedwt/$id.rebased.diff
if go test -mod=mod -vet=off -count=1 ./... >>$log 2>&1; then suite=pass; else suite=FAIL; fi
bash "$src/demo.sh" "$wt" >>$log 2>&1; demo_with=$?
# checks on the mutated tree
det=""
mkdir -p /tmp/seedwt/v.$id; cp /verif/known_findings.json /tmp/seedwt/v.$id/
for p in $(seq -w 1 19); do
  ${GVLINT:-/verif/bin/gvlint} check -property C$p -repo "$wt" -verif /tmp/seedwt/v.$id > /tmp/seedwt/v.$id/out.C$p 2>&1; ec=$?
  [ $ec -eq 1 ] && det="$det C$p"
  [ $ec -ge 2 ] && det="$det C$p(undecided)"
done
git checkout -q -- . ; git clean -fdq -e execution
bash "$src/demo.sh" "$wt" >>$log 2>&1; demo_without=$?
echo "$id: suite=$suite demo_with=$demo_with demo_without=$demo_without detected_by=[$det ]"
if [ "$suite" = pass ] && [ $demo_with -ne 0 ] && [ $demo_without -eq 0 ]; then
  out=/verif/seeded/$id; mkdir -p $out
  cp /tmp/seedwt/$id.rebased.diff $out/patch.diff; cp "$src/demo.sh" $out/demo.sh
  prop=${id%%-*}
  python3 - "$src/meta.json" "$out/meta.json" "$id" "$det" <<'PY' 2>/dev/null
import json,sys
m=json.load(open(sys.argv[1]))
m['id']=sys.argv[3]
m['confirmed_by_me']={"ran":["git worktree of /repo HEAD + git apply patch.diff; go build ./...","go test -mod=mod -vet=off -count=1 ./...  -> all packages ok with the patch","bash demo.sh <worktree>  -> non-zero with the patch, 0 after git checkout -- ."],"suite_with_patch":"pass","demo_with_patch":"fails","demo_without_patch":"passes"}
m['detected_by_quick_checks']=sys.argv[4].split()
json.dump(m,open(sys.argv[2],'w'),indent=1)
PY
  # keep the violation lines as evidence of what the checks said
  grep -h -A1 '^VIOLATION' /tmp/seedwt/v.$id/out.C* 2>/dev/null | grep -v '^--' | sed "s#/tmp/seedwt/v.$id#<verif>#g; s#$wt/##g" | cut -c1-400 > $out/detection.txt
fi
rm -rf /tmp/seedwt/v.$id
