package b

// goverter:converter
// goverter:output:format function
// goverter:output:file @cwd/out/gen.go
// goverter:output:package example.org/x/out
type Converter interface {
	Convb(source In) Out
}
type In struct{ V int }
type Out struct{ V int }
