package x

// goverter:converter
type Converter interface {
	Conv(source Tree) Tree2
}
type Tree map[string]Tree
type Tree2 map[string]Tree2
