#!/bin/bash
# D22: goverter:default FUNC on a method with a slice target was silently ignored.
# usage: repro.sh <goverter checkout>; exit 0 = FUNC is used, exit 1 = ignored
export GOFLAGS=-mod=mod GOPROXY=off GOSUMDB=off GOTOOLCHAIN=local; unset GOWORK
T=$(mktemp -d); trap 'rm -rf $T' EXIT
(cd "$1" && go build -o "$T/goverter" ./cmd/goverter) || exit 2
mkdir -p $T/demo && cd $T/demo
cat > go.mod <<'EOM'
module example.org/demo
go 1.18
EOM
cat > in.go <<'EOM'
package demo

// goverter:converter
type Converter interface {
	// goverter:default NewList
	ConvertList(source []int) []int
}

func NewList() []int { return []int{42} }
EOM
"$T/goverter" gen ./ || exit 2
if grep -q "NewList()" generated/generated.go; then echo "default FUNC used"; exit 0; fi
echo "default FUNC ignored:"; cat generated/generated.go; exit 1
