package x

// goverter:converter
type Converter interface {
	Conv(source A) B
}
type A struct{ V [3]int }
type B struct{ V []int }
