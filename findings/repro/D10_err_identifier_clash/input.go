package e

// goverter:converter
// goverter:output:file ./gen.go
// goverter:output:package example.org/x
// goverter:extend Conv2
type Converter interface {
	Conv(source A) (B, error)
}
type rr int
type A struct{ V string }
type B struct{ V rr }
func Conv2(s string) (rr, error) { return 0, nil }
