package x

// goverter:converter
// goverter:skipCopySameType
type Converter interface {
	Conv(source A) B
}
type S struct{ L int }
type A struct { V S; W []int }
type B struct { V *S; W *[]int }
