package x

// goverter:converter
type Converter[T any] interface {
	Conv(source T) T
}
