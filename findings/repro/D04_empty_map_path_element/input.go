package x

// goverter:converter
type Converter interface {
	// goverter:map Nested..Name Name
	Conv(source A) B
}
type N struct{ Name string }
type A struct{ Nested N }
type B struct{ Name string }
