package x

// goverter:converter
type Converter interface {
	Conv(source uintptr) uintptr
}
