package x

// goverter:converter
type Converter interface {
	// goverter:autoMap .
	Conv(source A) B
}
type N struct{ Name string }
type A struct{ Nested N }
type B struct{ Name string }
