package x

import "example.org/x/other"

// goverter:converter
// goverter:matchIgnoreCase
type Converter interface {
	Conv(source other.A) B
}
type B struct{ Name string }
