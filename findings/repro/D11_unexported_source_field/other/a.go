package other

type A struct{ name string }
func New() A { return A{name: "x"} }
