package x

// goverter:converter
type Converter interface {
	Conv(source A) B
}
type L []L
type A struct { V L }
type B struct { V L }
