package e

// goverter:converter
// goverter:output:file ./gen.go
// goverter:output:package example.org/x
// goverter:ignoreMissing
type Converter interface {
	// goverter:default NewNodeOut
	// goverter:default:update
	Convert(source *Node) *NodeOut
}

// Node is recursive through a slice of values, so the conversion Node -> NodeOut
// is needed a second time while the body of Convert is being built.
type Node struct {
	Name     string
	Children []Node
}

type NodeOut struct {
	Name     string
	Keep     int // no source field (ignoreMissing): must keep the value set by NewNodeOut
	Children []NodeOut
}

func NewNodeOut() *NodeOut { return &NodeOut{Name: "default", Keep: 5} }
