package e

import "strconv"

// goverter:converter
// goverter:output:file ./gen.go
// goverter:output:package example.org/x
// goverter:extend Label
type Converter interface {
	// goverter:context scale
	Convert(source In, scale int) Out
}

type In struct{ ID int }
type Out struct{ ID string }

// Label has no goverter comment of its own: both parameters are sources, and a
// function with two sources must be rejected.
func Label(scale int, v int) string { return strconv.Itoa(scale * v) }

type Helper struct{}

// Label is a method that happens to have the same name. Its doc comment must not
// configure the function above.
//
// goverter:context scale
func (Helper) Label(scale int, v int) string { return "" }
