package x

// goverter:converter
// goverter:update:ignoreZeroValueField
type Converter interface {
	// goverter:update target
	Conv(source A, target *B)
}
type S struct{ L []int }
type A struct{ S S }
type B struct{ S S }
