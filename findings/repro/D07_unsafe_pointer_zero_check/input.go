package x

import "unsafe"

// goverter:converter
// goverter:update:ignoreZeroValueField
type Converter interface {
	// goverter:update target
	Conv(source A, target *B)
}
type A struct{ P unsafe.Pointer }
type B struct{ P unsafe.Pointer }
