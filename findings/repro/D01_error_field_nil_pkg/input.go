package x

// goverter:converter
type Converter interface {
	AToB(A) B
}

type A struct{ Property error }
type B struct{ Property error }
