package x

// goverter:converter
// goverter:output:format function
// goverter:output:file ./a_gen.go
// goverter:output:package example.org/x
type ConverterA interface {
	ConvA(source A) B
}
// goverter:converter
// goverter:output:format function
// goverter:output:file ./b_gen.go
// goverter:output:package example.org/x
type ConverterB interface {
	ConvB(source A2) B2
}
type N struct{ V int }
type M struct{ V int }
type A struct{ N N }
type B struct{ N M }
type A2 struct{ N N; X int }
type B2 struct{ N M; X int }
