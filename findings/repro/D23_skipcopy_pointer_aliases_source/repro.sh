#!/bin/bash
# D23: under skipCopySameType an unnamed struct S → *S aliases the source element.
# usage: repro.sh <goverter checkout>; exit 0 = no aliasing emitted, exit 1 = `&source.Items[i]` emitted
export GOFLAGS=-mod=mod GOPROXY=off GOSUMDB=off GOTOOLCHAIN=local; unset GOWORK
T=$(mktemp -d); trap 'rm -rf $T' EXIT
(cd "$1" && go build -o "$T/goverter" ./cmd/goverter) || exit 2
mkdir -p $T/demo && cd $T/demo
cat > go.mod <<'EOM'
module example.org/demo
go 1.18
EOM
cat > in.go <<'EOM'
package demo

// goverter:converter
// goverter:skipCopySameType
type Converter interface {
	Convert(source In) Out
}
type In struct{ Items []struct{ A int } }
type Out struct{ Items []*struct{ A int } }
EOM
"$T/goverter" gen ./ || exit 2
if grep -q '&source.Items\[i\]' generated/generated.go; then echo "aliasing emitted:"; grep -n '&source' generated/generated.go; exit 1; fi
echo "no aliasing"; exit 0
