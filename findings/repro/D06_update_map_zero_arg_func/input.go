package x

// goverter:converter
type Converter interface {
	// goverter:update target
	// goverter:map Name | Now
	Conv(source A, target *B)
}
func Now() string { return "x" }
type A struct { V int }
type B struct { V int; Name string }
