package x

// goverter:converter
type Converter interface {
	// goverter:autoMap Nested
	Conv(source A) B
}
type N struct{ Name string }
type A struct{ Nested N; Inner struct{ Z int } }
type B struct{ Name string; Inner struct{ Z int } }
