package e

import "strconv"

// goverter:converter
// goverter:output:file ./gen.go
// goverter:output:package example.org/x
// goverter:extend StringToInt
type Converter interface {
	Convert(source Root) (RootOut, error)
}

type Root struct{ A A }
type A struct {
	B   *B
	Val string
}
type B struct{ A *A }

type RootOut struct{ A AOut }
type AOut struct {
	B   *BOut
	Val int
}
type BOut struct{ A *AOut }

func StringToInt(v string) (int, error) { return strconv.Atoi(v) }
