package x

// goverter:converter
// goverter:enum:unknown @panic
type Converter interface {
	// goverter:enum:map A1 B1
	// goverter:enum:map A2 B2
	Conv(source A) B
}
type A float64
const (
  A1 A = 0.1
  A2 A = 0.1
)
type B float64
const (
  B1 B = 0.1
  B2 B = 0.1
)
