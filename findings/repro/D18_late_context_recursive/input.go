package e

import "strconv"

type Ctx struct{ Prefix string }

// goverter:converter
// goverter:output:file ./gen.go
// goverter:output:package example.org/x
// goverter:extend IntToString
type Converter interface {
	// goverter:context ctx
	Convert(source Root, ctx *Ctx) RootOut
}

type Root struct{ A A }
type A struct {
	B   *B
	Val int
}
type B struct{ A *A }

type RootOut struct{ A AOut }
type AOut struct {
	B   *BOut
	Val string
}
type BOut struct{ A *AOut }

// goverter:context ctx
func IntToString(v int, ctx *Ctx) string { return ctx.Prefix + strconv.Itoa(v) }
