#!/bin/bash
# usage: ./check.sh <property id> [quick|thorough]
# Builds the checker if needed and decides the property on /repo's current working tree.
set -u
cd "$(dirname "$0")"
export GOFLAGS=-mod=mod GOPROXY=off GOSUMDB=off GOTOOLCHAIN=local GOWORK=off CGO_ENABLED=0
prop="$1"; tier="${2:-${VERIF_TIER:-quick}}"
need=0
[ -x bin/gvlint ] || need=1
if [ $need -eq 0 ] && [ -n "$(find checker -newer bin/gvlint \( -name '*.go' -o -name go.mod -o -name '*.json' \) -print -quit 2>/dev/null)" ]; then need=1; fi
if [ $need -eq 1 ]; then
  mkdir -p bin
  (cd checker && go build -o ../bin/gvlint.tmp.$$ . && mv ../bin/gvlint.tmp.$$ ../bin/gvlint) || { echo "UNDECIDED property=$prop cannot build checker"; exit 2; }
fi
exec bin/gvlint check -property "$prop" -tier "$tier" -repo "${VERIF_REPO:-/repo}" -verif "$(pwd)"
