package main

import (
	"fmt"
	"go/ast"
	"go/constant"
	"go/token"
	"go/types"
	"sort"
	"strings"

	"golang.org/x/tools/go/ssa"
)

func init() {
	register(&Check{
		ID: "C07", Level: "other",
		Explanation: "Decides structural necessary conditions of error propagation in generated code: (R1) fallible-call emission — qualMethod is used only by CallMethod/delegateMethod; when the callee returns an error CallMethod " +
			"binds it to the reserved identifier err, emits `if err != nil { <return built by ReturnError from that same identifier> }` right after the call, and the bare call expression is returned only when the callee has no error; " +
			"delegateMethod refuses a fallible delegate in an infallible method; (R2) refusal instead of dropping — ReturnError returns !ok for an explicit method without error result before it flips any flag, and both of its users " +
			"turn !ok into a generation error; (R3) the cause is kept — every emitted fmt.Errorf with an error operand ends in %w with the operand last, WrapErrorsUsing passes the error as first argument of Wrap, wrap()'s " +
			"default returns the error itself; (R4) the blank identifier is emitted only for the unused-source statement; (R5) path elements — Struct.Assign hands errPath.Field(<target field name>) to every nested conversion " +
			"and to mapField, List.Assign uses one index identifier for Index(), WithIndex() and the loop, Map.Assign builds Key() from the range key (the source map key); WrapErrorsUsing covers every ErrorElement kind.",
		NotDecided: []string{"the concatenated path text at run time", "behaviour when several custom functions fail (first failure returns)"},
		Run:        runC07,
	})
}

func runC07(p *Prog, r *Report) {
	c07R1(p, r)
	c07R2(p, r)
	c07R3(p, r)
	c07R4(p, r)
	c07R5(p, r)
	returnErrorDirtyRule(p, r, "C07.R6")
	indexStableRule(p, r, "C07.R7")
	callersRebuiltRule(p, r, "C07.R8")
	errPathPassThroughRule(p, r, "C07.R10")
	errorPathAppendOnlyRule(p, r, "C07.R11")
	pathExtendedPerComponentRule(p, r, "C07.R12")
	pathParameterRule(p, r, "C07.R13")
	r.Rule("C07.R9", "generated sub-methods are shared between the declared methods that need them, so they take the converter-level settings (wrapErrors, wrapErrorsUsing …), never those of the method that happens to create them first", 1)
	subMethodCommonRule(p, r, "generator.(*generator).createSubMethod/Common")
}

func c07R1(p *Prog, r *Report) {
	r.Rule("C07.R1", "fallible-call emission: who-may-call(qualMethod) = {CallMethod, delegateMethod}; in CallMethod under definition.ReturnError the returned statements are `name, err := <call>` followed by `if err != nil { ret }` with ret from g.ReturnError(ctx, errPath, jen.Id(\"err\")); the bare call is returned as value only on the !ReturnError side; delegateMethod returns an error when the delegate can fail and the method cannot", 4)
	if q := p.Func("generator.(*generator).qualMethod"); q != nil {
		callers, vals := p.refSites(q.Obj)
		var cs []string
		bad := len(vals) > 0
		for c := range callers {
			cs = append(cs, c)
			if c != "generator.(*generator).CallMethod" && c != "generator.(*generator).delegateMethod" {
				bad = true
			}
		}
		sort.Strings(cs)
		if bad {
			r.Bad("who-may-call(qualMethod)", p.PosStr(q.Decl.Pos()), "custom/declared functions are called from "+strings.Join(cs, ", ")+": a call emitted elsewhere bypasses the error check")
		} else {
			r.OK("who-may-call(qualMethod)", p.PosStr(q.Decl.Pos()), strings.Join(cs, ", "))
		}
	} else {
		r.Unresolved("generator.(*generator).qualMethod")
	}
	fi := p.Func("generator.(*generator).CallMethod")
	if fi == nil {
		r.Unresolved("generator.(*generator).CallMethod")
		return
	}
	info := fi.Pkg.TypesInfo
	// the `if definition.ReturnError { … }` block
	var blk *ast.IfStmt
	ast.Inspect(fi.Decl, func(n ast.Node) bool {
		ifs, ok := n.(*ast.IfStmt)
		if ok && blk == nil && isFieldSel(info, ifs.Cond, modPath+"/method", "Parameters", "ReturnError") {
			blk = ifs
		}
		return true
	})
	if blk == nil {
		r.Bad("generator.(*generator).CallMethod/fallible branch", p.PosStr(fi.Decl.Pos()), "no branch on definition.ReturnError: errors of custom functions cannot be checked")
		return
	}
	// ret, ok := g.ReturnError(ctx, errPath, jen.Id("err"))
	var retObj types.Object
	errIdent := ""
	ast.Inspect(blk.Body, func(n ast.Node) bool {
		as, ok := n.(*ast.AssignStmt)
		if !ok || len(as.Lhs) != 2 || len(as.Rhs) != 1 {
			return true
		}
		call, ok := ast.Unparen(as.Rhs[0]).(*ast.CallExpr)
		if !ok {
			return true
		}
		if f, ok := calleeObj(info, call).(*types.Func); ok && f.Name() == "ReturnError" && len(call.Args) == 3 {
			if ch, ok := chainOf(info, call.Args[2]); ok && len(ch.Links) == 1 && ch.Links[0].Name == "Id" {
				if s, ok := constString(info, ch.Links[0].Args[0]); ok {
					errIdent = s
				}
			}
			if id, ok := as.Lhs[0].(*ast.Ident); ok {
				retObj = info.ObjectOf(id)
			}
		}
		return true
	})
	// the callee expression: a local assigned from g.qualMethod(definition)
	var qualObj types.Object
	ast.Inspect(fi.Decl, func(n ast.Node) bool {
		as, ok := n.(*ast.AssignStmt)
		if !ok || len(as.Lhs) != 1 || len(as.Rhs) != 1 {
			return true
		}
		if call, ok := ast.Unparen(as.Rhs[0]).(*ast.CallExpr); ok {
			if f, ok := calleeObj(info, call).(*types.Func); ok && f.Name() == "qualMethod" {
				if id0, ok := as.Lhs[0].(*ast.Ident); ok {
					qualObj = info.ObjectOf(id0)
				}
			}
		}
		return true
	})
	isQualCall := func(e ast.Expr) bool {
		call, ok := ast.Unparen(e).(*ast.CallExpr)
		if !ok {
			return false
		}
		sel, ok := ast.Unparen(call.Fun).(*ast.SelectorExpr)
		if !ok || sel.Sel.Name != "Call" {
			return false
		}
		id0, ok := ast.Unparen(sel.X).(*ast.Ident)
		return ok && qualObj != nil && info.ObjectOf(id0) == qualObj
	}
	// stmt := []jen.Code{ List(Id(name), Id(err)).Op(":=").Add(qual.Call(…)), If(Id(err).Op("!=").Nil()).Block(ret) }
	okBind, okCheck, okOrder := false, false, false
	ast.Inspect(blk.Body, func(n ast.Node) bool {
		cl, ok := n.(*ast.CompositeLit)
		if !ok || len(cl.Elts) != 2 {
			return true
		}
		c0, ok0 := chainOf(info, cl.Elts[0])
		c1, ok1 := chainOf(info, cl.Elts[1])
		if !ok0 || !ok1 {
			return true
		}
		if c0.Root == nil && c0.Links[0].Name == "List" && len(c0.Links[0].Args) == 2 {
			ids := idArgsOf(&Chain{Pkg: fi.Pkg}, c0.Links[0].Args[1])
			if len(ids) == 1 {
				if s, ok := constString(info, ids[0]); ok && s == errIdent && s != "_" {
					if op := c0.Has("Op"); op != nil {
						if o, _ := constString(info, op.Args[0]); o == ":=" && c0.Has("Add") != nil && isQualCall(c0.Has("Add").Args[0]) {
							okBind = true
						}
					}
				}
			}
		}
		if c1.Root == nil && len(c1.Links) == 2 && c1.Links[0].Name == "If" && c1.Links[1].Name == "Block" {
			cond, ok := chainOf(info, c1.Links[0].Args[0])
			if ok && cond.Root == nil && cond.Links[0].Name == "Id" && cond.Has("Nil") != nil {
				s, _ := constString(info, cond.Links[0].Args[0])
				o, _ := constString(info, cond.Has("Op").Args[0])
				if s == errIdent && o == "!=" && len(c1.Links[1].Args) == 1 {
					if id, ok := ast.Unparen(c1.Links[1].Args[0]).(*ast.Ident); ok && info.ObjectOf(id) == retObj && retObj != nil {
						okCheck = true
					}
				}
			}
		}
		okOrder = okBind && okCheck
		return true
	})
	switch {
	case errIdent == "":
		r.Bad("generator.(*generator).CallMethod/fallible branch", p.PosStr(blk.Pos()), "the error return is not built by g.ReturnError(ctx, errPath, jen.Id(<error identifier>))")
	case !okOrder:
		r.Bad("generator.(*generator).CallMethod/fallible branch", p.PosStr(blk.Pos()), fmt.Sprintf("the emitted statements are not `name, %s := call` directly followed by `if %s != nil { <ReturnError result> }` (bound: %v, checked: %v): the error of a custom function could be dropped or overwritten", errIdent, errIdent, okBind, okCheck))
	default:
		r.OK("generator.(*generator).CallMethod/fallible branch", p.PosStr(blk.Pos()), fmt.Sprintf("`name, %s := call; if %s != nil { return …, wrap(%s) }`", errIdent, errIdent, errIdent))
	}
	// the bare call outside the branch: only after the if (i.e. !ReturnError)
	okBare := true
	ast.Inspect(fi.Decl, func(n ast.Node) bool {
		call, ok := n.(*ast.CallExpr)
		if !ok || !isQualCall(call) {
			return true
		}
		inBlk := call.Pos() >= blk.Pos() && call.End() <= blk.End()
		if !inBlk && call.Pos() < blk.End() {
			okBare = false
		}
		if !inBlk && !endsInExit(blk.Body) {
			okBare = false
		}
		return true
	})
	if okBare {
		r.OK("generator.(*generator).CallMethod/infallible branch", p.PosStr(blk.End()), "the bare call expression is used as value only when the callee returns no error (the fallible branch returns)")
	} else {
		r.Bad("generator.(*generator).CallMethod/infallible branch", p.PosStr(fi.Decl.Pos()), "the call expression of a fallible function can be used as a plain value")
	}
	// delegateMethod
	if d, dsf := needFunc(p, r, "generator.(*generator).delegateMethod"); d != nil {
		ok := false
		for _, b := range dsf.Blocks {
			for _, in := range b.Instrs {
				ret, isRet := in.(*ssa.Return)
				if !isRet || isSuccessReturn(ret) {
					continue
				}
				// error return must be under delegateTo.ReturnError true ∧ current.ReturnError false
				pos, neg := false, false
				for _, f := range factsAt(b) {
					if nf, isNeg := f.(negFact); isNeg {
						if loadsField(nf.Value, "ReturnError") {
							neg = true
						}
						continue
					}
					if loadsField(f, "ReturnError") {
						pos = true
					}
					if u, isU := f.(*ssa.UnOp); isU && u.Op == token.NOT && loadsField(u.X, "ReturnError") {
						neg = true
					}
				}
				if pos && neg {
					ok = true
				}
			}
		}
		if ok {
			r.OK("generator.(*generator).delegateMethod/refusal", p.PosStr(d.Decl.Pos()), "delegate returns error ∧ method does not → generation error")
		} else {
			r.Bad("generator.(*generator).delegateMethod/refusal", p.PosStr(d.Decl.Pos()), "a fallible extend function can be delegated to from a method without error result: its error would be dropped (or the code would not compile)")
		}
	}
}

func c07R2(p *Prog, r *Report) {
	r.Rule("C07.R2", "refusal instead of dropping: in generator.ReturnError the test `check.Explicit && !check.ReturnError → return nil, false` is evaluated for a method before its ReturnError flag is set, and every caller of Generator.ReturnError turns a false result into a *builder.Error", 3)
	fi, _ := needFunc(p, r, "generator.(*generator).ReturnError")
	if fi != nil {
		// every store ReturnError=true (in ReturnError or a private helper of it) is dominated by the test of
		// Explicit whose true side refuses: returns (nil, false) — or, in a helper, false, which the caller turns into (nil, false)
		okAll, n := true, 0
		isRefusal := func(ret *ssa.Return) bool {
			if len(ret.Results) == 0 {
				return false
			}
			last := ret.Results[len(ret.Results)-1]
			k, isK := last.(*ssa.Const)
			if !isK || k.Value == nil || k.Value.Kind() != constant.Bool || constantBool(k) {
				return false
			}
			for _, v := range ret.Results[:len(ret.Results)-1] {
				if !isNilConst(v) {
					return false
				}
			}
			return true
		}
		for _, rf := range p.Region("generator.(*generator).ReturnError") {
			sf := p.SSAFunc(rf)
			if sf == nil {
				continue
			}
			allInstrs(sf, false, func(in ssa.Instruction) {
				st, ok := in.(*ssa.Store)
				if !ok {
					return
				}
				fa, ok := st.Addr.(*ssa.FieldAddr)
				if !ok || fieldName(fa) != "ReturnError" {
					return
				}
				n++
				found := false
				for _, b := range sf.Blocks {
					for _, x := range b.Instrs {
						ret, isRet := x.(*ssa.Return)
						if !isRet || !isRefusal(ret) {
							continue
						}
						if dominatedByEdge(b, true, func(c ssa.Value) bool { return loadsField(c, "Explicit") }) {
							for d := b; d != nil; d = d.Idom() {
								if ifi, ok := d.Instrs[len(d.Instrs)-1].(*ssa.If); ok && loadsField(ifi.Cond, "Explicit") && d.Dominates(st.Block()) {
									found = true
								}
							}
						}
					}
				}
				if found && rf != fi {
					// the helper's false must become (nil, false) in ReturnError
					found = false
					if asf := p.SSAFunc(fi); asf != nil {
						for _, b := range asf.Blocks {
							ret, isRet := b.Instrs[len(b.Instrs)-1].(*ssa.Return)
							if !isRet || !isRefusal(ret) {
								continue
							}
							for _, f := range factsAt(b) {
								if nf, ok := f.(negFact); ok {
									if c, ok := nf.Value.(*ssa.Call); ok && ssaCalleeObj(c) != nil && ssaCalleeObj(c).Origin() == rf.Obj.Origin() {
										found = true
									}
								}
							}
						}
					}
				}
				if !found {
					okAll = false
				}
			})
		}
		if okAll && n > 0 {
			r.OK("generator.(*generator).ReturnError/refuse before flip", p.PosStr(fi.Decl.Pos()), "the explicit-method refusal dominates the flag flip")
		} else {
			r.Bad("generator.(*generator).ReturnError/refuse before flip", p.PosStr(fi.Decl.Pos()), "ReturnError can mark a method as fallible without first refusing explicit methods that have no error result: goverter would emit code that drops the error or does not match the declared signature")
		}
	}
	// callers of the interface method / concrete method
	n := 0
	for _, f := range p.Funcs {
		sf := p.SSAFunc(f)
		if sf == nil {
			continue
		}
		allInstrs(sf, true, func(in ssa.Instruction) {
			c, ok := in.(*ssa.Call)
			if !ok {
				return
			}
			var o *types.Func
			if c.Call.IsInvoke() {
				o = c.Call.Method
			} else {
				o = ssaCalleeObj(c)
			}
			if o == nil || o.Name() != "ReturnError" || c.Call.Signature().Results().Len() != 2 {
				return
			}
			n++
			site := fmt.Sprintf("%s/ReturnError ok#%d", f.Name(), n)
			okUse := false
			for _, ref := range *c.Referrers() {
				ex, isEx := ref.(*ssa.Extract)
				if !isEx || ex.Index != 1 || ex.Referrers() == nil {
					continue
				}
				for _, r2 := range *ex.Referrers() {
					ifi, isIf := r2.(*ssa.If)
					if !isIf {
						continue
					}
					fb := ifi.Block().Succs[1]
					if g := existsPath(fb, 0, func(x ssa.Instruction) bool {
						ret, ok := x.(*ssa.Return)
						return ok && isSuccessReturn(ret)
					}, nil); g == nil {
						okUse = true
					}
				}
			}
			if okUse {
				r.OK(site, p.PosStr(c.Pos()), "!ok → *builder.Error")
			} else {
				r.Bad(site, p.PosStr(c.Pos()), "the refusal of ReturnError (!ok) does not become a generation error")
			}
		})
	}
	if n < 2 {
		r.Unresolved("callers of Generator.ReturnError (expected CallMethod and caseAction)")
	}
}

func c07R3(p *Prog, r *Report) {
	r.Rule("C07.R3", "the cause is kept: every emitted fmt.Errorf that receives an error operand has a constant format ending in `%w` and passes the error last; WrapErrorsUsing emits Wrap(err, elements…) with the error first; generator.wrap returns the error statement itself when no wrapping is configured", 4)
	for _, c := range p.Chains() {
		info := c.Pkg.TypesInfo
		for i, l := range c.Links {
			if l.Name != "Qual" || len(l.Args) != 2 {
				continue
			}
			pkg, _ := constString(info, l.Args[0])
			name, _ := constString(info, l.Args[1])
			if pkg != "fmt" || name != "Errorf" || i+1 >= len(c.Links) || c.Links[i+1].Name != "Call" {
				continue
			}
			call := c.Links[i+1]
			site := c.Encl.Name() + "/fmt.Errorf"
			if len(call.Args) < 2 {
				r.Bad(site, p.PosStr(call.Call.Pos()), "fmt.Errorf without operands")
				continue
			}
			fmtCh, ok := chainOf(info, call.Args[0])
			format := ""
			if ok && fmtCh.Links[0].Name == "Lit" {
				// constant-fold simple concatenations "…"+string(x)+": %w"
				format = litSuffix(info, fmtCh.Links[0].Args[0])
			}
			last := exprString(call.Args[len(call.Args)-1])
			isErrOperand := last == "errStmt" || strings.Contains(last, "err")
			if !isErrOperand {
				// formats a value, not an error (enum unexpected element)
				if strings.Contains(format, "%w") {
					r.Bad(site, p.PosStr(call.Call.Pos()), "%w used without an error operand")
				} else {
					r.OK(site, p.PosStr(call.Call.Pos()), "creates a new error (no cause to keep)")
				}
				continue
			}
			if strings.HasSuffix(format, "%w") {
				r.OK(site, p.PosStr(call.Call.Pos()), "format ends in %w, error operand last")
			} else {
				r.Bad(site, p.PosStr(call.Call.Pos()), fmt.Sprintf("the format %q does not end in %%w: the returned error would not wrap the custom function's error (errors.Is/As fail)", format))
			}
		}
	}
	if fi := p.Func("builder.(ErrorPath).WrapErrorsUsing"); fi != nil {
		info := fi.Pkg.TypesInfo
		ok := false
		// the accumulator is the variable handed to <pkg>.Wrap(…).Call(acc...)
		var acc types.Object
		for _, c := range p.Chains() {
			if c.Encl == fi && c.Has("Qual") != nil && c.Has("Call") != nil {
				if s, _ := constString(info, c.Has("Qual").Args[1]); s == "Wrap" && len(c.Has("Call").Args) == 1 {
					if id0, isID := ast.Unparen(c.Has("Call").Args[0]).(*ast.Ident); isID {
						acc = info.ObjectOf(id0)
					}
				}
			}
		}
		isAcc := func(e ast.Expr) bool {
			id0, isID := ast.Unparen(e).(*ast.Ident)
			return isID && acc != nil && info.ObjectOf(id0) == acc
		}
		ast.Inspect(fi.Decl, func(n ast.Node) bool {
			as, isAs := n.(*ast.AssignStmt)
			if isAs && len(as.Lhs) == 1 && isAcc(as.Lhs[0]) {
				// (a) args = append([]jen.Code{errStmt}, args...)  — prepend
				if call, isC := ast.Unparen(as.Rhs[0]).(*ast.CallExpr); isC && len(call.Args) == 2 {
					if cl, isCl := ast.Unparen(call.Args[0]).(*ast.CompositeLit); isCl && len(cl.Elts) == 1 && isParamIdent(info, fi, cl.Elts[0], 1) {
						ok = true
					}
				}
				// (c) acc := make([]jen.Code, 0, …) / []jen.Code{} and the first append to it — a top-level statement before
				//     any loop — appends exactly the error statement
				if as.Tok == token.DEFINE && !ok {
					emptyInit := false
					switch x := ast.Unparen(as.Rhs[0]).(type) {
					case *ast.CompositeLit:
						emptyInit = len(x.Elts) == 0
					case *ast.CallExpr:
						if b, isB := calleeObj(info, x).(*types.Builtin); isB && b.Name() == "make" {
							emptyInit = true
						}
					}
					if emptyInit {
						for _, st := range fi.Decl.Body.List {
							if st.Pos() <= as.Pos() {
								continue
							}
							a2, isA2 := st.(*ast.AssignStmt)
							if !isA2 {
								if _, isLoop := st.(*ast.RangeStmt); isLoop {
									break
								}
								if _, isLoop := st.(*ast.ForStmt); isLoop {
									break
								}
								continue
							}
							if len(a2.Lhs) == 1 && isAcc(a2.Lhs[0]) {
								if c2, isC2 := ast.Unparen(a2.Rhs[0]).(*ast.CallExpr); isC2 && len(c2.Args) == 2 && isAcc(c2.Args[0]) && isParamIdent(info, fi, c2.Args[1], 1) {
									ok = true
								}
								break
							}
						}
					}
				}
				// (b) args := []jen.Code{errStmt} followed only by appends at the end
				if cl, isCl := ast.Unparen(as.Rhs[0]).(*ast.CompositeLit); isCl && as.Tok == token.DEFINE && len(cl.Elts) >= 1 && isParamIdent(info, fi, cl.Elts[0], 1) {
					ok = true
					ast.Inspect(fi.Decl, func(m ast.Node) bool {
						a2, isA2 := m.(*ast.AssignStmt)
						if isA2 && a2 != as && len(a2.Lhs) == 1 && isAcc(a2.Lhs[0]) {
							c2, isC2 := ast.Unparen(a2.Rhs[0]).(*ast.CallExpr)
							if !isC2 || len(c2.Args) < 1 || !isAcc(c2.Args[0]) {
								ok = false
							}
						}
						return true
					})
				}
			}
			return true
		})
		// and Wrap is called with args
		wrapOK := false
		for _, c := range p.Chains() {
			if c.Encl == fi && c.Has("Qual") != nil && c.Has("Call") != nil {
				if s, _ := constString(info, c.Has("Qual").Args[1]); s == "Wrap" && isAcc(c.Has("Call").Args[0]) {
					wrapOK = true
				}
			}
		}
		if ok && wrapOK {
			r.OK("builder.(ErrorPath).WrapErrorsUsing/error first", p.PosStr(fi.Decl.Pos()), "Wrap(err, path elements…)")
		} else {
			r.Bad("builder.(ErrorPath).WrapErrorsUsing/error first", p.PosStr(fi.Decl.Pos()), "the error is not passed as first argument of <pkg>.Wrap")
		}
	} else {
		r.Unresolved("builder.(ErrorPath).WrapErrorsUsing")
	}
	if fi, sf := needFunc(p, r, "generator.(*generator).wrap"); fi != nil {
		// SSA: every return is the error statement itself or a call that receives it as last argument; the mode is
		// read from the method context (ctx.Conf), not from the converter
		var errPrm, ctxPrm *ssa.Parameter
		for _, prm := range sf.Params {
			if prm.Type().String() == "*"+jenPath+".Statement" {
				errPrm = prm
			}
			if isNamed(derefType(prm.Type()), modPath+"/builder", "MethodContext") {
				ctxPrm = prm
			}
		}
		okDef, okArms, bad := false, 0, ""
		allInstrs(sf, false, func(in ssa.Instruction) {
			switch x := in.(type) {
			case *ssa.Return:
				if len(x.Results) != 1 {
					return
				}
				if x.Results[0] == ssa.Value(errPrm) {
					okDef = true
					return
				}
				if c, ok := x.Results[0].(*ssa.Call); ok && len(c.Call.Args) > 0 && c.Call.Args[len(c.Call.Args)-1] == ssa.Value(errPrm) {
					okArms++
					return
				}
				bad = "a return of wrap() neither is the error statement nor passes it on"
			case *ssa.UnOp:
				if x.Op == token.MUL {
					if fa, ok := x.X.(*ssa.FieldAddr); ok && (fieldName(fa) == "WrapErrors" || fieldName(fa) == "WrapErrorsUsing") {
						if rootParam(fa.X) != ctxPrm {
							bad = "the wrapping mode is read from " + fa.X.String() + " instead of the method context: a method-level wrapErrors / wrapErrorsUsing setting would be ignored"
						}
					}
				}
			}
		})
		if okDef && okArms >= 2 && bad == "" && errPrm != nil && ctxPrm != nil {
			r.OK("generator.(*generator).wrap", p.PosStr(fi.Decl.Pos()), "both wrapping modes receive the error statement; default returns it unchanged; mode read from ctx.Conf")
		} else {
			if bad == "" {
				bad = "wrap() does not pass the error through in every mode"
			}
			r.Bad("generator.(*generator).wrap", p.PosStr(fi.Decl.Pos()), bad)
		}
	} else {
		r.Unresolved("generator.(*generator).wrap")
	}
}

// litSuffix folds "a"+x+"b" to its constant suffix.
// identDenotes: id (an identifier in function in) denotes obj of function anchor — directly, or because in is a
// private helper of anchor, id is one of its parameters and every call of the helper in anchor passes obj for it.
func identDenotes(p *Prog, in *FuncInfo, id *ast.Ident, anchor *FuncInfo, obj types.Object) bool {
	o := in.Pkg.TypesInfo.ObjectOf(id)
	if o == nil || obj == nil {
		return false
	}
	if in == anchor {
		return o == obj
	}
	sig := in.Obj.Type().(*types.Signature)
	idx := -1
	for i := 0; i < sig.Params().Len(); i++ {
		if sig.Params().At(i) == o {
			idx = i
		}
	}
	if idx < 0 {
		return false
	}
	n := 0
	for _, cs := range p.Calls() {
		f, ok := cs.Callee.(*types.Func)
		if !ok || f.Origin() != in.Obj.Origin() {
			continue
		}
		n++
		if cs.Encl != anchor || idx >= len(cs.Call.Args) {
			return false
		}
		a, ok := ast.Unparen(cs.Call.Args[idx]).(*ast.Ident)
		if !ok || anchor.Pkg.TypesInfo.ObjectOf(a) != obj {
			return false
		}
	}
	return n > 0
}

func litSuffix(info *types.Info, e ast.Expr) string {
	if s, ok := constString(info, e); ok {
		return s
	}
	if b, ok := ast.Unparen(e).(*ast.BinaryExpr); ok {
		return litSuffix(info, b.Y)
	}
	return ""
}

func c07R4(p *Prog, r *Report) {
	r.Rule("C07.R4", "the blank identifier is emitted only in Struct.Assign's `_ = source` statement (unused source): no result of a call is discarded in generated code", 1)
	for _, c := range p.Chains() {
		info := c.Pkg.TypesInfo
		for _, l := range c.Links {
			if l.Name != "Id" || len(l.Args) != 1 {
				continue
			}
			if s, ok := constString(info, l.Args[0]); ok && s == "_" {
				site := c.Encl.Name() + "/jen.Id(\"_\")"
				if c.Encl.Name() == "builder.(*Struct).Assign" && c.Root == nil && strings.Join(c.Names(), ".") == "Id.Op.Add" {
					r.OK(site, p.PosStr(l.Call.Pos()), "`_ = source` for a struct without mapped fields")
				} else {
					r.Bad(site, p.PosStr(l.Call.Pos()), "a blank identifier is emitted: a result (possibly an error) would be discarded in generated code")
				}
			}
		}
	}
}

func c07R5(p *Prog, r *Report) {
	r.Rule("C07.R5", "path elements: in Struct.Assign every call that takes an ErrorPath inside the field loop (mapField, gen.Assign, gen.CallMethod) receives errPath.Field(targetField.Name()); in List.Assign path.Index(), assignTo.WithIndex() and the three loop clauses use one identifier from ctx.Index(); in Map.Assign errPath.Key() receives jen.Id(<range key from ctx.Map()>), the same name the emitted range statement declares; WrapErrorsUsing has an arm for every ErrorElement kind", 8)
	// Struct.Assign
	if fi, sf := needFunc(p, r, "builder.(*Struct).Assign"); fi != nil {
		n := 0
		allInstrs(sf, false, func(in ssa.Instruction) {
			c, ok := in.(ssa.CallInstruction)
			if !ok {
				return
			}
			sig := c.Common().Signature()
			var o *types.Func
			if c.Common().IsInvoke() {
				o = c.Common().Method
			} else {
				o = ssaCalleeObj(c)
			}
			if o == nil || !(o.Name() == "mapField" || o.Name() == "Assign" || o.Name() == "CallMethod" || o.Name() == "Build") {
				return
			}
			// find ErrorPath argument
			args := c.Common().Args
			off := 0
			if !c.Common().IsInvoke() && sig.Recv() != nil {
				off = 1
			}
			for i := 0; i < sig.Params().Len(); i++ {
				if !isNamed(sig.Params().At(i).Type(), modPath+"/builder", "ErrorPath") {
					continue
				}
				n++
				site := fmt.Sprintf("builder.(*Struct).Assign/%s path#%d", o.Name(), n)
				v := args[i+off]
				okField := false
				if fc, ok := v.(*ssa.Call); ok && ssaCalleeObj(fc) != nil && isFunc(ssaCalleeObj(fc), modPath+"/builder", "ErrorPath", "Field") {
					// argument: targetField.Name()
					if nc, ok := fc.Call.Args[1].(*ssa.Call); ok && ssaCalleeObj(nc) != nil && ssaCalleeObj(nc).Name() == "Name" && objPkgPath(ssaCalleeObj(nc)) == "go/types" {
						okField = true
					}
				}
				if okField {
					r.OK(site, p.PosStr(c.Pos()), "errPath.Field(targetField.Name())")
				} else {
					r.Bad(site, p.PosStr(c.Pos()), "a nested conversion of a struct field receives a path without that field's element: the reported location of a failing custom function would miss the field")
				}
			}
		})
		if n < 3 {
			r.Unresolved("ErrorPath arguments in Struct.Assign")
		}
	}
	// List.Assign
	if fi := p.Func("builder.(*List).Assign"); fi != nil {
		info := fi.Pkg.TypesInfo
		var idxObj types.Object
		ast.Inspect(fi.Decl, func(n ast.Node) bool {
			as, ok := n.(*ast.AssignStmt)
			if ok && len(as.Lhs) == 1 && len(as.Rhs) == 1 {
				if call, ok := ast.Unparen(as.Rhs[0]).(*ast.CallExpr); ok {
					if f, ok := calleeObj(info, call).(*types.Func); ok && isNamerAlloc(f) && f.Name() == "Index" {
						if id, ok := as.Lhs[0].(*ast.Ident); ok {
							idxObj = info.ObjectOf(id)
						}
					}
				}
			}
			return true
		})
		usesIdx := func(e ast.Expr) bool {
			ch, ok := chainOf(info, e)
			if !ok || ch.Root != nil || ch.Links[0].Name != "Id" {
				return false
			}
			id, ok := ast.Unparen(ch.Links[0].Args[0]).(*ast.Ident)
			return ok && idxObj != nil && info.ObjectOf(id) == idxObj
		}
		okIndex, okWith := false, false
		ast.Inspect(fi.Decl, func(n ast.Node) bool {
			call, ok := n.(*ast.CallExpr)
			if !ok {
				return true
			}
			if f, ok := calleeObj(info, call).(*types.Func); ok {
				if f.Name() == "Index" && recvTypeName(f) == "ErrorPath" && len(call.Args) == 1 {
					okIndex = usesIdx(call.Args[0])
				}
				if f.Name() == "WithIndex" && len(call.Args) == 1 {
					okWith = usesIdx(call.Args[0])
				}
			}
			return true
		})
		if okIndex && okWith {
			r.OK("builder.(*List).Assign/index identity", p.PosStr(fi.Decl.Pos()), "path.Index(i), assignTo.WithIndex(i) and the loop (C02.R4) use the identifier from ctx.Index()")
		} else {
			r.Bad("builder.(*List).Assign/index identity", p.PosStr(fi.Decl.Pos()), "the index reported in the error path is not the loop index that selects the element")
		}
	} else {
		r.Unresolved("builder.(*List).Assign")
	}
	// Map.Assign
	if fi := p.Func("builder.(*Map).Assign"); fi != nil {
		info := fi.Pkg.TypesInfo
		var keyObj types.Object
		ast.Inspect(fi.Decl, func(n ast.Node) bool {
			as, ok := n.(*ast.AssignStmt)
			if ok && len(as.Lhs) == 2 && len(as.Rhs) == 1 {
				if call, ok := ast.Unparen(as.Rhs[0]).(*ast.CallExpr); ok {
					if f, ok := calleeObj(info, call).(*types.Func); ok && isNamerAlloc(f) && f.Name() == "Map" {
						if id, ok := as.Lhs[0].(*ast.Ident); ok {
							keyObj = info.ObjectOf(id)
						}
					}
				}
			}
			return true
		})
		n, bad := 0, ""
		ast.Inspect(fi.Decl, func(nn ast.Node) bool {
			call, ok := nn.(*ast.CallExpr)
			if !ok {
				return true
			}
			f, ok := calleeObj(info, call).(*types.Func)
			if !ok || f.Name() != "Key" || recvTypeName(f) != "ErrorPath" {
				return true
			}
			n++
			ch, ok := chainOf(info, call.Args[0])
			okKey := false
			if ok && ch.Root == nil && len(ch.Links) == 1 && ch.Links[0].Name == "Id" {
				if id, ok := ast.Unparen(ch.Links[0].Args[0]).(*ast.Ident); ok && keyObj != nil && info.ObjectOf(id) == keyObj {
					okKey = true
				}
			}
			if !okKey {
				bad = p.PosStr(call.Pos()) + ": errPath.Key(" + short(exprString(call.Args[0]), 40) + ")"
			}
			return true
		})
		// range header declares the same key
		okRange := false
		for _, c := range p.Chains() {
			if c.Encl == nil || !p.inRegion("builder.(*Map).Assign", c.Encl) {
				continue
			}
			if c.Has("Range") != nil && c.Root == nil && c.Links[0].Name == "List" {
				ids := idArgsOf(c, c.Links[0].Args[0])
				if len(ids) == 1 {
					if id, ok := ast.Unparen(ids[0]).(*ast.Ident); ok && identDenotes(p, c.Encl, id, fi, keyObj) {
						okRange = true
					}
				}
			}
		}
		switch {
		case n == 0:
			r.Bad("builder.(*Map).Assign/key element", p.PosStr(fi.Decl.Pos()), "no Key element is added to the error path for map entries")
		case bad != "":
			r.Bad("builder.(*Map).Assign/key element", p.PosStr(fi.Decl.Pos()), bad+" is not the range key: the reported location would not be the source map key")
		case !okRange:
			r.Bad("builder.(*Map).Assign/key element", p.PosStr(fi.Decl.Pos()), "the emitted range statement does not declare the key identifier used in the path")
		default:
			r.OK("builder.(*Map).Assign/key element", p.PosStr(fi.Decl.Pos()), "errPath.Key(jen.Id(key)) with key = the range key declared by the emitted `for key, value := range source`")
		}
		// both the key and the value conversion receive the path with the key
		_ = n
	} else {
		r.Unresolved("builder.(*Map).Assign")
	}
	wrapErrorsLastRule(p, r)
	// ErrorElement kinds in WrapErrorsUsing
	bp := p.Pkg("builder")
	if tn, ok := bp.Types.Scope().Lookup("ErrorElement").(*types.TypeName); ok {
		iface := tn.Type().Underlying().(*types.Interface)
		impls := implementersOf(bp.Types, iface)
		fi := p.Func("builder.(ErrorPath).WrapErrorsUsing")
		covered := map[string]string{}
		if fi != nil {
			// the arms may live in WrapErrorsUsing or in a private helper it delegates each element to
			for _, rf := range p.Region("builder.(ErrorPath).WrapErrorsUsing") {
				rf := rf
				info := rf.Pkg.TypesInfo
				ast.Inspect(rf.Decl, func(n ast.Node) bool {
					cc, ok := n.(*ast.CaseClause)
					if !ok || len(cc.List) != 1 {
						return true
					}
					nt := namedOf(info.TypeOf(cc.List[0]))
					if nt == nil {
						return true
					}
					for _, c := range p.Chains() {
						if c.Encl == rf && c.Outer.Pos() >= cc.Pos() && c.Outer.End() <= cc.End() && c.Has("Qual") != nil {
							if s, ok := constString(info, c.Has("Qual").Args[1]); ok {
								covered[nt.Obj().Name()] = s
							}
						}
					}
					return true
				})
			}
		}
		want := map[string]string{"errElmField": "Field", "errElmIndex": "Index", "errElmKey": "Key"}
		for _, im := range impls {
			site := "builder.(ErrorPath).WrapErrorsUsing/element " + im.Name()
			got, ok := covered[im.Name()]
			switch {
			case !ok:
				r.Bad(site, "", "no arm for this path element kind: it would be missing from the reported location")
			case want[im.Name()] != "" && got != want[im.Name()]:
				r.Bad(site, "", fmt.Sprintf("element kind %s is emitted as %s(), documented %s()", im.Name(), got, want[im.Name()]))
			default:
				r.OK(site, "", "emitted as "+got+"(…)")
			}
		}
	} else {
		r.Unresolved("builder.ErrorElement")
	}
}
