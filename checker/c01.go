package main

import (
	"fmt"
	"go/ast"
	"go/token"
	"go/types"
	"strings"

	"golang.org/x/tools/go/ssa"
)

func init() {
	register(&Check{
		ID: "C01", Level: "other",
		Explanation: "Decides four necessary conditions for `no emitted identifier is undefined, inaccessible, declared twice or shadowed` and `valid Go`: (R1) fresh-name discipline — every identifier that generated " +
			"code declares (:=, var, parameters, loop variables) comes from the name allocator in scope (Namer.Name/Index/Map, directly, through MethodContext, or through the bound namer passed to JenID.Pointer) or is a literal " +
			"that namer.New reserves; generated top-level function names come from the file-level allocator; (R2) allocator contract — every name the allocator returns was tested against and inserted into its lookup set " +
			"on the path to the return; (R3) rendering totality — xtype.toCode / toCodeBasic / ZeroValue cover every go/types type and typed basic kind (shared with C13.R1); (R4) accessibility — a user struct member is named " +
			"in generated code only after xtype.Accessible/Exported on that object. Type-checking of the emitted file as a whole is not decided.",
		NotDecided: []string{
			"that the emitted file type-checks in general (needs a type system for templates)",
			"identifier clashes with import aliases chosen by jennifer (user package named like a local, D17)",
			"uniqueness of generated function names across two output files of one package (per-file allocator vs. per-package scope, D16) — no sound local rule separates it from the correct per-file case",
			"that the struct implements the declared interface",
		},
		Run: runC01,
	})
}

func runC01(p *Prog, r *Report) {
	c01R1(p, r)
	c01R2(p, r)
	// R3: rendering totality (subset of the panic inventory)
	r.Rule("C01.R3", "rendering totality: the type switches of xtype.toCode, toCodeBasic, toChan and ZeroValue have an arm for every go/types type / typed basic kind / channel direction (minus audited exclusions), so every type of a compilable input can be rendered", 4)
	sub := newReport("C13", r.Tier)
	c13R1(p, sub)
	for _, o := range sub.Obls {
		if !strings.HasPrefix(o.Site, "xtype.toCode") && !strings.HasPrefix(o.Site, "xtype.toChan") && !strings.HasPrefix(o.Site, "xtype.ZeroValue") {
			continue
		}
		if o.Verdict == "violation" {
			r.Bad(o.Site, o.Pos, o.How)
		} else {
			r.OK(o.Site, o.Pos, o.How)
		}
	}
	accessibilityRule(p, r, "C01.R4")
	accessibleRule(p, r, "C01.R4b")
	methodSetRule(p, r, "C01.R5")
	qualMethodRule(p, r, "C01.R6")
	callersRebuiltRule(p, r, "C01.R7")
	vocabularyRule(p, r, "C01.R8", p.Chains())
	outputPackageRule(p, r, "C01.R9")
	declaredSignatureRule(p, r, "C01.R10")
	r.Rule("C01.R11", "a declared second result is emitted as `error`, so it must be exactly the built-in error: method.isError accepts nothing else (shared with C14.R3)", 1)
	sub14 := newReport("C14", r.Tier)
	c14R3(p, sub14)
	for _, o := range sub14.Obls {
		if o.Verdict == "violation" {
			r.Bad(o.Site, o.Pos, o.How)
		} else {
			r.OK(o.Site, o.Pos, o.How)
		}
	}
	definitionPackageRule(p, r, "C01.R12")
	zeroValueTableRule(p, r, "C01.R13")
	typeArgsKeptRule(p, r, "C01.R14")
	cloneBeforeExtendRule(p, r, "C01.R15", p.Chains())
	c08R2(p, r, "C01.R16")
	structIdentityRule(p, r, "C01.R17")
	getPackagesRule(p, r, "C01.R18")
}

// reservedNames reads the initial lookup set from the map literal in namer.New.
func reservedNames(p *Prog) map[string]bool {
	fi := p.Func("namer.New")
	if fi == nil {
		return nil
	}
	info := fi.Pkg.TypesInfo
	out := map[string]bool{}
	ast.Inspect(fi.Decl, func(n ast.Node) bool {
		cl, ok := n.(*ast.CompositeLit)
		if !ok {
			return true
		}
		if _, isMap := info.TypeOf(cl).Underlying().(*types.Map); !isMap {
			return true
		}
		for _, e := range cl.Elts {
			if kv, ok := e.(*ast.KeyValueExpr); ok {
				if s, ok := constString(info, kv.Key); ok {
					out[s] = true
				}
			}
		}
		return true
	})
	return out
}

// nameOriginOK classifies the expression that names a declared identifier.
func nameOriginOK(p *Prog, fi *FuncInfo, e ast.Expr, reserved map[string]bool, depth int) (bool, string) {
	if depth > 3 {
		return false, "origin too deep"
	}
	info := fi.Pkg.TypesInfo
	e = ast.Unparen(e)
	if s, ok := constString(info, e); ok {
		if reserved[s] {
			return true, fmt.Sprintf("literal %q is reserved by namer.New", s)
		}
		return false, fmt.Sprintf("literal name %q is not reserved by namer.New: a generated variable of the same name would be declared twice or shadowed", s)
	}
	if call, ok := e.(*ast.CallExpr); ok {
		if fn, ok := calleeObj(info, call).(*types.Func); ok && isNamerAlloc(fn) {
			return true, "allocated by Namer." + fn.Name()
		}
		// namer func(string) string parameter
		if id, ok := ast.Unparen(call.Fun).(*ast.Ident); ok {
			if v, ok := info.ObjectOf(id).(*types.Var); ok && isParamOf(fi, v) {
				if bad := namerParamCallers(p, fi, v); bad == "" {
					return true, "allocated through the namer function parameter (all callers pass a bound Namer.Name)"
				} else {
					return false, bad
				}
			}
		}
		return false, "name is computed by " + exprString(call.Fun) + ", not by the name allocator"
	}
	if id, ok := e.(*ast.Ident); ok {
		obj := info.ObjectOf(id)
		// tuple definition: key, value := ctx.Map()
		var def ast.Expr
		ast.Inspect(fi.Decl, func(n ast.Node) bool {
			as, ok := n.(*ast.AssignStmt)
			if !ok {
				return true
			}
			for i, l := range as.Lhs {
				if li, ok := ast.Unparen(l).(*ast.Ident); ok && info.ObjectOf(li) == obj {
					if len(as.Rhs) == len(as.Lhs) {
						def = as.Rhs[i]
					} else if len(as.Rhs) == 1 {
						def = as.Rhs[0]
					}
				}
			}
			return true
		})
		if def != nil {
			return nameOriginOK(p, fi, def, reserved, depth+1)
		}
		// a string parameter of a private helper: the name is allocated by every caller
		if v, ok := obj.(*types.Var); ok && p != nil && isParamOf(fi, v) && !fi.Obj.Exported() {
			sig := fi.Obj.Type().(*types.Signature)
			idx := -1
			for i := 0; i < sig.Params().Len(); i++ {
				if sig.Params().At(i) == v {
					idx = i
				}
			}
			n := 0
			for _, cs := range p.Calls() {
				f, ok := cs.Callee.(*types.Func)
				if !ok || f.Origin() != fi.Obj.Origin() || cs.Encl == nil {
					continue
				}
				n++
				if idx < 0 || idx >= len(cs.Call.Args) {
					return false, "parameter " + id.Name + " cannot be traced to its callers"
				}
				if ok, why := nameOriginOK(p, cs.Encl, cs.Call.Args[idx], reserved, depth+1); !ok {
					return false, "caller " + cs.Encl.Name() + ": " + why
				}
			}
			if _, vals := p.refSites(fi.Obj); n > 0 && len(vals) == 0 {
				return true, "allocated by every caller of " + fi.Name()
			}
		}
		return false, "variable " + id.Name + " has no allocator definition in this function"
	}
	return false, "name expression " + exprString(e) + " is not produced by the name allocator"
}

// originExpr resolves an identifier to the expression that defines it: the right-hand side of its (single) local
// definition, or — for a parameter of a private helper with exactly one call site — the origin of the argument
// passed there.  It returns the expression and the function it belongs to.
func originExpr(p *Prog, in *FuncInfo, id *ast.Ident, depth int) (ast.Expr, *FuncInfo) {
	info := in.Pkg.TypesInfo
	obj := info.ObjectOf(id)
	if obj == nil || depth > 3 {
		return nil, nil
	}
	if def := localDef(info, in.Decl, obj); def != nil {
		if id2, ok := ast.Unparen(def).(*ast.Ident); ok && id2.Name != "nil" {
			if e, f := originExpr(p, in, id2, depth+1); e != nil {
				return e, f
			}
		}
		return def, in
	}
	if v, ok := obj.(*types.Var); ok && isParamOf(in, v) && !in.Obj.Exported() {
		sig := in.Obj.Type().(*types.Signature)
		idx := -1
		for i := 0; i < sig.Params().Len(); i++ {
			if sig.Params().At(i) == v {
				idx = i
			}
		}
		var site *CallSite
		n := 0
		for _, cs := range p.Calls() {
			if f, ok := cs.Callee.(*types.Func); ok && f.Origin() == in.Obj.Origin() {
				n++
				site = cs
			}
		}
		if n == 1 && site.Encl != nil && idx >= 0 && idx < len(site.Call.Args) {
			a := ast.Unparen(site.Call.Args[idx])
			if id2, ok := a.(*ast.Ident); ok {
				return originExpr(p, site.Encl, id2, depth+1)
			}
			return a, site.Encl
		}
	}
	return nil, nil
}

func isNamerAlloc(fn *types.Func) bool {
	if objPkgPath(fn) != modPath+"/namer" || recvTypeName(fn) != "Namer" {
		return false
	}
	switch fn.Name() {
	case "Name", "Index", "Map":
		return true
	}
	return false
}

// namerParamCallers: every call of fi passes a method value X.Name of *namer.Namer for parameter v.
func namerParamCallers(p *Prog, fi *FuncInfo, v *types.Var) string {
	sig := fi.Obj.Type().(*types.Signature)
	idx := -1
	for i := 0; i < sig.Params().Len(); i++ {
		if sig.Params().At(i) == v {
			idx = i
		}
	}
	n := 0
	for _, cs := range p.Calls() {
		f, ok := cs.Callee.(*types.Func)
		if !ok || f != fi.Obj {
			continue
		}
		n++
		arg := ast.Unparen(cs.Call.Args[idx])
		sel, ok := arg.(*ast.SelectorExpr)
		if !ok {
			return "caller at " + p.PosStr(cs.Call.Pos()) + " passes " + exprString(arg) + " as namer, not a bound Namer.Name"
		}
		fn, ok := cs.Pkg.TypesInfo.ObjectOf(sel.Sel).(*types.Func)
		if !ok || !isNamerAlloc(fn) || fn.Name() != "Name" {
			return "caller at " + p.PosStr(cs.Call.Pos()) + " passes " + exprString(arg) + " as namer, not a bound Namer.Name"
		}
	}
	if n == 0 {
		return "no caller found for the namer parameter"
	}
	return ""
}

func c01R1(p *Prog, r *Report) {
	r.Rule("C01.R1", "fresh-name discipline: every identifier declared by emitted code — X.Op(\":=\") with X = jen.Id(n) / jen.List(jen.Id(n)…), jen.Var().Id(n) / jen.Var().Add(jen.Id(n), …), method parameters jen.Id(n).Add(type) — takes n from Namer.Name/Index/Map (or the bound namer parameter) or is a literal reserved in namer.New; generated top-level function names come from the file-level allocator g.namer", 12)
	reserved := reservedNames(p)
	if reserved == nil || !reserved["c"] {
		r.Unresolved("reserved set of namer.New (must contain the receiver name c)")
		return
	}
	r.Tables = append(r.Tables, fmt.Sprintf("C01.R1 reserved identifiers read from namer.New: %v", keysOf(reserved)))
	check := func(c *Chain, nameExpr ast.Expr, what string) {
		site := fmt.Sprintf("%s/declares %s %s", c.Encl.Name(), what, short(exprString(nameExpr), 40))
		ok, how := nameOriginOK(p, c.Encl, nameExpr, reserved, 0)
		if ok {
			r.OK(site, p.PosStr(nameExpr.Pos()), how)
		} else {
			r.Bad(site, p.PosStr(nameExpr.Pos()), how)
		}
	}
	idArgs := func(c *Chain, e ast.Expr) []ast.Expr {
		// e is jen.Id(n) or jen.List(jen.Id(a), jen.Id(b))
		ch, ok := chainOf(c.Pkg.TypesInfo, e)
		if !ok || ch.Root != nil {
			return nil
		}
		switch ch.Links[0].Name {
		case "Id":
			if len(ch.Links) == 1 {
				return []ast.Expr{ch.Links[0].Args[0]}
			}
		case "List":
			if len(ch.Links) == 1 {
				var out []ast.Expr
				for _, a := range ch.Links[0].Args {
					out = append(out, idArgsOf(c, a)...)
				}
				return out
			}
		}
		return nil
	}
	_ = idArgs
	for _, c := range p.Chains() {
		rel := relPkg(c.Pkg.PkgPath)
		if rel != "builder" && rel != "generator" && rel != "xtype" {
			continue
		}
		info := c.Pkg.TypesInfo
		names := c.Names()
		// (a) … .Op(":=")
		for i, l := range c.Links {
			if l.Name == "Op" && len(l.Args) == 1 {
				if s, ok := constString(info, l.Args[0]); ok && s == ":=" {
					if c.Root != nil {
						if nm := idCloneArg(c); nm != nil && i == 1 {
							check(c, nm, "var")
							continue
						}
						r.Bad(c.Encl.Name()+"/declares via "+exprString(c.Root), p.PosStr(l.Call.Pos()), "`:=` applied to a non-literal left-hand side: the declared identifier cannot be traced to the allocator")
						continue
					}
					// left side: links[0..i)
					switch {
					case i == 1 && names[0] == "Id":
						check(c, c.Links[0].Args[0], "var")
					case i == 1 && names[0] == "List":
						for _, a := range c.Links[0].Args {
							for _, n := range idArgsOf(c, a) {
								check(c, n, "var")
							}
						}
					default:
						r.Bad(c.Encl.Name()+"/declares via "+strings.Join(names[:i], "."), p.PosStr(l.Call.Pos()), "unrecognised left-hand side of an emitted `:=`")
					}
				}
			}
		}
		// (b) jen.Var()…
		if c.Root == nil && names[0] == "Var" && len(names) >= 2 {
			switch names[1] {
			case "Id":
				check(c, c.Links[1].Args[0], "var")
			case "Add":
				if len(c.Links[1].Args) >= 1 {
					for _, n := range idArgsOf(c, c.Links[1].Args[0]) {
						check(c, n, "var")
					}
				}
			default:
				r.Bad(c.Encl.Name()+"/jen.Var()."+names[1], p.PosStr(c.Outer.Pos()), "unrecognised emitted var declaration")
			}
		}
	}
	// (c) parameters in buildMethod: args = append(args, jen.Id(name).Add(type))
	if region := p.Region("generator.(*generator).buildMethod"); region != nil {
		n := 0
		for _, fi := range region {
			info := fi.Pkg.TypesInfo
			ast.Inspect(fi.Decl, func(nn ast.Node) bool {
				as, ok := nn.(*ast.AssignStmt)
				if !ok || len(as.Lhs) != 1 {
					return true
				}
				id, ok := ast.Unparen(as.Lhs[0]).(*ast.Ident)
				if !ok || !strings.Contains(info.TypeOf(id).String(), "jen.Code") {
					return true
				}
				call, ok := ast.Unparen(as.Rhs[0]).(*ast.CallExpr)
				if !ok {
					return true
				}
				if b, ok := calleeObj(info, call).(*types.Builtin); !ok || b.Name() != "append" {
					return true
				}
				for _, a := range call.Args[1:] {
					ch, ok := chainOf(info, a)
					if !ok || ch.Root != nil || ch.Links[0].Name != "Id" || len(ch.Links) < 2 || ch.Links[1].Name != "Add" {
						continue // not a `name type` parameter emission
					}
					n++
					site := "generator.(*generator).buildMethod/declares param " + exprString(ch.Links[0].Args[0])
					ok2, how := nameOriginOK(p, fi, ch.Links[0].Args[0], reserved, 0)
					if ok2 {
						r.OK(site, p.PosStr(a.Pos()), how)
					} else {
						r.Bad(site, p.PosStr(a.Pos()), how)
					}
				}
				return true
			})
		}
		if n < 3 {
			r.Unresolved("parameter emissions in buildMethod")
		}
	} else {
		r.Unresolved("generator.(*generator).buildMethod")
	}
	// (d) generated top-level names
	if fi := p.Func("generator.(*generator).createSubMethod"); fi != nil {
		info := fi.Pkg.TypesInfo
		ok := false
		why := "the Definition literal of a generated method has no Name from g.namer.Name(…)"
		for _, rf := range p.Region("generator.(*generator).createSubMethod") {
			rf := rf
			ast.Inspect(rf.Decl, func(nn ast.Node) bool {
				cl, isCl := nn.(*ast.CompositeLit)
				if !isCl || !isNamed(info.TypeOf(cl), modPath+"/method", "Definition") {
					return true
				}
				v := compositeField(cl, "Name")
				id, isID := ast.Unparen(v).(*ast.Ident)
				if !isID {
					return true
				}
				def, _ := originExpr(p, rf, id, 0)
				call, isCall := ast.Unparen(def).(*ast.CallExpr)
				if !isCall {
					return true
				}
				fn, isFn := calleeObj(info, call).(*types.Func)
				sel, isSel := ast.Unparen(call.Fun).(*ast.SelectorExpr)
				if isFn && isSel && isNamerAlloc(fn) && fn.Name() == "Name" {
					if isFieldSel(info, sel.X, modPath+"/generator", "generator", "namer") {
						ok = true
					} else {
						why = "the generated function name is allocated from " + exprString(sel.X) + " instead of the file-level allocator g.namer: two converters/methods in one file could get the same helper name"
					}
				}
				return true
			})
		}
		if ok {
			r.OK("generator.(*generator).createSubMethod/top-level name", p.PosStr(fi.Decl.Pos()), "Definition.Name = g.namer.Name(…) (file-level allocator)")
		} else {
			r.Bad("generator.(*generator).createSubMethod/top-level name", p.PosStr(fi.Decl.Pos()), why)
		}
	} else {
		r.Unresolved("generator.(*generator).createSubMethod")
	}
	// the file-level allocator is the one stored with the file
	if fi := p.Func("generator.(*fileManager).Get"); fi != nil {
		info := fi.Pkg.TypesInfo
		ok := false
		p.inspectRegion("generator.(*fileManager).Get", func(_ *FuncInfo, nn ast.Node) bool {
			cl, isCl := nn.(*ast.CompositeLit)
			if isCl && isNamed(info.TypeOf(cl), modPath+"/generator", "managedFile") {
				if v := compositeField(cl, "Namer"); v != nil && callTo(info, v, modPath+"/namer", "", "New") != nil {
					ok = true
				}
			}
			return true
		})
		if ok {
			r.OK("generator.(*fileManager).Get/file namer", p.PosStr(fi.Decl.Pos()), "one allocator per output file, shared by all converters merged into it")
		} else {
			r.Bad("generator.(*fileManager).Get/file namer", p.PosStr(fi.Decl.Pos()), "no per-file allocator: converters merged into one file could emit the same helper name")
		}
	}
	// per-method allocator: buildMethod creates a fresh namer per method
	if fi := p.Func("generator.(*generator).buildMethod"); fi != nil {
		info := fi.Pkg.TypesInfo
		ok := false
		p.inspectRegion("generator.(*generator).buildMethod", func(_ *FuncInfo, nn ast.Node) bool {
			cl, isCl := nn.(*ast.CompositeLit)
			if isCl && isNamed(info.TypeOf(cl), modPath+"/builder", "MethodContext") {
				if v := compositeField(cl, "Namer"); v != nil && callTo(info, v, modPath+"/namer", "", "New") != nil {
					ok = true
				}
			}
			return true
		})
		if ok {
			r.OK("generator.(*generator).buildMethod/method namer", p.PosStr(fi.Decl.Pos()), "fresh allocator per generated method body")
		} else {
			r.Bad("generator.(*generator).buildMethod/method namer", p.PosStr(fi.Decl.Pos()), "a method body does not start with a fresh allocator (reserved names missing or names leak between methods)")
		}
	}
}

func idArgsOf(c *Chain, e ast.Expr) []ast.Expr {
	ch, ok := chainOf(c.Pkg.TypesInfo, e)
	if !ok || ch.Root != nil || len(ch.Links) != 1 || ch.Links[0].Name != "Id" {
		return nil
	}
	return []ast.Expr{ch.Links[0].Args[0]}
}

func keysOf(m map[string]bool) []string {
	var s []string
	for k := range m {
		s = append(s, k)
	}
	return s
}

// c01R2: allocator contract.
func c01R2(p *Prog, r *Report) { allocatorContractRule(p, r, "C01.R2") }

func allocatorContractRule(p *Prog, r *Report, id string) {
	r.Rule(id, "allocator contract (package namer): Register returns true only after finding the name absent from the lookup set and inserting it; Name and Index return only a name for which Register just returned true; Map returns only names it found absent and inserted", 4)
	// Register
	if fi, sf := needFunc(p, r, "namer.(*Namer).Register"); fi != nil {
		for _, b := range sf.Blocks {
			for _, in := range b.Instrs {
				ret, ok := in.(*ssa.Return)
				if !ok {
					continue
				}
				k, isConst := ret.Results[0].(*ssa.Const)
				if isConst && k.Value != nil && !constantBool(k) {
					continue
				}
				site := "namer.(*Namer).Register/return true"
				absent := dominatedByEdge(b, false, isLookupOK(sf.Params[1]))
				stored := false
				for d := b; d != nil; d = d.Idom() {
					for _, x := range d.Instrs {
						if mu, ok := x.(*ssa.MapUpdate); ok && mu.Key == ssa.Value(sf.Params[1]) {
							stored = true
						}
					}
				}
				if isConst && absent && stored {
					r.OK(site, p.PosStr(ret.Pos()), "name was absent and has been inserted")
				} else {
					r.Bad(site, p.PosStr(ret.Pos()), "Register can report a name as free without having checked and recorded it: two variables could get the same name")
				}
			}
		}
	}
	for _, key := range []string{"namer.(*Namer).Name", "namer.(*Namer).Index"} {
		fi, sf := needFunc(p, r, key)
		if fi == nil {
			continue
		}
		n := 0
		for _, b := range sf.Blocks {
			for _, in := range b.Instrs {
				ret, ok := in.(*ssa.Return)
				if !ok {
					continue
				}
				n++
				site := fmt.Sprintf("%s/return#%d", key, n)
				v := ret.Results[0]
				isReg := func(cond ssa.Value) bool {
					c, ok := cond.(*ssa.Call)
					if !ok || ssaCalleeObj(c) == nil || !isFunc(ssaCalleeObj(c), modPath+"/namer", "Namer", "Register") {
						return false
					}
					return c.Call.Args[1] == v
				}
				if dominatedByEdge(b, true, isReg) {
					r.OK(site, p.PosStr(ret.Pos()), "returns the very name for which Register returned true")
				} else {
					r.Bad(site, p.PosStr(ret.Pos()), "a name is handed out without Register(name) having succeeded for it on this path: it may already be in use (duplicate declaration in generated code)")
				}
			}
		}
		if n == 0 {
			r.Unresolved("returns of " + key)
		}
	}
	if fi, sf := needFunc(p, r, "namer.(*Namer).Map"); fi != nil {
		for _, b := range sf.Blocks {
			for _, in := range b.Instrs {
				ret, ok := in.(*ssa.Return)
				if !ok {
					continue
				}
				site := "namer.(*Namer).Map/return"
				okAll := true
				for _, v := range ret.Results {
					absent := dominatedByEdge(b, false, isLookupOK(v)) || negatedLookupDominates(b, v)
					stored := false
					for _, x := range b.Instrs {
						if mu, ok := x.(*ssa.MapUpdate); ok && mu.Key == v {
							stored = true
						}
					}
					if !absent || !stored {
						okAll = false
					}
				}
				if okAll {
					r.OK(site, p.PosStr(ret.Pos()), "both names were absent and have been inserted")
				} else {
					r.Bad(site, p.PosStr(ret.Pos()), "Map can hand out a key/value name without having checked and recorded it")
				}
			}
		}
	}
}

func constantBool(k *ssa.Const) bool {
	return k.Value != nil && k.Value.String() == "true"
}

// isLookupOK: cond is the ok result of a lookup with the given key.
func isLookupOK(key ssa.Value) func(ssa.Value) bool {
	return func(cond ssa.Value) bool {
		ex, ok := cond.(*ssa.Extract)
		if !ok || ex.Index != 1 {
			return false
		}
		lk, ok := ex.Tuple.(*ssa.Lookup)
		return ok && lk.CommaOk && lk.Index == key
	}
}

// negatedLookupDominates: `if !okKey && !okValue` — go/ssa branches on okKey with swapped targets.
func negatedLookupDominates(b *ssa.BasicBlock, key ssa.Value) bool {
	return dominatedByEdge(b, true, func(cond ssa.Value) bool {
		u, ok := cond.(*ssa.UnOp)
		return ok && u.Op == token.NOT && isLookupOK(key)(u.X)
	})
}
