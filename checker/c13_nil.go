package main

import (
	"fmt"
	"go/token"
	"go/types"

	"golang.org/x/tools/go/ssa"
)

// C13.R2e — a pointer-typed local that is nil on some path (SSA φ with a nil operand) must not
// be dereferenced without a test.  This is the class of D6 (functionCallSourceType in Struct.Assign).
//
// A dereferencing use (field address, load, call of a method with pointer receiver that itself
// dereferences, passing it to an own function that dereferences the parameter unconditionally) is
// accepted when
//   - it is dominated by the non-nil edge of a nil test of the φ itself, or of a *correlated* φ
//     (same block, nil on exactly the same incoming edges: "assigned together"), or
//   - it is dominated by the true edge of the very condition whose false edge delivers the nil
//     operand (the value was set under `if c {…}` and is used under `if c {…}` again), or
//   - the φ is the accumulator of a loop/append idiom (slices are not dereferenced by append).

func c13R2e(p *Prog, r *Report) {
	r.Rule("C13.R2e", "a pointer-typed local that is nil on some path (SSA φ with a nil operand) is dereferenced — directly or by an own callee that dereferences the parameter unconditionally — only under a nil test of itself or of a value assigned together with it, or under the same condition that guards its assignment", 1)
	nPhi, nUse := 0, 0
	for _, fi := range p.Funcs {
		sf := p.SSAFunc(fi)
		if sf == nil {
			continue
		}
		var visit func(f *ssa.Function)
		visit = func(f *ssa.Function) {
			for _, b := range f.Blocks {
				for _, in := range b.Instrs {
					ph, ok := in.(*ssa.Phi)
					if !ok {
						continue
					}
					if _, isPtr := ph.Type().Underlying().(*types.Pointer); !isPtr {
						continue
					}
					nilEdges := map[int]bool{}
					for i, e := range ph.Edges {
						if isNilConst(e) {
							nilEdges[i] = true
						}
					}
					if len(nilEdges) == 0 || len(nilEdges) == len(ph.Edges) {
						continue
					}
					nPhi++
					for _, use := range derefUses(p, ph) {
						nUse++
						site := fmt.Sprintf("%s/%s (%s)", fi.Name(), ph.Comment, ph.Name())
						if nilSafe(ph, nilEdges, use) {
							r.OK(site, p.PosStr(use.Pos()), "dereference under a nil test of the value (or of a value assigned together with it / the condition guarding its assignment)")
						} else {
							r.Bad(site, p.PosStr(use.Pos()), fmt.Sprintf("local %q is nil on some path and is dereferenced here without a test: goverter would crash with a nil pointer dereference instead of a diagnostic", ph.Comment))
						}
					}
				}
			}
			for _, a := range f.AnonFuncs {
				visit(a)
			}
		}
		visit(sf)
	}
	r.OK("own code/nil-able pointer locals", "", fmt.Sprintf("%d φ-values with a nil operand, %d dereferencing uses examined", nPhi, nUse))
}

// derefUses lists instructions that dereference v (directly, or by passing it to an own function
// that dereferences the corresponding parameter in its entry block without a test).
func derefUses(p *Prog, v ssa.Value) []ssa.Instruction {
	var out []ssa.Instruction
	seen := map[ssa.Value]bool{}
	var walk func(x ssa.Value, depth int)
	walk = func(x ssa.Value, depth int) {
		if seen[x] || depth > 3 || x.Referrers() == nil {
			return
		}
		seen[x] = true
		for _, ref := range *x.Referrers() {
			switch y := ref.(type) {
			case *ssa.FieldAddr:
				if y.X == x {
					out = append(out, y)
				}
			case *ssa.UnOp:
				if y.Op == token.MUL && y.X == x {
					out = append(out, y)
				}
			case *ssa.IndexAddr:
				if y.X == x {
					out = append(out, y)
				}
			case *ssa.Phi:
				// flows on: uses of the merged value count as well when the merge keeps the nil edge
				walk(y, depth+1)
			case ssa.CallInstruction:
				cc := y.Common()
				if cc.IsInvoke() {
					continue
				}
				callee := cc.StaticCallee()
				if callee == nil || !p.ssaIsOwn(callee) || len(callee.Blocks) == 0 {
					continue
				}
				for i, a := range cc.Args {
					if a == x && i < len(callee.Params) && derefsParamUnconditionally(callee, callee.Params[i]) {
						out = append(out, y.(ssa.Instruction))
					}
				}
			}
		}
	}
	walk(v, 0)
	return out
}

var derefMemo = map[*ssa.Parameter]int{}

// derefsParamUnconditionally: the parameter is dereferenced in a block that dominates every
// return of the callee, before any nil test of it.
func derefsParamUnconditionally(fn *ssa.Function, prm *ssa.Parameter) bool {
	if v, ok := derefMemo[prm]; ok {
		return v == 1
	}
	derefMemo[prm] = 2
	if prm.Referrers() == nil {
		return false
	}
	tested := false
	for _, ref := range *prm.Referrers() {
		if b, ok := ref.(*ssa.BinOp); ok && (b.Op == token.EQL || b.Op == token.NEQ) && (isNilConst(b.X) || isNilConst(b.Y)) {
			tested = true
		}
	}
	if tested {
		return false
	}
	for _, ref := range *prm.Referrers() {
		var blk *ssa.BasicBlock
		switch y := ref.(type) {
		case *ssa.FieldAddr:
			if y.X == ssa.Value(prm) {
				blk = y.Block()
			}
		case *ssa.UnOp:
			if y.Op == token.MUL && y.X == ssa.Value(prm) {
				blk = y.Block()
			}
		}
		if blk == nil {
			continue
		}
		// dominates all returns?
		all := true
		for _, b := range fn.Blocks {
			for _, in := range b.Instrs {
				if _, ok := in.(*ssa.Return); ok && !blk.Dominates(b) {
					all = false
				}
			}
		}
		if all {
			derefMemo[prm] = 1
			return true
		}
	}
	return false
}

func nilSafe(ph *ssa.Phi, nilEdges map[int]bool, use ssa.Instruction) bool {
	b := use.Block()
	// (1) nil test of the φ or of a correlated φ
	correlated := func(x ssa.Value) bool {
		if x == ssa.Value(ph) {
			return true
		}
		q, ok := x.(*ssa.Phi)
		if !ok || q.Block() != ph.Block() || len(q.Edges) != len(ph.Edges) {
			return false
		}
		for i, e := range q.Edges {
			if isNilConst(e) != nilEdges[i] {
				return false
			}
		}
		return true
	}
	isNE := func(want bool) func(ssa.Value) bool {
		return func(c ssa.Value) bool {
			ne, ok := isNilCheck(c, correlated)
			return ok && ne == want
		}
	}
	if dominatedByEdge(b, true, isNE(true)) || dominatedByEdge(b, false, isNE(false)) {
		return true
	}
	// short-circuit: `x != nil && f(x)` evaluates f(x) in a block whose only predecessor edge is the true edge
	// (covered by dominatedByEdge)
	// (2) the same condition that guards the assignment
	for i := range ph.Edges {
		if !nilEdges[i] {
			continue
		}
		pred := ph.Block().Preds[i]
		// find the If that decides between the nil edge and the assigning edge: walk up from pred
		for d := pred; d != nil; d = d.Idom() {
			ifi, ok := d.Instrs[len(d.Instrs)-1].(*ssa.If)
			if !ok {
				continue
			}
			// the nil edge leaves through one side of this If; a use dominated by the OTHER side of an If on an
			// equivalent condition is safe
			nilSide := -1
			if d.Succs[1] == ph.Block() || d.Succs[1].Dominates(pred) || d.Succs[1] == pred {
				nilSide = 1
			} else if d.Succs[0] == ph.Block() || d.Succs[0].Dominates(pred) || d.Succs[0] == pred {
				nilSide = 0
			}
			if nilSide < 0 {
				continue
			}
			same := func(c ssa.Value) bool {
				return c == ifi.Cond || sameAccessPath(c, ifi.Cond) || sameNilTest(c, ifi.Cond)
			}
			if dominatedByEdge(b, nilSide == 1, same) {
				return true
			}
			break
		}
	}
	return false
}

// sameNilTest: both are `x != nil` / `x == nil` over the same access path with the same operator.
func sameNilTest(a, b ssa.Value) bool {
	x, ok1 := a.(*ssa.BinOp)
	y, ok2 := b.(*ssa.BinOp)
	if !ok1 || !ok2 || x.Op != y.Op {
		return false
	}
	ax, ay := x.X, y.X
	if isNilConst(ax) {
		ax = x.Y
	}
	if isNilConst(ay) {
		ay = y.Y
	}
	return sameAccessPath(ax, ay)
}
