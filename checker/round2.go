package main

// Rules added after the second round of seeded changes (DESIGN §10, round 2).  Each is
// a structural necessary condition of the property it is registered under; the
// comment on every rule names the behaviour that breaks when it is violated.

import (
	"fmt"
	"go/ast"
	"go/constant"
	"go/token"
	"go/types"
	"strings"

	"golang.org/x/tools/go/ssa"
)

// ---------------------------------------------------------------------------
// shared AST helper: does a statement list leave its body "successfully" early?

// isErrNonNilCond: `err != nil` (any error-typed or *builder.Error operand).
func isErrNonNilCond(info *types.Info, e ast.Expr) bool {
	b, ok := ast.Unparen(e).(*ast.BinaryExpr)
	if !ok || b.Op != token.NEQ {
		return false
	}
	x, y := ast.Unparen(b.X), ast.Unparen(b.Y)
	if id, ok := y.(*ast.Ident); !ok || id.Name != "nil" {
		x, y = y, x
	}
	if id, ok := y.(*ast.Ident); !ok || id.Name != "nil" {
		return false
	}
	t := info.TypeOf(x)
	return t != nil && isErrLike(t)
}

// failingReturn: the last result of the return is a non-nil error expression
// (a call, or an identifier under `err != nil`, decided by the caller).
func failingReturn(info *types.Info, ret *ast.ReturnStmt) bool {
	if len(ret.Results) == 0 {
		return false
	}
	last := ast.Unparen(ret.Results[len(ret.Results)-1])
	if id, ok := last.(*ast.Ident); ok && id.Name == "nil" {
		return false
	}
	t := info.TypeOf(last)
	if t == nil {
		return false
	}
	if tup, ok := t.(*types.Tuple); ok && tup.Len() > 0 {
		t = tup.At(tup.Len() - 1).Type()
	}
	if !isErrLike(t) {
		return false
	}
	_, isCall := last.(*ast.CallExpr)
	return isCall
}

// earlyLeave returns the first node in the statements that lets control leave the
// enclosing body without failing: break/continue/goto (break only when it is not
// captured by an inner loop/switch of the inspected statements) or a return that is
// not a failing return.  Leaves under `if err != nil { … }` count as failing.
func earlyLeave(info *types.Info, stmts []ast.Stmt) ast.Node {
	var found ast.Node
	// breakCaptured: an enclosing loop/switch/select of the inspected statements takes an unlabelled break;
	// contCaptured: an enclosing loop of the inspected statements takes an unlabelled continue
	var visit func(n ast.Node, breakCaptured, contCaptured, failing bool)
	visit = func(n ast.Node, breakCaptured, contCaptured, failing bool) {
		if n == nil || found != nil {
			return
		}
		switch x := n.(type) {
		case *ast.FuncLit:
			return
		case *ast.BranchStmt:
			if failing {
				return
			}
			switch x.Tok {
			case token.BREAK:
				if !breakCaptured || x.Label != nil {
					found = x
				}
			case token.CONTINUE:
				if !contCaptured || x.Label != nil {
					found = x
				}
			case token.GOTO:
				found = x
			}
			return
		case *ast.ReturnStmt:
			if !failing && !failingReturn(info, x) {
				found = x
			}
			return
		case *ast.IfStmt:
			visit(x.Init, breakCaptured, contCaptured, failing)
			f := failing
			for _, cj := range conjuncts(x.Cond) {
				if isErrNonNilCond(info, cj) {
					f = true
				}
			}
			visit(x.Body, breakCaptured, contCaptured, f)
			visit(x.Else, breakCaptured, contCaptured, failing)
			return
		case *ast.ForStmt:
			visit(x.Body, true, true, failing)
			return
		case *ast.RangeStmt:
			visit(x.Body, true, true, failing)
			return
		case *ast.SwitchStmt:
			visit(x.Body, true, contCaptured, failing)
			return
		case *ast.TypeSwitchStmt:
			visit(x.Body, true, contCaptured, failing)
			return
		case *ast.SelectStmt:
			visit(x.Body, true, contCaptured, failing)
			return
		case *ast.BlockStmt:
			for _, s := range x.List {
				visit(s, breakCaptured, contCaptured, failing)
			}
			return
		case *ast.CaseClause:
			for _, s := range x.Body {
				visit(s, breakCaptured, contCaptured, failing)
			}
			return
		case *ast.CommClause:
			for _, s := range x.Body {
				visit(s, breakCaptured, contCaptured, failing)
			}
			return
		case *ast.LabeledStmt:
			visit(x.Stmt, breakCaptured, contCaptured, failing)
			return
		}
	}
	for _, s := range stmts {
		visit(s, false, false, false)
	}
	return found
}

// lhsStoresField: the assignment target names field `field` (m.X.field, f.field,
// m.X.field[k], m.Field(n).field).
func lhsStoresField(e ast.Expr, field string) bool {
	e = ast.Unparen(e)
	if ix, ok := e.(*ast.IndexExpr); ok {
		e = ast.Unparen(ix.X)
	}
	sel, ok := e.(*ast.SelectorExpr)
	return ok && sel.Sel.Name == field
}

func stmtStoresField(s ast.Stmt, field string) bool {
	as, ok := s.(*ast.AssignStmt)
	if !ok {
		return false
	}
	for _, l := range as.Lhs {
		if lhsStoresField(l, field) {
			return true
		}
	}
	return false
}

// unconditionalStore looks for a top-level statement of list that stores `field`
// (or a top-level range loop whose body does so at its top level) and checks that
// nothing before it leaves early.  It returns ("", pos) when fine.
func unconditionalStore(info *types.Info, list []ast.Stmt, field string) (string, token.Pos) {
	return unconditionalStoreD(nil, info, list, field, 0)
}

// helperCallIn: the statement is (an assignment from / an expression statement of /
// the init of an `if err := …; err != nil` around) a call of an own function.
func helperCallIn(p *Prog, info *types.Info, s ast.Stmt) *FuncInfo {
	var e ast.Expr
	switch x := s.(type) {
	case *ast.AssignStmt:
		if len(x.Rhs) == 1 {
			e = x.Rhs[0]
		}
	case *ast.ExprStmt:
		e = x.X
	case *ast.IfStmt:
		if as, ok := x.Init.(*ast.AssignStmt); ok && len(as.Rhs) == 1 {
			e = as.Rhs[0]
		}
	case *ast.ReturnStmt:
		if len(x.Results) == 1 {
			e = x.Results[0]
		}
	}
	if e == nil || p == nil {
		return nil
	}
	call, ok := ast.Unparen(e).(*ast.CallExpr)
	if !ok {
		return nil
	}
	f, ok := calleeObj(info, call).(*types.Func)
	if !ok || !p.IsOwn(f.Pkg()) {
		return nil
	}
	return p.Func(funcKey(f))
}

func unconditionalStoreD(p *Prog, info *types.Info, list []ast.Stmt, field string, depth int) (string, token.Pos) {
	for i, s := range list {
		if h := helperCallIn(p, info, s); h != nil && depth < 2 && h.Decl.Body != nil {
			if why, pos := unconditionalStoreD(p, h.Pkg.TypesInfo, h.Decl.Body.List, field, depth+1); why == "" {
				if n := earlyLeave(info, list[:i]); n != nil {
					return "the call that stores ." + field + " can be skipped: control leaves the arm before it", n.Pos()
				}
				return "", pos
			}
		}
		if stmtStoresField(s, field) {
			if n := earlyLeave(info, list[:i]); n != nil {
				return "the store to ." + field + " can be skipped: control leaves the arm before it", n.Pos()
			}
			return "", s.Pos()
		}
		if rs, ok := s.(*ast.RangeStmt); ok {
			for j, b := range rs.Body.List {
				if stmtStoresField(b, field) {
					if n := earlyLeave(info, list[:i]); n != nil {
						return "the loop storing ." + field + " can be skipped: control leaves the arm before it", n.Pos()
					}
					if n := earlyLeave(info, rs.Body.List[:j]); n != nil {
						return "the store to ." + field + " can be skipped for some elements: the loop body leaves before it", n.Pos()
					}
					return "", b.Pos()
				}
			}
		}
	}
	return "no top-level statement of the arm stores ." + field + " (it became conditional or was removed)", token.NoPos
}

// armStoreTable: setting key → field that the arm must store on every non-failing path.
var armStoreTable = map[string]map[string]string{
	"config.parseMethodLine": {
		"map":            "Source",
		"ignore":         "Ignore",
		"update":         "updateParam",
		"context":        "Context",
		"enum:map":       "Map",
		"enum:transform": "Transformers",
		"autoMap":        "AutoMap",
		"default":        "Constructor",
	},
	"config.parseConverterLine": {
		"name":           "Name",
		"output:raw":     "OutputRaw",
		"output:file":    "OutputFile",
		"output:format":  "OutputFormat",
		"struct:comment": "Comments",
		"enum:exclude":   "Excludes",
		"extend":         "Extend",
	},
}

// armStoresRule: a written setting is recorded.  In the arm of each listed key the
// designated field is stored by a top-level statement (or in a top-level loop over
// the listed names) and no break/continue/goto/successful return can skip it.  A
// setting that is accepted but not recorded is silently dropped.
func armStoresRule(p *Prog, r *Report, id string, fnKey string, keys ...string) {
	r.Rule(id, "a written setting is recorded: in "+fnKey+" the arm of each of "+strings.Join(keys, ", ")+" stores its field (table) by a top-level statement of the arm, or in a top-level loop over the listed names, and no break/continue/goto/non-failing return precedes the store — an accepted setting is never silently dropped", len(keys))
	fi := p.Func(fnKey)
	if fi == nil {
		r.Unresolved(fnKey)
		return
	}
	si := cmdSwitch(fi)
	if si == nil {
		r.Unresolved("command switch of " + fnKey)
		return
	}
	info := fi.Pkg.TypesInfo
	for _, k := range keys {
		field := armStoreTable[fnKey][k]
		site := fmt.Sprintf("%s/arm %q stores .%s", fnKey, k, field)
		cc := si.labels[k]
		if cc == nil {
			r.Bad(site, p.PosStr(si.sw.Pos()), "the arm no longer exists")
			continue
		}
		why, pos := unconditionalStoreD(p, info, cc.Body, field, 0)
		if why == "" {
			r.OK(site, p.PosStr(pos), "stored on every non-failing path of the arm")
		} else {
			if pos == token.NoPos {
				pos = cc.Pos()
			}
			r.Bad(site, p.PosStr(pos), why)
		}
	}
}

func allArmKeys(fnKey string) []string {
	return mapKeys(armStoreTable[fnKey])
}

// ---------------------------------------------------------------------------
// loops that must visit every element

// loopCompleteRule: the named function's loops over `what` have no break/continue/
// goto/non-failing return in their bodies — every element is processed.
type loopSpec struct {
	fn   string
	desc string
	// over selects the loops: the range expression's type string must contain it ("" = all range loops)
	over string
}

func loopCompleteRule(p *Prog, r *Report, id, text string, specs []loopSpec) {
	r.Rule(id, text, len(specs))
	for _, sp := range specs {
		fi := p.Func(sp.fn)
		if fi == nil {
			r.Unresolved(sp.fn)
			continue
		}
		info := fi.Pkg.TypesInfo
		n := 0
		// loops selected by element type are looked for in the anchor and its private helpers; untyped ones in
		// the anchor, and in its helpers only when the anchor itself no longer loops
		scope := []*FuncInfo{fi}
		if sp.over != "" || !hasLoop(fi.Decl) {
			scope = p.Region(sp.fn)
		}
		for _, rf := range scope {
			ast.Inspect(rf.Decl, func(nd ast.Node) bool {
				var body *ast.BlockStmt
				switch x := nd.(type) {
				case *ast.RangeStmt:
					if sp.over != "" {
						t := info.TypeOf(x.X)
						if t == nil || !strings.Contains(t.String(), sp.over) {
							return true
						}
					}
					body = x.Body
				case *ast.ForStmt:
					if sp.over != "" {
						return true
					}
					body = x.Body
				default:
					return true
				}
				rs := nd
				n++
				site := fmt.Sprintf("%s/loop#%d over %s", sp.fn, n, sp.desc)
				if lv := earlyLeave(info, body.List); lv != nil {
					r.Bad(site, p.PosStr(lv.Pos()), "the loop body can leave early without an error ("+nodeKind(lv)+"): some "+sp.desc+" would be skipped")
				} else {
					r.OK(site, p.PosStr(rs.Pos()), "no break/continue/goto/successful return: every element is processed")
				}
				return true
			})
		}
		if n == 0 {
			r.Bad(sp.fn+"/range over "+sp.desc, p.PosStr(fi.Decl.Pos()), "no loop over "+sp.desc+" found")
		}
	}
}

func hasLoop(n ast.Node) bool {
	found := false
	ast.Inspect(n, func(nd ast.Node) bool {
		switch nd.(type) {
		case *ast.RangeStmt, *ast.ForStmt:
			found = true
		}
		return !found
	})
	return found
}

func nodeKind(n ast.Node) string {
	switch x := n.(type) {
	case *ast.BranchStmt:
		return x.Tok.String()
	case *ast.ReturnStmt:
		return "return"
	}
	return fmt.Sprintf("%T", n)
}

// ---------------------------------------------------------------------------
// C16.R6: goverter never looks at files itself

const controlFSRead = `package config

import (
	"go/parser"
	"go/token"
	"os"
)

func zzControlPeek(path string) string {
	if _, err := os.Stat(path); err != nil {
		return ""
	}
	f, err := parser.ParseFile(token.NewFileSet(), path, nil, parser.PackageClauseOnly)
	if err != nil {
		return ""
	}
	return f.Name.Name
}
`

var fsReaders = map[string]bool{
	"os.Open": true, "os.OpenFile": true, "os.ReadFile": true, "os.Stat": true, "os.Lstat": true, "os.ReadDir": true, "os.Readlink": true, "os.DirFS": true, "os.OpenRoot": true,
	"io/ioutil.ReadFile": true, "io/ioutil.ReadDir": true, "io/ioutil.ReadAll": false,
	"go/parser.ParseFile": true, "go/parser.ParseDir": true, "go/build.ImportDir": true, "go/build.Import": true,
	"path/filepath.Walk": true, "path/filepath.WalkDir": true, "path/filepath.Glob": true, "path/filepath.EvalSymlinks": true,
	"io/fs.ReadFile": true, "io/fs.ReadDir": true, "io/fs.WalkDir": true, "io/fs.Stat": true, "io/fs.Glob": true,
	"syscall.Open": true, "syscall.Stat": true, "syscall.Lstat": true,
}

// noFsReadRule: the only way files reach goverter is packages.Load (which honours the
// build tags, C16.R4).  A direct read of a path — in particular of the previous
// output — would make a stale or broken generated file able to block regeneration.
func noFsReadRule(p *Prog, r *Report, id string) {
	r.Rule(id, "own code reads no file itself: no os.Open/OpenFile/ReadFile/Stat/Lstat/ReadDir, go/parser.ParseFile/ParseDir, filepath.Walk/Glob, io/fs readers — sources are seen only through packages.Load under the build tags (R4), so the previous output, excluded by its constraint, can never be inspected", 1)
	n, bad := 0, 0
	for _, cs := range p.Calls() {
		fn, ok := cs.Callee.(*types.Func)
		if !ok {
			continue
		}
		n++
		name := mutatorName(fn)
		if !fsReaders[name] {
			continue
		}
		bad++
		encl := "<package init>"
		if cs.Encl != nil {
			encl = cs.Encl.Name()
		}
		r.Bad(encl+"/"+name, p.PosStr(cs.Call.Pos()), "own code reads the file system directly: a stale or broken file (e.g. the previous output, which packages.Load skips) can now influence or abort the run")
	}
	for _, pkg := range p.Own {
		for id2, o := range pkg.TypesInfo.Uses {
			fn, ok := o.(*types.Func)
			if !ok || !fsReaders[mutatorName(fn)] {
				continue
			}
			isCall := false
			for _, cs := range p.Calls() {
				if cs.Call.Fun.Pos() <= id2.Pos() && id2.End() <= cs.Call.Fun.End() {
					isCall = true
					break
				}
			}
			if !isCall {
				bad++
				r.Bad("value:"+mutatorName(fn), p.PosStr(id2.Pos()), "file-system reader used as a function value")
			}
		}
	}
	if bad == 0 {
		r.OK("own code/file-system readers", "", fmt.Sprintf("none among %d resolved call sites", n))
	}
	r.Analysed["call_sites_scanned_for_fs_reads"] = n
}

// ---------------------------------------------------------------------------
// C07.R6: a method whose ReturnError flag flips is always rebuilt

// returnErrorDirtyRule: in generator.ReturnError every `check.ReturnError = true` is
// followed on all paths (before the next iteration or the return) by
// `check.Dirty = true`.  Statements emitted into the body before the flip were built
// for a method without error result; without the rebuild they stay unrepaired.
func returnErrorDirtyRule(p *Prog, r *Report, id string) {
	r.Rule(id, "in generator.ReturnError every store `check.ReturnError = true` is followed, on every path to the next iteration or the return, by `check.Dirty = true`: the method whose signature just changed — including the one being built — is regenerated, so calls emitted before the flip are repaired", 1)
	fi, _ := needFunc(p, r, "generator.(*generator).ReturnError")
	if fi == nil {
		return
	}
	isFieldStoreTrue := func(in ssa.Instruction, field string) bool {
		st, ok := in.(*ssa.Store)
		if !ok {
			return false
		}
		fa, ok := st.Addr.(*ssa.FieldAddr)
		if !ok || fieldName(fa) != field {
			return false
		}
		k, ok := st.Val.(*ssa.Const)
		return ok && constantBool(k)
	}
	n := 0
	markAll := markAllHelpers(p)
	var region []*ssa.Function
	for _, rf := range p.Region("generator.(*generator).ReturnError") {
		if sf := p.SSAFunc(rf); sf != nil {
			region = append(region, sf)
		}
	}
	forAllInstrs(region, func(in ssa.Instruction) {
		if !isFieldStoreTrue(in, "ReturnError") {
			return
		}
		n++
		site := fmt.Sprintf("generator.(*generator).ReturnError/flip#%d", n)
		flip := in
		g := existsPath(in.Block(), instrIndex(in)+1,
			func(x ssa.Instruction) bool { return isReturn(x) || x == flip },
			func(x ssa.Instruction) bool {
				if isFieldStoreTrue(x, "Dirty") {
					return true
				}
				// a helper that marks every method dirty covers this one too
				c, ok := x.(ssa.CallInstruction)
				return ok && ssaCalleeObj(c) != nil && markAll[ssaCalleeObj(c).Origin()]
			})
		if g != nil {
			r.Bad(site, p.PosStr(in.Pos()), "after ReturnError is set to true a path reaches "+p.PosStr(g.Pos())+" without setting Dirty: the method keeps a body that was built for the old signature (unchecked call, missing error result)")
		} else {
			r.OK(site, p.PosStr(in.Pos()), "Dirty = true on every path after the flip")
		}
	})
	if n == 0 {
		r.Bad("generator.(*generator).ReturnError/flip", p.PosStr(fi.Decl.Pos()), "no store `ReturnError = true` found")
	}
}

// ---------------------------------------------------------------------------
// C06.R7 / C07.R7: IndexIDs stay valid

// indexStableRule: method.Index hands out positions (IndexID.idx) into Exact[sig];
// generator.ReturnError, createSubMethod and the dirty loop resolve them later with
// ByID.  Positions stay valid only if entries are appended and never moved.
func indexStableRule(p *Prog, r *Report, id string) {
	r.Rule(id, "IndexIDs stay valid: in package method every assignment to Index.Exact[k] is `append(Index.Exact[k], entry)` with the same key, nothing deletes from, sorts, copies into or index-assigns a slice taken from Exact, and Register returns idx = len(Exact[k])-1 of the slice it just appended to — ByID(id) keeps denoting the method the id was issued for", 2)
	pkg := p.Pkg("method")
	if pkg == nil {
		r.Unresolved("package method")
		return
	}
	info := pkg.TypesInfo
	isExactSel := func(e ast.Expr) bool {
		sel, ok := ast.Unparen(e).(*ast.SelectorExpr)
		if !ok || sel.Sel.Name != "Exact" {
			return false
		}
		n := namedOf(derefType(info.TypeOf(sel.X)))
		return n != nil && n.Obj().Name() == "Index"
	}
	isExactIndex := func(e ast.Expr) (*ast.IndexExpr, bool) {
		ix, ok := ast.Unparen(e).(*ast.IndexExpr)
		if !ok || !isExactSel(ix.X) {
			return nil, false
		}
		return ix, true
	}
	stores := 0
	for _, f := range pkg.Syntax {
		for _, d := range f.Decls {
			fd, ok := d.(*ast.FuncDecl)
			if !ok || fd.Body == nil {
				continue
			}
			fname := fd.Name.Name
			// locals aliasing a slice of Exact (and the key they were read under, when assigned once)
			alias := map[types.Object]bool{}
			aliasKey := map[types.Object]string{}
			nAssign := map[types.Object]int{}
			ast.Inspect(fd.Body, func(n ast.Node) bool {
				as, ok := n.(*ast.AssignStmt)
				if !ok {
					return true
				}
				for i, l := range as.Lhs {
					if id0, ok := l.(*ast.Ident); ok {
						if o := info.ObjectOf(id0); o != nil {
							nAssign[o]++
						}
					}
					if i < len(as.Rhs) {
						if ix, ok := isExactIndex(as.Rhs[i]); ok {
							if id0, ok := l.(*ast.Ident); ok {
								if o := info.ObjectOf(id0); o != nil {
									alias[o] = true
									aliasKey[o] = exprString(ix.X) + "[" + exprString(ix.Index) + "]"
								}
							}
						}
					}
				}
				return true
			})
			ast.Inspect(fd.Body, func(n ast.Node) bool {
				switch x := n.(type) {
				case *ast.AssignStmt:
					for i, l := range x.Lhs {
						if ix, ok := isExactIndex(l); ok {
							stores++
							site := fmt.Sprintf("method.%s/Exact[%s] =", fname, exprString(ix.Index))
							okForm := false
							if i < len(x.Rhs) {
								if call, ok := ast.Unparen(x.Rhs[i]).(*ast.CallExpr); ok {
									if b, ok := calleeObj(info, call).(*types.Builtin); ok && b.Name() == "append" && len(call.Args) == 2 && !call.Ellipsis.IsValid() {
										if ix2, ok := isExactIndex(call.Args[0]); ok && exprString(ix2.Index) == exprString(ix.Index) && exprString(ix2.X) == exprString(ix.X) {
											okForm = true
										}
										// append(entries, e) where entries := Exact[k] (same key, assigned once)
										if id0, ok := ast.Unparen(call.Args[0]).(*ast.Ident); ok {
											if o := info.ObjectOf(id0); o != nil && nAssign[o] == 1 && aliasKey[o] == exprString(ix.X)+"["+exprString(ix.Index)+"]" {
												okForm = true
											}
										}
									}
								}
							}
							if okForm {
								r.OK(site, p.PosStr(x.Pos()), "append of one entry to the same key")
							} else {
								r.Bad(site, p.PosStr(x.Pos()), "entries of a signature are stored by something other than append(Exact[k], entry): earlier IndexIDs may now denote a different method")
							}
							continue
						}
						// element assignment through Exact[..][i] or an alias
						if ix, ok := ast.Unparen(l).(*ast.IndexExpr); ok {
							if _, ok := isExactIndex(ix.X); ok {
								if why := overrideOnlyOnIdlessIndex(p, fd, info); why == "" {
									r.OK(fmt.Sprintf("method.%s/Exact[..][..] =", fname), p.PosStr(x.Pos()), "in-place override in a function that returns no IndexID and is only called on the extend index (Index[method.Definition]), whose positions are never handed out")
								} else {
									r.Bad(fmt.Sprintf("method.%s/Exact[..][..] =", fname), p.PosStr(x.Pos()), "an existing index entry is overwritten: "+why)
								}
							} else if id0 := rootIdent(ix.X); id0 != nil && alias[info.ObjectOf(id0)] {
								if why := overrideOnlyOnIdlessIndex(p, fd, info); why == "" {
									r.OK(fmt.Sprintf("method.%s/Exact[..][..] =", fname), p.PosStr(x.Pos()), "in-place override (through a local alias) in a function that returns no IndexID and is only called on the extend index")
								} else {
									r.Bad(fmt.Sprintf("method.%s/alias[..] =", fname), p.PosStr(x.Pos()), "an entry of a slice taken from Exact is overwritten in place: "+why)
								}
							}
						}
					}
				case *ast.CallExpr:
					if b, ok := calleeObj(info, x).(*types.Builtin); ok && len(x.Args) > 0 {
						switch b.Name() {
						case "delete", "clear", "copy":
							a0 := ast.Unparen(x.Args[0])
							if s, ok := a0.(*ast.SliceExpr); ok {
								a0 = ast.Unparen(s.X)
							}
							_, isIx := isExactIndex(a0)
							id0 := rootIdent(a0)
							if isExactSel(a0) || isIx || (id0 != nil && alias[info.ObjectOf(id0)]) {
								r.Bad(fmt.Sprintf("method.%s/%s(Exact…)", fname, b.Name()), p.PosStr(x.Pos()), b.Name()+" on the index entries moves or removes methods: earlier IndexIDs go stale")
							}
						}
					}
					if f, ok := calleeObj(info, x).(*types.Func); ok && (objPkgPath(f) == "sort" || objPkgPath(f) == "slices") && len(x.Args) > 0 {
						a0 := ast.Unparen(x.Args[0])
						_, isIx := isExactIndex(a0)
						id0 := rootIdent(a0)
						if isIx || (id0 != nil && alias[info.ObjectOf(id0)]) {
							switch f.Name() {
							case "Sort", "SortFunc", "SortStableFunc", "Slice", "SliceStable", "Stable", "Reverse", "Insert", "Delete":
								r.Bad(fmt.Sprintf("method.%s/%s.%s(Exact…)", fname, objPkgPath(f), f.Name()), p.PosStr(x.Pos()), "reordering the index entries invalidates earlier IndexIDs")
							}
						}
					}
				}
				return true
			})
		}
	}
	if stores == 0 {
		r.Bad("method.Index/Exact stores", "", "no store into Index.Exact found")
	}
	// Register's returned position
	if fi := p.Func("method.(*Index).Register"); fi != nil {
		okIdx := false
		ast.Inspect(fi.Decl, func(n ast.Node) bool {
			cl, ok := n.(*ast.CompositeLit)
			if !ok || !isNamed(info.TypeOf(cl), modPath+"/method", "IndexID") {
				return true
			}
			if v := compositeField(cl, "idx"); v != nil {
				// len(l.Exact[k]) - 1
				if b, ok := ast.Unparen(v).(*ast.BinaryExpr); ok && b.Op == token.SUB {
					if one, ok := constInt(info, b.Y); ok && one == 1 {
						if call, ok := ast.Unparen(b.X).(*ast.CallExpr); ok && len(call.Args) == 1 {
							if bi, ok := calleeObj(info, call).(*types.Builtin); ok && bi.Name() == "len" {
								if _, ok := isExactIndex(call.Args[0]); ok {
									okIdx = true
								}
							}
						}
					}
				}
			}
			return true
		})
		if okIdx {
			r.OK("method.(*Index).Register/idx", p.PosStr(fi.Decl.Pos()), "idx = len(Exact[sig]) - 1 after the append")
		} else {
			r.Bad("method.(*Index).Register/idx", p.PosStr(fi.Decl.Pos()), "the IndexID handed out is not the position of the entry just appended")
		}
	} else {
		r.Unresolved("method.(*Index).Register")
	}
}

// overrideOnlyOnIdlessIndex: fd returns no IndexID and every call of it in own code
// has a receiver of type *Index[method.Definition] (the extend index).
func overrideOnlyOnIdlessIndex(p *Prog, fd *ast.FuncDecl, info *types.Info) string {
	if fd.Type.Results != nil {
		for _, f := range fd.Type.Results.List {
			if isNamed(info.TypeOf(f.Type), modPath+"/method", "IndexID") {
				return "the function also hands out an IndexID"
			}
		}
	}
	obj, _ := info.Defs[fd.Name].(*types.Func)
	if obj == nil {
		return "function object not found"
	}
	n := 0
	for _, cs := range p.Calls() {
		f, ok := cs.Callee.(*types.Func)
		if !ok || f.Origin() != obj.Origin() {
			continue
		}
		n++
		sel, ok := ast.Unparen(cs.Call.Fun).(*ast.SelectorExpr)
		if !ok || cs.Encl == nil {
			return "called through a value"
		}
		rt := namedOf(derefType(cs.Encl.Pkg.TypesInfo.TypeOf(sel.X)))
		if rt == nil || rt.TypeArgs() == nil || rt.TypeArgs().Len() != 1 || !isNamed(rt.TypeArgs().At(0), modPath+"/method", "Definition") {
			return "it is called on an index whose positions are handed out as IndexIDs (" + cs.Encl.Name() + ")"
		}
	}
	if n == 0 {
		return ""
	}
	return ""
}

func derefType(t types.Type) types.Type {
	if t == nil {
		return nil
	}
	if pt, ok := t.Underlying().(*types.Pointer); ok {
		return pt.Elem()
	}
	return t
}

// ---------------------------------------------------------------------------
// C06.R8: index errors are never dropped

// calleeErrRule applies the error discipline (errflow.go) to every call, anywhere in
// own code, whose callee satisfies pred.
func calleeErrRule(p *Prog, r *Report, id, text string, floor int, pred func(*types.Func) bool) {
	r.Rule(id, text, floor)
	n := 0
	for _, fi := range p.Funcs {
		sf := p.SSAFunc(fi)
		if sf == nil {
			continue
		}
		cnt := map[string]int{}
		for _, ec := range errorCalls(sf) {
			if ec.calle == nil || !pred(ec.calle.Origin()) {
				continue
			}
			n++
			name := calleeName(ec.call)
			cnt[name]++
			site := fmt.Sprintf("%s/call %s#%d", fi.Name(), name, cnt[name])
			pos := p.PosStr(ec.call.Pos())
			akey := p.anchorFor(fi, fnPartsOf(mapKeys(auditedErrDrops))) + "|" + name
			if why, ok, broken := auditedDrop(p, akey); ok {
				if broken != "" {
					r.Bad(site, pos, "audited drop whose sub-fact no longer holds: "+broken)
					continue
				}
				r.OK(site, pos, "audited drop: "+why)
				r.Tables = append(r.Tables, id+" audited drop "+akey+" — "+why)
				continue
			}
			if len(ec.vals) < ec.nErr {
				r.Bad(site, pos, "the error result of "+name+" is discarded: `a function exists but its context is unavailable` would be treated as `no function`, and generation continues with another rule instead of failing")
				continue
			}
			ok, how := true, ""
			for _, v := range ec.vals {
				vd := checkErrValue(ec, v)
				if !vd.ok {
					r.Bad(site, pos, vd.how)
					ok = false
					break
				}
				how = vd.how
			}
			if ok {
				r.OK(site, pos, how)
			}
		}
	}
	r.Analysed[id+"_calls"] = n
}

// ---------------------------------------------------------------------------
// C01.R5: one emitted function per interface method

func methodSetRule(p *Prog, r *Report, id string) {
	r.Rule(id, "one function per interface method: config.parseMethods enumerates the interface's complete method set ((*types.Interface).NumMethods/Method — embedded interfaces included, never the Explicit* accessors) and appends a Method for each without early leave; setupGenerator registers every config method (Register or RegisterUpdate) without skipping; appendGenerated emits one declaration per generated method in each of the three output formats — otherwise the generated struct does not implement the interface", 4)
	// (a) parseMethods
	if fi := p.Func("config.parseMethods"); fi != nil {
		info := fi.Pkg.TypesInfo
		uses := map[string]token.Pos{}
		ast.Inspect(fi.Decl, func(n ast.Node) bool {
			call, ok := n.(*ast.CallExpr)
			if !ok {
				return true
			}
			if f, ok := calleeObj(info, call).(*types.Func); ok && isFunc(f, "go/types", "Interface", f.Name()) {
				uses[f.Name()] = call.Pos()
			}
			return true
		})
		site := "config.parseMethods/method set"
		bad := ""
		for name, pos := range uses {
			switch name {
			case "NumMethods", "Method", "Methods", "Underlying", "String":
			default:
				bad = p.PosStr(pos) + ": the interface is enumerated with (*types.Interface)." + name + ": methods of embedded interfaces would get no implementation"
			}
		}
		_, hasNum := uses["NumMethods"]
		_, hasM := uses["Method"]
		_, hasIt := uses["Methods"]
		switch {
		case bad != "":
			r.Bad(site, p.PosStr(fi.Decl.Pos()), bad)
		case !(hasNum && hasM) && !hasIt:
			r.Bad(site, p.PosStr(fi.Decl.Pos()), "parseMethods no longer walks interf.NumMethods()/Method(i)")
		default:
			r.OK(site, p.PosStr(fi.Decl.Pos()), "NumMethods/Method: the complete method set")
		}
		// the append inside that loop
		done := false
		ast.Inspect(fi.Decl, func(n ast.Node) bool {
			var body *ast.BlockStmt
			switch x := n.(type) {
			case *ast.ForStmt:
				body = x.Body
			case *ast.RangeStmt:
				body = x.Body
			}
			if body == nil || done {
				return true
			}
			mentions := false
			ast.Inspect(body, func(m ast.Node) bool {
				if call, ok := m.(*ast.CallExpr); ok {
					if f, ok := calleeObj(info, call).(*types.Func); ok && isFunc(f, "go/types", "Interface", "Method") {
						mentions = true
					}
				}
				return true
			})
			// the iterator form has the call in the range header
			if rs, ok := n.(*ast.RangeStmt); ok {
				if call, ok := ast.Unparen(rs.X).(*ast.CallExpr); ok {
					if f, ok := calleeObj(info, call).(*types.Func); ok && isFunc(f, "go/types", "Interface", "Methods") {
						mentions = true
					}
				}
			}
			if !mentions {
				return true
			}
			done = true
			why, pos := unconditionalStore(info, body.List, "Methods")
			if why == "" {
				r.OK("config.parseMethods/append", p.PosStr(pos), "every interface method is appended to c.Methods (or parsing fails)")
			} else {
				if pos == token.NoPos {
					pos = body.Pos()
				}
				r.Bad("config.parseMethods/append", p.PosStr(pos), why+": an interface method would get no implementation")
			}
			return false
		})
		if !done {
			r.Bad("config.parseMethods/append", p.PosStr(fi.Decl.Pos()), "loop over the interface methods not found")
		}
	} else {
		r.Unresolved("config.parseMethods")
	}
	// (b) setupGenerator
	if fi := p.Func("generator.setupGenerator"); fi != nil {
		info := fi.Pkg.TypesInfo
		found := false
		ast.Inspect(fi.Decl, func(n ast.Node) bool {
			rs, ok := n.(*ast.RangeStmt)
			if !ok {
				return true
			}
			sel, ok := ast.Unparen(rs.X).(*ast.SelectorExpr)
			if !ok || sel.Sel.Name != "Methods" {
				return true
			}
			found = true
			site := "generator.setupGenerator/range Methods"
			if lv := earlyLeave(info, rs.Body.List); lv != nil {
				r.Bad(site, p.PosStr(lv.Pos()), "a config method can be skipped ("+nodeKind(lv)+"): it would get no generated function")
				return false
			}
			nReg := 0
			var countReg func(n ast.Node, depth int)
			countReg = func(n ast.Node, depth int) {
				ast.Inspect(n, func(m ast.Node) bool {
					if call, ok := m.(*ast.CallExpr); ok {
						if f, ok := calleeObj(info, call).(*types.Func); ok {
							if (f.Name() == "Register" || f.Name() == "RegisterUpdate") && objPkgPath(f) == modPath+"/method" {
								nReg++
							} else if depth < 2 && objPkgPath(f) == modPath+"/generator" && !f.Exported() {
								// a private helper the loop body delegates to
								if h := p.Func(funcKey(f)); h != nil && h.Decl.Body != nil && p.inRegion("generator.setupGenerator", h) {
									countReg(h.Decl.Body, depth+1)
								}
							}
						}
					}
					return true
				})
			}
			countReg(rs.Body, 0)
			if nReg >= 1 {
				r.OK(site, p.PosStr(rs.Pos()), "every method is registered in the lookup index")
			} else {
				r.Bad(site, p.PosStr(rs.Pos()), "methods are no longer registered in the lookup index")
			}
			return false
		})
		if !found {
			r.Bad("generator.setupGenerator/range Methods", p.PosStr(fi.Decl.Pos()), "loop over converter.Methods not found")
		}
	} else {
		r.Unresolved("generator.setupGenerator")
	}
	// (c) appendGenerated
	if fi := p.Func("generator.(*generator).appendGenerated"); fi != nil {
		info := fi.Pkg.TypesInfo
		// Format universe
		var formats []string
		if cp := p.Pkg("config"); cp != nil {
			sc := cp.Types.Scope()
			for _, n := range sc.Names() {
				if c, ok := sc.Lookup(n).(*types.Const); ok && isNamed(c.Type(), modPath+"/config", "Format") {
					formats = append(formats, n)
				}
			}
		}
		found := false
		ast.Inspect(fi.Decl, func(n ast.Node) bool {
			rs, ok := n.(*ast.RangeStmt)
			if !ok || found {
				return true
			}
			var sw *ast.SwitchStmt
			for _, s := range rs.Body.List {
				if x, ok := s.(*ast.SwitchStmt); ok && x.Tag != nil && isNamed(info.TypeOf(x.Tag), modPath+"/config", "Format") {
					sw = x
				}
			}
			if sw == nil {
				return true
			}
			found = true
			site := "generator.(*generator).appendGenerated/per method"
			if lv := earlyLeave(info, rs.Body.List); lv != nil {
				r.Bad(site, p.PosStr(lv.Pos()), "a generated method can be skipped ("+nodeKind(lv)+")")
				return false
			}
			covered := map[string]bool{}
			badArm := ""
			for _, c := range sw.Body.List {
				cc := c.(*ast.CaseClause)
				for _, e := range cc.List {
					if id0 := selOrIdent(e); id0 != nil {
						if k, ok := info.ObjectOf(id0).(*types.Const); ok {
							covered[k.Name()] = true
						}
					}
				}
				// every path of the arm appends to a slice
				nApp := 0
				ast.Inspect(cc, func(m ast.Node) bool {
					if call, ok := m.(*ast.CallExpr); ok {
						if b, ok := calleeObj(info, call).(*types.Builtin); ok && b.Name() == "append" {
							nApp++
						}
					}
					return true
				})
				if nApp == 0 && len(cc.List) > 0 {
					badArm = p.PosStr(cc.Pos()) + ": this format's arm emits nothing for the method"
				}
			}
			missing := ""
			for _, f := range formats {
				if !covered[f] {
					missing = f
				}
			}
			switch {
			case len(formats) == 0:
				r.Unresolved("config.Format constants")
			case missing != "":
				r.Bad(site, p.PosStr(sw.Pos()), "output format "+missing+" has no arm: its methods would not be emitted")
			case badArm != "":
				r.Bad(site, p.PosStr(sw.Pos()), badArm)
			default:
				r.OK(site, p.PosStr(sw.Pos()), fmt.Sprintf("all %d formats emit a declaration per method", len(formats)))
			}
			return false
		})
		if !found {
			r.Bad("generator.(*generator).appendGenerated/per method", p.PosStr(fi.Decl.Pos()), "loop with the switch over the output format not found")
		}
	} else {
		r.Unresolved("generator.(*generator).appendGenerated")
	}
}

func selOrIdent(e ast.Expr) *ast.Ident {
	switch x := ast.Unparen(e).(type) {
	case *ast.Ident:
		return x
	case *ast.SelectorExpr:
		return x.Sel
	}
	return nil
}

// ---------------------------------------------------------------------------
// C01.R6: unqualified calls only where the callee is declared in the output file

// qualMethodRule: generator.qualMethod may leave out the package qualifier only for
// a method goverter itself declares in the output file: `c.Name` for a generated
// method of a struct converter, `Name` for a generated function of the function
// format.  In the variables format the user's variables are `Generated` too but live
// in their own package — they need jen.Qual (which jennifer prints unqualified
// exactly when the file is in that package).
func qualMethodRule(p *Prog, r *Report, id string) {
	r.Rule(id, "generator.qualMethod returns an unqualified callee only under m.Generated together with the matching output format (this.Name ⇔ FormatStruct, Name ⇔ FormatFunction); every other callee is jen.Qual(m.Package, m.Name) or the custom call — in the variables format a generated output file in another package must still qualify the user's variables", 3)
	fi := p.Func("generator.(*generator).qualMethod")
	if fi == nil {
		r.Unresolved("generator.(*generator).qualMethod")
		return
	}
	info := fi.Pkg.TypesInfo
	n := 0
	walkStack(fi.Decl.Body, func(nd ast.Node, stack []ast.Node) bool {
		ret, ok := nd.(*ast.ReturnStmt)
		if !ok || len(ret.Results) != 1 {
			return true
		}
		n++
		site := fmt.Sprintf("generator.(*generator).qualMethod/return#%d", n)
		pos := p.PosStr(ret.Pos())
		ch, ok := chainOf(info, ret.Results[0])
		if !ok || len(ch.Links) == 0 || strings.Contains(exprString(ret.Results[0]), ".CustomCall") {
			// m.CustomCall.Clone() and the like
			if strings.Contains(exprString(ret.Results[0]), ".CustomCall") {
				r.OK(site, pos, "the custom call expression")
			} else {
				r.Bad(site, pos, "callee expression "+exprString(ret.Results[0])+" is not a recognised form")
			}
			return true
		}
		names := ch.Names()
		if names[0] == "Qual" {
			l := ch.Links[0]
			if len(l.Args) == 2 && strings.HasSuffix(exprString(l.Args[0]), ".Package") && strings.HasSuffix(exprString(l.Args[1]), ".Name") {
				r.OK(site, pos, "jen.Qual(m.Package, m.Name)")
			} else {
				r.Bad(site, pos, "qualified callee is not Qual(m.Package, m.Name)")
			}
			return true
		}
		if names[0] != "Id" {
			r.Bad(site, pos, "callee built with jen."+names[0])
			return true
		}
		want := "FormatFunction"
		if ch.Has("Dot") != nil {
			want = "FormatStruct"
		}
		hasGen, hasFmt := false, false
		for _, g := range guardsOf(stack, ret) {
			if g.Neg {
				continue
			}
			if g.Tag != nil && g.Cond != nil {
				if strings.HasSuffix(exprString(g.Tag), ".OutputFormat") {
					if id0 := selOrIdent(g.Cond); id0 != nil && id0.Name == want {
						// a case clause with several formats does not establish one of them
						if cc, ok := g.Node.(*ast.CaseClause); ok && len(cc.List) == 1 {
							hasFmt = true
						}
					}
				}
				continue
			}
			if g.Cond == nil {
				continue
			}
			for _, cj := range conjuncts(g.Cond) {
				cj = ast.Unparen(cj)
				if sel, ok := cj.(*ast.SelectorExpr); ok && sel.Sel.Name == "Generated" {
					hasGen = true
				}
				if b, ok := cj.(*ast.BinaryExpr); ok && b.Op == token.EQL {
					x, y := ast.Unparen(b.X), ast.Unparen(b.Y)
					if !strings.HasSuffix(exprString(x), ".OutputFormat") {
						x, y = y, x
					}
					if strings.HasSuffix(exprString(x), ".OutputFormat") {
						if id0 := selOrIdent(y); id0 != nil && id0.Name == want {
							hasFmt = true
						}
					}
				}
			}
		}
		if hasGen && hasFmt {
			r.OK(site, pos, "unqualified only for a generated method under "+want)
		} else {
			r.Bad(site, pos, fmt.Sprintf("an unqualified callee (%s) is returned without both m.Generated (%v) and OutputFormat == config.%s (%v): with goverter:variables and an output file in another package the call would name an undefined identifier", exprString(ret.Results[0]), hasGen, want, hasFmt))
		}
		return true
	})
	if n == 0 {
		r.Bad("generator.(*generator).qualMethod/returns", p.PosStr(fi.Decl.Pos()), "no return found")
	}
}

// ---------------------------------------------------------------------------
// C05.R6: ignoreUnexported skips exactly the unexported fields

func ignoreUnexportedRule(p *Prog, r *Report, id string) {
	r.Rule(id, "goverter:ignoreUnexported leaves every unexported target field unassigned: the field loop of Struct.Assign contains a `continue` whose only conditions are ctx.Conf.IgnoreUnexported and !<field>.Exported(), and everything that can end the iteration before it is itself a `continue` — the skip is decided by the field being unexported, not by whether the output package could access it", 1)
	fi := p.Func("builder.(*Struct).Assign")
	if fi == nil {
		r.Unresolved("builder.(*Struct).Assign")
		return
	}
	info := fi.Pkg.TypesInfo
	var loop *ast.ForStmt
	ast.Inspect(fi.Decl, func(n ast.Node) bool {
		if fs, ok := n.(*ast.ForStmt); ok && loop == nil && fs.Cond != nil && strings.Contains(exprString(fs.Cond), "NumFields") {
			loop = fs
		}
		return true
	})
	if loop == nil {
		r.Unresolved("field loop of builder.(*Struct).Assign")
		return
	}
	site := "builder.(*Struct).Assign/ignoreUnexported skip"
	// atoms of a guard, helpers expanded one level
	atomsOf := func(e ast.Expr) []string {
		var out []string
		for _, cj := range conjuncts(e) {
			if ret, _, subst := p.helperReturn(info, cj); ret != nil {
				for _, c2 := range conjuncts(ret) {
					out = append(out, substString(info, c2, subst))
				}
				continue
			}
			out = append(out, exprString(ast.Unparen(cj)))
		}
		return out
	}
	found, why := false, "no `continue` under IgnoreUnexported && !field.Exported() in the field loop"
	walkStack(loop.Body, func(n ast.Node, stack []ast.Node) bool {
		br, ok := n.(*ast.BranchStmt)
		if !ok || br.Tok != token.CONTINUE || found {
			return true
		}
		var atoms []string
		okNeg, negWhy := true, ""
		for _, g := range guardsOf(stack, br) {
			if g.Cond == nil || g.Tag != nil {
				atoms = append(atoms, "<switch>")
				continue
			}
			if g.Neg {
				ifs, isIf := g.Node.(*ast.IfStmt)
				if !isIf || len(ifs.Body.List) == 0 {
					okNeg = false
					continue
				}
				last, isBr := ifs.Body.List[len(ifs.Body.List)-1].(*ast.BranchStmt)
				if !isBr || last.Tok != token.CONTINUE {
					okNeg = false
					negWhy = p.PosStr(ifs.Pos()) + ": an early exit that is not a `continue` precedes the ignoreUnexported skip: an unexported field could be reported instead of skipped"
				}
				continue
			}
			// `a || (flag && !exported)`: the other disjuncts only add reasons to skip
			if ds := disjuncts(g.Cond); len(ds) > 1 {
				matched := false
				for _, d := range ds {
					as := atomsOf(d)
					if len(as) == 2 && ((strings.HasSuffix(as[0], ".IgnoreUnexported") && strings.HasPrefix(as[1], "!") && strings.HasSuffix(as[1], ".Exported()")) ||
						(strings.HasSuffix(as[1], ".IgnoreUnexported") && strings.HasPrefix(as[0], "!") && strings.HasSuffix(as[0], ".Exported()"))) {
						atoms = append(atoms, as...)
						matched = true
					}
				}
				if matched {
					continue
				}
			}
			atoms = append(atoms, atomsOf(g.Cond)...)
		}
		hasFlag, hasExp, other := false, false, ""
		for _, a := range atoms {
			switch {
			case strings.HasSuffix(a, ".IgnoreUnexported"):
				hasFlag = true
			case strings.HasPrefix(a, "!") && strings.HasSuffix(a, ".Exported()"):
				hasExp = true
			default:
				other = a
			}
		}
		if hasFlag && hasExp && other == "" && okNeg {
			found = true
			r.OK(site, p.PosStr(br.Pos()), "continue under exactly IgnoreUnexported ∧ !field.Exported()")
		} else if hasFlag && other != "" {
			why = p.PosStr(br.Pos()) + ": the ignoreUnexported skip additionally depends on `" + other + "`: some unexported fields would not be skipped although the setting is on"
		} else if hasFlag && !hasExp {
			why = p.PosStr(br.Pos()) + ": the ignoreUnexported skip does not test !field.Exported()"
		} else if hasFlag && !okNeg {
			why = negWhy
		}
		return true
	})
	if !found {
		r.Bad(site, p.PosStr(loop.Pos()), why)
	}
}

// ---------------------------------------------------------------------------
// C06.R9: the whole-source pointer is passed only for the identity mapping

func parentPointerRule(p *Prog, r *Report, id string) {
	r.Rule(id, "`map SRC TGT | FUNC` applies FUNC to the value found at SRC: in Struct.Assign the original source pointer (sourceID.ParentPointer) replaces the mapped value as FUNC's argument only under fieldMapping.Source == \".\" (the identity mapping) — for any other SRC the argument stays the mapped field", 1)
	fi := p.Func("builder.(*Struct).Assign")
	if fi == nil {
		r.Unresolved("builder.(*Struct).Assign")
		return
	}
	info := fi.Pkg.TypesInfo
	n := 0
	for _, f := range p.Region("builder.(*Struct).Assign") {
		finfo := f.Pkg.TypesInfo
		walkStack(f.Decl.Body, func(nd ast.Node, stack []ast.Node) bool {
			sel, ok := nd.(*ast.SelectorExpr)
			if !ok || sel.Sel.Name != "ParentPointer" {
				return true
			}
			// reads inside conditions (`!= nil` tests) are not uses
			isUse := false
			for i := len(stack) - 1; i >= 0; i-- {
				switch x := stack[i].(type) {
				case *ast.AssignStmt:
					for _, rhs := range x.Rhs {
						if rhs.Pos() <= sel.Pos() && sel.End() <= rhs.End() {
							isUse = true
						}
					}
				case *ast.CallExpr:
					isUse = true
				case *ast.ReturnStmt:
					isUse = true
				case *ast.IfStmt:
					if x.Cond != nil && x.Cond.Pos() <= sel.Pos() && sel.End() <= x.Cond.End() {
						isUse = false
						i = -1
					}
				}
			}
			if !isUse {
				return true
			}
			n++
			site := fmt.Sprintf("%s/ParentPointer use#%d", f.Name(), n)
			identity := p.guardedSite(f, stack, sel, func(gi *types.Info, g Guard) bool {
				if g.Neg || g.Cond == nil || g.Tag != nil {
					return false
				}
				for _, cj := range conjuncts(g.Cond) {
					b, ok := ast.Unparen(cj).(*ast.BinaryExpr)
					if !ok || b.Op != token.EQL {
						continue
					}
					x, y := b.X, b.Y
					if s, ok := constString(gi, x); ok && s == "." {
						x, y = y, x
					}
					if s, ok := constString(gi, y); ok && s == "." {
						if sx, ok := ast.Unparen(x).(*ast.SelectorExpr); ok && sx.Sel.Name == "Source" {
							return true
						}
					}
				}
				return false
			}, 2)
			_ = finfo
			if identity {
				r.OK(site, p.PosStr(sel.Pos()), "only under fieldMapping.Source == \".\"")
			} else {
				r.Bad(site, p.PosStr(sel.Pos()), "the original source pointer is handed to the custom function without the mapping being the identity `.`: `map Path Target | FUNC` would call FUNC with the whole source instead of the value at Path")
			}
			return true
		})
	}
	_ = info
	if n == 0 {
		r.Note("builder.(*Struct).Assign/ParentPointer", p.PosStr(fi.Decl.Pos()), "ParentPointer is not used: nothing to check")
	}
}

// ---------------------------------------------------------------------------
// C11.R7: the update flag reaches the nested assignment; C11.R8: FUNC runs unguarded

// returnsReceiver: all returns of the method are its receiver identifier.
func returnsReceiver(fi *FuncInfo) bool {
	if fi == nil || fi.Decl.Recv == nil || len(fi.Decl.Recv.List) != 1 || len(fi.Decl.Recv.List[0].Names) != 1 {
		return false
	}
	recv := fi.Pkg.TypesInfo.ObjectOf(fi.Decl.Recv.List[0].Names[0])
	n, ok := 0, true
	ast.Inspect(fi.Decl.Body, func(nd ast.Node) bool {
		if _, isLit := nd.(*ast.FuncLit); isLit {
			return false
		}
		if ret, isRet := nd.(*ast.ReturnStmt); isRet {
			n++
			if len(ret.Results) != 1 {
				ok = false
			} else if id0, isID := ast.Unparen(ret.Results[0]).(*ast.Ident); !isID || fi.Pkg.TypesInfo.ObjectOf(id0) != recv {
				ok = false
			}
		}
		return true
	})
	return ok && n > 0
}

// updateFlagSet: the *AssignTo expression e evaluates to a value on which IsUpdate
// was called and that no later call replaced by a fresh AssignTo.
func updateFlagSet(p *Prog, info *types.Info, e ast.Expr) bool {
	call, ok := ast.Unparen(e).(*ast.CallExpr)
	if !ok {
		return false
	}
	sel, ok := ast.Unparen(call.Fun).(*ast.SelectorExpr)
	if !ok {
		return false
	}
	f, ok := calleeObj(info, call).(*types.Func)
	if !ok {
		return false
	}
	if isFunc(f, modPath+"/builder", "AssignTo", "IsUpdate") {
		return true
	}
	if fi := p.Func(funcKey(f)); fi != nil && returnsReceiver(fi) {
		return updateFlagSet(p, info, sel.X)
	}
	return false
}

func updateFlagRule(p *Prog, r *Report, id string) {
	r.Rule(id, "where a pointer builder applies the source on top of FUNC's result, the AssignTo handed to gen.Assign still carries Update = true: the argument is `….IsUpdate()` possibly followed only by methods that return their receiver (MustAssign), never by one that builds a fresh AssignTo (WithIndex-style) — otherwise the zero-value guards of update:ignoreZeroValueField are lost for the fields behind the pointer", 2)
	n := 0
	for _, k := range []string{"builder.(*Pointer).Build", "builder.(*SourcePointer).Build", "builder.(*TargetPointer).Build"} {
		for _, fi := range p.Region(k) {
			info := fi.Pkg.TypesInfo
			ast.Inspect(fi.Decl, func(nd ast.Node) bool {
				call, ok := nd.(*ast.CallExpr)
				if !ok || len(call.Args) < 2 {
					return true
				}
				sel, ok := ast.Unparen(call.Fun).(*ast.SelectorExpr)
				if !ok || sel.Sel.Name != "Assign" {
					return true
				}
				arg := call.Args[1]
				if t := info.TypeOf(arg); t == nil || !isNamed(derefType(t), modPath+"/builder", "AssignTo") {
					return true
				}
				if !strings.Contains(exprString(arg), "IsUpdate") {
					return true
				}
				n++
				site := fmt.Sprintf("%s/update assignment#%d", fi.Name(), n)
				if updateFlagSet(p, info, arg) {
					r.OK(site, p.PosStr(arg.Pos()), "IsUpdate() is the last flag-changing step")
				} else {
					r.Bad(site, p.PosStr(arg.Pos()), "`"+short(exprString(arg), 80)+"`: after IsUpdate() a method that builds a new AssignTo drops the Update flag: zero source fields would overwrite FUNC's values despite update:ignoreZeroValueField")
				}
				return true
			})
		}
	}
	if n == 0 {
		r.Bad("builder pointer rules/update assignment", "", "no gen.Assign(ctx, ….IsUpdate(), …) found in Pointer/SourcePointer/TargetPointer.Build")
	}
}

func constructorUnguardedRule(p *Prog, r *Report, id string) {
	r.Rule(id, "a nil source pointer returns FUNC's result unchanged: builder.buildTargetVar emits the constructor call unconditionally — it emits no If/For/Switch of its own, so the statements obtained from gen.CallMethod reach the caller unwrapped", 1)
	fi := p.Func("builder.buildTargetVar")
	if fi == nil {
		r.Unresolved("builder.buildTargetVar")
		return
	}
	bad := ""
	n := 0
	for _, c := range p.Chains() {
		if c.Encl == nil || !p.inRegion("builder.buildTargetVar", c.Encl) {
			continue
		}
		n++
		for _, l := range c.Links {
			switch l.Name {
			case "If", "For", "Switch", "Else", "Func", "Return", "Select":
				bad = p.PosStr(l.Call.Pos()) + ": buildTargetVar emits a `" + strings.ToLower(l.Name) + "` around/next to the constructor call: FUNC would no longer run (or its result be kept) for every input, e.g. a nil source"
			}
		}
	}
	if bad != "" {
		r.Bad("builder.buildTargetVar/unguarded", p.PosStr(fi.Decl.Pos()), bad)
	} else {
		r.OK("builder.buildTargetVar/unguarded", p.PosStr(fi.Decl.Pos()), fmt.Sprintf("%d emission chains, none with control flow", n))
	}
}

// ---------------------------------------------------------------------------
// C12.R10: only canonical values are accepted

func parseEnumCanonicalRule(p *Prog, r *Report, id string) {
	r.Rule(id, "parse.Enum accepts only the canonical spelling and returns the canonical value: every non-error return yields \"\" or the element of `values` that compared equal (==) to the written word — never the written word itself, no case folding or trimming; parse.Bool is `val == \"\" || val == \"yes\"` over Enum(true, rest, \"yes\", \"no\")", 2)
	fi := p.Func("config/parse.Enum")
	if fi == nil {
		r.Unresolved("config/parse.Enum")
		return
	}
	info := fi.Pkg.TypesInfo
	sig := fi.Obj.Type().(*types.Signature)
	valuesParam := sig.Params().At(sig.Params().Len() - 1)
	// loose comparisons anywhere in the helper region
	bad := ""
	for _, f := range p.Region("config/parse.Enum") {
		ast.Inspect(f.Decl, func(nd ast.Node) bool {
			if call, ok := nd.(*ast.CallExpr); ok {
				if fn, ok := calleeObj(f.Pkg.TypesInfo, call).(*types.Func); ok && objPkgPath(fn) == "strings" {
					switch fn.Name() {
					case "EqualFold", "ToLower", "ToUpper", "Title", "ToTitle", "HasPrefix", "HasSuffix", "Contains", "TrimLeft", "TrimRight", "Trim", "TrimPrefix", "TrimSuffix":
						bad = p.PosStr(call.Pos()) + ": strings." + fn.Name() + " in the value comparison: other spellings than the documented one would be accepted"
					}
				}
			}
			return true
		})
	}
	nOK := 0
	walkStack(fi.Decl.Body, func(nd ast.Node, stack []ast.Node) bool {
		ret, ok := nd.(*ast.ReturnStmt)
		if !ok || len(ret.Results) != 2 {
			return true
		}
		if id0, ok := ast.Unparen(ret.Results[1]).(*ast.Ident); !ok || id0.Name != "nil" {
			return true // error return
		}
		v := ast.Unparen(ret.Results[0])
		if s, ok := constString(info, v); ok && s == "" {
			nOK++
			return true
		}
		// must be the range value variable over `values`
		id0, ok := v.(*ast.Ident)
		isElem := false
		if ok {
			obj := info.ObjectOf(id0)
			for _, s := range stack {
				if rs, ok := s.(*ast.RangeStmt); ok {
					if vid, ok := rs.Value.(*ast.Ident); ok && info.ObjectOf(vid) == obj {
						if xid, ok := ast.Unparen(rs.X).(*ast.Ident); ok && info.ObjectOf(xid) == valuesParam {
							isElem = true
						}
					}
				}
			}
		}
		if !isElem {
			bad = p.PosStr(ret.Pos()) + ": a success return yields `" + exprString(v) + "`, which is not \"\" or the matching element of the allowed values: the written spelling would leak into the configuration (e.g. `Yes` accepted and then read as `no`)"
			return true
		}
		// guarded by an == comparison involving that element
		eq := false
		for _, g := range guardsOf(stack, ret) {
			if g.Neg || g.Cond == nil {
				continue
			}
			for _, cj := range conjuncts(g.Cond) {
				if b, ok := ast.Unparen(cj).(*ast.BinaryExpr); ok && b.Op == token.EQL && (refersTo(info, b.X, info.ObjectOf(id0)) || refersTo(info, b.Y, info.ObjectOf(id0))) {
					eq = true
				}
			}
		}
		if !eq {
			bad = p.PosStr(ret.Pos()) + ": the allowed value is returned without an == comparison with the written word"
			return true
		}
		nOK++
		return true
	})
	if bad != "" || nOK == 0 {
		// the search may have been moved into a helper: decide on the values that reach the success returns
		if why := enumCanonicalSSA(p, fi); why == "" {
			bad, nOK = "", 1
		} else if bad == "" {
			bad = why
		}
	}
	switch {
	case bad != "":
		r.Bad("config/parse.Enum/canonical", p.PosStr(fi.Decl.Pos()), bad)
	case nOK == 0:
		r.Bad("config/parse.Enum/canonical", p.PosStr(fi.Decl.Pos()), "no success return recognised")
	default:
		r.OK("config/parse.Enum/canonical", p.PosStr(fi.Decl.Pos()), fmt.Sprintf("%d success returns: \"\" or the ==-matched element of values", nOK))
	}
	// parse.Bool
	if bf := p.Func("config/parse.Bool"); bf != nil {
		binfo := bf.Pkg.TypesInfo
		okB := false
		ast.Inspect(bf.Decl, func(nd ast.Node) bool {
			ret, ok := nd.(*ast.ReturnStmt)
			if !ok || len(ret.Results) != 2 {
				return true
			}
			ds := disjuncts(ret.Results[0])
			seen := map[string]bool{}
			for _, d := range ds {
				if b, ok := ast.Unparen(d).(*ast.BinaryExpr); ok && b.Op == token.EQL {
					if s, ok := constString(binfo, b.Y); ok {
						seen[s] = true
					} else if s, ok := constString(binfo, b.X); ok {
						seen[s] = true
					}
				}
			}
			if len(ds) == 2 && seen[""] && seen["yes"] {
				okB = true
			}
			return true
		})
		var enumArgs []string
		for _, c := range findCalls(binfo, bf.Decl, modPath+"/config/parse", "", "Enum") {
			for _, a := range c.Args {
				if s, ok := constString(binfo, a); ok {
					enumArgs = append(enumArgs, s)
				} else if isParamIdent(binfo, bf, a, 0) {
					enumArgs = append(enumArgs, "<param>")
				} else {
					enumArgs = append(enumArgs, exprString(a))
				}
			}
		}
		if !okB {
			okB = boolTableEval(p, bf)
		}
		if okB && strings.Join(enumArgs, ",") == "true,<param>,yes,no" {
			r.OK("config/parse.Bool", p.PosStr(bf.Decl.Pos()), "Enum(true, remaining, \"yes\", \"no\"); true ⇔ \"\" or \"yes\"")
		} else {
			r.Bad("config/parse.Bool", p.PosStr(bf.Decl.Pos()), fmt.Sprintf("parse.Bool is no longer `val == \"\" || val == \"yes\"` over Enum(true, remaining, \"yes\", \"no\") (found Enum(%s))", strings.Join(enumArgs, ",")))
		}
	} else {
		r.Unresolved("config/parse.Bool")
	}
}

// ---------------------------------------------------------------------------
// C14.R5 / C14.R6: per-use options really are per use

// parseOptsOutputPkgRule: the accessibility of a custom function is judged against
// the package the generated code will live in.  Every method.ParseOpts built in
// package config takes OutputPackagePath from the converter's OutputPackagePath field
// (a plain read, no fallback to the converter's own package).
func parseOptsOutputPkgRule(p *Prog, r *Report, id string) {
	r.Rule(id, "every method.ParseOpts literal in package config that is used for custom functions sets OutputPackagePath to the unmodified <converter>.OutputPackagePath: an unexported function is accepted only if the output really is generated into its package (no fallback to the converter's own package)", 3)
	n := 0
	for _, fi := range p.Funcs {
		if relPkg(fi.Pkg.PkgPath) != "config" {
			continue
		}
		info := fi.Pkg.TypesInfo
		cnt := 0
		ast.Inspect(fi.Decl, func(nd ast.Node) bool {
			cl, ok := nd.(*ast.CompositeLit)
			if !ok || !isNamed(info.TypeOf(cl), modPath+"/method", "ParseOpts") {
				return true
			}
			v := compositeField(cl, "OutputPackagePath")
			if v == nil {
				return true
			}
			n++
			cnt++
			site := fmt.Sprintf("%s/ParseOpts#%d.OutputPackagePath", fi.Name(), cnt)
			okSel := false
			if sel, ok := ast.Unparen(v).(*ast.SelectorExpr); ok && sel.Sel.Name == "OutputPackagePath" {
				if nm := namedOf(derefType(info.TypeOf(sel.X))); nm != nil && nm.Obj().Name() == "Converter" {
					okSel = true
				}
			}
			// a local that is only ever assigned that selector
			if id0, ok := ast.Unparen(v).(*ast.Ident); ok && !okSel {
				if obj := info.ObjectOf(id0); obj != nil {
					nAssign, allSel := 0, true
					ast.Inspect(fi.Decl, func(m ast.Node) bool {
						as, ok := m.(*ast.AssignStmt)
						if !ok {
							return true
						}
						for i, l := range as.Lhs {
							if lid, ok := l.(*ast.Ident); ok && info.ObjectOf(lid) == obj && i < len(as.Rhs) {
								nAssign++
								s, ok := ast.Unparen(as.Rhs[i]).(*ast.SelectorExpr)
								if !ok || s.Sel.Name != "OutputPackagePath" {
									allSel = false
								}
							}
						}
						return true
					})
					okSel = nAssign > 0 && allSel
				}
			}
			if okSel {
				r.OK(site, p.PosStr(v.Pos()), "<converter>.OutputPackagePath")
			} else {
				r.Bad(site, p.PosStr(v.Pos()), "OutputPackagePath of the parse options is `"+exprString(v)+"`, not the converter's OutputPackagePath: the accessibility check would be made against a package the code is not generated into (an unexported function is accepted and the output does not compile)")
			}
			return true
		})
	}
	// later assignments to the field
	for _, fi := range p.Funcs {
		if relPkg(fi.Pkg.PkgPath) != "config" {
			continue
		}
		info := fi.Pkg.TypesInfo
		cnt := 0
		ast.Inspect(fi.Decl, func(nd ast.Node) bool {
			as, ok := nd.(*ast.AssignStmt)
			if !ok {
				return true
			}
			for i, l := range as.Lhs {
				sel, ok := ast.Unparen(l).(*ast.SelectorExpr)
				if !ok || sel.Sel.Name != "OutputPackagePath" || !isNamed(derefType(info.TypeOf(sel.X)), modPath+"/method", "ParseOpts") {
					continue
				}
				cnt++
				site := fmt.Sprintf("%s/ParseOpts.OutputPackagePath =#%d", fi.Name(), cnt)
				okSel := false
				if i < len(as.Rhs) {
					if rs, ok := ast.Unparen(as.Rhs[i]).(*ast.SelectorExpr); ok && rs.Sel.Name == "OutputPackagePath" {
						if nm := namedOf(derefType(info.TypeOf(rs.X))); nm != nil && nm.Obj().Name() == "Converter" {
							okSel = true
						}
					}
				}
				if okSel {
					r.OK(site, p.PosStr(as.Pos()), "<converter>.OutputPackagePath")
				} else {
					r.Bad(site, p.PosStr(as.Pos()), "the OutputPackagePath of the parse options is overwritten with something other than the converter's OutputPackagePath: the accessibility check would be made against a package the code is not generated into")
				}
			}
			return true
		})
	}
	if n == 0 {
		r.Bad("config/ParseOpts literals", "", "no method.ParseOpts literal with OutputPackagePath found in package config")
	}
}

// noMemoParseRule: method.Parse validates per use (Params, AllowTypeParams,
// OutputPackagePath differ between extend / map|FUNC / default).  Its result must
// not be remembered across uses.
func noMemoParseRule(p *Prog, r *Report, id string) {
	r.Rule(id, "the result of method.Parse is never memoised: in own code the *method.Definition returned by method.Parse flows only to the caller (return, local, append to the caller's result) — never into a map or a struct field that outlives the call — because the options differ per use (a function accepted for `default` must still be rejected for `extend`)", 3)
	n := 0
	for _, fi := range p.Funcs {
		sf := p.SSAFunc(fi)
		if sf == nil {
			continue
		}
		cnt := 0
		allInstrs(sf, true, func(in ssa.Instruction) {
			c, ok := in.(*ssa.Call)
			if !ok || ssaCalleeObj(c) == nil || !isFunc(ssaCalleeObj(c), modPath+"/method", "", "Parse") {
				return
			}
			n++
			cnt++
			site := fmt.Sprintf("%s/method.Parse#%d", fi.Name(), cnt)
			bad := ""
			seen := map[ssa.Value]bool{}
			var follow func(v ssa.Value, depth int)
			follow = func(v ssa.Value, depth int) {
				if v == nil || seen[v] || depth > 6 || v.Referrers() == nil {
					return
				}
				seen[v] = true
				for _, ref := range *v.Referrers() {
					switch y := ref.(type) {
					case *ssa.Extract:
						if y.Index == 0 {
							follow(y, depth+1)
						}
					case *ssa.Phi:
						follow(y, depth+1)
					case *ssa.MapUpdate:
						if y.Value == v {
							bad = p.PosStr(y.Pos()) + ": stored into a map"
						}
					case *ssa.Store:
						if y.Val != v {
							continue
						}
						switch a := y.Addr.(type) {
						case *ssa.Alloc:
							// local cell: follow its loads
							if a.Referrers() != nil {
								for _, rr := range *a.Referrers() {
									if ld, ok := rr.(*ssa.UnOp); ok && ld.Op == token.MUL {
										follow(ld, depth+1)
									}
								}
							}
						case *ssa.FieldAddr:
							// fields of the definition itself or of a freshly built value are fine; a field of the receiver/parameter is a cache
							if rp := rootParam(a.X); rp != nil {
								if nm := namedOf(derefType(rp.Type())); nm != nil && nm.Obj().Name() == "PackageLoader" {
									bad = p.PosStr(y.Pos()) + ": stored into a field of the package loader"
								}
							}
						case *ssa.IndexAddr:
							// element of a slice being built: fine
						}
					case *ssa.MakeInterface:
						follow(y, depth+1)
					}
				}
			}
			follow(c, 0)
			if bad != "" {
				r.Bad(site, p.PosStr(c.Pos()), "the parsed definition is remembered ("+bad+"): a later use with stricter options (extend after default/map) would be served from the cache without its checks")
			} else {
				r.OK(site, p.PosStr(c.Pos()), "result flows to the caller only")
			}
		})
	}
	if n == 0 {
		r.Bad("own code/method.Parse calls", "", "no call of method.Parse found")
	}
}

// ---------------------------------------------------------------------------
// C15.R7: the output package of every converter is pre-loaded

func getPackagesRule(p *Prog, r *Report, id string) {
	r.Rule(id, "config.getPackages registers, inside its loop over raw.Converters, the lines of the converter AND the global (-g) lines with that converter's own FileName/PackagePath: a relative output:file given globally is resolved per declaring file, so the existing package at each converter's output location is loaded and its name can be reused", 2)
	fi := p.Func("config.getPackages")
	if fi == nil {
		r.Unresolved("config.getPackages")
		return
	}
	info := fi.Pkg.TypesInfo
	var loop *ast.RangeStmt
	ast.Inspect(fi.Decl, func(nd ast.Node) bool {
		if rs, ok := nd.(*ast.RangeStmt); ok && loop == nil {
			if sel, ok := ast.Unparen(rs.X).(*ast.SelectorExpr); ok && sel.Sel.Name == "Converters" {
				loop = rs
			}
		}
		return true
	})
	if loop == nil {
		r.Unresolved("loop over raw.Converters in config.getPackages")
		return
	}
	var loopVar types.Object
	if id0, ok := loop.Value.(*ast.Ident); ok {
		loopVar = info.ObjectOf(id0)
	}
	want := map[string]bool{"Converter": false, "Global": false}
	for _, call := range findCalls(info, fi.Decl, modPath+"/config", "", "registerConverterLines") {
		if len(call.Args) == 0 {
			continue
		}
		last := ast.Unparen(call.Args[len(call.Args)-1])
		sel, ok := last.(*ast.SelectorExpr)
		if !ok {
			continue
		}
		kind := sel.Sel.Name
		if _, known := want[kind]; !known {
			continue
		}
		site := "config.getPackages/registerConverterLines(…, ." + kind + ")"
		inLoop := loop.Body.Pos() <= call.Pos() && call.End() <= loop.Body.End()
		usesVar := false
		for _, a := range call.Args[:len(call.Args)-1] {
			if loopVar != nil && refersTo(info, a, loopVar) {
				usesVar = true
			}
		}
		if inLoop && usesVar && earlyLeave(info, stmtsBefore(loop.Body.List, call)) == nil {
			want[kind] = true
			r.OK(site, p.PosStr(call.Pos()), "per converter, with its FileName/PackagePath")
		} else {
			want[kind] = true
			r.Bad(site, p.PosStr(call.Pos()), "these lines are not registered once per converter with that converter's file and package: for the other converters the existing package at the output location is not loaded and the package clause falls back to the directory name")
		}
	}
	for k, seen := range want {
		if !seen {
			r.Bad("config.getPackages/registerConverterLines(…, ."+k+")", p.PosStr(fi.Decl.Pos()), "the "+k+" lines are no longer registered for pre-loading")
		}
	}
}

// stmtsBefore returns the statements of list that end before n starts.
func stmtsBefore(list []ast.Stmt, n ast.Node) []ast.Stmt {
	var out []ast.Stmt
	for _, s := range list {
		if s.End() <= n.Pos() {
			out = append(out, s)
		}
	}
	return out
}

// ---------------------------------------------------------------------------
// D18: callers of a method whose signature changes are regenerated

func forAllInstrs(fns []*ssa.Function, f func(ssa.Instruction)) {
	for _, fn := range fns {
		allInstrs(fn, false, f)
	}
}

// markAllHelpers returns the functions of package generator whose body marks every
// method of the lookup index dirty: a range over getGenMethods()/GetAll() whose body
// stores Dirty = true without an early leave.
func markAllHelpers(p *Prog) map[*types.Func]bool {
	out := map[*types.Func]bool{}
	for _, fi := range p.Funcs {
		if relPkg(fi.Pkg.PkgPath) != "generator" || fi.Decl.Body == nil {
			continue
		}
		info := fi.Pkg.TypesInfo
		ast.Inspect(fi.Decl.Body, func(n ast.Node) bool {
			rs, ok := n.(*ast.RangeStmt)
			if !ok {
				return true
			}
			call, ok := ast.Unparen(rs.X).(*ast.CallExpr)
			if !ok {
				return true
			}
			f, ok := calleeObj(info, call).(*types.Func)
			if !ok || (f.Name() != "getGenMethods" && f.Name() != "GetAll") {
				return true
			}
			if earlyLeave(info, rs.Body.List) != nil {
				return true
			}
			for _, s := range rs.Body.List {
				if as, ok := s.(*ast.AssignStmt); ok && len(as.Lhs) == 1 && len(as.Rhs) == 1 && lhsStoresField(as.Lhs[0], "Dirty") {
					if id0, ok := ast.Unparen(as.Rhs[0]).(*ast.Ident); ok && id0.Name == "true" {
						out[fi.Obj] = true
					}
				}
			}
			return true
		})
	}
	return out
}

// callersRebuiltRule: generated methods call each other through a signature lookup,
// so any already built method may contain a call of a method whose signature changes
// later (ReturnError false→true, a context argument appended).  After each such
// change every method must be scheduled for regeneration; marking only the creation
// chain (OriginPath) leaves stale calls — `c.sub(x)` against `sub(x, ctx)` or a
// two-valued result assigned to one variable — in the output.
func callersRebuiltRule(p *Prog, r *Report, id string) {
	r.Rule(id, "callers are regenerated when a callee's signature changes: in generator.ReturnError after `check.ReturnError = true`, and in generator.requireContext after a context argument is appended to check.RawArgs, every path (to the next iteration or the return) calls a helper that marks every method of the lookup index dirty — calls resolve by signature lookup, so the creation chain (OriginPath) is not the set of callers", 2)
	helpers := markAllHelpers(p)
	isMarkAll := func(in ssa.Instruction) bool {
		c, ok := in.(ssa.CallInstruction)
		if !ok {
			return false
		}
		o := ssaCalleeObj(c)
		return o != nil && helpers[o.Origin()]
	}
	type site struct {
		fn   string
		what string
		is   func(in ssa.Instruction) bool
	}
	sites := []site{
		{"generator.(*generator).ReturnError", "ReturnError = true", func(in ssa.Instruction) bool {
			st, ok := in.(*ssa.Store)
			if !ok {
				return false
			}
			fa, ok := st.Addr.(*ssa.FieldAddr)
			if !ok || fieldName(fa) != "ReturnError" {
				return false
			}
			k, ok := st.Val.(*ssa.Const)
			return ok && constantBool(k)
		}},
		{"generator.(*generator).requireContext", "RawArgs = append(RawArgs, context)", func(in ssa.Instruction) bool {
			st, ok := in.(*ssa.Store)
			if !ok {
				return false
			}
			fa, ok := st.Addr.(*ssa.FieldAddr)
			return ok && fieldName(fa) == "RawArgs"
		}},
	}
	for _, s := range sites {
		fi, _ := needFunc(p, r, s.fn)
		if fi == nil {
			continue
		}
		n := 0
		var region []*ssa.Function
		for _, rf := range p.Region(s.fn) {
			if sf := p.SSAFunc(rf); sf != nil {
				region = append(region, sf)
			}
		}
		forAllInstrs(region, func(in ssa.Instruction) {
			if !s.is(in) {
				return
			}
			n++
			st := fmt.Sprintf("%s/after %s#%d", s.fn, s.what, n)
			change := in
			g := existsPath(in.Block(), instrIndex(in)+1, func(x ssa.Instruction) bool { return isReturn(x) || x == change }, isMarkAll)
			if g == nil {
				r.OK(st, p.PosStr(in.Pos()), "every method is re-marked dirty after the signature change")
			} else {
				r.Bad(st, p.PosStr(in.Pos()), "after the signature of a generated method changes only the method and its creation chain are regenerated: a method that already emitted a call to it (found by signature lookup, e.g. through a recursive type) keeps the stale call — the output does not compile (missing context argument / unchecked error result)")
			}
		})
		if n == 0 {
			r.Bad(s.fn+"/"+s.what, p.PosStr(fi.Decl.Pos()), "signature-changing store not found")
		}
	}
}

// ---------------------------------------------------------------------------
// D19: an update position never delegates to a generated method

// declaredLookupHelpers: functions of package generator that answer "did the user
// provide a conversion for this pair?" — they call Get on g.extend and on g.lookup on
// every path to a result, return true as soon as the extend index has a hit (or an
// error), and look at Explicit for the method index.
func declaredLookupHelpers(p *Prog) map[*types.Func]string {
	out := map[*types.Func]string{}
	for _, fi := range p.Funcs {
		if relPkg(fi.Pkg.PkgPath) != "generator" {
			continue
		}
		sig := fi.Obj.Type().(*types.Signature)
		if sig.Results().Len() != 1 || !types.Identical(sig.Results().At(0).Type(), types.Typ[types.Bool]) {
			continue
		}
		sf := p.SSAFunc(fi)
		if sf == nil {
			continue
		}
		isGet := func(field string) func(in ssa.Instruction) bool {
			return func(in ssa.Instruction) bool {
				c, ok := in.(ssa.CallInstruction)
				if !ok || ssaCalleeObj(c) == nil || ssaCalleeObj(c).Name() != "Get" || recvTypeName(ssaCalleeObj(c)) != "Index" {
					return false
				}
				args := c.Common().Args
				return len(args) > 0 && loadsFieldNamed(args[0], field)
			}
		}
		var eg, lg ssa.Instruction
		readsExplicit := false
		allInstrs(sf, false, func(in ssa.Instruction) {
			if isGet("extend")(in) {
				eg = in
			}
			if isGet("lookup")(in) {
				lg = in
			}
			if u, ok := in.(*ssa.UnOp); ok && loadsFieldNamed(u, "Explicit") {
				readsExplicit = true
			}
		})
		if eg == nil || lg == nil || !readsExplicit {
			continue
		}
		// a result that may be false is produced only after both indexes were asked
		mayFalse := func(in ssa.Instruction) bool {
			ret, ok := in.(*ssa.Return)
			if !ok {
				return false
			}
			k, isK := ret.Results[0].(*ssa.Const)
			return !isK || !constantBool(k)
		}
		why := ""
		if g := existsPath(sf.Blocks[0], 0, mayFalse, isGet("extend")); g != nil {
			why = "can answer without asking the extend index"
		}
		if g := existsPath(sf.Blocks[0], 0, mayFalse, isGet("lookup")); g != nil {
			why = "can answer `not declared` without asking the method index"
		}
		// an extend hit answers true: the non-nil side of the test on extend.Get's first result reaches no may-be-false return
		var egVal ssa.Value
		if c, ok := eg.(*ssa.Call); ok && c.Referrers() != nil {
			for _, rf := range *c.Referrers() {
				if ex, ok := rf.(*ssa.Extract); ok && ex.Index == 0 {
					egVal = ex
				}
			}
		}
		if egVal == nil {
			why = "the result of extend.Get is not used"
		} else {
			tested := false
			for _, b := range sf.Blocks {
				ifi, ok := b.Instrs[len(b.Instrs)-1].(*ssa.If)
				if !ok {
					continue
				}
				ne, isC := isNilCheck(ifi.Cond, func(x ssa.Value) bool { return x == egVal })
				if !isC {
					continue
				}
				tested = true
				nonNil := b.Succs[0]
				if !ne {
					nonNil = b.Succs[1]
				}
				if g := existsPath(nonNil, 0, func(in ssa.Instruction) bool {
					ret, ok := in.(*ssa.Return)
					if !ok {
						return false
					}
					k, isK := ret.Results[0].(*ssa.Const)
					return !isK || !constantBool(k)
				}, func(ssa.Instruction) bool { return false }); g != nil {
					why = "an extend function that exists does not make the answer true"
				}
			}
			if !tested {
				why = "the extend hit is not tested with != nil"
			}
		}
		out[fi.Obj] = why
	}
	return out
}

// updateNoDelegateRule (C11.R9): generator.Assign handles an update position
// (assignTo.Update, struct → struct) by assigning field by field unless the user
// declared a conversion for the pair; it never hands the position to a generated
// sub-method, whose result would replace FUNC's value as a whole.
func updateNoDelegateRule(p *Prog, r *Report, id string) {
	r.Rule(id, "default:update applies the source on top of FUNC's result even when a generated method for the same struct pair exists (recursive types): in generator.Assign a branch whose condition requires assignTo.Update and the negative answer of a verified `declared by the user?` lookup returns assignNoLookup(…) and dominates callExisting/createSubMethod", 1)
	fi, sf := needFunc(p, r, "generator.(*generator).Assign")
	if fi == nil {
		return
	}
	site := "generator.(*generator).Assign/update position"
	yes, no := true, false
	found, why := false, ""
	switch {
	case lookupFirstEval(p, sf, &no, nil) != nil:
		why = p.PosStr(lookupFirstEval(p, sf, &no, nil).Pos()) + ": assignNoLookup is reached before the lookup of existing methods without assignTo.Update being required"
	case lookupFirstEval(p, sf, nil, &yes) != nil:
		why = p.PosStr(lookupFirstEval(p, sf, nil, &yes).Pos()) + ": the update branch bypasses the lookup without first asking whether the user declared a conversion for the pair (C06), or the `declared?` helper is not verified"
	case lookupFirstEval(p, sf, &yes, &no) == nil:
		why = "no branch on assignTo.Update precedes the lookup of existing methods: at an update position a generated sub-method for the same struct pair (created for a recursive type) is called and its result replaces FUNC's value — fields FUNC had set are lost"
	default:
		found = true
	}
	if found {
		r.OK(site, p.PosStr(fi.Decl.Pos()), "Update ∧ ¬declared → assignNoLookup, before callExisting")
	} else {
		r.Bad(site, p.PosStr(fi.Decl.Pos()), why)
	}
}

// lookupFirstEval evaluates generator.Build/Assign with the Update flag of the *AssignTo and/or the answer of the
// verified `declared by the user?` helper fixed (nil = unknown) and returns a return reached after a rule-based
// conversion or sub-method creation was started although neither callExisting nor the delegation to Build had run.
func lookupFirstEval(p *Prog, sf *ssa.Function, update, declared *bool) *ssa.Return {
	helpers := declaredLookupHelpers(p)
	named := func(in ssa.Instruction, names ...string) bool {
		c, ok := in.(ssa.CallInstruction)
		if !ok || ssaCalleeObj(c) == nil {
			return false
		}
		o := ssaCalleeObj(c)
		return has(names, o.Name()) && objPkgPath(o) == modPath+"/generator"
	}
	sc := &absScenario{
		assume: func(v ssa.Value, _ func(ssa.Value) absVal) (absVal, bool) {
			if update != nil && loadsField(v, "Update") {
				if ld, ok := v.(*ssa.UnOp); ok {
					if fa, ok := ld.X.(*ssa.FieldAddr); ok {
						if pt, ok := fa.X.Type().Underlying().(*types.Pointer); ok && isNamed(pt.Elem(), modPath+"/builder", "AssignTo") {
							return aBool(*update), true
						}
					}
				}
			}
			return aUnknown, false
		},
		calls: func(c *ssa.Call, _ func(ssa.Value) absVal) (absVal, bool) {
			if declared == nil || ssaCalleeObj(c) == nil {
				return aUnknown, false
			}
			if w, ok := helpers[ssaCalleeObj(c).Origin()]; ok && w == "" {
				return aBool(*declared), true
			}
			return aUnknown, false
		},
		noInline: func(callee *ssa.Function) bool {
			switch callee.Name() {
			case "callExisting", "createSubMethod", "buildNoLookup", "assignNoLookup", "shouldCreateSubMethod", "Build", "buildMethod":
				return true
			}
			return false
		},
		marksState: func(in ssa.Instruction, st map[string]absVal) (string, bool) {
			if named(in, "callExisting") {
				return "ce", true
			}
			if c, ok := in.(ssa.CallInstruction); ok && ssaCalleeObj(c) != nil && isFunc(ssaCalleeObj(c), modPath+"/generator", "generator", "Build") {
				return "ce", true
			}
			if named(in, "createSubMethod", "buildNoLookup", "assignNoLookup", "shouldCreateSubMethod") {
				if v, ok := st["@ce"]; !ok || !v.b {
					return "early", true
				}
			}
			return "", false
		},
	}
	return absReachState(sf, sc, func(_ *ssa.Return, _ func(ssa.Value) absVal, st map[string]absVal) bool {
		return st["@early"].k == absBool && st["@early"].b
	})
}

// enumCanonicalSSA: every value parse.Enum returns together with a nil error is "" or an element of its `values`
// parameter that compared equal (==) to the written word — followed through private helpers.  "" = holds.
func enumCanonicalSSA(p *Prog, fi *FuncInfo) string {
	sf := p.SSAFunc(fi)
	if sf == nil || len(sf.Params) == 0 {
		return "no SSA for parse.Enum"
	}
	valuesParam := sf.Params[len(sf.Params)-1]
	region := map[*ssa.Function]bool{}
	for _, rf := range p.Region("config/parse.Enum") {
		if hf := p.SSAFunc(rf); hf != nil {
			region[hf] = true
		}
	}
	// isValues: v is the values parameter, or a helper parameter that receives it at every call
	var isValues func(v ssa.Value, d int) bool
	isValues = func(v ssa.Value, d int) bool {
		if v == ssa.Value(valuesParam) {
			return true
		}
		prm, ok := v.(*ssa.Parameter)
		if !ok || d > 3 {
			return false
		}
		fn := prm.Parent()
		idx := -1
		for i, q := range fn.Params {
			if q == prm {
				idx = i
			}
		}
		sites := p.SSACallSites(fn)
		if fn.Origin() != nil {
			sites = append(sites, p.SSACallSites(fn.Origin())...)
		}
		if len(sites) == 0 || idx < 0 {
			return false
		}
		for _, cs := range sites {
			if idx >= len(cs.Common().Args) || !isValues(cs.Common().Args[idx], d+1) {
				return false
			}
		}
		return true
	}
	var canon func(v ssa.Value, d int) string
	canon = func(v ssa.Value, d int) string {
		if d > 6 {
			return "value derivation too deep"
		}
		switch x := v.(type) {
		case *ssa.Const:
			if x.Value == nil || (x.Value.Kind() == constant.String && constant.StringVal(x.Value) == "") {
				return ""
			}
			return "a constant other than \"\" is returned"
		case *ssa.Convert:
			return canon(x.X, d+1)
		case *ssa.ChangeType:
			return canon(x.X, d+1)
		case *ssa.Phi:
			for _, e := range x.Edges {
				if w := canon(e, d+1); w != "" {
					return w
				}
			}
			return ""
		case *ssa.UnOp:
			if ia, ok := x.X.(*ssa.IndexAddr); ok && x.Op == token.MUL && isValues(ia.X, 0) {
				// under an == comparison that involves this element
				for _, f := range factsAt(x.Block()) {
					if b, ok := f.(*ssa.BinOp); ok && b.Op == token.EQL && (stripConv(b.X) == ssa.Value(x) || stripConv(b.Y) == ssa.Value(x)) {
						return ""
					}
				}
				// the comparison may follow the load in the same block: look at the users of the load
				if x.Referrers() != nil {
					for _, ref := range *x.Referrers() {
						var cmp *ssa.BinOp
						switch y := ref.(type) {
						case *ssa.BinOp:
							cmp = y
						case *ssa.Convert, *ssa.MultiConvert, *ssa.ChangeType:
							if yr := y.(ssa.Value).Referrers(); yr != nil {
								for _, r2 := range *yr {
									if b2, ok := r2.(*ssa.BinOp); ok {
										cmp = b2
									}
								}
							}
						}
						if cmp != nil && cmp.Op == token.EQL {
							return ""
						}
					}
				}
				return "an allowed value is returned without an == comparison with the written word"
			}
		case *ssa.Extract:
			if c, ok := x.Tuple.(*ssa.Call); ok {
				callee := c.Call.StaticCallee()
				if callee != nil && callee.Origin() != nil {
					callee = callee.Origin()
				}
				if callee != nil && region[callee] {
					for _, b := range callee.Blocks {
						for _, in := range b.Instrs {
							if ret, ok := in.(*ssa.Return); ok && x.Index < len(ret.Results) {
								if w := canon(ret.Results[x.Index], d+1); w != "" {
									return w
								}
							}
						}
					}
					return ""
				}
			}
		}
		return "a success return yields `" + v.String() + "`, which is not \"\" or the matching element of the allowed values"
	}
	n := 0
	why := ""
	allInstrs(sf, false, func(in ssa.Instruction) {
		ret, ok := in.(*ssa.Return)
		if !ok || len(ret.Results) != 2 || !isNilConst(ret.Results[1]) {
			return
		}
		n++
		if w := canon(ret.Results[0], 0); w != "" && why == "" {
			why = p.PosStr(ret.Pos()) + ": " + w
		}
	})
	if n == 0 {
		return "no success return recognised"
	}
	return why
}

// boolTableEval: parse.Bool yields true exactly for "" and "yes" (evaluated with the canonical value returned by
// Enum fixed to "", "yes", "no").
func boolTableEval(p *Prog, bf *FuncInfo) bool {
	sf := p.SSAFunc(bf)
	if sf == nil {
		return false
	}
	for _, row := range []struct {
		val  string
		want bool
	}{{"", true}, {"yes", true}, {"no", false}} {
		row := row
		n := 0
		sc := &absScenario{
			assume: func(v ssa.Value, _ func(ssa.Value) absVal) (absVal, bool) {
				if extractOf(v, 0, modPath+"/config/parse", "Enum") {
					n++
					return aStr(row.val), true
				}
				return aUnknown, false
			},
		}
		got := absReach(sf, sc, func(ret *ssa.Return, eval func(ssa.Value) absVal) bool {
			a := eval(ret.Results[0])
			return !(a.k == absBool && a.b == row.want)
		})
		if got != nil || n == 0 {
			return false
		}
	}
	return true
}
