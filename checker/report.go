package main

import (
	"encoding/json"
	"fmt"
	"os"
	"path/filepath"
	"sort"
	"strings"
	"time"
)

// Obligation is one rule instance examined by a run.
type Obligation struct {
	Rule     string `json:"rule"`
	Site     string `json:"site"` // package.function / construct, never a line number
	Pos      string `json:"pos,omitempty"`
	Verdict  string `json:"verdict"` // discharged | violation | known-finding | info
	How      string `json:"how"`
	Key      string `json:"key"`
	fromCtrl bool
}

type RuleStat struct {
	Rule      string `json:"rule"`
	Text      string `json:"text"`
	Instances int    `json:"instances"`
	Floor     int    `json:"floor"`
	Control   string `json:"positive_control,omitempty"`
}

type Report struct {
	Property    string
	Tier        string
	Level       string
	Explanation string
	Obls        []*Obligation
	Rules       map[string]*RuleStat
	ruleOrder   []string
	Analysed    map[string]int
	Tables      []string
	Assumptions []string
	NotDecided  []string
	Fatal       []string // anchors that could not be resolved, vacuous rules: exit 2
	Info        []string
	curRule     string
	inControl   bool
	ctrlHits    map[string]int
}

func newReport(prop, tier string) *Report {
	return &Report{Property: prop, Tier: tier, Level: "other", Rules: map[string]*RuleStat{}, Analysed: map[string]int{}, ctrlHits: map[string]int{}}
}

// Rule starts a rule: text is the rule as applied, floor the minimal number of
// instances that must be matched (vacuity guard).
func (r *Report) Rule(id, text string, floor int) {
	r.curRule = id
	// The number given by the rule is (about) the instance count confirmed by hand on the pinned
	// tree; the vacuity floor is half of it, so that ordinary refactoring (two sites merged into a
	// helper, a table shortened) does not trip it while a rule that suddenly matches nothing does.
	if floor > 1 {
		floor = floor / 2
	}
	if _, ok := r.Rules[id]; !ok {
		r.Rules[id] = &RuleStat{Rule: id, Text: text, Floor: floor}
		r.ruleOrder = append(r.ruleOrder, id)
	}
}

func (r *Report) add(verdict, site, pos, how string) *Obligation {
	key := r.curRule + "|" + site
	o := &Obligation{Rule: r.curRule, Site: site, Pos: pos, Verdict: verdict, How: how, Key: key, fromCtrl: r.inControl}
	if r.inControl {
		if verdict == "violation" {
			r.ctrlHits[r.curRule]++
		}
		return o
	}
	r.Obls = append(r.Obls, o)
	if verdict != "info" {
		r.Rules[r.curRule].Instances++
	}
	return o
}

// OK records a discharged obligation.
func (r *Report) OK(site, pos, how string) { r.add("discharged", site, pos, how) }

// Bad records a violated (or undischargeable) obligation.
func (r *Report) Bad(site, pos, why string) { r.add("violation", site, pos, why) }

func (r *Report) Note(site, pos, what string) { r.add("info", site, pos, what) }

// Anchor failure: a function/type the rule is anchored in could not be resolved.
func (r *Report) Unresolved(what string) {
	if r.inControl {
		return
	}
	r.Fatal = append(r.Fatal, fmt.Sprintf("%s: unresolved anchor: %s", r.curRule, what))
}

type KnownFinding struct {
	Property string `json:"property"`
	Key      string `json:"key"`
	Status   string `json:"status"` // known | fixed
	What     string `json:"what"`
	Commit   string `json:"commit,omitempty"`
	Defect   string `json:"defect,omitempty"`
}

func loadKnown(path string) ([]KnownFinding, error) {
	b, err := os.ReadFile(path)
	if err != nil {
		if os.IsNotExist(err) {
			return nil, nil
		}
		return nil, err
	}
	var k struct {
		Findings []KnownFinding `json:"findings"`
	}
	if err := json.Unmarshal(b, &k); err != nil {
		return nil, err
	}
	return k.Findings, nil
}

// finish applies floors/known findings, prints the verdict lines, writes evidence
// and returns the exit code.
func (r *Report) finish(verifDir string, start time.Time, seed int64) int {
	known, err := loadKnown(filepath.Join(verifDir, "known_findings.json"))
	if err != nil {
		fmt.Printf("cannot read known_findings.json: %v\n", err)
		return 2
	}
	for _, id := range r.ruleOrder {
		st := r.Rules[id]
		if st.Instances < st.Floor {
			r.Fatal = append(r.Fatal, fmt.Sprintf("%s: vacuous: matched %d instance(s), floor is %d", id, st.Instances, st.Floor))
		}
	}
	sort.SliceStable(r.Obls, func(i, j int) bool {
		if r.Obls[i].Rule != r.Obls[j].Rule {
			return r.Obls[i].Rule < r.Obls[j].Rule
		}
		return r.Obls[i].Site < r.Obls[j].Site
	})
	// disambiguate duplicate keys deterministically (#2, #3 … in source order)
	seen := map[string]int{}
	for _, o := range r.Obls {
		seen[o.Key]++
		if seen[o.Key] > 1 {
			o.Key = fmt.Sprintf("%s#%d", o.Key, seen[o.Key])
		}
	}
	nViol, nKnown, nDis, nObl := 0, 0, 0, 0
	replayDir := filepath.Join(verifDir, "evidence", "replay")
	_ = os.MkdirAll(replayDir, 0o755)
	old, _ := filepath.Glob(filepath.Join(replayDir, r.Property+"-*.json"))
	for _, f := range old {
		_ = os.Remove(f)
	}
	var knownHit []string
	for _, o := range r.Obls {
		if o.Verdict == "info" {
			continue
		}
		nObl++
		switch o.Verdict {
		case "discharged":
			nDis++
		case "violation":
			isKnown := false
			for _, k := range known {
				if k.Status == "known" && k.Property == r.Property && k.Key == o.Key {
					isKnown = true
					o.Verdict = "known-finding"
					nKnown++
					knownHit = append(knownHit, o.Key)
					fmt.Printf("KNOWN-FINDING: property=%s %s %s — %s\n", r.Property, o.Key, o.Pos, k.What)
				}
			}
			if !isKnown {
				nViol++
				rp := filepath.Join(replayDir, fmt.Sprintf("%s-%d.json", r.Property, nViol))
				b, _ := json.MarshalIndent(map[string]string{"property": r.Property, "rule": o.Rule, "key": o.Key, "pos": o.Pos, "site": o.Site, "why": o.How, "rule_text": r.Rules[o.Rule].Text}, "", " ")
				_ = os.WriteFile(rp, b, 0o644)
				fmt.Printf("VIOLATION property=%s replay=%s\n", r.Property, rp)
				fmt.Printf("  %s: rule %s [%s]: %s\n", o.Pos, o.Rule, o.Site, o.How)
			}
		}
	}
	for _, id := range r.ruleOrder {
		st := r.Rules[id]
		fmt.Printf("rule %-8s instances=%-3d floor=%-3d %s\n", id, st.Instances, st.Floor, firstLine(st.Text))
	}
	for _, f := range r.Fatal {
		fmt.Printf("UNDECIDED property=%s %s\n", r.Property, f)
	}

	// evidence
	samples := []any{}
	perRule := map[string]int{}
	for _, o := range r.Obls {
		if o.Verdict == "info" {
			continue
		}
		if perRule[o.Rule] < 3 || o.Verdict != "discharged" {
			perRule[o.Rule]++
			samples = append(samples, o)
		}
	}
	distinct := map[string]bool{}
	for _, o := range r.Obls {
		if o.Verdict != "info" {
			distinct[o.Key] = true
		}
	}
	var rules []*RuleStat
	for _, id := range r.ruleOrder {
		rules = append(rules, r.Rules[id])
	}
	cov := map[string]any{
		"explanation":         r.Explanation,
		"obligations":         nObl,
		"discharged":          nDis + nKnown,
		"evaluations":         nObl,
		"distinct_nontrivial": len(distinct),
		"rule":                "an evaluation is one (rule, construct) instance found in /repo's current source; all are non-trivial (each is a construct that could break the property); distinct = distinct rule|site keys",
		"samples":             samples,
		"rules":               rules,
		"analysed":            r.Analysed,
		"tables":              r.Tables,
		"not_decided":         r.NotDecided,
		"known_findings_hit":  knownHit,
		"undecided":           r.Fatal,
		"info":                r.Info,
		"checker_cmd":         fmt.Sprintf("bin/gvlint check -property %s -tier %s", r.Property, r.Tier),
		"trusted_base":        []string{"go/types, go/ssa, go/callgraph (x/tools v0.29.0)", "documented behaviour of the Go standard library", "github.com/dave/jennifer v1.6.0", "go list / go/packages", "audited tables in /verif/checker/tables.go (listed under tables)"},
		"exhaustive":          true,
	}
	ev := map[string]any{
		"property_id": r.Property,
		"tier":        r.Tier,
		"seed":        seed,
		"level":       r.Level,
		"coverage":    cov,
		"assumptions": r.Assumptions,
		"wall_s":      time.Since(start).Seconds(),
		"violations":  nViol,
	}
	b, _ := json.MarshalIndent(ev, "", " ")
	_ = os.MkdirAll(filepath.Join(verifDir, "evidence"), 0o755)
	if err := os.WriteFile(filepath.Join(verifDir, "evidence", r.Property+".json"), b, 0o644); err != nil {
		fmt.Printf("cannot write evidence: %v\n", err)
		return 2
	}
	fmt.Printf("summary property=%s tier=%s obligations=%d discharged=%d known=%d violations=%d undecided=%d wall=%.1fs\n",
		r.Property, r.Tier, nObl, nDis, nKnown, nViol, len(r.Fatal), time.Since(start).Seconds())
	if nViol > 0 {
		return 1
	}
	if len(r.Fatal) > 0 {
		return 2
	}
	return 0
}

func firstLine(s string) string {
	if i := strings.IndexByte(s, '\n'); i >= 0 {
		s = s[:i]
	}
	if r := []rune(s); len(r) > 110 {
		s = string(r[:110]) + "…"
	}
	return s
}
