package main

import (
	"fmt"
	"go/ast"
	"go/types"
	"strings"
)

func init() {
	register(&Check{
		ID: "C18", Level: "other",
		Explanation: "Who-may-emit analysis over the generator's jennifer call sites. (R1) every import-producing emission jen.Qual(p, n) is classified by the origin of p: " +
			"package of a user object, Definition.Package, the wrapErrorsUsing package — or a literal, which must be \"fmt\" inside ErrorPath.WrapErrors / builder.caseAction " +
			"(reached only under wrapErrors resp. the @panic/@error arms) or \"unsafe\" in the unsafe.Pointer arm of toCodeBasic (import forced by the user's own type); no string constant " +
			"anywhere in an emission argument names reflect or unsafe otherwise; no ImportName/ImportAlias/Anon. (R2) methods are invoked on a *jen.File only in fileManager.Get, renderFiles and " +
			"appendGenerated, and appendGenerated adds only output:raw text, a comment, `type X struct{}` with zero fields, `func init()` and values built from jen.Func(); no Var/Const. " +
			"(R3) builder statements reach the file only as the Block of a method body assigned in buildMethod. (R4) generated code contains no go/defer/select/goto/recover emission. " +
			"Decides that no emission site can introduce a forbidden import or package-level state; does not decide imports forced by user types or the content of output:raw.",
		NotDecided: []string{"imports forced by user types (a user field of type reflect.Type or unsafe.Pointer)", "what user supplied output:raw text contains", "that jennifer adds exactly the imports of the Qual calls (trusted)"},
		Run:        runC18,
		Controls: map[string]string{"generator/zz_gvlint_control_c18.go": `package generator

import "github.com/dave/jennifer/jen"

func zzControlEmit(f *jen.File, x *jen.Statement) *jen.Statement {
	f.Var().Id("cache").Op("=").Map(jen.String()).Int().Values()
	f.ImportAlias("reflect", "r")
	return jen.Qual("reflect", "DeepEqual").Call(x, jen.Qual("bytes", "Clone").Call(x)).Add(jen.Go().Func().Params().Block())
}
`},
		ControlRules: []string{"C18.R1", "C18.R2", "C18.R4"},
	})
}

// literalQualAllowed: function → literal package path allowed in jen.Qual.
var literalQualAllowed = map[string]map[string]string{
	"builder.(ErrorPath).WrapErrors": {"fmt": "fmt.Errorf for wrapErrors; reached only from generator.wrap under ctx.Conf.WrapErrors"},
	"builder.caseAction":             {"fmt": "fmt.Sprintf/Errorf for the @panic / @error enum actions only"},
	"xtype.toCodeBasic":              {"unsafe": "rendering of the user's own unsafe.Pointer type (the import is forced by the user type)"},
}

func runC18(p *Prog, r *Report) {
	chains := p.Chains()
	r.Analysed["emission_chains"] = len(chains)

	r.Rule("C18.R1", "every jen.Qual(p, n) takes p from a user object's Pkg().Path(), Definition.Package, or the wrapErrorsUsing package; a literal p must be an audited (function, package) pair; no emission argument is a constant naming reflect/unsafe; no ImportName/ImportAlias/Anon", 8)
	for _, c := range chains {
		info := c.Pkg.TypesInfo
		for _, l := range c.Links {
			switch l.Name {
			case "ImportName", "ImportNames", "ImportAlias", "Anon":
				r.Bad(c.Encl.Name()+"/jen."+l.Name, p.PosStr(l.Call.Pos()), "explicit import manipulation: imports must be derived from use (jen.Qual) only")
				continue
			}
			// constants naming forbidden packages in any argument
			for _, a := range l.Args {
				if s, ok := constString(info, a); ok {
					if (s == "reflect" || s == "unsafe" || strings.HasPrefix(s, "reflect.") || strings.HasPrefix(s, "unsafe.")) && !(l.Name == "Qual" && literalQualAllowed[p.anchorFor(c.Encl, mapKeys(literalQualAllowed))][s] != "") {
						r.Bad(c.Encl.Name()+"/jen."+l.Name+"("+s+")", p.PosStr(l.Call.Pos()), "emission argument names package "+s+": generated code must be reflection-free and must not use unsafe")
					}
				}
			}
			if l.Name != "Qual" || len(l.Args) != 2 {
				continue
			}
			site := fmt.Sprintf("%s/jen.Qual(%s, …)", c.Encl.Name(), short(exprString(l.Args[0]), 50))
			pos := p.PosStr(l.Call.Pos())
			how, ok := qualOrigin(p, c, l.Args[0])
			if ok {
				r.OK(site, pos, how)
			} else {
				r.Bad(site, pos, how)
			}
		}
	}

	r.Rule("C18.R2", "methods are invoked on a *jen.File only in fileManager.Get, renderFiles and appendGenerated; appendGenerated adds only Id(output:raw), Comment, Type().Id(name).Struct() with zero fields, Func().Id(\"init\")… and Add(value built from jen.Func()); never Var/Const or a struct with fields", 4)
	allowedFileFns := map[string]bool{"generator.(*fileManager).Get": true, "generator.(*fileManager).renderFiles": true, "generator.(*generator).appendGenerated": true}
	for _, c := range chains {
		if c.Root == nil {
			continue
		}
		info := c.Pkg.TypesInfo
		if !isNamed(info.TypeOf(c.Root), jenPath, "File") {
			continue
		}
		names := strings.Join(c.Names(), ".")
		anchor := p.anchorFor(c.Encl, mapKeys(allowedFileFns))
		site := anchor + "/file." + names
		pos := p.PosStr(c.Outer.Pos())
		if !allowedFileFns[anchor] {
			r.Bad(site, pos, "a *jen.File is modified outside Get/renderFiles/appendGenerated: top-level declarations would escape the audit")
			continue
		}
		first := c.Links[0].Name
		switch anchor {
		case "generator.(*fileManager).Get":
			if first == "HeaderComment" {
				r.OK(site, pos, "header comment (C16)")
			} else {
				r.Bad(site, pos, "unexpected file operation in Get")
			}
		case "generator.(*fileManager).renderFiles":
			if first == "Render" && len(c.Links) == 1 {
				r.OK(site, pos, "render")
			} else {
				r.Bad(site, pos, "unexpected file operation in renderFiles")
			}
		default:
			ok, why := appendGeneratedChainOK(p, c)
			if ok {
				r.OK(site, pos, why)
			} else {
				r.Bad(site, pos, why)
			}
		}
	}
	// values appended to the slices that are Add()ed to the file
	if fi := p.Func("generator.(*generator).appendGenerated"); fi != nil {
		info := fi.Pkg.TypesInfo
		ast.Inspect(fi.Decl, func(n ast.Node) bool {
			call, ok := n.(*ast.CallExpr)
			if !ok || len(call.Args) < 2 {
				return true
			}
			if b, isB := calleeObj(info, call).(*types.Builtin); !isB || b.Name() != "append" {
				return true
			}
			if t := info.TypeOf(call.Args[0]); t == nil || !strings.Contains(t.String(), "jen.Code") {
				return true
			}
			for _, a := range call.Args[1:] {
				ch, ok := chainOf(info, a)
				site := "generator.(*generator).appendGenerated/append(" + exprString(call.Args[0]) + ")"
				if !ok || ch.Root != nil {
					r.Bad(site, p.PosStr(a.Pos()), "a top-level/init element is not a jennifer chain built here")
					continue
				}
				switch ch.Links[0].Name {
				case "Func":
					r.OK(site, p.PosStr(a.Pos()), "function declaration jen.Func()…")
				case "Qual":
					// init assignment: Qual(pkg,name).Op("=").Func().Add(jen)
					if len(ch.Links) >= 3 && ch.Links[1].Name == "Op" && ch.Links[2].Name == "Func" {
						if s, ok := constString(info, ch.Links[1].Args[0]); ok && s == "=" {
							r.OK(site, p.PosStr(a.Pos()), "assignment of a user function variable inside init()")
							continue
						}
					}
					r.Bad(site, p.PosStr(a.Pos()), "unexpected init statement")
				default:
					r.Bad(site, p.PosStr(a.Pos()), "top-level element starts with jen."+ch.Links[0].Name+", not jen.Func(): a package-level declaration of another kind would be emitted")
				}
			}
			return true
		})
	} else {
		r.Unresolved("generator.(*generator).appendGenerated")
	}

	r.Rule("C18.R3", "a method body (generatedMethod.Jen) is assigned only in buildMethod as jen.Params(…).Params(…).Block(…): builder statements reach the file only inside a function block", 1)
	nJen := 0
	for _, fi := range p.Funcs {
		fi := fi
		info := fi.Pkg.TypesInfo
		ast.Inspect(fi.Decl, func(n ast.Node) bool {
			as, ok := n.(*ast.AssignStmt)
			if !ok {
				return true
			}
			for i, l := range as.Lhs {
				if !isFieldSel(info, l, modPath+"/generator", "generatedMethod", "Jen") {
					continue
				}
				nJen++
				site := fi.Name() + "/generatedMethod.Jen ="
				if fi.Name() != "generator.(*generator).buildMethod" || len(as.Rhs) != len(as.Lhs) {
					r.Bad(site, p.PosStr(as.Pos()), "method body assigned outside buildMethod")
					continue
				}
				ch, ok := chainOf(info, as.Rhs[i])
				if ok && ch.Root == nil && strings.Join(ch.Names(), ".") == "Params.Params.Block" {
					r.OK(site, p.PosStr(as.Pos()), "jen.Params(args).Params(results).Block(body)")
				} else {
					r.Bad(site, p.PosStr(as.Pos()), "method body is not Params(…).Params(…).Block(…)")
				}
			}
			return true
		})
	}
	// composite literals setting Jen
	for _, fi := range p.Funcs {
		info := fi.Pkg.TypesInfo
		ast.Inspect(fi.Decl, func(n ast.Node) bool {
			cl, ok := n.(*ast.CompositeLit)
			if ok && isNamed(info.TypeOf(cl), modPath+"/generator", "generatedMethod") && compositeField(cl, "Jen") != nil {
				r.Bad(fi.Name()+"/generatedMethod{Jen:}", p.PosStr(cl.Pos()), "method body set in a literal outside buildMethod")
			}
			return true
		})
	}
	if nJen == 0 {
		r.Unresolved("assignment of generatedMethod.Jen")
	}

	r.Rule("C18.R4", "no emission of go / defer / select / goto / recover / labelled statements: generated code has no concurrency or hidden control flow of its own", 1)
	deny := map[string]bool{"Go": true, "Defer": true, "Select": true, "Goto": true, "Recover": true, "Fallthrough": true}
	nDeny := 0
	for _, c := range chains {
		for _, l := range c.Links {
			if deny[l.Name] {
				nDeny++
				r.Bad(c.Encl.Name()+"/jen."+l.Name, p.PosStr(l.Call.Pos()), "emits a `"+strings.ToLower(l.Name)+"` construct")
			}
		}
	}
	r.OK("own code/emission vocabulary", "", fmt.Sprintf("%d emission chains scanned, %d denied constructs", len(chains), nDeny))
	pkgLevelStateRule(p, r, "C18.R5")
	armEffectRule(p, r, "C18.R6", "config.parseConverterLine", "output:package", "OutputPackagePath", "OutputPackageName")
	definitionPackageRule(p, r, "C18.R8")
	enumDisabledRule(p, r, "C18.R9")
	basicZeroUntypedRule(p, r, "C18.R10")
	boolSettingRule(p, r, "C18.R7", "wrapErrors", "`wrapErrors no` switches wrapping (and with it the fmt import) off again: evaluated with the command fixed to wrapErrors and parse.Bool fixed to v, config.parseCommon cannot return success with WrapErrors still !v (v = true, false) — an inherited `wrapErrors` is overridden by the inner level", "WrapErrors")
}

func appendGeneratedChainOK(p *Prog, c *Chain) (bool, string) {
	info := c.Pkg.TypesInfo
	names := c.Names()
	switch names[0] {
	case "Id":
		// f.Id(raw): raw must range over conf.OutputRaw
		if len(names) == 1 {
			if id, ok := ast.Unparen(c.Links[0].Args[0]).(*ast.Ident); ok {
				obj := info.ObjectOf(id)
				okRaw := false
				ast.Inspect(c.Encl.Decl, func(n ast.Node) bool {
					rs, ok := n.(*ast.RangeStmt)
					if ok && rs.Value != nil {
						if v, ok := rs.Value.(*ast.Ident); ok && info.ObjectOf(v) == obj && isFieldSel(info, rs.X, modPath+"/config", "ConverterConfig", "OutputRaw") {
							okRaw = true
						}
					}
					return true
				})
				if okRaw {
					return true, "user supplied output:raw text"
				}
			}
		}
		return false, "f.Id(…) with something else than an output:raw line"
	case "Comment":
		if len(names) == 1 {
			return true, "struct comment"
		}
	case "Type":
		if strings.Join(names, ".") == "Type.Id.Struct" {
			if len(c.Links[2].Args) == 0 {
				return true, "type <name> struct{} — zero fields, no state"
			}
			return false, "the generated converter struct has fields: generated code would carry state"
		}
	case "Func":
		if strings.Join(names, ".") == "Func.Id.Params.Block" {
			if s, ok := constString(info, c.Links[1].Args[0]); ok && s == "init" && len(c.Links[2].Args) == 0 {
				return true, "func init() { … }"
			}
		}
	case "Add":
		if len(names) == 1 && len(c.Links[0].Args) == 1 {
			if id, ok := ast.Unparen(c.Links[0].Args[0]).(*ast.Ident); ok {
				obj := info.ObjectOf(id)
				okFn := false
				ast.Inspect(c.Encl.Decl, func(n ast.Node) bool {
					rs, ok := n.(*ast.RangeStmt)
					if ok && rs.Value != nil {
						if v, ok := rs.Value.(*ast.Ident); ok && info.ObjectOf(v) == obj {
							if t := info.TypeOf(rs.X); t != nil && strings.Contains(t.String(), "jen.Code") {
								okFn = true
							}
						}
					}
					return true
				})
				if okFn {
					return true, "element of the function list (checked at its append site)"
				}
			}
		}
	}
	return false, "file." + strings.Join(names, ".") + " is not one of the audited top-level forms (raw, comment, empty struct, init, functions): a Var/Const or other declaration would add package-level state"
}

// qualOrigin classifies the package-path argument of a jen.Qual call.
// passesWrapUsingParam: the argument is a parameter of the calling function, and all callers of that function
// pass Common.WrapErrorsUsing (or, again, their own such parameter) for it.
func passesWrapUsingParam(p *Prog, cs *CallSite, arg ast.Expr, depth int) bool {
	if depth > 3 || cs.Encl == nil {
		return false
	}
	id, ok := ast.Unparen(arg).(*ast.Ident)
	if !ok {
		return false
	}
	v, ok := cs.Pkg.TypesInfo.ObjectOf(id).(*types.Var)
	if !ok || !isParamOf(cs.Encl, v) {
		return false
	}
	sig := cs.Encl.Obj.Type().(*types.Signature)
	idx := -1
	for i := 0; i < sig.Params().Len(); i++ {
		if sig.Params().At(i) == v {
			idx = i
		}
	}
	n := 0
	for _, c2 := range p.Calls() {
		f, ok := c2.Callee.(*types.Func)
		if !ok || f.Origin() != cs.Encl.Obj.Origin() {
			continue
		}
		n++
		if idx < 0 || idx >= len(c2.Call.Args) {
			return false
		}
		if !isFieldSel(c2.Pkg.TypesInfo, c2.Call.Args[idx], modPath+"/config", "Common", "WrapErrorsUsing") && !passesWrapUsingParam(p, c2, c2.Call.Args[idx], depth+1) {
			return false
		}
	}
	return n > 0
}

func qualOrigin(p *Prog, c *Chain, arg ast.Expr) (string, bool) {
	info := c.Pkg.TypesInfo
	arg = ast.Unparen(arg)
	if s, ok := constString(info, arg); ok {
		if why, ok := literalQualAllowed[p.anchorFor(c.Encl, mapKeys(literalQualAllowed))][s]; ok {
			// sub-fact for fmt in caseAction: inside a case of EnumActionPanic/EnumActionError
			if p.anchorFor(c.Encl, mapKeys(literalQualAllowed)) == "builder.caseAction" && c.Encl.Name() == "builder.caseAction" {
				okArm := false
				for _, g := range guardsOf(c.Stack, c.Outer) {
					if g.Cond != nil && g.Tag != nil {
						if v, ok := constString(info, g.Cond); ok && (v == "@panic" || v == "@error") {
							okArm = true
						}
					}
				}
				if !okArm {
					return "literal \"fmt\" in caseAction outside the @panic/@error arms", false
				}
			}
			if p.anchorFor(c.Encl, mapKeys(literalQualAllowed)) == "xtype.toCodeBasic" && c.Encl.Name() == "xtype.toCodeBasic" {
				okArm := false
				for _, g := range guardsOf(c.Stack, c.Outer) {
					if g.Cond != nil && exprString(g.Cond) == "types.UnsafePointer" {
						okArm = true
					}
				}
				if !okArm {
					return "literal \"unsafe\" outside the UnsafePointer arm", false
				}
			}
			return "audited literal \"" + s + "\": " + why, true
		}
		return fmt.Sprintf("literal package %q emitted from %s is not in the audited list: the generated file would import a package that owns none of the converted types or custom functions", s, c.Encl.Name()), false
	}
	// X.Pkg().Path()
	if call, ok := arg.(*ast.CallExpr); ok {
		if fn, ok := calleeObj(info, call).(*types.Func); ok && isFunc(fn, "go/types", "Package", "Path") {
			return "package of a user object (go/types)", true
		}
	}
	if sel, ok := arg.(*ast.SelectorExpr); ok {
		if sel.Sel.Name == "Package" && fieldOwnerIs(info, sel, modPath+"/method", "Definition") {
			return "method.Definition.Package (package that owns the custom/declared function)", true
		}
	}
	if id, ok := arg.(*ast.Ident); ok {
		if v, ok := info.ObjectOf(id).(*types.Var); ok && isParamOf(c.Encl, v) {
			// all callers must pass Common.WrapErrorsUsing
			idx := -1
			sig := c.Encl.Obj.Type().(*types.Signature)
			for i := 0; i < sig.Params().Len(); i++ {
				if sig.Params().At(i) == v {
					idx = i
				}
			}
			n, bad := 0, ""
			for _, cs := range p.Calls() {
				f, ok := cs.Callee.(*types.Func)
				if !ok || f.Origin() != c.Encl.Obj.Origin() {
					continue
				}
				n++
				// a local that merely names the setting (`using := ctx.Conf.WrapErrorsUsing`) stands for it
				argx := cs.Call.Args[idx]
				if lid, isID := ast.Unparen(argx).(*ast.Ident); isID && cs.Encl != nil {
					if def := localDef(cs.Pkg.TypesInfo, cs.Encl.Decl, cs.Pkg.TypesInfo.ObjectOf(lid)); def != nil {
						argx = def
					}
				}
				if !isFieldSel(cs.Pkg.TypesInfo, argx, modPath+"/config", "Common", "WrapErrorsUsing") && !passesWrapUsingParam(p, cs, cs.Call.Args[idx], 0) {
					bad = p.PosStr(cs.Call.Pos())
				}
				// the setting in effect is the method's (ctx.Conf…), not the converter's: a method-level
				// wrapErrorsUsing decides which package the file imports
				if isFieldSel(cs.Pkg.TypesInfo, argx, modPath+"/config", "Common", "WrapErrorsUsing") {
					fromCtx := false
					cur := argx
					for hop := 0; hop < 4 && cur != nil; hop++ {
						rid := rootIdent(cur)
						if rid == nil {
							break
						}
						if isNamed(derefType(cs.Pkg.TypesInfo.TypeOf(rid)), modPath+"/builder", "MethodContext") {
							fromCtx = true
							break
						}
						// a local that names part of the context (`conf := ctx.Conf`)
						cur = nil
						if cs.Encl != nil {
							cur = localDef(cs.Pkg.TypesInfo, cs.Encl.Decl, cs.Pkg.TypesInfo.ObjectOf(rid))
						}
					}
					if !fromCtx {
						bad = p.PosStr(cs.Call.Pos()) + " (read from " + exprString(argx) + ", not from the method context)"
					}
				}
			}
			if n > 0 && bad == "" {
				return fmt.Sprintf("parameter %s: all %d caller(s) pass the configured wrapErrorsUsing package", id.Name, n), true
			}
			return "package path comes from parameter " + id.Name + " whose callers do not all pass Common.WrapErrorsUsing (" + bad + ")", false
		}
	}
	return "origin of the package path " + exprString(arg) + " is not recognised (user object, Definition.Package, wrapErrorsUsing)", false
}
