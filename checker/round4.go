package main

import (
	"fmt"
	"go/ast"
	"go/constant"
	"go/token"
	"go/types"
	"strings"

	"golang.org/x/tools/go/ssa"
)

// ---------------------------------------------------------------------------
// C01.R10 / C14.R10: the signature of a declared method is never changed

var signatureFields = map[string]bool{"Source": true, "Target": true, "MultiSources": true, "Context": true, "Signature": true, "RawArgs": true, "ReturnError": true, "UpdateTarget": true, "TypeParams": true}

// fieldRoot strips field selections (through embedded pointers too) from an address and returns the value the
// selection starts at.
func fieldRoot(v ssa.Value) ssa.Value {
	for {
		switch x := v.(type) {
		case *ssa.FieldAddr:
			v = x.X
			continue
		case *ssa.UnOp:
			if x.Op == token.MUL {
				if fa, ok := x.X.(*ssa.FieldAddr); ok {
					v = fa
					continue
				}
			}
		}
		return v
	}
}

// isFreshValue: v is an allocation of the function itself, or a local variable cell that only ever holds such
// allocations (`def := &Definition{…}` captured by a closure).
func isFreshValue(v ssa.Value) bool {
	switch x := v.(type) {
	case *ssa.Alloc:
		return true
	case *ssa.UnOp:
		cell, ok := x.X.(*ssa.Alloc)
		if !ok || x.Op != token.MUL || cell.Referrers() == nil {
			return false
		}
		stores := 0
		for _, ref := range *cell.Referrers() {
			if st, isSt := ref.(*ssa.Store); isSt && st.Addr == cell {
				if _, fresh := st.Val.(*ssa.Alloc); !fresh {
					return false
				}
				stores++
			}
		}
		return stores > 0
	case *ssa.FreeVar:
		// a captured local of the enclosing function
		fn := x.Parent()
		if fn.Parent() == nil {
			return false
		}
		for i, fv := range fn.FreeVars {
			if fv != x {
				continue
			}
			for _, in := range allInstrList(fn.Parent()) {
				if mc, isMC := in.(*ssa.MakeClosure); isMC && mc.Fn == fn && i < len(mc.Bindings) {
					if cell, isCell := mc.Bindings[i].(*ssa.Alloc); isCell {
						return isFreshValue(&ssa.UnOp{Op: token.MUL, X: cell})
					}
				}
			}
		}
	}
	return false
}

func allInstrList(fn *ssa.Function) []ssa.Instruction {
	var out []ssa.Instruction
	for _, b := range fn.Blocks {
		out = append(out, b.Instrs...)
	}
	return out
}

// signatureWriteReachable: can instruction `at` of fn execute while root.Explicit is true?  When root is a parameter
// of a private helper the question is asked at every call site of the helper, about the argument passed there.
func signatureWriteReachable(p *Prog, fn *ssa.Function, at ssa.Instruction, root ssa.Value, field string, depth int) bool {
	if prm, ok := root.(*ssa.Parameter); ok && depth < 3 && prm.Parent() == fn && fn.Object() != nil && !fn.Object().Exported() {
		idx := -1
		for i, q := range fn.Params {
			if q == prm {
				idx = i
			}
		}
		sites := p.SSACallSites(fn)
		if idx < 0 || len(sites) == 0 {
			return true
		}
		for _, cs := range sites {
			args := cs.Common().Args
			if idx >= len(args) {
				return true
			}
			if signatureWriteReachable(p, cs.Parent(), cs, fieldRoot(args[idx]), field, depth+1) {
				return true
			}
		}
		return false
	}
	for _, init := range []bool{false, true} {
		sc := &absScenario{
			assume: func(v ssa.Value, _ func(ssa.Value) absVal) (absVal, bool) {
				if ld, isLd := v.(*ssa.UnOp); isLd && ld.Op == token.MUL {
					if fa, isFA := ld.X.(*ssa.FieldAddr); isFA && fieldName(fa) == "Explicit" && fieldRoot(fa) == root {
						return aBool(true), true
					}
				}
				return aUnknown, false
			},
			tracked: map[string]absVal{field: aBool(init)},
			fieldOK: func(fa *ssa.FieldAddr) bool { return fieldRoot(fa) == root },
			marks: func(x ssa.Instruction) (string, bool) {
				return "w", x == at
			},
		}
		if field != "ReturnError" && field != "UpdateTarget" && field != "TypeParams" {
			sc.tracked = nil
		}
		got := absReachState(fn, sc, func(_ *ssa.Return, _ func(ssa.Value) absVal, st map[string]absVal) bool {
			return st["@w"].k == absBool && st["@w"].b
		})
		if got != nil {
			return true
		}
		if sc.tracked == nil {
			break
		}
	}
	return false
}

func isParametersField(fa *ssa.FieldAddr) bool {
	pt, ok := fa.X.Type().Underlying().(*types.Pointer)
	return ok && isNamed(pt.Elem(), modPath+"/method", "Parameters")
}

// signatureWrite: the instruction writes a signature field of a method definition; returns the address root.
func signatureWrite(in ssa.Instruction) (root ssa.Value, field string, ok bool) {
	switch x := in.(type) {
	case *ssa.Store:
		if fa, isFA := x.Addr.(*ssa.FieldAddr); isFA && isParametersField(fa) && signatureFields[fieldName(fa)] {
			return fieldRoot(fa), fieldName(fa), true
		}
	case *ssa.MapUpdate:
		if ld, isLd := x.Map.(*ssa.UnOp); isLd && ld.Op == token.MUL {
			if fa, isFA := ld.X.(*ssa.FieldAddr); isFA && isParametersField(fa) && signatureFields[fieldName(fa)] {
				return fieldRoot(fa), fieldName(fa), true
			}
		}
	}
	return nil, "", false
}

// declaredSignatureRule: outside construction (the value is a fresh allocation of the function), a signature field
// of a method is written only on paths on which that same method's Explicit flag was read as false — decided by the
// evaluator: with every `X.Explicit` load of the written value X assumed true, for either initial value of the
// written flag, no path executes the write.
func declaredSignatureRule(p *Prog, r *Report, id string) {
	r.Rule(id, "the signature of a declared method is immutable: every write to method.Parameters fields (Source, Target, Context, RawArgs, ReturnError, UpdateTarget, …) outside the construction of a fresh value goes through a *generatedMethod X and is unreachable when X.Explicit is true (evaluated: all X.Explicit loads of that same X true, either initial value of the written flag ⇒ the write is on no path) — a declared method never gains a parameter or an error result", 3)
	n, guarded, bad := 0, 0, 0
	for _, fi := range p.Funcs {
		if fi.Lit != nil {
			continue
		}
		sf := p.SSAFunc(fi)
		if sf == nil {
			continue
		}
		allInstrs(sf, true, func(in ssa.Instruction) {
			root, field, ok := signatureWrite(in)
			if !ok {
				return
			}
			n++
			fn := in.Parent()
			site := fmt.Sprintf("%s/write .%s", fi.Name(), field)
			if isFreshValue(root) {
				r.OK(site, p.PosStr(in.Pos()), "construction of a fresh value")
				return
			}
			pt, isPtr := root.Type().Underlying().(*types.Pointer)
			if !isPtr || !isNamed(pt.Elem(), modPath+"/generator", "generatedMethod") {
				_ = fn
				r.Bad(site, p.PosStr(in.Pos()), "a signature field of an existing method definition is written through "+root.Type().String()+", which carries no Explicit flag: a declared method's signature may change")
				return
			}
			reached := signatureWriteReachable(p, fn, in, root, field, 0)
			if reached {
				bad++
				r.Bad(site, p.PosStr(in.Pos()), "the write is reachable although the written method's own Explicit flag is true: a declared method would get a signature its declaration does not have (extra parameter / error result) — the guard must test the method that is written")
			} else {
				guarded++
				r.OK(site, p.PosStr(in.Pos()), "unreachable when the written method is Explicit")
			}
		})
	}
	r.Analysed["signature_field_writes"] = n
	if guarded+bad < 2 {
		r.Bad("generator/guarded signature writes", "", fmt.Sprintf("only %d guarded signature writes found (ReturnError flip and context append expected)", guarded))
	}
}

// ---------------------------------------------------------------------------
// C03.R10 / C04.R6 / C11.R11: a rule applies whenever its documented condition holds

// typeRole: "source"/"target" for the first/second *xtype.Type parameter of the enclosing function, "" otherwise
// (helpers take them in the same order as Matches).
func typeRole(prm *ssa.Parameter) string {
	n := 0
	for _, q := range prm.Parent().Params {
		pt, ok := q.Type().(*types.Pointer)
		if !ok || !isNamed(pt.Elem(), modPath+"/xtype", "Type") {
			continue
		}
		n++
		if q == prm {
			switch n {
			case 1:
				return "source"
			case 2:
				return "target"
			}
		}
	}
	return ""
}

// roleFieldPath: v loads <source|target>.<f1>[.<f2>…]; returns the role and the dotted path.
func roleFieldPath(v ssa.Value) (string, string) {
	var path []string
	cur := v
	for {
		u, ok := cur.(*ssa.UnOp)
		if !ok || u.Op != token.MUL {
			break
		}
		fa, ok := u.X.(*ssa.FieldAddr)
		if !ok {
			break
		}
		path = append([]string{fieldName(fa)}, path...)
		cur = fa.X
	}
	prm, ok := cur.(*ssa.Parameter)
	if !ok || len(path) == 0 {
		return "", ""
	}
	s := path[0]
	for _, x := range path[1:] {
		s += "." + x
	}
	return typeRole(prm), s
}

type matchCond struct {
	fn    string
	atoms map[string]bool // "source.Basic" → true, "target.ListFixed" → false, "flag:SkipCopySameType" → true, "kindEq"/"stringEq"/"enumOK" → true
	doc   string
}

var matchCondTable = []matchCond{
	{"builder.(*Basic).Matches", map[string]bool{"source.Basic": true, "target.Basic": true, "kindEq": true}, "both basic with equal kind"},
	{"builder.(*BasicTargetPointerRule).Matches", map[string]bool{"source.Basic": true, "target.Pointer": true, "target.PointerInner.Basic": true}, "basic source, pointer-to-basic target"},
	{"builder.(*List).Matches", map[string]bool{"source.List": true, "target.List": true, "target.ListFixed": false}, "list source, slice target"},
	{"builder.(*Map).Matches", map[string]bool{"source.Map": true, "target.Map": true}, "both maps"},
	{"builder.(*Struct).Matches", map[string]bool{"source.Struct": true, "target.Struct": true}, "both structs"},
	{"builder.(*Pointer).Matches", map[string]bool{"source.Pointer": true, "target.Pointer": true}, "both pointers"},
	{"builder.(*TargetPointer).Matches", map[string]bool{"source.Pointer": false, "target.Pointer": true}, "non-pointer source, pointer target"},
	{"builder.(*SourcePointer).Matches", map[string]bool{"flag:UseZeroValueOnPointerInconsistency": true, "source.Pointer": true, "target.Pointer": false}, "useZeroValueOnPointerInconsistency, pointer source, non-pointer target"},
	{"builder.(*SkipCopy).Matches", map[string]bool{"flag:SkipCopySameType": true, "stringEq": true}, "skipCopySameType and identical types"},
	{"builder.(*Enum).Matches", map[string]bool{"flag:Enabled": true, "enumOK": true}, "enum detection enabled and both types detected as enums"},
}

func kindCallRole(v ssa.Value) string {
	c, ok := v.(*ssa.Call)
	if !ok || ssaCalleeObj(c) == nil || !isFunc(ssaCalleeObj(c), "go/types", "Basic", "Kind") || len(c.Call.Args) != 1 {
		return ""
	}
	role, path := roleFieldPath(c.Call.Args[0])
	if path != "BasicType" {
		return ""
	}
	return role
}

// matchAtomAssume builds the atom recogniser for a Matches predicate: atoms maps "source.Basic", "flag:X", "kindEq",
// "stringEq", "enumOK" to the value assumed; everything else stays unknown.
func matchAtomAssume(atoms map[string]bool, used map[string]bool) func(v ssa.Value, _ func(ssa.Value) absVal) (absVal, bool) {
	return func(v ssa.Value, _ func(ssa.Value) absVal) (absVal, bool) {
		if role, path := roleFieldPath(v); role != "" {
			if want, ok := atoms[role+"."+path]; ok {
				used[role+"."+path] = true
				return aBool(want), true
			}
		}
		for a, want := range atoms {
			if len(a) > 5 && a[:5] == "flag:" && loadsField(v, a[5:]) {
				used[a] = true
				return aBool(want), true
			}
		}
		if want, ok := atoms["enumOK"]; ok && loadsField(v, "OK") {
			used["enumOK"] = true
			return aBool(want), true
		}
		if b, ok := v.(*ssa.BinOp); ok && b.Op == token.EQL {
			if want, ok := atoms["kindEq"]; ok {
				x, y := kindCallRole(b.X), kindCallRole(b.Y)
				if (x == "source" && y == "target") || (x == "target" && y == "source") {
					used["kindEq"] = true
					return aBool(want), true
				}
			}
			if want, ok := atoms["stringEq"]; ok {
				xr, xp := roleFieldPath(b.X)
				yr, yp := roleFieldPath(b.Y)
				if xp == "String" && yp == "String" && xr != "" && yr != "" && xr != yr {
					used["stringEq"] = true
					return aBool(want), true
				}
			}
		}
		if c, ok := v.(*ssa.Call); ok && ssaCalleeObj(c) != nil && isFunc(ssaCalleeObj(c), "go/types", "", "Identical") {
			if want, ok := atoms["stringEq"]; ok {
				used["stringEq"] = true
				return aBool(want), true
			}
		}
		return aUnknown, false
	}
}

// gateByEval: for the documented condition of fn (matchCondTable), fixing any single atom to the opposite value makes
// `return true` unreachable — Matches can hold only under its gate.  Used when the gate facts are not visible at the
// return sites themselves.
func gateByEval(sf *ssa.Function, fn string) bool {
	key := fn
	if fn == "builder.isEnum" {
		key = "builder.(*Enum).Matches"
	}
	for _, mc := range matchCondTable {
		if mc.fn != key {
			continue
		}
		for a, want := range mc.atoms {
			used := map[string]bool{}
			sc := &absScenario{assume: matchAtomAssume(map[string]bool{a: !want}, used)}
			if absReach(sf, sc, trueGoal) != nil || !used[a] {
				return false
			}
		}
		return true
	}
	return false
}

// matchesCompleteRule: evaluated with the documented condition assumed (and everything else unknown), Matches cannot
// return false — an additional test (`!target.Named`, a setting, identity instead of kind equality) makes the rule
// step aside for inputs it is documented to handle; they then fall to a later rule or to "no rule" (rejected).
func matchesCompleteRule(p *Prog, r *Report, id, why string, only ...string) {
	floor := len(matchCondTable)
	if len(only) > 0 {
		floor = len(only)
	}
	r.Rule(id, "each builder's Matches returns true whenever its documented condition holds (evaluated: with exactly these atoms assumed and every other test unknown, no path returns false): no additional restriction lets a defined conversion fall through — "+why+onlyNote(only), floor)
	for _, mc := range matchCondTable {
		if len(only) > 0 && !has(only, mc.fn) {
			continue
		}
		fi, sf := needFunc(p, r, mc.fn)
		if fi == nil {
			continue
		}
		site := mc.fn + "/complete"
		used := map[string]bool{}
		sc := &absScenario{assume: matchAtomAssume(mc.atoms, used)}
		if got := absReach(sf, sc, falseGoal); got != nil {
			r.Bad(site, p.PosStr(got.Pos()), "can return false although its documented condition ("+mc.doc+") holds: an additional or stricter test makes the rule step aside for inputs it is documented to handle")
			continue
		}
		if absReach(sf, sc, trueGoal) == nil {
			r.Bad(site, p.PosStr(fi.Decl.Pos()), "never returns true under its documented condition")
			continue
		}
		r.OK(site, p.PosStr(fi.Decl.Pos()), fmt.Sprintf("returns true on every path when %s (atoms met: %d)", mc.doc, len(used)))
	}
}

// ---------------------------------------------------------------------------
// C02.R11: emitted dereferences

var auditedDerefs = map[string]string{
	"xtype.(*JenID).Deref":                   "the pointee expression of a source pointer; every caller emits it under `source != nil` (C02.R2)",
	"xtype.toCode":                           "pointer type expression *T",
	"builder.(*Pointer).Build":               "*<constructor variable>: the variable was just assigned a non-nil pointer (default:update)",
	"builder.(*TargetPointer).Build":         "*<constructor variable>: the variable was just assigned a non-nil pointer (default:update)",
	"generator.(*generator).appendGenerated": "receiver type (c *Impl) of the generated methods",
}

// derefOwnershipRule: an emitted `*x` is the only construct besides indexing through which generated code can fault
// on nil.  It is emitted at the audited sites only; any other emission is accepted when the innermost loop (or the
// function) it sits in emits `<same expression variable> != nil` before it, otherwise reported.
func derefOwnershipRule(p *Prog, r *Report, id string, chains []*Chain) {
	r.Rule(id, "emitted dereferences: jen.Op(\"*\") is emitted only at the audited sites (JenID.Deref — callers guarded by C02.R2 —, *<constructor variable>, pointer types and the receiver); a dereference emitted anywhere else must be preceded, inside the same innermost loop body, by the emission of `<that expression> != nil`, or the generated code can dereference nil at some depth", 4)
	n := 0
	for _, c := range chains {
		for i, l := range c.Links {
			if l.Name != "Op" || len(l.Args) != 1 {
				continue
			}
			if s, ok := constString(c.Pkg.TypesInfo, l.Args[0]); !ok || s != "*" {
				continue
			}
			n++
			anchor := p.anchorFor(c.Encl, mapKeys(auditedDerefs))
			site := fmt.Sprintf("%s/emit *#%d", anchor, n)
			if why, ok := auditedDerefs[anchor]; ok {
				r.OK(anchor+"/emit *", p.PosStr(l.Call.Pos()), "audited: "+why)
				continue
			}
			// operand: the argument of the following Add (unary use at the start of a chain)
			var operand *ast.Ident
			if i+1 < len(c.Links) && c.Links[i+1].Name == "Add" && len(c.Links[i+1].Args) == 1 {
				operand = chainRootIdent(c.Pkg.TypesInfo, c.Links[i+1].Args[0])
			}
			if operand != nil && nilCheckEmittedBefore(c, operand) {
				r.OK(site, p.PosStr(l.Call.Pos()), "`"+operand.Name+" != nil` is emitted before it in the same loop body")
				continue
			}
			r.Bad(site, p.PosStr(l.Call.Pos()), "a dereference is emitted outside the audited sites and no `!= nil` test of the dereferenced expression is emitted with it (same loop body): the generated code panics when that pointer is nil")
		}
	}
	r.Analysed["emitted_derefs"] = n
}

// chainRootIdent: the variable a jen expression is built from: x, x.Clone(), x.Code.Clone(), …
func chainRootIdent(info *types.Info, e ast.Expr) *ast.Ident {
	e = ast.Unparen(e)
	if c, ok := chainOf(info, e); ok {
		if c.Root == nil {
			return nil
		}
		return rootIdent(c.Root)
	}
	return rootIdent(e)
}

func nilCheckEmittedBefore(c *Chain, operand *ast.Ident) bool {
	info := c.Pkg.TypesInfo
	obj := info.ObjectOf(operand)
	// innermost enclosing loop body, else the function body
	var body *ast.BlockStmt
	for i := len(c.Stack) - 1; i >= 0; i-- {
		switch x := c.Stack[i].(type) {
		case *ast.ForStmt:
			body = x.Body
		case *ast.RangeStmt:
			body = x.Body
		case *ast.FuncLit:
			body = x.Body
		case *ast.FuncDecl:
			body = x.Body
		}
		if body != nil {
			break
		}
	}
	if body == nil || obj == nil {
		return false
	}
	found := false
	ast.Inspect(body, func(n ast.Node) bool {
		call, ok := n.(*ast.CallExpr)
		if !ok || call.Pos() >= c.Outer.Pos() || found {
			return !found
		}
		cc, ok := chainOf(info, call)
		if !ok || cc.Root == nil {
			return true
		}
		if id := rootIdent(cc.Root); id == nil || info.ObjectOf(id) != obj {
			return true
		}
		for j, l := range cc.Links {
			if l.Name == "Op" && len(l.Args) == 1 && j+1 < len(cc.Links) && cc.Links[j+1].Name == "Nil" {
				if s, ok := constString(info, l.Args[0]); ok && s == "!=" {
					found = true
				}
			}
		}
		return true
	})
	return found
}

// ---------------------------------------------------------------------------
// C05.R11: goverter:ignore A B C records every listed field

func ignoreEveryFieldRule(p *Prog, r *Report, id string) {
	r.Rule(id, "`goverter:ignore A B …` ignores every listed field: in config.parseMethodLine each store `.Ignore = true` goes to m.Field(<element>) where <element> is loaded from the slice strings.Fields(<rest of the line>) unmodified (not a re-parsed or overwritten value), inside a loop over that slice without early leave", 1)
	n := 0
	for _, rf := range p.Region("config.parseMethodLine") {
		sf := p.SSAFunc(rf)
		if sf == nil {
			continue
		}
		allInstrs(sf, true, func(in ssa.Instruction) {
			st, ok := in.(*ssa.Store)
			if !ok {
				return
			}
			fa, ok := st.Addr.(*ssa.FieldAddr)
			if !ok || fieldName(fa) != "Ignore" {
				return
			}
			call, ok := fa.X.(*ssa.Call)
			if !ok || ssaCalleeObj(call) == nil || ssaCalleeObj(call).Name() != "Field" || len(call.Call.Args) < 2 {
				return
			}
			n++
			site := fmt.Sprintf("%s/.Ignore store#%d", rf.Name(), n)
			arg := call.Call.Args[len(call.Call.Args)-1]
			ld, isLd := arg.(*ssa.UnOp)
			var ia *ssa.IndexAddr
			if isLd && ld.Op == token.MUL {
				ia, _ = ld.X.(*ssa.IndexAddr)
			}
			if ia == nil {
				r.Bad(site, p.PosStr(st.Pos()), "the ignored field name is not an element of the list of names written on the line (it is "+arg.Name()+" = "+arg.String()+"): a listed field can be dropped or replaced silently")
				return
			}
			src, ok := ia.X.(*ssa.Call)
			if !ok || ssaCalleeObj(src) == nil || !isFunc(ssaCalleeObj(src), "strings", "", "Fields") {
				r.Bad(site, p.PosStr(st.Pos()), "the list the ignored names are taken from is not strings.Fields(<rest of the line>)")
				return
			}
			r.OK(site, p.PosStr(st.Pos()), "m.Field(<element of strings.Fields(rest)>).Ignore = true")
		})
	}
	if n == 0 {
		r.Bad("config.parseMethodLine/.Ignore store", "", "no store of Ignore found")
	}
}

// ---------------------------------------------------------------------------
// C06.R14 / C13.R?: writer and reader of generatedMethod.OriginPath agree on its order

func sliceLitHolds(v ssa.Value, pred func(ssa.Value) bool) bool {
	sl, ok := v.(*ssa.Slice)
	if !ok {
		return false
	}
	arr, ok := sl.X.(*ssa.Alloc)
	if !ok || arr.Referrers() == nil {
		return false
	}
	for _, ref := range *arr.Referrers() {
		ia, ok := ref.(*ssa.IndexAddr)
		if !ok || ia.Referrers() == nil {
			continue
		}
		for _, r2 := range *ia.Referrers() {
			if st, ok := r2.(*ssa.Store); ok && st.Addr == ia && pred(st.Val) {
				return true
			}
		}
	}
	return false
}

func builtinAppend(v ssa.Value) (a, b ssa.Value, ok bool) {
	c, isCall := v.(*ssa.Call)
	if !isCall {
		return nil, nil, false
	}
	bi, isB := c.Call.Value.(*ssa.Builtin)
	if !isB || bi.Name() != "append" || len(c.Call.Args) != 2 {
		return nil, nil, false
	}
	return c.Call.Args[0], c.Call.Args[1], true
}

// originPathOrderRule: createSubMethod stores [creator, creator's origin path…] (nearest first, declared root last);
// availableContext takes the declared root from the end.  The two must agree, or a deep sub-method is rebuilt with the
// context of an intermediate generated method.
func originPathOrderRule(p *Prog, r *Report, id string) {
	r.Rule(id, "writer and reader of generatedMethod.OriginPath agree: generator.createSubMethod stores append([creator], creator.OriginPath...) (nearest first, declared root last) and generator.availableContext resolves the declared root as OriginPath[len-1] — or both use the opposite order; otherwise a sub-method below depth 1 is rebuilt with the contexts of a generated parent instead of the declared method's", 2)
	isOrigin := func(v ssa.Value) bool { return loadsField(v, "OriginPath") }
	// shape of a path value; bind maps parameters of a helper to the caller's arguments
	var shape func(v ssa.Value, bind map[*ssa.Parameter]ssa.Value, depth int) string
	shape = func(v ssa.Value, bind map[*ssa.Parameter]ssa.Value, depth int) string {
		if depth > 3 {
			return "?"
		}
		isIndexID := func(x ssa.Value) bool {
			if prm, ok := x.(*ssa.Parameter); ok && bind != nil {
				if a, ok := bind[prm]; ok {
					return loadsField(a, "IndexID")
				}
			}
			return loadsField(x, "IndexID")
		}
		if a, b, ok := builtinAppend(v); ok {
			switch {
			case sliceLitHolds(a, isIndexID) && isOrigin(b):
				return "creator-first"
			case sliceLitHolds(b, isIndexID):
				if a2, b2, ok2 := builtinAppend(a); ok2 && isOrigin(b2) && !sliceLitHolds(a2, isIndexID) {
					return "creator-last"
				} else if isOrigin(a) {
					return "creator-last(shared backing array)"
				}
			}
			return "?"
		}
		if c, ok := v.(*ssa.Call); ok {
			callee := c.Call.StaticCallee()
			if callee == nil || !p.ssaIsOwn(callee) || callee.Signature.Results().Len() != 1 {
				return "?"
			}
			nb := map[*ssa.Parameter]ssa.Value{}
			for i, a := range c.Call.Args {
				if i < len(callee.Params) {
					if prm, ok := a.(*ssa.Parameter); ok && bind != nil && bind[prm] != nil {
						a = bind[prm]
					}
					nb[callee.Params[i]] = a
				}
			}
			out := ""
			for _, blk := range callee.Blocks {
				for _, in := range blk.Instrs {
					if ret, ok := in.(*ssa.Return); ok {
						s := shape(ret.Results[0], nb, depth+1)
						if out != "" && out != s {
							return "?"
						}
						out = s
					}
				}
			}
			if out == "" {
				return "?"
			}
			return out
		}
		return "?"
	}
	writer := ""
	var wpos token.Pos
	if fi, _ := needFunc(p, r, "generator.(*generator).createSubMethod"); fi != nil {
		for _, rf := range p.Region("generator.(*generator).createSubMethod") {
			sf := p.SSAFunc(rf)
			if sf == nil {
				continue
			}
			allInstrs(sf, true, func(in ssa.Instruction) {
				st, ok := in.(*ssa.Store)
				if !ok {
					return
				}
				fa, ok := st.Addr.(*ssa.FieldAddr)
				if !ok || fieldName(fa) != "OriginPath" {
					return
				}
				wpos = st.Pos()
				writer = shape(st.Val, nil, 0)
			})
		}
	}
	reader := ""
	var rpos token.Pos
	if fi, sf := needFunc(p, r, "generator.(*generator).availableContext"); fi != nil {
		allInstrs(sf, true, func(in ssa.Instruction) {
			ia, ok := in.(*ssa.IndexAddr)
			if !ok || !isOrigin(ia.X) {
				return
			}
			rpos = ia.Pos()
			switch x := ia.Index.(type) {
			case *ssa.Const:
				if x.Int64() == 0 {
					reader = "first"
				} else {
					reader = "?"
				}
			case *ssa.BinOp:
				k, isK := x.Y.(*ssa.Const)
				ln, isLen := x.X.(*ssa.Call)
				if x.Op == token.SUB && isK && k.Int64() == 1 && isLen {
					if bi, ok := ln.Call.Value.(*ssa.Builtin); ok && bi.Name() == "len" && isOrigin(ln.Call.Args[0]) {
						reader = "last"
						return
					}
				}
				reader = "?"
			default:
				reader = "?"
			}
		})
	}
	site := "generator.createSubMethod ↔ availableContext/OriginPath order"
	switch {
	case writer == "" || reader == "":
		r.Bad(site, p.PosStr(wpos), fmt.Sprintf("writer (%q) or reader (%q) of OriginPath not found", writer, reader))
	case writer == "creator-first" && reader == "last", writer == "creator-last" && reader == "first":
		r.OK(site, p.PosStr(wpos), "stored "+writer+", declared root read as the "+reader+" element")
	default:
		r.Bad(site, p.PosStr(wpos), fmt.Sprintf("createSubMethod stores the path %s but availableContext (%s) reads the %s element as the declared root: for sub-methods below depth 1 that is a generated parent, whose contexts are a subset — the rebuild fails or drops context arguments", writer, p.PosStr(rpos), reader))
	}
}

// ---------------------------------------------------------------------------
// C07.R10: the location path is handed down, never restarted

func isErrorPathType(t types.Type) bool { return isNamed(t, modPath+"/builder", "ErrorPath") }

func errPathDerived(v ssa.Value, depth int) bool {
	if depth > 8 {
		return false
	}
	switch x := v.(type) {
	case *ssa.Parameter:
		return isErrorPathType(x.Type())
	case *ssa.FreeVar:
		return true // a captured variable of the enclosing function: judged there
	case *ssa.ChangeType:
		return errPathDerived(x.X, depth+1)
	case *ssa.Call:
		if fn := ssaCalleeObj(x); fn != nil && recvTypeName(fn) == "ErrorPath" && len(x.Call.Args) > 0 {
			return errPathDerived(x.Call.Args[0], depth+1)
		}
	case *ssa.Phi:
		for _, e := range x.Edges {
			if !errPathDerived(e, depth+1) {
				return false
			}
		}
		return true
	case *ssa.UnOp:
		if x.Op == token.MUL {
			// a local cell or captured variable holding the path
			switch c := x.X.(type) {
			case *ssa.Alloc:
				if c.Referrers() == nil {
					return false
				}
				n := 0
				for _, ref := range *c.Referrers() {
					if st, ok := ref.(*ssa.Store); ok && st.Addr == c {
						n++
						if !errPathDerived(st.Val, depth+1) {
							return false
						}
					}
				}
				return n > 0
			case *ssa.FreeVar:
				return true
			}
		}
	}
	return false
}

// errPathPassThroughRule: inside a function that was itself given the location path (a builder.ErrorPath parameter),
// every ErrorPath argument it passes on is that parameter or an extension of it (Field/Index/Key/…).  A nil or
// otherwise fresh path restarts the location: the failing element is reported without the fields/indices above it.
func errPathPassThroughRule(p *Prog, r *Report, id string) {
	r.Rule(id, "the location path is handed down: in every function of builder/generator that receives a builder.ErrorPath, each ErrorPath argument of a nested call (gen.Build/Assign/CallMethod, BuildByAssign/AssignByBuild, mapField, ReturnError, …) is that parameter or an extension of it (errPath.Field/Index/Key …) — never nil or a fresh path, which would report the failing element without the fields, indices and keys leading to it", 20)
	n := 0
	for _, fi := range p.Funcs {
		if fi.Lit != nil {
			continue
		}
		rel := relPkg(fi.Pkg.PkgPath)
		if rel != "builder" && rel != "generator" {
			continue
		}
		sf := p.SSAFunc(fi)
		if sf == nil {
			continue
		}
		has := false
		for _, prm := range sf.Params {
			if isErrorPathType(prm.Type()) {
				has = true
			}
		}
		if !has || recvTypeNameOfSSA(sf) == "ErrorPath" {
			continue
		}
		cnt := 0
		allInstrs(sf, true, func(in ssa.Instruction) {
			c, ok := in.(ssa.CallInstruction)
			if !ok {
				return
			}
			for _, a := range c.Common().Args {
				if !isErrorPathType(a.Type()) {
					continue
				}
				if fn := ssaCalleeObj(c); fn != nil && recvTypeName(fn) == "ErrorPath" && a == c.Common().Args[0] && !c.Common().IsInvoke() {
					continue // the receiver of an extension call: judged where the result is used
				}
				n++
				cnt++
				site := fmt.Sprintf("%s/ErrorPath argument#%d of %s", fi.Name(), cnt, calleeNameSSA(c))
				if errPathDerived(a, 0) {
					r.OK(site, p.PosStr(in.Pos()), "the received path or an extension of it")
				} else {
					r.Bad(site, p.PosStr(in.Pos()), "the path handed on is not derived from the path this function received (nil or a fresh path): a failure below is reported without the field names, indices and keys of the enclosing positions")
				}
			}
		})
	}
	r.Analysed["errorpath_arguments"] = n
}

func recvTypeNameOfSSA(f *ssa.Function) string {
	if f.Signature.Recv() == nil {
		return ""
	}
	if n := namedOf(derefType(f.Signature.Recv().Type())); n != nil {
		return n.Obj().Name()
	}
	return ""
}

func calleeNameSSA(c ssa.CallInstruction) string {
	if fn := ssaCalleeObj(c); fn != nil {
		return fn.Name()
	}
	return "<dynamic>"
}

// ---------------------------------------------------------------------------
// C10.R7: the umbrella setting update:ignoreZeroValueField switches all three categories

// extractOf: v is result #idx of a call to pkg.name.
func extractOf(v ssa.Value, idx int, pkg, name string) bool {
	ex, ok := v.(*ssa.Extract)
	if !ok || ex.Index != idx {
		return false
	}
	c, ok := ex.Tuple.(*ssa.Call)
	return ok && ssaCalleeObj(c) != nil && isFunc(ssaCalleeObj(c), pkg, "", name)
}

func firstStringParam(fn *ssa.Function) *ssa.Parameter {
	for _, prm := range fn.Params {
		if types.Identical(prm.Type().Underlying(), types.Typ[types.String]) {
			return prm
		}
	}
	return nil
}

func umbrellaSettingRule(p *Prog, r *Report, id string) {
	boolSettingRule(p, r, id, "update:ignoreZeroValueField", "`update:ignoreZeroValueField [yes|no]` sets all three categories to the parsed value: evaluated with the command fixed, parse.Bool's result fixed to v and the three flags initially !v, config.parseCommon cannot return success with IgnoreBasic-, IgnoreStruct- or IgnoreNillableZeroValueField still !v (for v = true and v = false)",
		"IgnoreBasicZeroValueField", "IgnoreStructZeroValueField", "IgnoreNillableZeroValueField")
}

// boolSettingRule: with the command fixed to key and parse.Bool's result fixed to v, parseCommon cannot return success
// while one of the fields still holds !v — for both values of v, so `no` switches off what an outer level enabled.
func boolSettingRule(p *Prog, r *Report, id, key, text string, fields ...string) {
	r.Rule(id, text, 2*len(fields))
	fi, sf := needFunc(p, r, "config.parseCommon")
	if fi == nil {
		return
	}
	cmd := firstStringParam(sf)
	if cmd == nil {
		r.Unresolved("config.parseCommon/command parameter")
		return
	}
	for _, val := range []bool{true, false} {
		for _, field := range fields {
			val, field := val, field
			nBool := 0
			tracked := map[string]absVal{}
			for _, f := range fields {
				tracked[f] = aBool(!val)
			}
			sc := &absScenario{
				tracked: tracked,
				assume: func(v ssa.Value, _ func(ssa.Value) absVal) (absVal, bool) {
					if v == cmd {
						return aStr(key), true
					}
					if extractOf(v, 0, modPath+"/config/parse", "Bool") {
						nBool++
						return aBool(val), true
					}
					if extractOf(v, 1, modPath+"/config/parse", "Bool") {
						return aNil, true
					}
					return aUnknown, false
				},
			}
			got := absReachState(sf, sc, func(ret *ssa.Return, eval func(ssa.Value) absVal, st map[string]absVal) bool {
				if len(ret.Results) == 0 {
					return false
				}
				if a := eval(ret.Results[len(ret.Results)-1]); a.k == absNonNil {
					return false
				}
				return !(st[field].k == absBool && st[field].b == val)
			})
			site := fmt.Sprintf("config.parseCommon/%s=%v sets .%s", key, val, field)
			switch {
			case nBool == 0:
				r.Bad(site, p.PosStr(fi.Decl.Pos()), "the arm does not parse its value with parse.Bool: it cannot be evaluated")
			case got != nil:
				r.Bad(site, p.PosStr(got.Pos()), fmt.Sprintf("a path returns success with .%s not set to the written value: the setting as written is not in effect (an outer level's value, or another category's, stays)", field))
			default:
				r.OK(site, p.PosStr(fi.Decl.Pos()), "always receives the parsed value")
			}
		}
	}
}

// ---------------------------------------------------------------------------
// C08.R12: useUnderlyingTypeMethods never takes over an enum pair

func underlyingEnumRefusalRule(p *Prog, r *Report, id string) {
	r.Rule(id, "UseUnderlyingTypeMethods (which precedes the Enum rule) refuses every pair that qualifies for enum conversion: evaluated with isEnum(ctx, source, target) fixed to true and everything else unknown, builder.(*UseUnderlyingTypeMethods).Build has no path returning success — an extend function on an underlying type can never replace the name-driven enum mapping", 1)
	fi, sf := needFunc(p, r, "builder.(*UseUnderlyingTypeMethods).Build")
	if fi == nil {
		return
	}
	n := 0
	sc := &absScenario{
		calls: func(c *ssa.Call, _ func(ssa.Value) absVal) (absVal, bool) {
			fn := ssaCalleeObj(c)
			if fn == nil || !isFunc(fn, modPath+"/builder", "", "isEnum") || len(c.Call.Args) != 3 {
				return aUnknown, false
			}
			// the pair tested must be this conversion's source and target
			s, _ := c.Call.Args[1].(*ssa.Parameter)
			t, _ := c.Call.Args[2].(*ssa.Parameter)
			if s == nil || t == nil || typeRole(s) != "source" || typeRole(t) != "target" {
				return aUnknown, false
			}
			n++
			return aBool(true), true
		},
	}
	got := absReach(sf, sc, successGoal)
	site := "builder.(*UseUnderlyingTypeMethods).Build/enum pair refused"
	switch {
	case got != nil && n == 0:
		r.Bad(site, p.PosStr(fi.Decl.Pos()), "isEnum(ctx, source, target) is not consulted: enum pairs are converted through the underlying type")
	case got != nil:
		r.Bad(site, p.PosStr(got.Pos()), "a path returns a conversion although the pair qualifies for enum conversion: the enum refusal depends on further conditions, so an extend function on the underlying type replaces the enum switch (unknown values no longer follow enum:unknown)")
	default:
		r.OK(site, p.PosStr(fi.Decl.Pos()), "no success return when isEnum holds")
	}
}

// ---------------------------------------------------------------------------
// C08.R13 / C06.R16: relative package forms are resolved against the declaring package

func relativePackageRule(p *Prog, r *Report, id string) {
	r.Rule(id, "PACKAGE in `[PACKAGE:]NAME` (extend, map/default functions, enum:exclude) is resolved against the declaring package for each relative form: evaluated with the package part fixed to \".\", a \"./\"-prefixed and a \"../\"-prefixed value, pkgload.ParseMethodString has no successful return that did not pass through path.Join(sourcePackage, pkg) — an unresolved \".\" would be compiled as the regular expression `.` by enum:exclude and match every package", 3)
	fi, sf := needFunc(p, r, "pkgload.ParseMethodString")
	if fi == nil {
		return
	}
	for _, form := range []string{".", "./", "../"} {
		form := form
		seen := 0
		isPartsLen := func(v ssa.Value) bool {
			c, ok := v.(*ssa.Call)
			if !ok {
				return false
			}
			b, ok := c.Call.Value.(*ssa.Builtin)
			if !ok || b.Name() != "len" || len(c.Call.Args) != 1 {
				return false
			}
			in, ok := c.Call.Args[0].(*ssa.Call)
			return ok && ssaCalleeObj(in) != nil && objPkgPath(ssaCalleeObj(in)) == "strings" && strings.HasPrefix(ssaCalleeObj(in).Name(), "Split")
		}
		sc := &absScenario{
			assume: func(v ssa.Value, _ func(ssa.Value) absVal) (absVal, bool) {
				if isPartsLen(v) {
					return aInt(2), true
				}
				// strings.Cut form: the package part is present
				if ex, ok := v.(*ssa.Extract); ok && ex.Index == 2 {
					if c, ok := ex.Tuple.(*ssa.Call); ok && ssaCalleeObj(c) != nil && isFunc(ssaCalleeObj(c), "strings", "", "Cut") {
						return aBool(true), true
					}
				}
				switch x := v.(type) {
				case *ssa.BinOp:
					if k, ok := x.Y.(*ssa.Const); ok && x.Op == token.EQL && k.Value != nil && k.Value.Kind() == constant.String && constant.StringVal(k.Value) == "." {
						seen++
						return aBool(form == "."), true
					}
				case *ssa.Call:
					if fn := ssaCalleeObj(x); fn != nil && isFunc(fn, "strings", "", "HasPrefix") && len(x.Call.Args) == 2 {
						if k, ok := x.Call.Args[1].(*ssa.Const); ok && k.Value != nil && k.Value.Kind() == constant.String {
							seen++
							return aBool(constant.StringVal(k.Value) == form), true
						}
					}
				}
				return aUnknown, false
			},
			marks: func(in ssa.Instruction) (string, bool) {
				c, ok := in.(*ssa.Call)
				if ok && ssaCalleeObj(c) != nil && (isFunc(ssaCalleeObj(c), "path", "", "Join") || isFunc(ssaCalleeObj(c), "path/filepath", "", "Join")) {
					return "join", true
				}
				return "", false
			},
		}
		got := absReachState(sf, sc, func(ret *ssa.Return, eval func(ssa.Value) absVal, st map[string]absVal) bool {
			if a := eval(ret.Results[len(ret.Results)-1]); a.k == absNonNil {
				return false
			}
			return !(st["@join"].k == absBool && st["@join"].b)
		})
		site := fmt.Sprintf("pkgload.ParseMethodString/package %q…", form)
		if got != nil {
			r.Bad(site, p.PosStr(got.Pos()), "a successful return is reached without joining the package with the declaring package: this relative form is handed on verbatim (not loadable as a package; as an enum:exclude pattern `.` matches every package path)")
		} else {
			r.OK(site, p.PosStr(fi.Decl.Pos()), fmt.Sprintf("joined with the declaring package on every successful path (%d recognised tests)", seen))
		}
	}
}

// ---------------------------------------------------------------------------
// C10.R8 / C05.R12: type strings are identities, not text

func isTypeStringLoad(v ssa.Value) bool {
	ld, ok := v.(*ssa.UnOp)
	if !ok || ld.Op != token.MUL {
		return false
	}
	fa, ok := ld.X.(*ssa.FieldAddr)
	if !ok || fieldName(fa) != "String" {
		return false
	}
	pt, ok := fa.X.Type().Underlying().(*types.Pointer)
	return ok && isNamed(pt.Elem(), modPath+"/xtype", "Type")
}

func typeStringOpaqueRule(p *Prog, r *Report, id string) {
	r.Rule(id, "the struct a method's field settings apply to is identified by a type string taken as it is: the value stored in builder.MethodContext.FieldsTarget is xtype.Type.String of the target or of its pointee (a choice between such loads), the same view MethodContext.Field/DefinedFields compare it with; and no own code edits a type string with package strings (TrimPrefix(\"*\") and the like misjudge named pointer types) — otherwise ignore/map settings silently stop applying", 2)
	// (a) origin of FieldsTarget
	n := 0
	for _, fi := range p.Funcs {
		if fi.Lit != nil || relPkg(fi.Pkg.PkgPath) != "generator" {
			continue
		}
		sf := p.SSAFunc(fi)
		if sf == nil {
			continue
		}
		allInstrs(sf, true, func(in ssa.Instruction) {
			st, ok := in.(*ssa.Store)
			if !ok {
				return
			}
			fa, ok := st.Addr.(*ssa.FieldAddr)
			if !ok || fieldName(fa) != "FieldsTarget" {
				return
			}
			n++
			site := fmt.Sprintf("%s/FieldsTarget =#%d", fi.Name(), n)
			var ok2 func(v ssa.Value, d int) bool
			ok2 = func(v ssa.Value, d int) bool {
				if d > 6 {
					return false
				}
				if isTypeStringLoad(v) {
					return true
				}
				if ph, isPhi := v.(*ssa.Phi); isPhi {
					for _, e := range ph.Edges {
						if !ok2(e, d+1) {
							return false
						}
					}
					return true
				}
				return false
			}
			if ok2(st.Val, 0) {
				r.OK(site, p.PosStr(st.Pos()), "a type's String as it is")
			} else {
				r.Bad(site, p.PosStr(st.Pos()), "FieldsTarget is not the String of a type (target or its pointee) but a computed text: it no longer equals target.String of the struct being assigned for some type shapes (e.g. named pointer types), so the method's ignore/map settings are silently not applied")
			}
		})
	}
	if n == 0 {
		r.Bad("generator/FieldsTarget", "", "no store to MethodContext.FieldsTarget found")
	}
	// (b) no string surgery on type strings
	m := 0
	for _, cs := range p.Calls() {
		fn, ok := cs.Callee.(*types.Func)
		if !ok || objPkgPath(fn) != "strings" || cs.Encl == nil {
			continue
		}
		for _, a := range cs.Call.Args {
			sel, ok := ast.Unparen(a).(*ast.SelectorExpr)
			if !ok || sel.Sel.Name != "String" {
				continue
			}
			if t := cs.Pkg.TypesInfo.TypeOf(sel.X); t == nil || !isNamed(derefType(t), modPath+"/xtype", "Type") {
				continue
			}
			m++
			r.Bad(cs.Encl.Name()+"/strings."+fn.Name()+"(type string)", p.PosStr(cs.Call.Pos()), "a type string is edited as text: type identity must be decided on the xtype flags (Pointer, PointerInner, Named …)")
		}
	}
	if m == 0 {
		r.OK("own code/no text surgery on type strings", "", "no strings.* call receives an xtype.Type.String")
	}
}

// ---------------------------------------------------------------------------
// C11.R12: the Update flag of the assignment reaches the zero-value guards

func updateReachesGuardRule(p *Prog, r *Report, id string) {
	r.Rule(id, "the zero-value guards see that the source is applied on top of an existing value: every call of builder.shouldCheckAgainstZero receives as isUpdate the Update flag of the *AssignTo the enclosing function was given (assignTo.Update) — not the method-level ctx.Conf.UpdateTarget, which is false for default FUNC / default:update methods", 2)
	callee := p.Func("builder.shouldCheckAgainstZero")
	if callee == nil {
		r.Unresolved("builder.shouldCheckAgainstZero")
		return
	}
	sig := callee.Obj.Type().(*types.Signature)
	idx := -1
	nb := 0
	for i := 0; i < sig.Params().Len(); i++ {
		if types.Identical(sig.Params().At(i).Type(), types.Typ[types.Bool]) {
			if nb == 0 {
				idx = i
			}
			nb++
		}
	}
	if idx < 0 {
		r.Unresolved("builder.shouldCheckAgainstZero/isUpdate parameter")
		return
	}
	n := 0
	for _, fi := range p.Funcs {
		if fi.Lit != nil || relPkg(fi.Pkg.PkgPath) != "builder" {
			continue
		}
		sf := p.SSAFunc(fi)
		if sf == nil {
			continue
		}
		allInstrs(sf, true, func(in ssa.Instruction) {
			c, ok := in.(*ssa.Call)
			if !ok || ssaCalleeObj(c) == nil || ssaCalleeObj(c).Origin() != callee.Obj.Origin() || idx >= len(c.Call.Args) {
				return
			}
			n++
			site := fmt.Sprintf("%s/shouldCheckAgainstZero#%d isUpdate", fi.Name(), n)
			a := c.Call.Args[idx]
			good := false
			if ld, isLd := a.(*ssa.UnOp); isLd && ld.Op == token.MUL {
				if fa, isFA := ld.X.(*ssa.FieldAddr); isFA && fieldName(fa) == "Update" {
					if prm, isPrm := fa.X.(*ssa.Parameter); isPrm {
						if pt, isPtr := prm.Type().(*types.Pointer); isPtr && isNamed(pt.Elem(), modPath+"/builder", "AssignTo") {
							good = true
						}
					}
				}
			}
			if good {
				r.OK(site, p.PosStr(c.Pos()), "assignTo.Update")
			} else {
				r.Bad(site, p.PosStr(c.Pos()), "isUpdate is not the Update flag of the function's *AssignTo: in a default FUNC / default:update method the guard `if source.F != <zero>` is not emitted for this field, so a zero source value overwrites FUNC's value despite update:ignoreZeroValueField")
			}
		})
	}
	if n == 0 {
		r.Bad("builder/shouldCheckAgainstZero calls", "", "no call found")
	}
}

// ---------------------------------------------------------------------------
// C11.R13 / C06.R16: source and target are never handed on swapped

func valueTypeRole(v ssa.Value, depth int) string {
	if depth > 6 {
		return ""
	}
	switch x := v.(type) {
	case *ssa.Parameter:
		return typeRole(x)
	case *ssa.UnOp:
		if x.Op == token.MUL {
			if fa, ok := x.X.(*ssa.FieldAddr); ok {
				return valueTypeRole(fa.X, depth+1)
			}
		}
	case *ssa.FieldAddr:
		return valueTypeRole(x.X, depth+1)
	}
	return ""
}

func roleOrderRule(p *Prog, r *Report, id string) {
	r.Rule(id, "source and target keep their roles across calls: wherever a function of builder/generator that has (source, target *xtype.Type) parameters passes values derived from them to the (source, target) parameter pair of another own function (lookups, hasDeclared, Matches, Build, Assign …), the source-derived value goes to the source position and the target-derived one to the target position — a swapped pair asks about the reverse conversion", 40)
	n := 0
	for _, fi := range p.Funcs {
		if fi.Lit != nil {
			continue
		}
		rel := relPkg(fi.Pkg.PkgPath)
		if rel != "builder" && rel != "generator" {
			continue
		}
		sf := p.SSAFunc(fi)
		if sf == nil {
			continue
		}
		cnt := 0
		allInstrs(sf, false, func(in ssa.Instruction) {
			c, ok := in.(ssa.CallInstruction)
			if !ok {
				return
			}
			fn := ssaCalleeObj(c)
			if fn == nil || !p.IsOwn(fn.Pkg()) {
				return
			}
			sig := fn.Type().(*types.Signature)
			// positions of the first two *xtype.Type parameters
			var pos []int
			for i := 0; i < sig.Params().Len(); i++ {
				if pt, ok := sig.Params().At(i).Type().(*types.Pointer); ok && isNamed(pt.Elem(), modPath+"/xtype", "Type") {
					pos = append(pos, i)
				}
			}
			if len(pos) != 2 {
				return
			}
			args := c.Common().Args
			off := 0
			if sig.Recv() != nil && !c.Common().IsInvoke() {
				off = 1
			}
			if pos[1]+off >= len(args) {
				return
			}
			ra, rb := valueTypeRole(args[pos[0]+off], 0), valueTypeRole(args[pos[1]+off], 0)
			if ra == "" || rb == "" {
				return
			}
			n++
			cnt++
			site := fmt.Sprintf("%s/call %s#%d (source, target)", fi.Name(), fn.Name(), cnt)
			if ra == "target" && rb == "source" {
				r.Bad(site, p.PosStr(in.Pos()), "the target-derived type is passed in the source position and the source-derived one in the target position: the callee decides about the reverse conversion")
			} else {
				r.OK(site, p.PosStr(in.Pos()), ra+", "+rb)
			}
		})
	}
	r.Analysed["source_target_pairs"] = n
}

// ---------------------------------------------------------------------------
// C12.R15: struct-only settings are validated against the output format in effect

func requireStructRule(p *Prog, r *Report, id string) {
	r.Rule(id, "`name` and `struct:comment` are accepted exactly when a struct is generated: evaluated with the test `c.OutputFormat == FormatStruct` fixed, config.(*Converter).requireStruct returns an error on every path when it is false and nil on every path when it is true (the resolved output:format decides, not the kind of declaration), and both arms of parseConverterLine consult it", 4)
	fi, sf := needFunc(p, r, "config.(*Converter).requireStruct")
	if fi == nil {
		return
	}
	for _, isStruct := range []bool{false, true} {
		isStruct := isStruct
		n := 0
		sc := &absScenario{
			assume: func(v ssa.Value, _ func(ssa.Value) absVal) (absVal, bool) {
				b, ok := v.(*ssa.BinOp)
				if !ok || (b.Op != token.EQL && b.Op != token.NEQ) {
					return aUnknown, false
				}
				x, y := b.X, b.Y
				if _, isK := x.(*ssa.Const); isK {
					x, y = y, x
				}
				k, isK := y.(*ssa.Const)
				if !isK || k.Value == nil || k.Value.Kind() != constant.String || constant.StringVal(k.Value) != "struct" || !loadsField(x, "OutputFormat") {
					return aUnknown, false
				}
				n++
				return aBool(isStruct == (b.Op == token.EQL)), true
			},
		}
		site := fmt.Sprintf("config.(*Converter).requireStruct/OutputFormat==struct is %v", isStruct)
		var got *ssa.Return
		if isStruct {
			got = absReach(sf, sc, func(ret *ssa.Return, eval func(ssa.Value) absVal) bool {
				a := eval(ret.Results[0])
				return !(a.k == absNil)
			})
		} else {
			got = absReach(sf, sc, func(ret *ssa.Return, eval func(ssa.Value) absVal) bool {
				a := eval(ret.Results[0])
				return !(a.k == absNonNil)
			})
		}
		switch {
		case got != nil && isStruct:
			r.Bad(site, p.PosStr(got.Pos()), "an error can be returned although the struct format is in effect: name / struct:comment would be refused on an ordinary converter")
		case got != nil:
			r.Bad(site, p.PosStr(got.Pos()), "nil can be returned although no struct is generated (output:format function or assign-variable): a `name` or `struct:comment` line is accepted and then silently has no effect")
		default:
			r.OK(site, p.PosStr(fi.Decl.Pos()), fmt.Sprintf("decided by the resolved output format (%d test(s) recognised)", n))
		}
	}
	// both arms consult it and return its error
	if pf := p.Func("config.parseConverterLine"); pf != nil {
		info := pf.Pkg.TypesInfo
		for _, arm := range []string{"name", "struct:comment"} {
			site := fmt.Sprintf("config.parseConverterLine/arm %q consults requireStruct", arm)
			found := false
			for _, rf := range p.Region("config.parseConverterLine") {
				ast.Inspect(rf.Decl, func(n ast.Node) bool {
					cc, ok := n.(*ast.CaseClause)
					if !ok {
						return true
					}
					match := false
					for _, e := range cc.List {
						if s, ok := constString(info, e); ok && s == arm {
							match = true
						}
					}
					if !match || len(cc.Body) == 0 {
						return true
					}
					if len(findCalls(info, cc, modPath+"/config", "Converter", "requireStruct")) >= 1 {
						found = true
					}
					// … or hands the line to a private helper that does
					ast.Inspect(cc, func(m ast.Node) bool {
						call, ok := m.(*ast.CallExpr)
						if !ok {
							return true
						}
						if f, ok := calleeObj(info, call).(*types.Func); ok && !f.Exported() {
							if h := p.Func(funcKey(f)); h != nil && p.inRegion("config.parseConverterLine", h) && len(findCalls(info, h.Decl, modPath+"/config", "Converter", "requireStruct")) >= 1 {
								found = true
							}
						}
						return true
					})
					return true
				})
			}
			if found {
				r.OK(site, p.PosStr(pf.Decl.Pos()), "the arm calls c.requireStruct() (its error cannot be dropped: C13.R3)")
			} else {
				r.Bad(site, p.PosStr(pf.Decl.Pos()), "the arm no longer calls c.requireStruct(): the setting is accepted for every output format")
			}
		}
	} else {
		r.Unresolved("config.parseConverterLine")
	}
}

// ---------------------------------------------------------------------------
// C15.R10: an absolute output file is related to the declaring directory with filepath.Rel

func resolvePackageRelRule(p *Prog, r *Report, id string) {
	r.Rule(id, "the package of an absolute output file (@cwd/… or an absolute path) is inferred from its position relative to the declaring file: evaluated with filepath.IsAbs(targetFile) fixed to true, config.resolvePackage has no successful return that did not compute filepath.Rel(filepath.Dir(<declaring file>), <target file>) — prefix surgery on the path is wrong whenever the target is not below the declaring directory", 2)
	fi, sf := needFunc(p, r, "config.resolvePackage")
	if fi == nil {
		return
	}
	var strs []*ssa.Parameter
	for _, prm := range sf.Params {
		if types.Identical(prm.Type(), types.Typ[types.String]) {
			strs = append(strs, prm)
		}
	}
	if len(strs) != 3 {
		r.Unresolved("config.resolvePackage/(sourceFileName, sourcePackage, targetFile)")
		return
	}
	srcFile, target := strs[0], strs[2]
	nAbs := 0
	// a parameter of a private helper stands for the argument passed at its (single) call site
	var resolve func(v ssa.Value, d int) ssa.Value
	resolve = func(v ssa.Value, d int) ssa.Value {
		prm, ok := v.(*ssa.Parameter)
		if !ok || prm.Parent() == sf || d > 3 {
			return v
		}
		sites := p.SSACallSites(prm.Parent())
		if len(sites) != 1 {
			return v
		}
		for i, q := range prm.Parent().Params {
			if q == prm && i < len(sites[0].Common().Args) {
				return resolve(sites[0].Common().Args[i], d+1)
			}
		}
		return v
	}
	relOK := func(c *ssa.Call) bool {
		if len(c.Call.Args) != 2 || resolve(c.Call.Args[1], 0) != ssa.Value(target) {
			return false
		}
		d, ok := c.Call.Args[0].(*ssa.Call)
		return ok && ssaCalleeObj(d) != nil && isFunc(ssaCalleeObj(d), "path/filepath", "", "Dir") && resolve(d.Call.Args[0], 0) == ssa.Value(srcFile)
	}
	sc := &absScenario{
		calls: func(c *ssa.Call, _ func(ssa.Value) absVal) (absVal, bool) {
			if fn := ssaCalleeObj(c); fn != nil && isFunc(fn, "path/filepath", "", "IsAbs") && len(c.Call.Args) == 1 && resolve(c.Call.Args[0], 0) == ssa.Value(target) {
				nAbs++
				return aBool(true), true
			}
			return aUnknown, false
		},
		marks: func(in ssa.Instruction) (string, bool) {
			c, ok := in.(*ssa.Call)
			if ok && ssaCalleeObj(c) != nil && isFunc(ssaCalleeObj(c), "path/filepath", "", "Rel") && relOK(c) {
				return "rel", true
			}
			return "", false
		},
	}
	got := absReachState(sf, sc, func(ret *ssa.Return, eval func(ssa.Value) absVal, st map[string]absVal) bool {
		if a := eval(ret.Results[len(ret.Results)-1]); a.k == absNonNil {
			return false
		}
		return !(st["@rel"].k == absBool && st["@rel"].b)
	})
	site := "config.resolvePackage/absolute target"
	switch {
	case got != nil:
		r.Bad(site, p.PosStr(got.Pos()), "a successful return is reached for an absolute target file without filepath.Rel(filepath.Dir(sourceFileName), targetFile): the inferred package path is wrong when the target is not below the declaring directory (e.g. converter in sub/, output @cwd/out/gen.go)")
	case nAbs == 0:
		r.Bad(site, p.PosStr(fi.Decl.Pos()), "filepath.IsAbs(targetFile) is not consulted")
	default:
		r.OK(site, p.PosStr(fi.Decl.Pos()), "filepath.Rel(filepath.Dir(sourceFileName), targetFile) on every successful path")
	}
	// the result is joined onto the declaring package
	joined := false
	allInstrs(sf, false, func(in ssa.Instruction) {
		c, ok := in.(*ssa.Call)
		if ok && ssaCalleeObj(c) != nil && isFunc(ssaCalleeObj(c), "path/filepath", "", "Join") {
			joined = true
		}
	})
	if joined {
		r.OK("config.resolvePackage/join", p.PosStr(fi.Decl.Pos()), "joined onto the declaring package path")
	} else {
		r.Bad("config.resolvePackage/join", p.PosStr(fi.Decl.Pos()), "the relative position is not joined onto the declaring package path")
	}
}

// ---------------------------------------------------------------------------
// C16.R8: build tags and the output constraint are opaque to goverter

var tagFields = map[string]bool{"BuildTags": true, "OutputBuildConstraint": true, "OuputBuildConstraint": true, "BuildConstraint": true}

// tagsOpaqueRule: the -build-tags list and the output constraint are only handed on: copied between configuration
// structs, compared with "", appended to the loader's `-tags` flag, or emitted after "//go:build ".  Own code that
// splits, parses or compares them interprets a language (go/build tags and constraints) it does not own: every such
// interpretation seen so far refused valid complementary pairs.
func tagsOpaqueRule(p *Prog, r *Report, id string) {
	r.Rule(id, "the -build-tags value and the output constraint are treated as opaque strings on their whole way from the CLI to packages.Load and to the file header (formatting them into a diagnostic aside): every use of a value read from a BuildTags / OutputBuildConstraint / BuildConstraint field (followed through own parameters, closures and φ) is a copy into another such field, a comparison with \"\", an element of the `-tags` flag list, or the operand of \"//go:build \" + … — goverter never validates or interprets them itself, so every complementary pair the go tool accepts is accepted", 1)
	type item struct {
		v  ssa.Value
		fn *ssa.Function
	}
	seen := map[ssa.Value]bool{}
	var work []item
	push := func(v ssa.Value, fn *ssa.Function) {
		if v != nil && !seen[v] {
			seen[v] = true
			work = append(work, item{v, fn})
		}
	}
	fnOf := map[*types.Func]*ssa.Function{}
	for _, fi := range p.Funcs {
		if fi.Lit != nil {
			continue
		}
		sf := p.SSAFunc(fi)
		if sf == nil {
			continue
		}
		fnOf[fi.Obj.Origin()] = sf
		allInstrs(sf, true, func(in ssa.Instruction) {
			ld, ok := in.(*ssa.UnOp)
			if !ok || ld.Op != token.MUL {
				return
			}
			if fa, ok := ld.X.(*ssa.FieldAddr); ok && tagFields[fieldName(fa)] && types.Identical(ld.Type().Underlying(), types.Typ[types.String]) {
				push(ld, in.Parent())
			}
		})
	}
	nUses, nBad := 0, 0
	where := func(in ssa.Instruction) string {
		f := in.Parent()
		for f.Parent() != nil {
			f = f.Parent()
		}
		return ssaName(f)
	}
	for len(work) > 0 {
		it := work[0]
		work = work[1:]
		refs := it.v.Referrers()
		if refs == nil {
			continue
		}
		for _, ref := range *refs {
			nUses++
			bad := ""
			switch x := ref.(type) {
			case *ssa.DebugRef:
				nUses--
			case *ssa.Store:
				if x.Val != it.v {
					break
				}
				switch a := x.Addr.(type) {
				case *ssa.FieldAddr:
					if !tagFields[fieldName(a)] {
						bad = "stored into field " + fieldName(a)
					}
				case *ssa.IndexAddr:
					// element of a variadic argument list: must be an append to a BuildFlags list next to "-tags"
					if !isTagsFlagList(a) {
						bad = "stored into a list that is not the loader's (\"-tags\", <tags>) flag list"
					}
				case *ssa.Alloc:
					// a local variable cell: follow its loads
					if a.Referrers() != nil {
						for _, r2 := range *a.Referrers() {
							if ld, ok := r2.(*ssa.UnOp); ok && ld.Op == token.MUL {
								push(ld, ld.Parent())
							}
						}
					}
				default:
					bad = "stored through " + x.Addr.String()
				}
			case *ssa.BinOp:
				other := x.Y
				if other == it.v {
					other = x.X
				}
				k, isK := other.(*ssa.Const)
				switch {
				case (x.Op == token.EQL || x.Op == token.NEQ) && isK && k.Value != nil && k.Value.Kind() == constant.String && constant.StringVal(k.Value) == "":
				case x.Op == token.ADD && isK && k.Value != nil && k.Value.Kind() == constant.String && strings.HasPrefix(constant.StringVal(k.Value), "//go:build"):
				default:
					bad = "used in the expression `" + x.String() + "` (compared or combined with something other than \"\" / \"//go:build \")"
				}
			case *ssa.Phi:
				push(x, x.Parent())
			case *ssa.MakeInterface:
				if !onlyFormatted(x) {
					bad = "converted to an interface value that is not merely formatted by package fmt"
				}
			case *ssa.MakeClosure:
				fn := x.Fn.(*ssa.Function)
				for i, b := range x.Bindings {
					if b == it.v && i < len(fn.FreeVars) {
						push(fn.FreeVars[i], fn)
					}
				}
			case ssa.CallInstruction:
				cc := x.Common()
				if b, ok := cc.Value.(*ssa.Builtin); ok {
					if b.Name() != "append" {
						bad = "passed to builtin " + b.Name()
					}
					break
				}
				callee := cc.StaticCallee()
				if callee == nil || !p.ssaIsOwn(callee) {
					name := "<dynamic call>"
					if o := ssaCalleeObj(x); o != nil {
						name = mutatorName(o)
					}
					bad = "passed to " + name
					break
				}
				for i, a := range cc.Args {
					if a == it.v && i < len(callee.Params) {
						push(callee.Params[i], callee)
					}
				}
			default:
				bad = fmt.Sprintf("used by %T", ref)
			}
			if bad != "" {
				nBad++
				r.Bad(fmt.Sprintf("%s/use of tags or constraint#%d", where(ref), nBad), p.PosStr(ref.Pos()), "the build-tag list / output constraint is "+bad+": goverter interprets a value it should only hand on — valid complementary -build-tags / -output-constraint pairs (dots, digits, several tags) can be refused before the packages are loaded")
			}
		}
	}
	r.Analysed["tag_value_uses"] = nUses
	if nBad == 0 {
		if nUses < 8 {
			r.Bad("own code/tag value uses", "", fmt.Sprintf("only %d uses of the tag/constraint values found (vacuous)", nUses))
		} else {
			r.OK("own code/tag and constraint values only handed on", "", fmt.Sprintf("%d uses: copies, \"\" tests, -tags flag lists, //go:build header", nUses))
		}
	}
}

// onlyFormatted: the interface value only ends up in the variadic arguments of fmt functions (a diagnostic text).
func onlyFormatted(m *ssa.MakeInterface) bool {
	if m.Referrers() == nil {
		return true
	}
	for _, ref := range *m.Referrers() {
		switch x := ref.(type) {
		case *ssa.DebugRef:
		case *ssa.Store:
			ia, ok := x.Addr.(*ssa.IndexAddr)
			if !ok {
				return false
			}
			arr, ok := ia.X.(*ssa.Alloc)
			if !ok || arr.Referrers() == nil {
				return false
			}
			for _, r2 := range *arr.Referrers() {
				sl, ok := r2.(*ssa.Slice)
				if !ok || sl.Referrers() == nil {
					continue
				}
				for _, r3 := range *sl.Referrers() {
					c, ok := r3.(ssa.CallInstruction)
					if !ok || ssaCalleeObj(c) == nil || objPkgPath(ssaCalleeObj(c)) != "fmt" {
						return false
					}
				}
			}
		case ssa.CallInstruction:
			if ssaCalleeObj(x) == nil || objPkgPath(ssaCalleeObj(x)) != "fmt" {
				return false
			}
		default:
			return false
		}
	}
	return true
}

func isTagsFlagList(ia *ssa.IndexAddr) bool {
	arr, ok := ia.X.(*ssa.Alloc)
	if !ok || arr.Referrers() == nil {
		return false
	}
	for _, ref := range *arr.Referrers() {
		o, ok := ref.(*ssa.IndexAddr)
		if !ok || o.Referrers() == nil {
			continue
		}
		for _, r2 := range *o.Referrers() {
			if st, ok := r2.(*ssa.Store); ok {
				if k, ok := st.Val.(*ssa.Const); ok && k.Value != nil && k.Value.Kind() == constant.String && constant.StringVal(k.Value) == "-tags" {
					return true
				}
			}
		}
	}
	return false
}

// ---------------------------------------------------------------------------
// C18.R8 / C01.R12: Definition.Package names the package that declares the function

func definitionPackageRule(p *Prog, r *Report, id string) {
	r.Rule(id, "method.Definition.Package is the package that declares the parsed object: in method.Parse every store to .Package is obj.Pkg().Path() of the object being parsed — it is what the emitted qualifiers (jen.Qual(def.Package, def.Name) in init() and in calls) and therefore the imports are built from; the output package is a different thing for goverter:variables generated elsewhere", 1)
	n := 0
	for _, rf := range p.Region("method.Parse") {
		sf := p.SSAFunc(rf)
		if sf == nil {
			continue
		}
		allInstrs(sf, true, func(in ssa.Instruction) {
			st, ok := in.(*ssa.Store)
			if !ok {
				return
			}
			fa, ok := st.Addr.(*ssa.FieldAddr)
			if !ok || fieldName(fa) != "Package" {
				return
			}
			if pt, ok := fa.X.Type().Underlying().(*types.Pointer); !ok || !isNamed(pt.Elem(), modPath+"/method", "Definition") {
				return
			}
			n++
			site := fmt.Sprintf("%s/Definition.Package =#%d", rf.Name(), n)
			good := false
			if c, ok := st.Val.(*ssa.Call); ok && ssaCalleeObj(c) != nil && isFunc(ssaCalleeObj(c), "go/types", "Package", "Path") && len(c.Call.Args) == 1 {
				// receiver: obj.Pkg() (possibly via a local / φ after the nil test)
				var fromPkg func(v ssa.Value, d int) bool
				fromPkg = func(v ssa.Value, d int) bool {
					if d > 4 {
						return false
					}
					switch x := v.(type) {
					case *ssa.Call:
						cc := x.Common()
						if cc.IsInvoke() && cc.Method.Name() == "Pkg" {
							return isParamOrItsCell(cc.Value)
						}
					case *ssa.Phi:
						for _, e := range x.Edges {
							if !fromPkg(e, d+1) {
								return false
							}
						}
						return true
					}
					return false
				}
				good = fromPkg(c.Call.Args[0], 0)
			}
			if good {
				r.OK(site, p.PosStr(st.Pos()), "obj.Pkg().Path()")
			} else {
				r.Bad(site, p.PosStr(st.Pos()), "Definition.Package is not the declaring package of the parsed object (obj.Pkg().Path()): qualifiers for the user's function variables / custom functions point to another package — the emitted file imports a package it does not need, or assigns variables that do not exist there")
			}
		})
	}
	if n == 0 {
		r.Bad("method.Parse/Definition.Package", "", "no store to Definition.Package found")
	}
}

// ---------------------------------------------------------------------------
// C17.O11: `gen` without a package pattern is a usage error

func missingPatternRule(p *Prog, r *Report, id string) {
	r.Rule(id, "`goverter gen` with options but without a PACKAGE pattern is a usage error (exit 1, nothing generated): evaluated with len(fs.Args()) / fs.NArg() — what is left after flag parsing — fixed to 0, cli.parseGen has no path returning success; and fixed to 1 a successful return exists", 2)
	fi, sf := needFunc(p, r, "cli.parseGen")
	if fi == nil {
		return
	}
	for _, k := range []int64{0, 1} {
		k := k
		n := 0
		sc := &absScenario{
			assume: func(v ssa.Value, _ func(ssa.Value) absVal) (absVal, bool) {
				c, ok := v.(*ssa.Call)
				if !ok {
					return aUnknown, false
				}
				if ssaCalleeObj(c) != nil && isFunc(ssaCalleeObj(c), "flag", "FlagSet", "NArg") {
					n++
					return aInt(k), true
				}
				b, ok := c.Call.Value.(*ssa.Builtin)
				if !ok || b.Name() != "len" || len(c.Call.Args) != 1 {
					return aUnknown, false
				}
				in, ok := c.Call.Args[0].(*ssa.Call)
				if !ok || ssaCalleeObj(in) == nil || !isFunc(ssaCalleeObj(in), "flag", "FlagSet", "Args") {
					return aUnknown, false
				}
				n++
				return aInt(k), true
			},
		}
		got := absReach(sf, sc, func(ret *ssa.Return, eval func(ssa.Value) absVal) bool {
			if !successGoal(ret, eval) {
				return false
			}
			// the command returned is a *Generate (help is a success too, but generates nothing)
			return mayBeGenerate(ret.Results[0], 0)
		})
		site := fmt.Sprintf("cli.parseGen/%d pattern(s) after the options", k)
		switch {
		case k == 0 && got != nil:
			r.Bad(site, p.PosStr(got.Pos()), "a Generate command is returned although no package pattern is left after the options: goverter then loads whatever package is in the working directory and writes files instead of printing the usage and exiting 1")
		case k == 1 && got == nil:
			r.Bad(site, p.PosStr(fi.Decl.Pos()), "no successful return with one pattern")
		default:
			r.OK(site, p.PosStr(fi.Decl.Pos()), fmt.Sprintf("decided on len(fs.Args()) (%d test(s))", n))
		}
	}
}

// isParamOrItsCell: v is a parameter, or the load of a local cell that only ever holds a parameter (captured by a closure).
func isParamOrItsCell(v ssa.Value) bool {
	if _, ok := v.(*ssa.Parameter); ok {
		return true
	}
	ld, ok := v.(*ssa.UnOp)
	if !ok || ld.Op != token.MUL {
		return false
	}
	cell, ok := ld.X.(*ssa.Alloc)
	if !ok || cell.Referrers() == nil {
		return false
	}
	n := 0
	for _, ref := range *cell.Referrers() {
		if st, ok := ref.(*ssa.Store); ok && st.Addr == cell {
			n++
			if _, isPrm := st.Val.(*ssa.Parameter); !isPrm {
				return false
			}
		}
	}
	return n > 0
}

// ---------------------------------------------------------------------------
// C16.R4 / C09.R7 (data-flow form): the -tags flag list of a packages.Load config

// tagsWiringSSA decides on values instead of statement shapes: every value stored into the BuildFlags field of the
// config handed to packages.Load is nil or the list ("-tags", T) — directly, appended to the (still empty) field, via a
// local or a φ — where T is the unmodified tag string (a string parameter or a BuildTags field), and the list is built
// only under `T != ""` and under no other condition.  ok=false: not proved (why says what is missing).
func tagsWiringSSA(p *Prog, load ssa.CallInstruction) (bool, string) {
	args := load.Common().Args
	if len(args) == 0 {
		return false, "no config argument"
	}
	cfg := args[0]
	if ld, ok := cfg.(*ssa.UnOp); ok && ld.Op == token.MUL {
		if cell, ok := ld.X.(*ssa.Alloc); ok && cell.Referrers() != nil {
			for _, ref := range *cell.Referrers() {
				if st, ok := ref.(*ssa.Store); ok && st.Addr == cell {
					cfg = st.Val
				}
			}
		}
	}
	al, ok := cfg.(*ssa.Alloc)
	if !ok || al.Referrers() == nil {
		return false, "the config is not a local composite literal"
	}
	isTagsField := func(v ssa.Value) bool {
		ld, ok := v.(*ssa.UnOp)
		if !ok || ld.Op != token.MUL {
			return false
		}
		fa, ok := ld.X.(*ssa.FieldAddr)
		return ok && fieldName(fa) == "BuildTags"
	}
	var plainTag func(v ssa.Value, d int) bool
	plainTag = func(v ssa.Value, d int) bool {
		if d > 4 {
			return false
		}
		if prm, ok := v.(*ssa.Parameter); ok {
			return types.Identical(prm.Type().Underlying(), types.Typ[types.String])
		}
		if isTagsField(v) {
			return true
		}
		if ld, ok := v.(*ssa.UnOp); ok && ld.Op == token.MUL {
			if cell, ok := ld.X.(*ssa.Alloc); ok && cell.Referrers() != nil {
				n := 0
				for _, ref := range *cell.Referrers() {
					if st, ok := ref.(*ssa.Store); ok && st.Addr == cell {
						n++
						if !plainTag(st.Val, d+1) {
							return false
						}
					}
				}
				return n > 0
			}
		}
		return false
	}
	sameTag := func(a, b ssa.Value) bool {
		if a == b {
			return true
		}
		if isTagsField(a) && isTagsField(b) {
			return fieldRoot(a.(*ssa.UnOp).X) == fieldRoot(b.(*ssa.UnOp).X)
		}
		la, oka := a.(*ssa.UnOp)
		lb, okb := b.(*ssa.UnOp)
		return oka && okb && la.Op == token.MUL && lb.Op == token.MUL && la.X == lb.X
	}
	type built struct {
		tag ssa.Value
		at  *ssa.BasicBlock
	}
	var lists []built
	why := ""
	// literal ("-tags", T)
	literal := func(v ssa.Value) (ssa.Value, *ssa.BasicBlock, bool) {
		sl, ok := v.(*ssa.Slice)
		if !ok {
			return nil, nil, false
		}
		arr, ok := sl.X.(*ssa.Alloc)
		if !ok || arr.Referrers() == nil {
			return nil, nil, false
		}
		elems := map[int64]ssa.Value{}
		for _, ref := range *arr.Referrers() {
			ia, ok := ref.(*ssa.IndexAddr)
			if !ok || ia.Referrers() == nil {
				continue
			}
			k, ok := ia.Index.(*ssa.Const)
			if !ok {
				return nil, nil, false
			}
			for _, r2 := range *ia.Referrers() {
				if st, ok := r2.(*ssa.Store); ok && st.Addr == ia {
					elems[k.Int64()] = st.Val
				}
			}
		}
		if len(elems) != 2 {
			return nil, nil, false
		}
		k0, ok := elems[0].(*ssa.Const)
		if !ok || k0.Value == nil || k0.Value.Kind() != constant.String || constant.StringVal(k0.Value) != "-tags" {
			return nil, nil, false
		}
		return elems[1], sl.Block(), true
	}
	var flagList func(v ssa.Value, d int) bool
	flagList = func(v ssa.Value, d int) bool {
		if d > 6 {
			why = "flag list too deeply nested"
			return false
		}
		switch x := v.(type) {
		case *ssa.Const:
			return x.Value == nil
		case *ssa.Slice:
			if t, b, ok := literal(x); ok {
				lists = append(lists, built{t, b})
				return true
			}
		case *ssa.Call:
			if a, b, ok := builtinAppend(x); ok {
				// appended to the field itself (still empty) or to an empty list
				okA := false
				if k, isK := a.(*ssa.Const); isK && k.Value == nil {
					okA = true
				}
				if ld, isLd := a.(*ssa.UnOp); isLd && ld.Op == token.MUL {
					if fa, isFA := ld.X.(*ssa.FieldAddr); isFA && fieldName(fa) == "BuildFlags" && fa.X == ssa.Value(al) {
						okA = true
					}
				}
				if t, blk, okL := literal(b); okA && okL {
					lists = append(lists, built{t, blk})
					return true
				}
			}
		case *ssa.Phi:
			for _, e := range x.Edges {
				if !flagList(e, d+1) {
					return false
				}
			}
			return true
		case *ssa.UnOp:
			if cell, ok := x.X.(*ssa.Alloc); ok && x.Op == token.MUL && cell.Referrers() != nil {
				n := 0
				for _, ref := range *cell.Referrers() {
					if st, ok := ref.(*ssa.Store); ok && st.Addr == cell {
						n++
						if !flagList(st.Val, d+1) {
							return false
						}
					}
				}
				return n > 0 || true
			}
		}
		if why == "" {
			why = "a value stored into BuildFlags is not nil or (\"-tags\", <tags>): " + v.String()
		}
		return false
	}
	nStores := 0
	for _, ref := range *al.Referrers() {
		fa, ok := ref.(*ssa.FieldAddr)
		if !ok || fieldName(fa) != "BuildFlags" || fa.Referrers() == nil {
			continue
		}
		for _, r2 := range *fa.Referrers() {
			if st, ok := r2.(*ssa.Store); ok && st.Addr == fa {
				nStores++
				if !flagList(st.Val, 0) {
					return false, why
				}
				if load.Block().Dominates(st.Block()) && load.Block() != st.Block() {
					return false, "BuildFlags are set after packages.Load"
				}
			}
		}
	}
	if nStores == 0 || len(lists) == 0 {
		return false, "no (\"-tags\", <tags>) list reaches BuildFlags"
	}
	for _, l := range lists {
		if !plainTag(l.tag, 0) {
			return false, "the value after \"-tags\" is not the unmodified configured tag string"
		}
		facts := factsAt(l.at)
		guard, other := false, 0
		for _, f := range facts {
			if b, ok := f.(*ssa.BinOp); ok && b.Op == token.NEQ {
				if k, isK := b.Y.(*ssa.Const); isK && k.Value != nil && k.Value.Kind() == constant.String && constant.StringVal(k.Value) == "" && sameTag(b.X, l.tag) {
					guard = true
					continue
				}
			}
			other++
		}
		if !guard || other > 0 {
			return false, "the -tags flag is not guarded by exactly `tags != \"\"`"
		}
	}
	return true, ""
}

// mayBeGenerate: the Command value can be a *cli.Generate (followed through φ and the results of own helpers).
func mayBeGenerate(v ssa.Value, d int) bool {
	if d > 4 {
		return true
	}
	switch x := v.(type) {
	case *ssa.MakeInterface:
		return isNamed(derefType(x.X.Type()), modPath+"/cli", "Generate")
	case *ssa.Const:
		return false
	case *ssa.Phi:
		for _, e := range x.Edges {
			if mayBeGenerate(e, d+1) {
				return true
			}
		}
		return false
	case *ssa.Extract:
		if c, ok := x.Tuple.(*ssa.Call); ok {
			if callee := c.Call.StaticCallee(); callee != nil && len(callee.Blocks) > 0 {
				for _, b := range callee.Blocks {
					for _, in := range b.Instrs {
						if ret, ok := in.(*ssa.Return); ok && x.Index < len(ret.Results) && mayBeGenerate(ret.Results[x.Index], d+1) {
							return true
						}
					}
				}
				return false
			}
		}
	}
	return true
}
