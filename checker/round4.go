package main

import (
	"fmt"
	"go/ast"
	"go/constant"
	"go/token"
	"strings"
	"go/types"

	"golang.org/x/tools/go/ssa"
)

// ---------------------------------------------------------------------------
// C01.R10 / C14.R10: the signature of a declared method is never changed

var signatureFields = map[string]bool{"Source": true, "Target": true, "MultiSources": true, "Context": true, "Signature": true, "RawArgs": true, "ReturnError": true, "UpdateTarget": true, "TypeParams": true}

// fieldRoot strips field selections (through embedded pointers too) from an address and returns the value the
// selection starts at.
func fieldRoot(v ssa.Value) ssa.Value {
	for {
		switch x := v.(type) {
		case *ssa.FieldAddr:
			v = x.X
			continue
		case *ssa.UnOp:
			if x.Op == token.MUL {
				if fa, ok := x.X.(*ssa.FieldAddr); ok {
					v = fa
					continue
				}
			}
		}
		return v
	}
}

// isFreshValue: v is an allocation of the function itself, or a local variable cell that only ever holds such
// allocations (`def := &Definition{…}` captured by a closure).
func isFreshValue(v ssa.Value) bool {
	switch x := v.(type) {
	case *ssa.Alloc:
		return true
	case *ssa.UnOp:
		cell, ok := x.X.(*ssa.Alloc)
		if !ok || x.Op != token.MUL || cell.Referrers() == nil {
			return false
		}
		stores := 0
		for _, ref := range *cell.Referrers() {
			if st, isSt := ref.(*ssa.Store); isSt && st.Addr == cell {
				if _, fresh := st.Val.(*ssa.Alloc); !fresh {
					return false
				}
				stores++
			}
		}
		return stores > 0
	case *ssa.FreeVar:
		// a captured local of the enclosing function
		fn := x.Parent()
		if fn.Parent() == nil {
			return false
		}
		for i, fv := range fn.FreeVars {
			if fv != x {
				continue
			}
			for _, in := range allInstrList(fn.Parent()) {
				if mc, isMC := in.(*ssa.MakeClosure); isMC && mc.Fn == fn && i < len(mc.Bindings) {
					if cell, isCell := mc.Bindings[i].(*ssa.Alloc); isCell {
						return isFreshValue(&ssa.UnOp{Op: token.MUL, X: cell})
					}
				}
			}
		}
	}
	return false
}

func allInstrList(fn *ssa.Function) []ssa.Instruction {
	var out []ssa.Instruction
	for _, b := range fn.Blocks {
		out = append(out, b.Instrs...)
	}
	return out
}

func isParametersField(fa *ssa.FieldAddr) bool {
	pt, ok := fa.X.Type().Underlying().(*types.Pointer)
	return ok && isNamed(pt.Elem(), modPath+"/method", "Parameters")
}

// signatureWrite: the instruction writes a signature field of a method definition; returns the address root.
func signatureWrite(in ssa.Instruction) (root ssa.Value, field string, ok bool) {
	switch x := in.(type) {
	case *ssa.Store:
		if fa, isFA := x.Addr.(*ssa.FieldAddr); isFA && isParametersField(fa) && signatureFields[fieldName(fa)] {
			return fieldRoot(fa), fieldName(fa), true
		}
	case *ssa.MapUpdate:
		if ld, isLd := x.Map.(*ssa.UnOp); isLd && ld.Op == token.MUL {
			if fa, isFA := ld.X.(*ssa.FieldAddr); isFA && isParametersField(fa) && signatureFields[fieldName(fa)] {
				return fieldRoot(fa), fieldName(fa), true
			}
		}
	}
	return nil, "", false
}

// declaredSignatureRule: outside construction (the value is a fresh allocation of the function), a signature field
// of a method is written only on paths on which that same method's Explicit flag was read as false — decided by the
// evaluator: with every `X.Explicit` load of the written value X assumed true, for either initial value of the
// written flag, no path executes the write.
func declaredSignatureRule(p *Prog, r *Report, id string) {
	r.Rule(id, "the signature of a declared method is immutable: every write to method.Parameters fields (Source, Target, Context, RawArgs, ReturnError, UpdateTarget, …) outside the construction of a fresh value goes through a *generatedMethod X and is unreachable when X.Explicit is true (evaluated: all X.Explicit loads of that same X true, either initial value of the written flag ⇒ the write is on no path) — a declared method never gains a parameter or an error result", 3)
	n, guarded, bad := 0, 0, 0
	for _, fi := range p.Funcs {
		if fi.Lit != nil {
			continue
		}
		sf := p.SSAFunc(fi)
		if sf == nil {
			continue
		}
		allInstrs(sf, true, func(in ssa.Instruction) {
			root, field, ok := signatureWrite(in)
			if !ok {
				return
			}
			n++
			fn := in.Parent()
			site := fmt.Sprintf("%s/write .%s", fi.Name(), field)
			if isFreshValue(root) {
				r.OK(site, p.PosStr(in.Pos()), "construction of a fresh value")
				return
			}
			pt, isPtr := root.Type().Underlying().(*types.Pointer)
			if !isPtr || !isNamed(pt.Elem(), modPath+"/generator", "generatedMethod") {
				r.Bad(site, p.PosStr(in.Pos()), "a signature field of an existing method definition is written through "+root.Type().String()+", which carries no Explicit flag: a declared method's signature may change")
				return
			}
			reached := false
			for _, init := range []bool{false, true} {
				sc := &absScenario{
					assume: func(v ssa.Value, _ func(ssa.Value) absVal) (absVal, bool) {
						if ld, isLd := v.(*ssa.UnOp); isLd && ld.Op == token.MUL {
							if fa, isFA := ld.X.(*ssa.FieldAddr); isFA && fieldName(fa) == "Explicit" && fieldRoot(fa) == root {
								return aBool(true), true
							}
						}
						return aUnknown, false
					},
					tracked: map[string]absVal{field: aBool(init)},
					fieldOK: func(fa *ssa.FieldAddr) bool { return fieldRoot(fa) == root },
					marks: func(x ssa.Instruction) (string, bool) {
						return "w", x == in
					},
				}
				if field != "ReturnError" && field != "UpdateTarget" && field != "TypeParams" {
					sc.tracked = nil
				}
				got := absReachState(fn, sc, func(_ *ssa.Return, _ func(ssa.Value) absVal, st map[string]absVal) bool {
					return st["@w"].k == absBool && st["@w"].b
				})
				if got != nil {
					reached = true
				}
				if sc.tracked == nil {
					break
				}
			}
			if reached {
				bad++
				r.Bad(site, p.PosStr(in.Pos()), "the write is reachable although the written method's own Explicit flag is true: a declared method would get a signature its declaration does not have (extra parameter / error result) — the guard must test the method that is written")
			} else {
				guarded++
				r.OK(site, p.PosStr(in.Pos()), "unreachable when the written method is Explicit")
			}
		})
	}
	r.Analysed["signature_field_writes"] = n
	if guarded+bad < 2 {
		r.Bad("generator/guarded signature writes", "", fmt.Sprintf("only %d guarded signature writes found (ReturnError flip and context append expected)", guarded))
	}
}

// ---------------------------------------------------------------------------
// C03.R10 / C04.R6 / C11.R11: a rule applies whenever its documented condition holds

// typeRole: "source"/"target" for the first/second *xtype.Type parameter of the enclosing function, "" otherwise
// (helpers take them in the same order as Matches).
func typeRole(prm *ssa.Parameter) string {
	n := 0
	for _, q := range prm.Parent().Params {
		pt, ok := q.Type().(*types.Pointer)
		if !ok || !isNamed(pt.Elem(), modPath+"/xtype", "Type") {
			continue
		}
		n++
		if q == prm {
			switch n {
			case 1:
				return "source"
			case 2:
				return "target"
			}
		}
	}
	return ""
}

// roleFieldPath: v loads <source|target>.<f1>[.<f2>…]; returns the role and the dotted path.
func roleFieldPath(v ssa.Value) (string, string) {
	var path []string
	cur := v
	for {
		u, ok := cur.(*ssa.UnOp)
		if !ok || u.Op != token.MUL {
			break
		}
		fa, ok := u.X.(*ssa.FieldAddr)
		if !ok {
			break
		}
		path = append([]string{fieldName(fa)}, path...)
		cur = fa.X
	}
	prm, ok := cur.(*ssa.Parameter)
	if !ok || len(path) == 0 {
		return "", ""
	}
	s := path[0]
	for _, x := range path[1:] {
		s += "." + x
	}
	return typeRole(prm), s
}

type matchCond struct {
	fn    string
	atoms map[string]bool // "source.Basic" → true, "target.ListFixed" → false, "flag:SkipCopySameType" → true, "kindEq"/"stringEq"/"enumOK" → true
	doc   string
}

var matchCondTable = []matchCond{
	{"builder.(*Basic).Matches", map[string]bool{"source.Basic": true, "target.Basic": true, "kindEq": true}, "both basic with equal kind"},
	{"builder.(*BasicTargetPointerRule).Matches", map[string]bool{"source.Basic": true, "target.Pointer": true, "target.PointerInner.Basic": true}, "basic source, pointer-to-basic target"},
	{"builder.(*List).Matches", map[string]bool{"source.List": true, "target.List": true, "target.ListFixed": false}, "list source, slice target"},
	{"builder.(*Map).Matches", map[string]bool{"source.Map": true, "target.Map": true}, "both maps"},
	{"builder.(*Struct).Matches", map[string]bool{"source.Struct": true, "target.Struct": true}, "both structs"},
	{"builder.(*Pointer).Matches", map[string]bool{"source.Pointer": true, "target.Pointer": true}, "both pointers"},
	{"builder.(*TargetPointer).Matches", map[string]bool{"source.Pointer": false, "target.Pointer": true}, "non-pointer source, pointer target"},
	{"builder.(*SourcePointer).Matches", map[string]bool{"flag:UseZeroValueOnPointerInconsistency": true, "source.Pointer": true, "target.Pointer": false}, "useZeroValueOnPointerInconsistency, pointer source, non-pointer target"},
	{"builder.(*SkipCopy).Matches", map[string]bool{"flag:SkipCopySameType": true, "stringEq": true}, "skipCopySameType and identical types"},
	{"builder.(*Enum).Matches", map[string]bool{"flag:Enabled": true, "enumOK": true}, "enum detection enabled and both types detected as enums"},
}

func kindCallRole(v ssa.Value) string {
	c, ok := v.(*ssa.Call)
	if !ok || ssaCalleeObj(c) == nil || !isFunc(ssaCalleeObj(c), "go/types", "Basic", "Kind") || len(c.Call.Args) != 1 {
		return ""
	}
	role, path := roleFieldPath(c.Call.Args[0])
	if path != "BasicType" {
		return ""
	}
	return role
}

// matchesCompleteRule: evaluated with the documented condition assumed (and everything else unknown), Matches cannot
// return false — an additional test (`!target.Named`, a setting, identity instead of kind equality) makes the rule
// step aside for inputs it is documented to handle; they then fall to a later rule or to "no rule" (rejected).
func matchesCompleteRule(p *Prog, r *Report, id, why string, only ...string) {
	floor := len(matchCondTable)
	if len(only) > 0 {
		floor = len(only)
	}
	r.Rule(id, "each builder's Matches returns true whenever its documented condition holds (evaluated: with exactly these atoms assumed and every other test unknown, no path returns false): no additional restriction lets a defined conversion fall through — "+why+onlyNote(only), floor)
	for _, mc := range matchCondTable {
		if len(only) > 0 && !has(only, mc.fn) {
			continue
		}
		fi, sf := needFunc(p, r, mc.fn)
		if fi == nil {
			continue
		}
		site := mc.fn + "/complete"
		used := map[string]bool{}
		sc := &absScenario{
			assume: func(v ssa.Value, _ func(ssa.Value) absVal) (absVal, bool) {
				if role, path := roleFieldPath(v); role != "" {
					if want, ok := mc.atoms[role+"."+path]; ok {
						used[role+"."+path] = true
						return aBool(want), true
					}
				}
				for a, want := range mc.atoms {
					if len(a) > 5 && a[:5] == "flag:" && loadsField(v, a[5:]) {
						used[a] = true
						return aBool(want), true
					}
				}
				if mc.atoms["enumOK"] && loadsField(v, "OK") {
					used["enumOK"] = true
					return aBool(true), true
				}
				if b, ok := v.(*ssa.BinOp); ok && b.Op == token.EQL {
					if mc.atoms["kindEq"] {
						x, y := kindCallRole(b.X), kindCallRole(b.Y)
						if (x == "source" && y == "target") || (x == "target" && y == "source") {
							used["kindEq"] = true
							return aBool(true), true
						}
					}
					if mc.atoms["stringEq"] {
						xr, xp := roleFieldPath(b.X)
						yr, yp := roleFieldPath(b.Y)
						if xp == "String" && yp == "String" && xr != "" && yr != "" && xr != yr {
							used["stringEq"] = true
							return aBool(true), true
						}
					}
				}
				if c, ok := v.(*ssa.Call); ok && mc.atoms["stringEq"] && ssaCalleeObj(c) != nil && isFunc(ssaCalleeObj(c), "go/types", "", "Identical") {
					used["stringEq"] = true
					return aBool(true), true
				}
				return aUnknown, false
			},
		}
		if got := absReach(sf, sc, falseGoal); got != nil {
			r.Bad(site, p.PosStr(got.Pos()), "can return false although its documented condition ("+mc.doc+") holds: an additional or stricter test makes the rule step aside for inputs it is documented to handle")
			continue
		}
		if absReach(sf, sc, trueGoal) == nil {
			r.Bad(site, p.PosStr(fi.Decl.Pos()), "never returns true under its documented condition")
			continue
		}
		r.OK(site, p.PosStr(fi.Decl.Pos()), fmt.Sprintf("returns true on every path when %s (atoms met: %d)", mc.doc, len(used)))
	}
}

// ---------------------------------------------------------------------------
// C02.R11: emitted dereferences

var auditedDerefs = map[string]string{
	"xtype.(*JenID).Deref":           "the pointee expression of a source pointer; every caller emits it under `source != nil` (C02.R2)",
	"xtype.toCode":                   "pointer type expression *T",
	"builder.(*Pointer).Build":       "*<constructor variable>: the variable was just assigned a non-nil pointer (default:update)",
	"builder.(*TargetPointer).Build": "*<constructor variable>: the variable was just assigned a non-nil pointer (default:update)",
	"generator.(*generator).appendGenerated": "receiver type (c *Impl) of the generated methods",
}

// derefOwnershipRule: an emitted `*x` is the only construct besides indexing through which generated code can fault
// on nil.  It is emitted at the audited sites only; any other emission is accepted when the innermost loop (or the
// function) it sits in emits `<same expression variable> != nil` before it, otherwise reported.
func derefOwnershipRule(p *Prog, r *Report, id string, chains []*Chain) {
	r.Rule(id, "emitted dereferences: jen.Op(\"*\") is emitted only at the audited sites (JenID.Deref — callers guarded by C02.R2 —, *<constructor variable>, pointer types and the receiver); a dereference emitted anywhere else must be preceded, inside the same innermost loop body, by the emission of `<that expression> != nil`, or the generated code can dereference nil at some depth", 4)
	n := 0
	for _, c := range chains {
		for i, l := range c.Links {
			if l.Name != "Op" || len(l.Args) != 1 {
				continue
			}
			if s, ok := constString(c.Pkg.TypesInfo, l.Args[0]); !ok || s != "*" {
				continue
			}
			n++
			anchor := p.anchorFor(c.Encl, mapKeys(auditedDerefs))
			site := fmt.Sprintf("%s/emit *#%d", anchor, n)
			if why, ok := auditedDerefs[anchor]; ok {
				r.OK(anchor+"/emit *", p.PosStr(l.Call.Pos()), "audited: "+why)
				continue
			}
			// operand: the argument of the following Add (unary use at the start of a chain)
			var operand *ast.Ident
			if i+1 < len(c.Links) && c.Links[i+1].Name == "Add" && len(c.Links[i+1].Args) == 1 {
				operand = chainRootIdent(c.Pkg.TypesInfo, c.Links[i+1].Args[0])
			}
			if operand != nil && nilCheckEmittedBefore(c, operand) {
				r.OK(site, p.PosStr(l.Call.Pos()), "`"+operand.Name+" != nil` is emitted before it in the same loop body")
				continue
			}
			r.Bad(site, p.PosStr(l.Call.Pos()), "a dereference is emitted outside the audited sites and no `!= nil` test of the dereferenced expression is emitted with it (same loop body): the generated code panics when that pointer is nil")
		}
	}
	r.Analysed["emitted_derefs"] = n
}

// chainRootIdent: the variable a jen expression is built from: x, x.Clone(), x.Code.Clone(), …
func chainRootIdent(info *types.Info, e ast.Expr) *ast.Ident {
	e = ast.Unparen(e)
	if c, ok := chainOf(info, e); ok {
		if c.Root == nil {
			return nil
		}
		return rootIdent(c.Root)
	}
	return rootIdent(e)
}

func nilCheckEmittedBefore(c *Chain, operand *ast.Ident) bool {
	info := c.Pkg.TypesInfo
	obj := info.ObjectOf(operand)
	// innermost enclosing loop body, else the function body
	var body *ast.BlockStmt
	for i := len(c.Stack) - 1; i >= 0; i-- {
		switch x := c.Stack[i].(type) {
		case *ast.ForStmt:
			body = x.Body
		case *ast.RangeStmt:
			body = x.Body
		case *ast.FuncLit:
			body = x.Body
		case *ast.FuncDecl:
			body = x.Body
		}
		if body != nil {
			break
		}
	}
	if body == nil || obj == nil {
		return false
	}
	found := false
	ast.Inspect(body, func(n ast.Node) bool {
		call, ok := n.(*ast.CallExpr)
		if !ok || call.Pos() >= c.Outer.Pos() || found {
			return !found
		}
		cc, ok := chainOf(info, call)
		if !ok || cc.Root == nil {
			return true
		}
		if id := rootIdent(cc.Root); id == nil || info.ObjectOf(id) != obj {
			return true
		}
		for j, l := range cc.Links {
			if l.Name == "Op" && len(l.Args) == 1 && j+1 < len(cc.Links) && cc.Links[j+1].Name == "Nil" {
				if s, ok := constString(info, l.Args[0]); ok && s == "!=" {
					found = true
				}
			}
		}
		return true
	})
	return found
}

// ---------------------------------------------------------------------------
// C05.R11: goverter:ignore A B C records every listed field

func ignoreEveryFieldRule(p *Prog, r *Report, id string) {
	r.Rule(id, "`goverter:ignore A B …` ignores every listed field: in config.parseMethodLine each store `.Ignore = true` goes to m.Field(<element>) where <element> is loaded from the slice strings.Fields(<rest of the line>) unmodified (not a re-parsed or overwritten value), inside a loop over that slice without early leave", 1)
	n := 0
	for _, rf := range p.Region("config.parseMethodLine") {
		sf := p.SSAFunc(rf)
		if sf == nil {
			continue
		}
		allInstrs(sf, true, func(in ssa.Instruction) {
			st, ok := in.(*ssa.Store)
			if !ok {
				return
			}
			fa, ok := st.Addr.(*ssa.FieldAddr)
			if !ok || fieldName(fa) != "Ignore" {
				return
			}
			call, ok := fa.X.(*ssa.Call)
			if !ok || ssaCalleeObj(call) == nil || ssaCalleeObj(call).Name() != "Field" || len(call.Call.Args) < 2 {
				return
			}
			n++
			site := fmt.Sprintf("%s/.Ignore store#%d", rf.Name(), n)
			arg := call.Call.Args[len(call.Call.Args)-1]
			ld, isLd := arg.(*ssa.UnOp)
			var ia *ssa.IndexAddr
			if isLd && ld.Op == token.MUL {
				ia, _ = ld.X.(*ssa.IndexAddr)
			}
			if ia == nil {
				r.Bad(site, p.PosStr(st.Pos()), "the ignored field name is not an element of the list of names written on the line (it is "+arg.Name()+" = "+arg.String()+"): a listed field can be dropped or replaced silently")
				return
			}
			src, ok := ia.X.(*ssa.Call)
			if !ok || ssaCalleeObj(src) == nil || !isFunc(ssaCalleeObj(src), "strings", "", "Fields") {
				r.Bad(site, p.PosStr(st.Pos()), "the list the ignored names are taken from is not strings.Fields(<rest of the line>)")
				return
			}
			r.OK(site, p.PosStr(st.Pos()), "m.Field(<element of strings.Fields(rest)>).Ignore = true")
		})
	}
	if n == 0 {
		r.Bad("config.parseMethodLine/.Ignore store", "", "no store of Ignore found")
	}
}

// ---------------------------------------------------------------------------
// C06.R14 / C13.R?: writer and reader of generatedMethod.OriginPath agree on its order

func sliceLitHolds(v ssa.Value, pred func(ssa.Value) bool) bool {
	sl, ok := v.(*ssa.Slice)
	if !ok {
		return false
	}
	arr, ok := sl.X.(*ssa.Alloc)
	if !ok || arr.Referrers() == nil {
		return false
	}
	for _, ref := range *arr.Referrers() {
		ia, ok := ref.(*ssa.IndexAddr)
		if !ok || ia.Referrers() == nil {
			continue
		}
		for _, r2 := range *ia.Referrers() {
			if st, ok := r2.(*ssa.Store); ok && st.Addr == ia && pred(st.Val) {
				return true
			}
		}
	}
	return false
}

func builtinAppend(v ssa.Value) (a, b ssa.Value, ok bool) {
	c, isCall := v.(*ssa.Call)
	if !isCall {
		return nil, nil, false
	}
	bi, isB := c.Call.Value.(*ssa.Builtin)
	if !isB || bi.Name() != "append" || len(c.Call.Args) != 2 {
		return nil, nil, false
	}
	return c.Call.Args[0], c.Call.Args[1], true
}

// originPathOrderRule: createSubMethod stores [creator, creator's origin path…] (nearest first, declared root last);
// availableContext takes the declared root from the end.  The two must agree, or a deep sub-method is rebuilt with the
// context of an intermediate generated method.
func originPathOrderRule(p *Prog, r *Report, id string) {
	r.Rule(id, "writer and reader of generatedMethod.OriginPath agree: generator.createSubMethod stores append([creator], creator.OriginPath...) (nearest first, declared root last) and generator.availableContext resolves the declared root as OriginPath[len-1] — or both use the opposite order; otherwise a sub-method below depth 1 is rebuilt with the contexts of a generated parent instead of the declared method's", 2)
	isIndexID := func(v ssa.Value) bool { return loadsField(v, "IndexID") }
	isOrigin := func(v ssa.Value) bool { return loadsField(v, "OriginPath") }
	writer := ""
	var wpos token.Pos
	if fi, sf := needFunc(p, r, "generator.(*generator).createSubMethod"); fi != nil {
		allInstrs(sf, true, func(in ssa.Instruction) {
			st, ok := in.(*ssa.Store)
			if !ok {
				return
			}
			fa, ok := st.Addr.(*ssa.FieldAddr)
			if !ok || fieldName(fa) != "OriginPath" {
				return
			}
			wpos = st.Pos()
			v := st.Val
			a, b, ok := builtinAppend(v)
			if !ok {
				writer = "?"
				return
			}
			switch {
			case sliceLitHolds(a, isIndexID) && isOrigin(b):
				writer = "creator-first"
			case sliceLitHolds(b, isIndexID):
				if a2, b2, ok2 := builtinAppend(a); ok2 && isOrigin(b2) && !sliceLitHolds(a2, isIndexID) {
					writer = "creator-last"
				} else if isOrigin(a) {
					writer = "creator-last(shared backing array)"
				} else {
					writer = "?"
				}
			default:
				writer = "?"
			}
		})
	}
	reader := ""
	var rpos token.Pos
	if fi, sf := needFunc(p, r, "generator.(*generator).availableContext"); fi != nil {
		allInstrs(sf, true, func(in ssa.Instruction) {
			ia, ok := in.(*ssa.IndexAddr)
			if !ok || !isOrigin(ia.X) {
				return
			}
			rpos = ia.Pos()
			switch x := ia.Index.(type) {
			case *ssa.Const:
				if x.Int64() == 0 {
					reader = "first"
				} else {
					reader = "?"
				}
			case *ssa.BinOp:
				k, isK := x.Y.(*ssa.Const)
				ln, isLen := x.X.(*ssa.Call)
				if x.Op == token.SUB && isK && k.Int64() == 1 && isLen {
					if bi, ok := ln.Call.Value.(*ssa.Builtin); ok && bi.Name() == "len" && isOrigin(ln.Call.Args[0]) {
						reader = "last"
						return
					}
				}
				reader = "?"
			default:
				reader = "?"
			}
		})
	}
	site := "generator.createSubMethod ↔ availableContext/OriginPath order"
	switch {
	case writer == "" || reader == "":
		r.Bad(site, p.PosStr(wpos), fmt.Sprintf("writer (%q) or reader (%q) of OriginPath not found", writer, reader))
	case writer == "creator-first" && reader == "last", writer == "creator-last" && reader == "first":
		r.OK(site, p.PosStr(wpos), "stored "+writer+", declared root read as the "+reader+" element")
	default:
		r.Bad(site, p.PosStr(wpos), fmt.Sprintf("createSubMethod stores the path %s but availableContext (%s) reads the %s element as the declared root: for sub-methods below depth 1 that is a generated parent, whose contexts are a subset — the rebuild fails or drops context arguments", writer, p.PosStr(rpos), reader))
	}
}

// ---------------------------------------------------------------------------
// C07.R10: the location path is handed down, never restarted

func isErrorPathType(t types.Type) bool { return isNamed(t, modPath+"/builder", "ErrorPath") }

func errPathDerived(v ssa.Value, depth int) bool {
	if depth > 8 {
		return false
	}
	switch x := v.(type) {
	case *ssa.Parameter:
		return isErrorPathType(x.Type())
	case *ssa.FreeVar:
		return true // a captured variable of the enclosing function: judged there
	case *ssa.ChangeType:
		return errPathDerived(x.X, depth+1)
	case *ssa.Call:
		if fn := ssaCalleeObj(x); fn != nil && recvTypeName(fn) == "ErrorPath" && len(x.Call.Args) > 0 {
			return errPathDerived(x.Call.Args[0], depth+1)
		}
	case *ssa.Phi:
		for _, e := range x.Edges {
			if !errPathDerived(e, depth+1) {
				return false
			}
		}
		return true
	case *ssa.UnOp:
		if x.Op == token.MUL {
			// a local cell or captured variable holding the path
			switch c := x.X.(type) {
			case *ssa.Alloc:
				if c.Referrers() == nil {
					return false
				}
				n := 0
				for _, ref := range *c.Referrers() {
					if st, ok := ref.(*ssa.Store); ok && st.Addr == c {
						n++
						if !errPathDerived(st.Val, depth+1) {
							return false
						}
					}
				}
				return n > 0
			case *ssa.FreeVar:
				return true
			}
		}
	}
	return false
}

// errPathPassThroughRule: inside a function that was itself given the location path (a builder.ErrorPath parameter),
// every ErrorPath argument it passes on is that parameter or an extension of it (Field/Index/Key/…).  A nil or
// otherwise fresh path restarts the location: the failing element is reported without the fields/indices above it.
func errPathPassThroughRule(p *Prog, r *Report, id string) {
	r.Rule(id, "the location path is handed down: in every function of builder/generator that receives a builder.ErrorPath, each ErrorPath argument of a nested call (gen.Build/Assign/CallMethod, BuildByAssign/AssignByBuild, mapField, ReturnError, …) is that parameter or an extension of it (errPath.Field/Index/Key …) — never nil or a fresh path, which would report the failing element without the fields, indices and keys leading to it", 20)
	n := 0
	for _, fi := range p.Funcs {
		if fi.Lit != nil {
			continue
		}
		rel := relPkg(fi.Pkg.PkgPath)
		if rel != "builder" && rel != "generator" {
			continue
		}
		sf := p.SSAFunc(fi)
		if sf == nil {
			continue
		}
		has := false
		for _, prm := range sf.Params {
			if isErrorPathType(prm.Type()) {
				has = true
			}
		}
		if !has || recvTypeNameOfSSA(sf) == "ErrorPath" {
			continue
		}
		cnt := 0
		allInstrs(sf, true, func(in ssa.Instruction) {
			c, ok := in.(ssa.CallInstruction)
			if !ok {
				return
			}
			for _, a := range c.Common().Args {
				if !isErrorPathType(a.Type()) {
					continue
				}
				if fn := ssaCalleeObj(c); fn != nil && recvTypeName(fn) == "ErrorPath" && a == c.Common().Args[0] && !c.Common().IsInvoke() {
					continue // the receiver of an extension call: judged where the result is used
				}
				n++
				cnt++
				site := fmt.Sprintf("%s/ErrorPath argument#%d of %s", fi.Name(), cnt, calleeNameSSA(c))
				if errPathDerived(a, 0) {
					r.OK(site, p.PosStr(in.Pos()), "the received path or an extension of it")
				} else {
					r.Bad(site, p.PosStr(in.Pos()), "the path handed on is not derived from the path this function received (nil or a fresh path): a failure below is reported without the field names, indices and keys of the enclosing positions")
				}
			}
		})
	}
	r.Analysed["errorpath_arguments"] = n
}

func recvTypeNameOfSSA(f *ssa.Function) string {
	if f.Signature.Recv() == nil {
		return ""
	}
	if n := namedOf(derefType(f.Signature.Recv().Type())); n != nil {
		return n.Obj().Name()
	}
	return ""
}

func calleeNameSSA(c ssa.CallInstruction) string {
	if fn := ssaCalleeObj(c); fn != nil {
		return fn.Name()
	}
	return "<dynamic>"
}

// ---------------------------------------------------------------------------
// C10.R7: the umbrella setting update:ignoreZeroValueField switches all three categories

// extractOf: v is result #idx of a call to pkg.name.
func extractOf(v ssa.Value, idx int, pkg, name string) bool {
	ex, ok := v.(*ssa.Extract)
	if !ok || ex.Index != idx {
		return false
	}
	c, ok := ex.Tuple.(*ssa.Call)
	return ok && ssaCalleeObj(c) != nil && isFunc(ssaCalleeObj(c), pkg, "", name)
}

func firstStringParam(fn *ssa.Function) *ssa.Parameter {
	for _, prm := range fn.Params {
		if types.Identical(prm.Type().Underlying(), types.Typ[types.String]) {
			return prm
		}
	}
	return nil
}

func umbrellaSettingRule(p *Prog, r *Report, id string) {
	fields := []string{"IgnoreBasicZeroValueField", "IgnoreStructZeroValueField", "IgnoreNillableZeroValueField"}
	r.Rule(id, "`update:ignoreZeroValueField [yes|no]` sets all three categories to the parsed value: evaluated with the command fixed, parse.Bool's result fixed to v and the three flags initially !v, config.parseCommon cannot return success with IgnoreBasic-, IgnoreStruct- or IgnoreNillableZeroValueField still !v (for v = true and v = false)", 6)
	fi, sf := needFunc(p, r, "config.parseCommon")
	if fi == nil {
		return
	}
	cmd := firstStringParam(sf)
	if cmd == nil {
		r.Unresolved("config.parseCommon/command parameter")
		return
	}
	for _, val := range []bool{true, false} {
		for _, field := range fields {
			val, field := val, field
			nBool := 0
			tracked := map[string]absVal{}
			for _, f := range fields {
				tracked[f] = aBool(!val)
			}
			sc := &absScenario{
				tracked: tracked,
				assume: func(v ssa.Value, _ func(ssa.Value) absVal) (absVal, bool) {
					if v == cmd {
						return aStr("update:ignoreZeroValueField"), true
					}
					if extractOf(v, 0, modPath+"/config/parse", "Bool") {
						nBool++
						return aBool(val), true
					}
					if extractOf(v, 1, modPath+"/config/parse", "Bool") {
						return aNil, true
					}
					return aUnknown, false
				},
			}
			got := absReachState(sf, sc, func(ret *ssa.Return, eval func(ssa.Value) absVal, st map[string]absVal) bool {
				if len(ret.Results) == 0 {
					return false
				}
				if a := eval(ret.Results[len(ret.Results)-1]); a.k == absNonNil {
					return false
				}
				return !(st[field].k == absBool && st[field].b == val)
			})
			site := fmt.Sprintf("config.parseCommon/update:ignoreZeroValueField=%v sets .%s", val, field)
			switch {
			case nBool == 0:
				r.Bad(site, p.PosStr(fi.Decl.Pos()), "the arm does not parse its value with parse.Bool: it cannot be evaluated")
			case got != nil:
				r.Bad(site, p.PosStr(got.Pos()), fmt.Sprintf("a path returns success with .%s not set to the written value: the umbrella setting does not reach this category (zero-valued source fields of that kind overwrite the target)", field))
			default:
				r.OK(site, p.PosStr(fi.Decl.Pos()), "always receives the parsed value")
			}
		}
	}
}

// ---------------------------------------------------------------------------
// C08.R12: useUnderlyingTypeMethods never takes over an enum pair

func underlyingEnumRefusalRule(p *Prog, r *Report, id string) {
	r.Rule(id, "UseUnderlyingTypeMethods (which precedes the Enum rule) refuses every pair that qualifies for enum conversion: evaluated with isEnum(ctx, source, target) fixed to true and everything else unknown, builder.(*UseUnderlyingTypeMethods).Build has no path returning success — an extend function on an underlying type can never replace the name-driven enum mapping", 1)
	fi, sf := needFunc(p, r, "builder.(*UseUnderlyingTypeMethods).Build")
	if fi == nil {
		return
	}
	n := 0
	sc := &absScenario{
		calls: func(c *ssa.Call, _ func(ssa.Value) absVal) (absVal, bool) {
			fn := ssaCalleeObj(c)
			if fn == nil || !isFunc(fn, modPath+"/builder", "", "isEnum") || len(c.Call.Args) != 3 {
				return aUnknown, false
			}
			// the pair tested must be this conversion's source and target
			s, _ := c.Call.Args[1].(*ssa.Parameter)
			t, _ := c.Call.Args[2].(*ssa.Parameter)
			if s == nil || t == nil || typeRole(s) != "source" || typeRole(t) != "target" {
				return aUnknown, false
			}
			n++
			return aBool(true), true
		},
	}
	got := absReach(sf, sc, successGoal)
	site := "builder.(*UseUnderlyingTypeMethods).Build/enum pair refused"
	switch {
	case got != nil && n == 0:
		r.Bad(site, p.PosStr(fi.Decl.Pos()), "isEnum(ctx, source, target) is not consulted: enum pairs are converted through the underlying type")
	case got != nil:
		r.Bad(site, p.PosStr(got.Pos()), "a path returns a conversion although the pair qualifies for enum conversion: the enum refusal depends on further conditions, so an extend function on the underlying type replaces the enum switch (unknown values no longer follow enum:unknown)")
	default:
		r.OK(site, p.PosStr(fi.Decl.Pos()), "no success return when isEnum holds")
	}
}

// ---------------------------------------------------------------------------
// C08.R13 / C06.R16: relative package forms are resolved against the declaring package

func relativePackageRule(p *Prog, r *Report, id string) {
	r.Rule(id, "PACKAGE in `[PACKAGE:]NAME` (extend, map/default functions, enum:exclude) is resolved against the declaring package for each relative form: evaluated with the package part fixed to \".\", a \"./\"-prefixed and a \"../\"-prefixed value, pkgload.ParseMethodString has no successful return that did not pass through path.Join(sourcePackage, pkg) — an unresolved \".\" would be compiled as the regular expression `.` by enum:exclude and match every package", 3)
	fi, sf := needFunc(p, r, "pkgload.ParseMethodString")
	if fi == nil {
		return
	}
	for _, form := range []string{".", "./", "../"} {
		form := form
		seen := 0
		isPartsLen := func(v ssa.Value) bool {
			c, ok := v.(*ssa.Call)
			if !ok {
				return false
			}
			b, ok := c.Call.Value.(*ssa.Builtin)
			if !ok || b.Name() != "len" || len(c.Call.Args) != 1 {
				return false
			}
			in, ok := c.Call.Args[0].(*ssa.Call)
			return ok && ssaCalleeObj(in) != nil && objPkgPath(ssaCalleeObj(in)) == "strings" && strings.HasPrefix(ssaCalleeObj(in).Name(), "Split")
		}
		sc := &absScenario{
			assume: func(v ssa.Value, _ func(ssa.Value) absVal) (absVal, bool) {
				if isPartsLen(v) {
					return aInt(2), true
				}
				switch x := v.(type) {
				case *ssa.BinOp:
					if k, ok := x.Y.(*ssa.Const); ok && x.Op == token.EQL && k.Value != nil && k.Value.Kind() == constant.String && constant.StringVal(k.Value) == "." {
						seen++
						return aBool(form == "."), true
					}
				case *ssa.Call:
					if fn := ssaCalleeObj(x); fn != nil && isFunc(fn, "strings", "", "HasPrefix") && len(x.Call.Args) == 2 {
						if k, ok := x.Call.Args[1].(*ssa.Const); ok && k.Value != nil && k.Value.Kind() == constant.String {
							seen++
							return aBool(constant.StringVal(k.Value) == form), true
						}
					}
				}
				return aUnknown, false
			},
			marks: func(in ssa.Instruction) (string, bool) {
				c, ok := in.(*ssa.Call)
				if ok && ssaCalleeObj(c) != nil && (isFunc(ssaCalleeObj(c), "path", "", "Join") || isFunc(ssaCalleeObj(c), "path/filepath", "", "Join")) {
					return "join", true
				}
				return "", false
			},
		}
		got := absReachState(sf, sc, func(ret *ssa.Return, eval func(ssa.Value) absVal, st map[string]absVal) bool {
			if a := eval(ret.Results[len(ret.Results)-1]); a.k == absNonNil {
				return false
			}
			return !(st["@join"].k == absBool && st["@join"].b)
		})
		site := fmt.Sprintf("pkgload.ParseMethodString/package %q…", form)
		if got != nil {
			r.Bad(site, p.PosStr(got.Pos()), "a successful return is reached without joining the package with the declaring package: this relative form is handed on verbatim (not loadable as a package; as an enum:exclude pattern `.` matches every package path)")
		} else {
			r.OK(site, p.PosStr(fi.Decl.Pos()), fmt.Sprintf("joined with the declaring package on every successful path (%d recognised tests)", seen))
		}
	}
}
