package main

// Rules added after the third round of seeded changes (DESIGN §10, round 3).

import (
	"fmt"
	"go/ast"
	"go/token"
	"go/types"
	"strings"

	"golang.org/x/tools/go/ssa"
)

// ---------------------------------------------------------------------------
// shared maps are never aliased into per-declaration data (C06/C12/C14/C19)

func typeContainsMap(t types.Type, depth int) bool {
	if t == nil || depth > 4 {
		return false
	}
	switch u := t.Underlying().(type) {
	case *types.Map:
		return true
	case *types.Struct:
		for i := 0; i < u.NumFields(); i++ {
			if typeContainsMap(u.Field(i).Type(), depth+1) {
				return true
			}
		}
	case *types.Array:
		return typeContainsMap(u.Elem(), depth+1)
	}
	return false
}

// sharedMapAliasRule: a package-level variable that holds a map by value (such as
// method.EmptyLocalOpts) may be read, passed and returned, but its value is never
// stored into a struct field or composite literal: the copy would share the map, and
// a later write through the copy (a goverter:context line, a field setting) would
// change what every other declaration sees.
func sharedMapAliasRule(p *Prog, r *Report, id string) {
	r.Rule(id, "no package-level variable of own code whose type holds a map by value is stored into a struct field, a composite literal or a map/slice element: per-method and per-function settings (goverter:context names, field mappings) are never backed by a map shared between declarations", 1)
	globals := map[types.Object]bool{}
	for _, pkg := range p.Own {
		sc := pkg.Types.Scope()
		for _, name := range sc.Names() {
			if v, ok := sc.Lookup(name).(*types.Var); ok {
				if _, isPtr := v.Type().Underlying().(*types.Pointer); !isPtr && typeContainsMap(v.Type(), 0) {
					globals[v] = true
				}
			}
		}
	}
	n := 0
	isGlobalValue := func(info *types.Info, e ast.Expr) types.Object {
		switch x := ast.Unparen(e).(type) {
		case *ast.Ident:
			if o := info.ObjectOf(x); globals[o] {
				return o
			}
		case *ast.SelectorExpr:
			if o := info.ObjectOf(x.Sel); globals[o] {
				return o
			}
		}
		return nil
	}
	for _, fi := range p.Funcs {
		info := fi.Pkg.TypesInfo
		ast.Inspect(fi.Decl, func(nd ast.Node) bool {
			switch x := nd.(type) {
			case *ast.KeyValueExpr:
				if o := isGlobalValue(info, x.Value); o != nil {
					n++
					r.Bad(fmt.Sprintf("%s/aliases %s", fi.Name(), o.Name()), p.PosStr(x.Pos()), "the shared value "+o.Name()+" (it holds a map) is stored into a composite literal field: writes through the copy reach every other user of "+o.Name())
				}
			case *ast.CompositeLit:
				for _, el := range x.Elts {
					if _, isKV := el.(*ast.KeyValueExpr); isKV {
						continue
					}
					if o := isGlobalValue(info, el); o != nil {
						n++
						r.Bad(fmt.Sprintf("%s/aliases %s", fi.Name(), o.Name()), p.PosStr(el.Pos()), "the shared value "+o.Name()+" (it holds a map) is stored into a composite literal")
					}
				}
			case *ast.AssignStmt:
				for i, rhs := range x.Rhs {
					o := isGlobalValue(info, rhs)
					if o == nil || i >= len(x.Lhs) {
						continue
					}
					switch ast.Unparen(x.Lhs[i]).(type) {
					case *ast.SelectorExpr, *ast.IndexExpr, *ast.StarExpr:
						n++
						r.Bad(fmt.Sprintf("%s/aliases %s", fi.Name(), o.Name()), p.PosStr(x.Pos()), "the shared value "+o.Name()+" (it holds a map) is stored into "+exprString(x.Lhs[i]))
					}
				}
			}
			return true
		})
	}
	if n == 0 {
		var names []string
		for o := range globals {
			names = append(names, relPkg(o.Pkg().Path())+"."+o.Name())
		}
		r.OK("own code/shared maps", "", fmt.Sprintf("%d package-level value(s) holding a map (%s): none is stored into a field, literal or element", len(globals), strings.Join(sortedStrings(names), ", ")))
	}
}

func sortedStrings(s []string) []string {
	out := append([]string{}, s...)
	for i := 1; i < len(out); i++ {
		for j := i; j > 0 && out[j] < out[j-1]; j-- {
			out[j], out[j-1] = out[j-1], out[j]
		}
	}
	return out
}

// ---------------------------------------------------------------------------
// patterns are compiled as written (C03/C08/C13)

func patternsUnmodifiedRule(p *Prog, r *Report, id string) {
	r.Rule(id, "user patterns are compiled as written: the argument of every regexp.Compile/MustCompile/CompilePOSIX in own code is a constant or a value taken unchanged from the setting text (parameter, split part, parse helper result) — never a concatenation, Sprintf or other rewrite of it (an added ^…$ changes what an alternation matches and can make a valid pattern invalid)", 4)
	n := 0
	for _, fi := range p.Funcs {
		sf := p.SSAFunc(fi)
		if sf == nil {
			continue
		}
		cnt := 0
		allInstrs(sf, true, func(in ssa.Instruction) {
			c, ok := in.(*ssa.Call)
			if !ok || ssaCalleeObj(c) == nil || objPkgPath(ssaCalleeObj(c)) != "regexp" {
				return
			}
			switch ssaCalleeObj(c).Name() {
			case "Compile", "MustCompile", "CompilePOSIX", "MustCompilePOSIX", "MatchString", "Match":
			default:
				return
			}
			if recvTypeName(ssaCalleeObj(c)) != "" {
				return
			}
			n++
			cnt++
			site := fmt.Sprintf("%s/regexp.%s#%d", fi.Name(), ssaCalleeObj(c).Name(), cnt)
			arg := c.Call.Args[0]
			bad := ""
			var walk func(v ssa.Value, depth int)
			walk = func(v ssa.Value, depth int) {
				if depth > 6 || bad != "" {
					return
				}
				switch x := v.(type) {
				case *ssa.BinOp:
					if x.Op == token.ADD {
						_, lk := x.X.(*ssa.Const)
						_, rk := x.Y.(*ssa.Const)
						if !(lk && rk) {
							bad = "the pattern is built by concatenation (" + x.String() + ")"
						}
					}
				case *ssa.Phi:
					for _, e := range x.Edges {
						walk(e, depth+1)
					}
				case *ssa.Call:
					if o := ssaCalleeObj(x); o != nil {
						switch objPkgPath(o) {
						case "fmt":
							bad = "the pattern is built with fmt." + o.Name()
						case "strings":
							switch o.Name() {
							case "TrimSpace", "Fields", "Split", "SplitN", "Cut", "CutPrefix", "TrimPrefix":
							default:
								bad = "the pattern is rewritten with strings." + o.Name()
							}
						case "regexp":
							if o.Name() != "QuoteMeta" {
								bad = "the pattern is derived from regexp." + o.Name()
							}
						}
					}
				case *ssa.Extract:
					walk(x.Tuple, depth+1)
				}
			}
			walk(arg, 0)
			if bad != "" {
				r.Bad(site, p.PosStr(c.Pos()), bad+": the expression matched is no longer the one the user wrote")
			} else {
				r.OK(site, p.PosStr(c.Pos()), "pattern passed unchanged")
			}
		})
	}
	r.Analysed[id+"_regexp_compilations"] = n
}

// ---------------------------------------------------------------------------
// field paths are explicit (C02/C05)

// fieldPathRule: xtype.findAllFields reports a match together with the complete path
// of field names leading to it; every recursive descent appends the name of the field
// it descends into.  mapField guards each pointer on that path with a nil test, so a
// path that skips an (embedded) pointer field would be dereferenced unguarded.
func fieldPathRule(p *Prog, r *Report, id string) {
	r.Rule(id, "source field paths are complete: every recursive call of xtype.findAllFields passes a path extended by the name of the field it descends into (append(path, <field>.Name())), never the unmodified path — mapField emits one nil guard per pointer on the path, so a skipped (embedded) pointer would be dereferenced without a test", 1)
	fi := p.Func("xtype.(Type).findAllFields")
	if fi == nil {
		r.Unresolved("xtype.(Type).findAllFields")
		return
	}
	info := fi.Pkg.TypesInfo
	sig := fi.Obj.Type().(*types.Signature)
	pathParam := sig.Params().At(0)
	n := 0
	ast.Inspect(fi.Decl, func(nd ast.Node) bool {
		call, ok := nd.(*ast.CallExpr)
		if !ok {
			return true
		}
		f, ok := calleeObj(info, call).(*types.Func)
		if !ok || f.Origin() != fi.Obj.Origin() || len(call.Args) == 0 {
			return true
		}
		n++
		site := fmt.Sprintf("xtype.(Type).findAllFields/recursive call#%d", n)
		a0 := ast.Unparen(call.Args[0])
		if id0, ok := a0.(*ast.Ident); ok && info.ObjectOf(id0) == pathParam {
			r.Bad(site, p.PosStr(call.Pos()), "the recursion descends into a field but passes the path unchanged: matches found there are reported as if they were direct fields, and a pointer on the way is not nil-checked in the generated code")
			return true
		}
		// append(path, name) directly or through a local
		okApp := false
		check := func(e ast.Expr) {
			if c2, ok := ast.Unparen(e).(*ast.CallExpr); ok {
				if b, ok := calleeObj(info, c2).(*types.Builtin); ok && b.Name() == "append" && len(c2.Args) >= 2 {
					okApp = true
				}
			}
		}
		check(a0)
		if id0, ok := a0.(*ast.Ident); ok && !okApp {
			if def := localDef(info, fi.Decl, info.ObjectOf(id0)); def != nil {
				check(def)
			}
		}
		if okApp {
			r.OK(site, p.PosStr(call.Pos()), "path extended by the field descended into")
		} else {
			r.Bad(site, p.PosStr(call.Pos()), "the path passed to the recursion is not append(path, <field name>)")
		}
		return true
	})
	if n == 0 {
		r.OK("xtype.(Type).findAllFields/recursion", p.PosStr(fi.Decl.Pos()), "no recursive descent: only direct fields and methods are matched (longer paths come from goverter:map / autoMap, which name every field)")
	}
}

// candidatesUnfilteredRule (C05.R9): FindField decides "none / one / several" on all
// collected candidates.
func candidatesUnfilteredRule(p *Prog, r *Report, id string) {
	r.Rule(id, "several candidates are an error: in xtype.FindField the candidate lists are only appended to (or the exact list replaced by the ignore-case list); they are never filtered, deduplicated or truncated before `switch len(matches)` decides between no match, one match and ambiguity", 1)
	fi := p.Func("xtype.FindField")
	if fi == nil {
		r.Unresolved("xtype.FindField")
		return
	}
	info := fi.Pkg.TypesInfo
	// slice-of-*StructField locals
	isCand := func(o types.Object) bool {
		if o == nil {
			return false
		}
		sl, ok := o.Type().Underlying().(*types.Slice)
		if !ok {
			return false
		}
		n := namedOf(derefType(sl.Elem()))
		return n != nil && n.Obj().Name() == "StructField"
	}
	bad := ""
	nAssign := 0
	ast.Inspect(fi.Decl, func(nd ast.Node) bool {
		as, ok := nd.(*ast.AssignStmt)
		if !ok {
			return true
		}
		for i, l := range as.Lhs {
			id0, ok := l.(*ast.Ident)
			if !ok || !isCand(info.ObjectOf(id0)) || i >= len(as.Rhs) && len(as.Rhs) != 1 {
				continue
			}
			nAssign++
			if len(as.Rhs) != len(as.Lhs) {
				continue // multi-value call result (findAllFields returns the list)
			}
			rhs := ast.Unparen(as.Rhs[i])
			switch x := rhs.(type) {
			case *ast.Ident:
				if x.Name == "nil" || isCand(info.ObjectOf(x)) {
					continue
				}
			case *ast.CompositeLit:
				continue
			case *ast.CallExpr:
				if b, ok := calleeObj(info, x).(*types.Builtin); ok && b.Name() == "append" {
					continue
				}
				bad = p.PosStr(as.Pos()) + ": candidate list " + id0.Name + " is replaced by the result of " + exprString(x.Fun) + ": candidates can disappear before the ambiguity test"
			case *ast.SliceExpr:
				bad = p.PosStr(as.Pos()) + ": candidate list " + id0.Name + " is truncated"
			}
		}
		return true
	})
	// every candidate search gets the caller's ignoreCase flag as it is: a search that is switched off for some
	// sources hides their candidates from the ambiguity test
	if sf := p.SSAFunc(fi); sf != nil {
		nCalls := 0
		allInstrs(sf, true, func(in ssa.Instruction) {
			c, ok := in.(ssa.CallInstruction)
			if !ok || ssaCalleeObj(c) == nil || ssaCalleeObj(c).Name() != "findAllFields" {
				return
			}
			nCalls++
			site := fmt.Sprintf("xtype.FindField/findAllFields#%d ignoreCase", nCalls)
			args := c.Common().Args
			last := args[len(args)-1]
			if prm, isPrm := last.(*ssa.Parameter); isPrm && types.Identical(prm.Type(), types.Typ[types.Bool]) {
				r.OK(site, p.PosStr(in.Pos()), "receives FindField's ignoreCase parameter unchanged")
			} else {
				r.Bad(site, p.PosStr(in.Pos()), "the ignoreCase argument is not FindField's parameter itself: for some field sources the case-insensitive candidates are not collected, so an ambiguous match is taken silently instead of being reported")
			}
		})
		if nCalls == 0 {
			r.Bad("xtype.FindField/findAllFields", p.PosStr(fi.Decl.Pos()), "no findAllFields call found")
		}
	}
	switch {
	case bad != "":
		r.Bad("xtype.FindField/candidates", p.PosStr(fi.Decl.Pos()), bad)
	case nAssign == 0:
		r.Bad("xtype.FindField/candidates", p.PosStr(fi.Decl.Pos()), "no candidate list found")
	default:
		r.OK("xtype.FindField/candidates", p.PosStr(fi.Decl.Pos()), fmt.Sprintf("%d assignments to candidate lists, all appends or whole-list replacements", nAssign))
	}
}

// ---------------------------------------------------------------------------
// C08.R7: the regex transformer rewrites every member name

func transformEveryKeyRule(p *Prog, r *Report, id string) {
	r.Rule(id, "the built-in regex transformer maps every source member: in enum.transformRegex the target name of each member is pattern.ReplaceAllString(<member name>, <replacement>), computed by a top-level statement of the member loop with no early leave before it (substring patterns rewrite the part they match; they are not restricted to whole-name matches)", 1)
	fi := p.Func("enum.transformRegex")
	if fi == nil {
		r.Unresolved("enum.transformRegex")
		return
	}
	info := fi.Pkg.TypesInfo
	done := false
	ast.Inspect(fi.Decl, func(nd ast.Node) bool {
		rs, ok := nd.(*ast.RangeStmt)
		if !ok || done {
			return true
		}
		if sel, ok := ast.Unparen(rs.X).(*ast.SelectorExpr); !ok || sel.Sel.Name != "Members" {
			return true
		}
		done = true
		site := "enum.transformRegex/member loop"
		var keyObj types.Object
		if id0, ok := rs.Key.(*ast.Ident); ok {
			keyObj = info.ObjectOf(id0)
		}
		for i, s := range rs.Body.List {
			found := false
			// top-level: an assignment / declaration whose right-hand side is the ReplaceAllString call
			var rhs []ast.Expr
			switch x := s.(type) {
			case *ast.AssignStmt:
				rhs = x.Rhs
			case *ast.DeclStmt:
				if gd, ok := x.Decl.(*ast.GenDecl); ok {
					for _, sp := range gd.Specs {
						if vs, ok := sp.(*ast.ValueSpec); ok {
							rhs = append(rhs, vs.Values...)
						}
					}
				}
			}
			for _, e := range rhs {
				if call, ok := ast.Unparen(e).(*ast.CallExpr); ok {
					if f, ok := calleeObj(info, call).(*types.Func); ok && isFunc(f, "regexp", "Regexp", "ReplaceAllString") && len(call.Args) == 2 {
						if id0, ok := ast.Unparen(call.Args[0]).(*ast.Ident); ok && keyObj != nil && info.ObjectOf(id0) == keyObj {
							found = true
						}
					}
				}
			}
			if found {
				if lv := earlyLeave(info, rs.Body.List[:i]); lv != nil {
					r.Bad(site, p.PosStr(lv.Pos()), "some members skip the replacement")
				} else {
					r.OK(site, p.PosStr(s.Pos()), "target name = ReplaceAllString(member name, replacement) for every member")
				}
				return false
			}
		}
		r.Bad(site, p.PosStr(rs.Pos()), "the replacement is no longer applied unconditionally to every member name: a pattern that matches only part of a name (documented use) would leave the name unchanged and fall back to the identically named target member")
		return false
	})
	if !done {
		r.Bad("enum.transformRegex/member loop", p.PosStr(fi.Decl.Pos()), "loop over the source members not found")
	}
}

// ---------------------------------------------------------------------------
// Index.Get: `nothing` only when the signature is unknown

// indexGetTotalFact returns "" when every return of Index.Get that yields neither an
// item nor an error is on the not-found edge of the lookup in Exact.
func indexGetTotalFact(p *Prog) string {
	fi := p.Func("method.(*Index).Get")
	if fi == nil {
		return "method.(*Index).Get not found"
	}
	sf := p.SSAFunc(fi)
	if sf == nil {
		return "no SSA for Index.Get"
	}
	isFoundFlag := func(c ssa.Value) bool {
		ex, ok := c.(*ssa.Extract)
		if !ok || ex.Index != 1 {
			return false
		}
		lk, ok := ex.Tuple.(*ssa.Lookup)
		return ok && lk.CommaOk
	}
	bad := ""
	n := 0
	for _, b := range sf.Blocks {
		for _, in := range b.Instrs {
			ret, ok := in.(*ssa.Return)
			if !ok || len(ret.Results) != 2 || !isNilConst(ret.Results[0]) || !isNilConst(ret.Results[1]) {
				continue
			}
			n++
			if !dominatedByEdge(b, false, isFoundFlag) {
				bad = p.PosStr(ret.Pos()) + ": Index.Get answers `nothing registered` (nil, nil) although entries for the signature exist: the caller goes on to create a second method for the same signature, whose registration fails"
			}
		}
	}
	if n == 0 {
		return "Index.Get has no (nil, nil) return: the shape is not recognised"
	}
	return bad
}

func indexGetTotalRule(p *Prog, r *Report, id string) {
	r.Rule(id, "Index.Get returns (nil, nil) only on the not-found edge of the lookup of the signature: when entries exist but none can be used the answer is an error, never `nothing` — createSubMethod relies on this when it ignores the error of Register", 1)
	if msg := indexGetTotalFact(p); msg == "" {
		r.OK("method.(*Index).Get/nothing only if unknown", "", "(nil, nil) only under !found")
	} else {
		r.Bad("method.(*Index).Get/nothing only if unknown", "", msg)
	}
}

// ---------------------------------------------------------------------------
// C14.R2b: `is a function` is decided on the object's own type

func signatureAssertRule(p *Prog, r *Report, id string) {
	r.Rule(id, "method.Parse accepts an object as function only if its own type is a *types.Signature: the comma-ok assertion is applied to obj.Type() itself, not to its Underlying() — a defined type whose underlying type is a function type is a type, and calling it would emit a conversion", 1)
	_, sf := needFunc(p, r, "method.Parse")
	if sf == nil {
		return
	}
	n := 0
	allInstrs(sf, false, func(in ssa.Instruction) {
		ta, ok := in.(*ssa.TypeAssert)
		if !ok || !isNamed(derefType(ta.AssertedType), "go/types", "Signature") {
			return
		}
		n++
		site := fmt.Sprintf("method.Parse/(*types.Signature) assertion#%d", n)
		c, ok := ta.X.(*ssa.Call)
		var name string
		if ok {
			if c.Call.IsInvoke() {
				name = c.Call.Method.Name()
			} else if o := ssaCalleeObj(c); o != nil {
				name = o.Name()
			}
		}
		// X.Type() with X a go/types.Object (the parameter, possibly read back from the cell a closure captured)
		isObjType := ok && name == "Type" && c.Call.IsInvoke() && isNamed(c.Call.Value.Type(), "go/types", "Object")
		if isObjType && ta.CommaOk {
			r.OK(site, p.PosStr(ta.Pos()), "obj.Type().(*types.Signature) with comma-ok")
		} else {
			r.Bad(site, p.PosStr(ta.Pos()), "the function test is applied to "+ta.X.String()+" instead of obj.Type(): non-function objects (e.g. a defined func type named in goverter:extend) would be accepted")
		}
	})
	if n == 0 {
		r.Bad("method.Parse/(*types.Signature) assertion", "", "no assertion to *types.Signature found")
	}
}

// ---------------------------------------------------------------------------
// C16.R3b: flag values are used as parsed

func flagsNotRewrittenRule(p *Prog, r *Report, id string) {
	r.Rule(id, "flag values reach the configuration as given: in cli.parseGen the variables returned by fs.String/fs.Bool/fs.Int (…) are only read — nothing stores into them after fs.Parse (no derived default such as `!`+build-tags for the output constraint)", 2)
	fi, sf := needFunc(p, r, "cli.parseGen")
	if fi == nil {
		return
	}
	n := 0
	allInstrs(sf, true, func(in ssa.Instruction) {
		c, ok := in.(*ssa.Call)
		if !ok || ssaCalleeObj(c) == nil || !(objPkgPath(ssaCalleeObj(c)) == "flag" && recvTypeName(ssaCalleeObj(c)) == "FlagSet") {
			return
		}
		switch ssaCalleeObj(c).Name() {
		case "String", "Bool", "Int", "Int64", "Uint", "Uint64", "Float64", "Duration":
		default:
			return
		}
		n++
		name := "?"
		if len(c.Call.Args) > 1 {
			if k, ok := c.Call.Args[1].(*ssa.Const); ok {
				name = constVal(k).s
			}
		}
		site := "cli.parseGen/flag -" + name
		bad := ""
		var follow func(v ssa.Value, depth int)
		seen := map[ssa.Value]bool{}
		follow = func(v ssa.Value, depth int) {
			if v == nil || seen[v] || depth > 4 || v.Referrers() == nil {
				return
			}
			seen[v] = true
			for _, ref := range *v.Referrers() {
				switch y := ref.(type) {
				case *ssa.Store:
					if y.Addr == v {
						bad = p.PosStr(y.Pos()) + ": the flag variable is overwritten after parsing"
					} else if al, ok := y.Addr.(*ssa.Alloc); ok && y.Val == v && al.Referrers() != nil {
						// the pointer is kept in a local cell (captured by a closure): follow its loads
						for _, rr := range *al.Referrers() {
							if ld, ok := rr.(*ssa.UnOp); ok && ld.Op == token.MUL {
								follow(ld, depth+1)
							}
						}
					}
				case *ssa.Phi:
					follow(y, depth+1)
				case *ssa.MakeClosure:
					for i, b := range y.Bindings {
						if b == v {
							if fn, ok := y.Fn.(*ssa.Function); ok && i < len(fn.FreeVars) {
								follow(fn.FreeVars[i], depth+1)
							}
						}
					}
				}
			}
		}
		follow(c, 0)
		if bad != "" {
			r.Bad(site, p.PosStr(c.Pos()), bad+": the value used is not the one given (or defaulted) on the command line")
		} else {
			r.OK(site, p.PosStr(c.Pos()), "only read")
		}
	})
	if n < 2 {
		r.Bad("cli.parseGen/flags", p.PosStr(fi.Decl.Pos()), fmt.Sprintf("expected the build-tags and output-constraint flags, found %d flag variables", n))
	}
}

// ---------------------------------------------------------------------------
// C17.O9: a package that does not load stops the run

func packageErrorsFirstRule(p *Prog, r *Report, id string) {
	r.Rule(id, "a selected package with load/compile errors fails the run: in comments.ParseDocs the loop over the loaded packages starts with `if len(pkg.Errors) > 0 { return …, error }` — unconditional (no further conjunct) and before the package's files are scanned, so a converter hidden behind a syntax error cannot be skipped silently", 1)
	fi := p.Func("comments.ParseDocs")
	if fi == nil {
		r.Unresolved("comments.ParseDocs")
		return
	}
	info := fi.Pkg.TypesInfo
	done := false
	site := "comments.ParseDocs/package errors"
	for _, rf := range p.Region("comments.ParseDocs") {
		ast.Inspect(rf.Decl, func(nd ast.Node) bool {
			rs, ok := nd.(*ast.RangeStmt)
			if !ok || done {
				return true
			}
			t := info.TypeOf(rs.X)
			if t == nil || !strings.Contains(t.String(), "packages.Package") {
				return true
			}
			done = true
			for i, s := range rs.Body.List {
				ifs, ok := s.(*ast.IfStmt)
				if !ok {
					continue
				}
				cj := conjuncts(ifs.Cond)
				if len(cj) != 1 {
					continue
				}
				be, ok := ast.Unparen(cj[0]).(*ast.BinaryExpr)
				if !ok || !(be.Op == token.GTR || be.Op == token.NEQ) {
					continue
				}
				call, ok := ast.Unparen(be.X).(*ast.CallExpr)
				if !ok || len(call.Args) != 1 {
					continue
				}
				if b, ok := calleeObj(info, call).(*types.Builtin); !ok || b.Name() != "len" {
					continue
				}
				if sel, ok := ast.Unparen(call.Args[0]).(*ast.SelectorExpr); !ok || sel.Sel.Name != "Errors" {
					continue
				}
				if z, ok := constInt(info, be.Y); !ok || z != 0 {
					continue
				}
				if !endsInExit(ifs.Body) {
					continue
				}
				ret, isRet := ifs.Body.List[len(ifs.Body.List)-1].(*ast.ReturnStmt)
				if !isRet || !failingReturn(info, ret) {
					r.Bad(site, p.PosStr(ifs.Pos()), "the package-error branch does not return an error")
					return false
				}
				// nothing that scans declarations may precede it
				for _, before := range rs.Body.List[:i] {
					scans := false
					ast.Inspect(before, func(m ast.Node) bool {
						if _, ok := m.(*ast.RangeStmt); ok {
							scans = true
						}
						return true
					})
					if scans {
						r.Bad(site, p.PosStr(ifs.Pos()), "the package's files are scanned before its load errors are looked at")
						return false
					}
				}
				r.OK(site, p.PosStr(ifs.Pos()), "len(pkg.Errors) > 0 → error, first in the loop")
				return false
			}
			r.Bad(site, p.PosStr(rs.Pos()), "no unconditional `len(pkg.Errors) > 0 → return error` at the top of the package loop: a package that failed to load (and may hide a converter) can be skipped with exit status 0")
			return false
		})
	}
	if !done {
		r.Bad(site, p.PosStr(fi.Decl.Pos()), "loop over the loaded packages not found")
	}
}

// ---------------------------------------------------------------------------
// C15.R8/R9: explicit output:package wins; the name comes from the unchecked lookup

func outputPackageRule(p *Prog, r *Report, id string) {
	r.Rule(id, "output:package as written takes precedence: config.resolveOutputPackage assigns OutputPackagePath / OutputPackageName only under `<that field> == \"\"`, and it obtains the existing package without going through the error-checking loader (pkgload.getPkg) — the package at the output location normally does not type-check while its generated file is excluded, and its name must still be reused", 3)
	fi := p.anchorOrCaller("config.resolveOutputPackage")
	if fi == nil {
		r.Unresolved("config.resolveOutputPackage")
		return
	}
	info := fi.Pkg.TypesInfo
	n := 0
	inlined := fi.Name() != "config.resolveOutputPackage"
	region := []*FuncInfo{fi} // inlined into its caller: that function's own body only
	if !inlined {
		region = p.Region("config.resolveOutputPackage")
	}
	for _, rf := range region {
		walkStack(rf.Decl.Body, func(nd ast.Node, stack []ast.Node) bool {
			as, ok := nd.(*ast.AssignStmt)
			if !ok {
				return true
			}
			for _, l := range as.Lhs {
				sel, ok := ast.Unparen(l).(*ast.SelectorExpr)
				if !ok || (sel.Sel.Name != "OutputPackageName" && sel.Sel.Name != "OutputPackagePath") {
					continue
				}
				n++
				site := fmt.Sprintf("config.resolveOutputPackage/%s =#%d", sel.Sel.Name, n)
				guarded := p.guardedSite(rf, stack, as, func(gi *types.Info, g Guard) bool {
					if g.Cond == nil || g.Tag != nil {
						return false
					}
					for _, cj := range disjunctsOrConjuncts(g) {
						be, ok := ast.Unparen(cj).(*ast.BinaryExpr)
						if !ok {
							continue
						}
						x, y := be.X, be.Y
						if s, ok := constString(gi, x); ok && s == "" {
							x, y = y, x
						}
						s, ok := constString(gi, y)
						if !ok || s != "" {
							continue
						}
						sx, ok := ast.Unparen(x).(*ast.SelectorExpr)
						if !ok || sx.Sel.Name != sel.Sel.Name {
							continue
						}
						// taken side of ==, or not-taken side of !=
						if (be.Op == token.EQL && !g.Neg) || (be.Op == token.NEQ && g.Neg) {
							return true
						}
					}
					return false
				}, 1)
				if guarded {
					r.OK(site, p.PosStr(as.Pos()), "only when nothing was configured")
				} else {
					r.Bad(site, p.PosStr(as.Pos()), "the inferred value overwrites what output:package configured: an explicit PATH:NAME would lose against the package that happens to exist at the output location")
				}
			}
			return true
		})
	}
	_ = info
	if n == 0 {
		r.Bad("config.resolveOutputPackage/assignments", p.PosStr(fi.Decl.Pos()), "no assignment of OutputPackagePath/OutputPackageName found")
	}
	// must not reach the checked loader
	if inlined {
		// the caller goes on to parse the methods (which uses the checking loader, rightly): judge the lookup itself
		unchecked := len(findCalls(info, fi.Decl, modPath+"/pkgload", "PackageLoader", "GetUncheckedPkg")) > 0
		checked := len(findCalls(info, fi.Decl, modPath+"/pkgload", "PackageLoader", "getPkg"))+len(findCalls(info, fi.Decl, modPath+"/pkgload", "PackageLoader", "GetOneRaw")) > 0
		if unchecked && !checked {
			r.OK("config.resolveOutputPackage/unchecked lookup", p.PosStr(fi.Decl.Pos()), "the existing package is obtained with GetUncheckedPkg")
		} else {
			r.Bad("config.resolveOutputPackage/unchecked lookup", p.PosStr(fi.Decl.Pos()), "the package at the output location is not obtained with GetUncheckedPkg: an existing but (temporarily) ill-typed output package would not be reused and the file gets a guessed package clause")
		}
	} else if sf := p.SSAFunc(fi); sf != nil {
		reach := p.Reachable(p.CHA(), sf)
		bad := ""
		for f := range reach {
			if o, ok := f.Object().(*types.Func); ok && isFunc(o, modPath+"/pkgload", "PackageLoader", "getPkg") {
				bad = "resolveOutputPackage reaches pkgload.(*PackageLoader).getPkg, which fails for a package with errors: the name of an existing but (temporarily) ill-typed output package would not be reused and the file gets a guessed package clause"
			}
		}
		if bad != "" {
			r.Bad("config.resolveOutputPackage/unchecked lookup", p.PosStr(fi.Decl.Pos()), bad)
		} else {
			r.OK("config.resolveOutputPackage/unchecked lookup", p.PosStr(fi.Decl.Pos()), "does not reach the error-checking loader")
		}
	}
}

// ---------------------------------------------------------------------------
// evaluator-based tables

// armEffectRule: with the command fixed to key, parseConverterLine / parseMethodLine
// cannot return success while one of the listed fields was never stored.
func armEffectRule(p *Prog, r *Report, id, fnKey, key string, fields ...string) {
	r.Rule(id, fmt.Sprintf("in %s the setting %q stores %s on every path that returns success (decided by path-sensitive evaluation with the command fixed to %q): the written value is never silently kept from an earlier line", fnKey, key, strings.Join(fields, " and "), key), len(fields))
	fi, sf := needFunc(p, r, fnKey)
	if fi == nil {
		return
	}
	for _, field := range fields {
		for _, parts := range []int64{1, 2} {
			field, parts := field, parts
			nCmd := 0
			sc := &absScenario{
				tracked: map[string]absVal{field: aStr("<unset>")},
				onStore: func(_ string, _ absVal) absVal { return aStr("<set>") },
				assume: func(v ssa.Value, _ func(ssa.Value) absVal) (absVal, bool) {
					// cmd, rest := parse.Command(value): the first result is the command
					if ex, ok := v.(*ssa.Extract); ok && ex.Index == 0 {
						if c, ok := ex.Tuple.(*ssa.Call); ok && ssaCalleeObj(c) != nil && isFunc(ssaCalleeObj(c), modPath+"/config/parse", "", "Command") {
							nCmd++
							return aStr(key), true
						}
					}
					// strings.SplitN(s, sep, 2) yields one or two parts: both are evaluated
					if c, ok := v.(*ssa.Call); ok {
						if b, ok := c.Call.Value.(*ssa.Builtin); ok && b.Name() == "len" && len(c.Call.Args) == 1 {
							if in, ok := c.Call.Args[0].(*ssa.Call); ok && ssaCalleeObj(in) != nil && isFunc(ssaCalleeObj(in), "strings", "", "SplitN") {
								return aInt(parts), true
							}
						}
					}
					return aUnknown, false
				},
			}
			got := absReachState(sf, sc, func(ret *ssa.Return, eval func(ssa.Value) absVal, st map[string]absVal) bool {
				if len(ret.Results) != 1 {
					return false
				}
				if a := eval(ret.Results[0]); a.k == absNonNil {
					return false
				}
				return st[field].s == "<unset>"
			})
			site := fmt.Sprintf("%s/%q always stores .%s (%d part(s))", fnKey, key, field, parts)
			switch {
			case nCmd == 0:
				r.Bad(site, p.PosStr(fi.Decl.Pos()), "the command (first result of parse.Command) is not recognisable: the arm cannot be evaluated")
			case got != nil:
				r.Bad(site, p.PosStr(got.Pos()), fmt.Sprintf("a path returns without error and without storing .%s: what an earlier line (e.g. a -g default) configured stays in effect although this line was accepted", field))
			default:
				r.OK(site, p.PosStr(fi.Decl.Pos()), "no successful return without the store")
			}
		}
	}
}

// fieldCountAtom recognises len(strings.Fields(x)).
func fieldCountAtom(v ssa.Value) bool {
	c, ok := v.(*ssa.Call)
	if !ok {
		return false
	}
	b, ok := c.Call.Value.(*ssa.Builtin)
	if !ok || b.Name() != "len" || len(c.Call.Args) != 1 {
		return false
	}
	in, ok := c.Call.Args[0].(*ssa.Call)
	return ok && ssaCalleeObj(in) != nil && isFunc(ssaCalleeObj(in), "strings", "", "Fields")
}

// valueCountRule: parse.String and parse.Enum accept exactly one value (Enum: none if
// `empty`), decided for 0, 1, 2 and 3 written values.
func valueCountRule(p *Prog, r *Report, id string) {
	r.Rule(id, "a missing or surplus value is an error: evaluated with len(strings.Fields(text)) fixed to 0, 1, 2, 3 — parse.String returns success only for exactly one value; parse.Enum only for one value, or for none when its `empty` argument is true", 8)
	type row struct {
		fn     string
		n      int64
		empty  *bool
		accept bool
	}
	t, f := boolPtr(true), boolPtr(false)
	rows := []row{
		{"config/parse.String", 0, nil, false}, {"config/parse.String", 1, nil, true}, {"config/parse.String", 2, nil, false}, {"config/parse.String", 3, nil, false},
		{"config/parse.Enum", 0, f, false}, {"config/parse.Enum", 0, t, true}, {"config/parse.Enum", 1, f, true}, {"config/parse.Enum", 2, t, false}, {"config/parse.Enum", 3, f, false},
	}
	for _, rw := range rows {
		fi := p.Func(rw.fn)
		if fi == nil {
			r.Unresolved(rw.fn)
			continue
		}
		sf := p.SSAFunc(fi)
		if sf == nil {
			r.Unresolved("SSA of " + rw.fn)
			continue
		}
		nAtom := 0
		sc := &absScenario{assume: func(v ssa.Value, _ func(ssa.Value) absVal) (absVal, bool) {
			if fieldCountAtom(v) {
				nAtom++
				return aInt(rw.n), true
			}
			if prm, ok := v.(*ssa.Parameter); ok && rw.empty != nil && len(sf.Params) > 0 && prm == sf.Params[0] && types.Identical(prm.Type().Underlying(), types.Typ[types.Bool]) {
				return aBool(*rw.empty), true
			}
			return aUnknown, false
		}}
		got := absReach(sf, sc, successGoal)
		site := fmt.Sprintf("%s/%d value(s)", rw.fn, rw.n)
		if rw.empty != nil {
			site += fmt.Sprintf(", empty=%v", *rw.empty)
		}
		switch {
		case nAtom == 0:
			r.Bad(site, p.PosStr(fi.Decl.Pos()), "the number of written values (len(strings.Fields(…))) is not recognisable: the table cannot be evaluated")
		case rw.accept && got == nil:
			r.Bad(site, p.PosStr(fi.Decl.Pos()), "a well-formed value is rejected on every path")
		case !rw.accept && got != nil:
			r.Bad(site, p.PosStr(got.Pos()), fmt.Sprintf("%d written value(s) are accepted: a missing or surplus value is no longer an error", rw.n))
		default:
			r.OK(site, p.PosStr(fi.Decl.Pos()), map[bool]string{true: "accepted", false: "rejected on every path"}[rw.accept])
		}
	}
}

// ---------------------------------------------------------------------------
// C11.R10: when the method has a default FUNC, the pointer rules always start from it

func constructorAlwaysUsedRule(p *Prog, r *Report, id string) {
	r.Rule(id, "the method starts from FUNC's result whenever it has one: evaluated with ctx.UseConstructor = true (and, for *T → *U / *T → U, ctx.Conf.DefaultUpdate = true), no path of TargetPointer.Build, Pointer.Build, SourcePointer.Build — and of the builders that create the target themselves: BuildByAssign, Map.Build, Struct.Build (named target), List.Build (slice source) — returns success without having called buildTargetVar; no further condition (assignability of FUNC's result type, the kind of target …) can send the conversion back to the zero-value path", 5)
	for _, k := range []struct {
		fn       string
		update   bool
		needFlag bool            // the rule itself must read ctx.UseConstructor (it has a path of its own without FUNC)
		atoms    map[string]bool // further assumptions: "source.ListFixed" …
	}{
		{"builder.(*TargetPointer).Build", false, true, nil},
		{"builder.(*Pointer).Build", true, true, nil},
		{"builder.(*SourcePointer).Build", true, true, nil},
		// the builders that create the target themselves: through BuildByAssign → buildTargetVar (D22: List.Build
		// declared `var x []T` on its own and dropped FUNC); an array source is never nil, so its make() path is exempt
		{"builder.BuildByAssign", false, false, nil},
		{"builder.(*Map).Build", false, false, nil},
		{"builder.(*Struct).Build", false, false, map[string]bool{"target.Named": true}},
		{"builder.(*List).Build", false, true, map[string]bool{"source.ListFixed": false}},
	} {
		fi, sf := needFunc(p, r, k.fn)
		if fi == nil {
			continue
		}
		// private helpers of the rule that contain the buildTargetVar call count as the call
		carriers := map[*types.Func]bool{}
		for _, rf := range p.Region(k.fn) {
			if rsf := p.SSAFunc(rf); rsf != nil && rf != fi {
				if len(callsIn(rsf, true, isObj(modPath+"/builder", "", "buildTargetVar"))) > 0 {
					carriers[rf.Obj.Origin()] = true
				}
			}
		}
		nFlag := 0
		sc := &absScenario{
			assume: func(v ssa.Value, _ func(ssa.Value) absVal) (absVal, bool) {
				if loadsFieldNamed(v, "UseConstructor") {
					nFlag++
					return aBool(true), true
				}
				if k.update && loadsFieldNamed(v, "DefaultUpdate") {
					return aBool(true), true
				}
				if role, path := roleFieldPath(v); role != "" {
					if want, ok := k.atoms[role+"."+path]; ok {
						return aBool(want), true
					}
				}
				return aUnknown, false
			},
			marks: func(in ssa.Instruction) (string, bool) {
				c, ok := in.(ssa.CallInstruction)
				if !ok || ssaCalleeObj(c) == nil {
					return "", false
				}
				o := ssaCalleeObj(c).Origin()
				if isFunc(o, modPath+"/builder", "", "buildTargetVar") || carriers[o] || (isFunc(o, modPath+"/builder", "", "BuildByAssign") && k.fn != "builder.BuildByAssign") {
					return "ctor", true
				}
				return "", false
			},
		}
		got := absReachState(sf, sc, func(ret *ssa.Return, eval func(ssa.Value) absVal, st map[string]absVal) bool {
			if !successGoal(ret, eval) {
				return false
			}
			_, passed := st["@ctor"]
			return !passed
		})
		site := k.fn + "/constructor always used"
		switch {
		case nFlag == 0 && k.needFlag:
			r.Bad(site, p.PosStr(fi.Decl.Pos()), "ctx.UseConstructor is not read: a default FUNC would be ignored at this position")
		case got != nil:
			r.Bad(site, p.PosStr(got.Pos()), "with a default FUNC configured a path still returns a conversion that never called buildTargetVar: FUNC is skipped and the result starts from the zero value (fields FUNC sets, e.g. ignored ones, are lost)")
		default:
			r.OK(site, p.PosStr(fi.Decl.Pos()), "every successful path passes buildTargetVar")
		}
	}
}

// ---------------------------------------------------------------------------
// D20: doc settings of methods do not configure functions

func localConfigFunctionsOnlyRule(p *Prog, r *Report, id string) {
	r.Rule(id, "the local settings (goverter:context) of custom functions are collected from package-level function declarations only: in pkgload.localConfig every store into the per-name table happens under `<FuncDecl>.Recv == nil` — a method's doc comment never configures the function that shares its name", 1)
	fi := p.Func("pkgload.(*PackageLoader).localConfig")
	if fi == nil {
		r.Unresolved("pkgload.(*PackageLoader).localConfig")
		return
	}
	n := 0
	for _, rf := range p.Region("pkgload.(*PackageLoader).localConfig") {
		info := rf.Pkg.TypesInfo
		walkStack(rf.Decl.Body, func(nd ast.Node, stack []ast.Node) bool {
			as, ok := nd.(*ast.AssignStmt)
			if !ok || len(as.Lhs) != 1 {
				return true
			}
			ix, ok := ast.Unparen(as.Lhs[0]).(*ast.IndexExpr)
			if !ok {
				return true
			}
			mt, ok := info.TypeOf(ix.X).Underlying().(*types.Map)
			if !ok || !isNamed(mt.Elem(), modPath+"/method", "LocalOpts") {
				return true
			}
			n++
			site := fmt.Sprintf("%s/table[%s] =#%d", rf.Name(), exprString(ix.Index), n)
			okRecv := p.guardedSite(rf, stack, as, func(gi *types.Info, g Guard) bool {
				if g.Cond == nil || g.Tag != nil {
					return false
				}
				for _, cj := range disjunctsOrConjuncts(g) {
					be, ok := ast.Unparen(cj).(*ast.BinaryExpr)
					if !ok {
						continue
					}
					x, y := ast.Unparen(be.X), ast.Unparen(be.Y)
					if id0, ok := x.(*ast.Ident); ok && id0.Name == "nil" {
						x, y = y, x
					}
					if id0, ok := y.(*ast.Ident); !ok || id0.Name != "nil" {
						continue
					}
					sel, ok := x.(*ast.SelectorExpr)
					if !ok || sel.Sel.Name != "Recv" {
						continue
					}
					if (be.Op == token.EQL && !g.Neg) || (be.Op == token.NEQ && g.Neg) {
						return true
					}
				}
				return false
			}, 1)
			if okRecv {
				r.OK(site, p.PosStr(as.Pos()), "only for declarations without receiver")
			} else {
				r.Bad(site, p.PosStr(as.Pos()), "doc settings are recorded for every FuncDecl, methods included: `goverter:context x` on a method T.F makes the parameter x of the package-level function F a context argument (it would otherwise be a source and, as a second source, rejected)")
			}
			return true
		})
	}
	if n == 0 {
		r.Bad("pkgload.(*PackageLoader).localConfig/table", p.PosStr(fi.Decl.Pos()), "store into the per-name settings table not found")
	}
	if why := localConfigAllFunctionsSSA(p); why != "" {
		r.Bad("pkgload.(*PackageLoader).localConfig/every function", p.PosStr(fi.Decl.Pos()), why)
	} else {
		r.OK("pkgload.(*PackageLoader).localConfig/every function", p.PosStr(fi.Decl.Pos()), "recorded for every FuncDecl without receiver that has setting lines")
	}
}

// ---------------------------------------------------------------------------
// D21: every line of a comment is looked at

func noScannerRule(p *Prog, r *Report, id string) {
	r.Rule(id, "comment and setting text is never read through a bufio.Scanner: its 64 KiB token limit ends the scan at the first longer line without an error, so every goverter: line after it would be silently ignored (text is split with strings.Split / strings.Fields)", 1)
	n, bad := 0, 0
	for _, cs := range p.Calls() {
		fn, ok := cs.Callee.(*types.Func)
		if !ok {
			continue
		}
		n++
		if isFunc(fn, "bufio", "", "NewScanner") || isFunc(fn, "bufio", "Scanner", "Scan") {
			bad++
			encl := "<package init>"
			if cs.Encl != nil {
				encl = cs.Encl.Name()
			}
			r.Bad(encl+"/bufio."+fn.Name(), p.PosStr(cs.Call.Pos()), "text is scanned with a bufio.Scanner (default 64 KiB token limit, Err() unchecked): lines after an over-long line are dropped silently")
		}
	}
	if bad == 0 {
		r.OK("own code/bufio.Scanner", "", fmt.Sprintf("not used (%d call sites scanned)", n))
	}
}

// ---------------------------------------------------------------------------
// C05.R3 (part): field settings are recorded in RawFieldSettings

// fieldSettingKeys: the settings that only have an effect on a struct target (documented classification).
var fieldSettingKeys = []string{"map", "ignore", "autoMap", "ignoreUnexported", "update:ignoreZeroValueField", "matchIgnoreCase", "ignoreMissing"}

// fieldSettingRecordedRule: evaluated with the command fixed to each field-setting key,
// config.parseMethodLine cannot return success without having appended the line to
// Method.RawFieldSettings (directly, or because parseCommon classified the key).
func fieldSettingRecordedRule(p *Prog, r *Report) {
	fi, sf := needFunc(p, r, "config.parseMethodLine")
	if fi == nil {
		return
	}
	for _, key := range fieldSettingKeys {
		key := key
		nCmd := 0
		sc := &absScenario{
			assume: func(v ssa.Value, _ func(ssa.Value) absVal) (absVal, bool) {
				if ex, ok := v.(*ssa.Extract); ok && ex.Index == 0 {
					if c, ok := ex.Tuple.(*ssa.Call); ok && ssaCalleeObj(c) != nil && isFunc(ssaCalleeObj(c), modPath+"/config/parse", "", "Command") {
						nCmd++
						return aStr(key), true
					}
				}
				return aUnknown, false
			},
			marks: func(in ssa.Instruction) (string, bool) {
				if st, ok := in.(*ssa.Store); ok {
					if fa, ok := st.Addr.(*ssa.FieldAddr); ok && fieldName(fa) == "RawFieldSettings" {
						return "recorded", true
					}
				}
				return "", false
			},
		}
		got := absReachState(sf, sc, func(ret *ssa.Return, eval func(ssa.Value) absVal, st map[string]absVal) bool {
			if len(ret.Results) != 1 {
				return false
			}
			if a := eval(ret.Results[0]); a.k == absNonNil {
				return false
			}
			_, rec := st["@recorded"]
			return !rec
		})
		site := fmt.Sprintf("config.parseMethodLine/%q is recorded as field setting", key)
		switch {
		case nCmd == 0:
			r.Bad(site, p.PosStr(fi.Decl.Pos()), "the command (first result of parse.Command) is not recognisable: the classification cannot be evaluated")
		case got != nil:
			r.Bad(site, p.PosStr(got.Pos()), "the line can be accepted without being appended to RawFieldSettings: validation and the overlap check would not see this field setting, and on a non-struct or bypassed method it would be dropped silently")
		default:
			r.OK(site, p.PosStr(fi.Decl.Pos()), "no successful return without the line in RawFieldSettings")
		}
	}
}
