package main

import (
	"fmt"
	"go/ast"
	"go/token"
	"go/types"
	"strings"

	"golang.org/x/tools/go/ssa"
)

// ---------------------------------------------------------------------------
// AST helpers

// Guard is a condition that controls whether a node executes.
type Guard struct {
	Cond ast.Expr // condition expression (for switch/case: the case expression, Tag set)
	Tag  ast.Expr // switch tag, nil for if
	Neg  bool     // node is on the else / not-taken side
	Node ast.Node
}

// guardsOf returns the conditions on the path from the function body to n
// (outermost first) as given by the enclosing if/switch statements.  Early-exit
// guards (`if c { return }` before n in the same block) are added with Neg=true.
func guardsOf(stack []ast.Node, n ast.Node) []Guard {
	var gs []Guard
	full := append(append([]ast.Node{}, stack...), n)
	for i := 0; i < len(full)-1; i++ {
		child := full[i+1]
		switch x := full[i].(type) {
		case *ast.IfStmt:
			if child == x.Body {
				gs = append(gs, Guard{Cond: x.Cond, Node: x})
			} else if child == x.Else {
				gs = append(gs, Guard{Cond: x.Cond, Neg: true, Node: x})
			}
		case *ast.CaseClause:
			inBody := false
			for _, s := range x.Body {
				if s == child {
					inBody = true
				}
			}
			if inBody {
				var tag ast.Expr
				if i > 1 {
					if sw, ok := full[i-2].(*ast.SwitchStmt); ok {
						tag = sw.Tag
					}
				}
				if len(x.List) == 0 {
					gs = append(gs, Guard{Cond: nil, Tag: tag, Node: x}) // default
				}
				for _, e := range x.List {
					gs = append(gs, Guard{Cond: e, Tag: tag, Node: x})
				}
			}
		}
		// early exits before child in the same statement list
		var list []ast.Stmt
		switch x := full[i].(type) {
		case *ast.BlockStmt:
			list = x.List
		case *ast.CaseClause:
			list = x.Body
		}
		for _, s := range list {
			if s == child {
				break
			}
			if ifs, ok := s.(*ast.IfStmt); ok && ifs.Else == nil && endsInExit(ifs.Body) {
				gs = append(gs, Guard{Cond: ifs.Cond, Neg: true, Node: ifs})
			}
		}
	}
	return gs
}

func endsInExit(b *ast.BlockStmt) bool {
	if b == nil || len(b.List) == 0 {
		return false
	}
	switch x := b.List[len(b.List)-1].(type) {
	case *ast.ReturnStmt:
		return true
	case *ast.BranchStmt:
		return x.Tok == token.CONTINUE || x.Tok == token.BREAK
	case *ast.ExprStmt:
		if call, ok := x.X.(*ast.CallExpr); ok {
			if id, ok := call.Fun.(*ast.Ident); ok && id.Name == "panic" {
				return true
			}
			if sel, ok := call.Fun.(*ast.SelectorExpr); ok && sel.Sel.Name == "Exit" {
				return true
			}
		}
	}
	return false
}

// conjuncts splits a && b && c; for a negated guard over a || b it yields !a, !b.
func conjuncts(e ast.Expr) []ast.Expr {
	e = ast.Unparen(e)
	if b, ok := e.(*ast.BinaryExpr); ok && b.Op == token.LAND {
		return append(conjuncts(b.X), conjuncts(b.Y)...)
	}
	return []ast.Expr{e}
}

func disjuncts(e ast.Expr) []ast.Expr {
	e = ast.Unparen(e)
	if b, ok := e.(*ast.BinaryExpr); ok && b.Op == token.LOR {
		return append(disjuncts(b.X), disjuncts(b.Y)...)
	}
	return []ast.Expr{e}
}

// mentionsField reports whether e contains a selector resolving to field `name`
// of (a pointer to) the named type pkgPath.typeName (also through embedding).
func mentionsField(info *types.Info, e ast.Node, pkgPath, typeName, field string) bool {
	found := false
	ast.Inspect(e, func(n ast.Node) bool {
		sel, ok := n.(*ast.SelectorExpr)
		if !ok || found {
			return !found
		}
		if sel.Sel.Name != field {
			return true
		}
		if v, ok := info.ObjectOf(sel.Sel).(*types.Var); ok && v.IsField() {
			if fieldOwnerIs(info, sel, pkgPath, typeName) {
				found = true
			}
		}
		return !found
	})
	return found
}

// fieldOwnerIs: the struct that declares the selected field is pkgPath.typeName.
func fieldOwnerIs(info *types.Info, sel *ast.SelectorExpr, pkgPath, typeName string) bool {
	v, ok := info.ObjectOf(sel.Sel).(*types.Var)
	if !ok || !v.IsField() || v.Pkg() == nil || v.Pkg().Path() != pkgPath {
		return false
	}
	// find the named type in v's package whose struct declares v
	tn, ok := v.Pkg().Scope().Lookup(typeName).(*types.TypeName)
	if !ok {
		return false
	}
	st, ok := tn.Type().Underlying().(*types.Struct)
	if !ok {
		return false
	}
	for i := 0; i < st.NumFields(); i++ {
		if st.Field(i) == v {
			return true
		}
	}
	return false
}

// fieldSel: e is a selector of a field named `field` declared in pkgPath.typeName.
func isFieldSel(info *types.Info, e ast.Expr, pkgPath, typeName, field string) bool {
	sel, ok := ast.Unparen(e).(*ast.SelectorExpr)
	return ok && sel.Sel.Name == field && fieldOwnerIs(info, sel, pkgPath, typeName)
}

// callTo: e is a call whose resolved callee is pkgPath.(recv).name; returns the call.
func callTo(info *types.Info, e ast.Expr, pkgPath, recv, name string) *ast.CallExpr {
	call, ok := ast.Unparen(e).(*ast.CallExpr)
	if !ok {
		return nil
	}
	if isFunc(calleeObj(info, call), pkgPath, recv, name) {
		return call
	}
	return nil
}

// findCalls returns all calls to pkgPath.(recv).name below root.
func findCalls(info *types.Info, root ast.Node, pkgPath, recv, name string) []*ast.CallExpr {
	var out []*ast.CallExpr
	ast.Inspect(root, func(n ast.Node) bool {
		if call, ok := n.(*ast.CallExpr); ok && isFunc(calleeObj(info, call), pkgPath, recv, name) {
			out = append(out, call)
		}
		return true
	})
	return out
}

// stackTo returns the ancestor stack of target within root (outermost first,
// excluding target), or nil.
func stackTo(root ast.Node, target ast.Node) []ast.Node {
	var res []ast.Node
	walkStack(root, func(n ast.Node, stack []ast.Node) bool {
		if n == target {
			res = append([]ast.Node{}, stack...)
			return false
		}
		return res == nil
	})
	return res
}

// compositeField returns the value of `field: v` inside a composite literal.
func compositeField(cl *ast.CompositeLit, field string) ast.Expr {
	for _, e := range cl.Elts {
		if kv, ok := e.(*ast.KeyValueExpr); ok {
			if id, ok := kv.Key.(*ast.Ident); ok && id.Name == field {
				return kv.Value
			}
		}
	}
	return nil
}

// localDef returns the single expression assigned to the local variable obj in fn
// (nil if it is assigned more than once or not by a simple definition).
func localDef(info *types.Info, fn ast.Node, obj types.Object) ast.Expr {
	var def ast.Expr
	n := 0
	ast.Inspect(fn, func(x ast.Node) bool {
		switch s := x.(type) {
		case *ast.AssignStmt:
			for i, l := range s.Lhs {
				if id, ok := ast.Unparen(l).(*ast.Ident); ok && info.ObjectOf(id) == obj {
					n++
					if len(s.Rhs) == len(s.Lhs) {
						def = s.Rhs[i]
					} else {
						def = nil
					}
				}
			}
		case *ast.ValueSpec:
			for i, id := range s.Names {
				if info.ObjectOf(id) == obj {
					n++
					if i < len(s.Values) {
						def = s.Values[i]
					}
				}
			}
		}
		return true
	})
	if n != 1 {
		return nil
	}
	return def
}

func unaddr(e ast.Expr) ast.Expr {
	e = ast.Unparen(e)
	if u, ok := e.(*ast.UnaryExpr); ok && u.Op == token.AND {
		return ast.Unparen(u.X)
	}
	return e
}

// ---------------------------------------------------------------------------
// SSA helpers

// callsIn returns the call instructions of fn (optionally including closures) whose
// callee object satisfies pred.
func callsIn(fn *ssa.Function, withAnon bool, pred func(*types.Func) bool) []ssa.CallInstruction {
	var out []ssa.CallInstruction
	allInstrs(fn, withAnon, func(in ssa.Instruction) {
		if c, ok := in.(ssa.CallInstruction); ok {
			if o := ssaCalleeObj(c); o != nil && pred(o) {
				out = append(out, c)
			}
		}
	})
	return out
}

func isObj(pkgPath, recv, name string) func(*types.Func) bool {
	return func(o *types.Func) bool { return isFunc(o.Origin(), pkgPath, recv, name) }
}

// dominatedByEdge reports whether block b is only reachable through the true
// (want=true) or false edge of an If whose condition satisfies pred.
func dominatedByEdge(b *ssa.BasicBlock, want bool, pred func(cond ssa.Value) bool) bool {
	for d := b; d != nil; d = d.Idom() {
		idom := d.Idom()
		if idom == nil {
			break
		}
		ifi, ok := idom.Instrs[len(idom.Instrs)-1].(*ssa.If)
		if !ok || !pred(ifi.Cond) {
			continue
		}
		// d must be dominated by exactly one successor edge of idom
		tSucc, fSucc := idom.Succs[0], idom.Succs[1]
		if want && tSucc.Dominates(b) && len(tSucc.Preds) == 1 {
			return true
		}
		if !want && fSucc.Dominates(b) && len(fSucc.Preds) == 1 {
			return true
		}
	}
	return false
}

// underlyingValue strips conversions / ChangeType / MakeInterface wrappers.
func stripConv(v ssa.Value) ssa.Value {
	for {
		switch x := v.(type) {
		case *ssa.ChangeType:
			v = x.X
		case *ssa.Convert:
			v = x.X
		case *ssa.MakeInterface:
			v = x.X
		case *ssa.ChangeInterface:
			v = x.X
		default:
			return v
		}
	}
}

// isNilCheck: cond is `x != nil` (ne=true) or `x == nil` and x satisfies pred.
func isNilCheck(cond ssa.Value, pred func(ssa.Value) bool) (ne bool, ok bool) {
	b, isB := cond.(*ssa.BinOp)
	if !isB || (b.Op != token.NEQ && b.Op != token.EQL) {
		return false, false
	}
	var other ssa.Value
	if isNilConst(b.X) {
		other = b.Y
	} else if isNilConst(b.Y) {
		other = b.X
	} else {
		return false, false
	}
	if pred != nil && !pred(other) {
		return false, false
	}
	return b.Op == token.NEQ, true
}

func fmtSite(parts ...string) string { return strings.Join(parts, "/") }

func short(s string, n int) string {
	if len(s) > n {
		return s[:n] + "…"
	}
	return s
}

var _ = fmt.Sprintf
