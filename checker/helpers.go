package main

import (
	"fmt"
	"go/ast"
	"go/constant"
	"go/token"
	"go/types"
	"sort"
	"strings"

	"golang.org/x/tools/go/ssa"
)

// ---------------------------------------------------------------------------
// AST helpers

// Guard is a condition that controls whether a node executes.
type Guard struct {
	Cond ast.Expr // condition expression (for switch/case: the case expression, Tag set)
	Tag  ast.Expr // switch tag, nil for if
	Neg  bool     // node is on the else / not-taken side
	Node ast.Node
}

// guardsOf returns the conditions on the path from the function body to n
// (outermost first) as given by the enclosing if/switch statements.  Early-exit
// guards (`if c { return }` before n in the same block) are added with Neg=true.
func guardsOf(stack []ast.Node, n ast.Node) []Guard {
	var gs []Guard
	full := append(append([]ast.Node{}, stack...), n)
	for i := 0; i < len(full)-1; i++ {
		child := full[i+1]
		switch x := full[i].(type) {
		case *ast.IfStmt:
			if child == x.Body {
				gs = append(gs, Guard{Cond: x.Cond, Node: x})
			} else if child == x.Else {
				gs = append(gs, Guard{Cond: x.Cond, Neg: true, Node: x})
			}
		case *ast.CaseClause:
			inBody := false
			for _, s := range x.Body {
				if s == child {
					inBody = true
				}
			}
			if inBody {
				var tag ast.Expr
				if i > 1 {
					if sw, ok := full[i-2].(*ast.SwitchStmt); ok {
						tag = sw.Tag
					}
				}
				if len(x.List) == 0 {
					gs = append(gs, Guard{Cond: nil, Tag: tag, Node: x}) // default
				}
				for _, e := range x.List {
					gs = append(gs, Guard{Cond: e, Tag: tag, Node: x})
				}
			}
		}
		// early exits before child in the same statement list
		var list []ast.Stmt
		switch x := full[i].(type) {
		case *ast.BlockStmt:
			list = x.List
		case *ast.CaseClause:
			list = x.Body
		}
		for _, s := range list {
			if s == child {
				break
			}
			if ifs, ok := s.(*ast.IfStmt); ok && ifs.Else == nil && endsInExit(ifs.Body) {
				gs = append(gs, Guard{Cond: ifs.Cond, Neg: true, Node: ifs})
			}
		}
	}
	return gs
}

func endsInExit(b *ast.BlockStmt) bool {
	if b == nil || len(b.List) == 0 {
		return false
	}
	switch x := b.List[len(b.List)-1].(type) {
	case *ast.ReturnStmt:
		return true
	case *ast.BranchStmt:
		return x.Tok == token.CONTINUE || x.Tok == token.BREAK
	case *ast.ExprStmt:
		if call, ok := x.X.(*ast.CallExpr); ok {
			if id, ok := call.Fun.(*ast.Ident); ok && id.Name == "panic" {
				return true
			}
			if sel, ok := call.Fun.(*ast.SelectorExpr); ok && sel.Sel.Name == "Exit" {
				return true
			}
		}
	}
	return false
}

// conjuncts splits a && b && c; for a negated guard over a || b it yields !a, !b.
func conjuncts(e ast.Expr) []ast.Expr {
	e = ast.Unparen(e)
	if b, ok := e.(*ast.BinaryExpr); ok && b.Op == token.LAND {
		return append(conjuncts(b.X), conjuncts(b.Y)...)
	}
	return []ast.Expr{e}
}

func disjuncts(e ast.Expr) []ast.Expr {
	e = ast.Unparen(e)
	if b, ok := e.(*ast.BinaryExpr); ok && b.Op == token.LOR {
		return append(disjuncts(b.X), disjuncts(b.Y)...)
	}
	return []ast.Expr{e}
}

// mentionsField reports whether e contains a selector resolving to field `name`
// of (a pointer to) the named type pkgPath.typeName (also through embedding).
func mentionsField(info *types.Info, e ast.Node, pkgPath, typeName, field string) bool {
	found := false
	ast.Inspect(e, func(n ast.Node) bool {
		sel, ok := n.(*ast.SelectorExpr)
		if !ok || found {
			return !found
		}
		if sel.Sel.Name != field {
			return true
		}
		if v, ok := info.ObjectOf(sel.Sel).(*types.Var); ok && v.IsField() {
			if fieldOwnerIs(info, sel, pkgPath, typeName) {
				found = true
			}
		}
		return !found
	})
	return found
}

// fieldOwnerIs: the struct that declares the selected field is pkgPath.typeName.
func fieldOwnerIs(info *types.Info, sel *ast.SelectorExpr, pkgPath, typeName string) bool {
	v, ok := info.ObjectOf(sel.Sel).(*types.Var)
	if !ok || !v.IsField() || v.Pkg() == nil || v.Pkg().Path() != pkgPath {
		return false
	}
	// find the named type in v's package whose struct declares v
	tn, ok := v.Pkg().Scope().Lookup(typeName).(*types.TypeName)
	if !ok {
		return false
	}
	st, ok := tn.Type().Underlying().(*types.Struct)
	if !ok {
		return false
	}
	for i := 0; i < st.NumFields(); i++ {
		if st.Field(i) == v {
			return true
		}
	}
	return false
}

// fieldSel: e is a selector of a field named `field` declared in pkgPath.typeName.
func isFieldSel(info *types.Info, e ast.Expr, pkgPath, typeName, field string) bool {
	sel, ok := ast.Unparen(e).(*ast.SelectorExpr)
	return ok && sel.Sel.Name == field && fieldOwnerIs(info, sel, pkgPath, typeName)
}

// callTo: e is a call whose resolved callee is pkgPath.(recv).name; returns the call.
func callTo(info *types.Info, e ast.Expr, pkgPath, recv, name string) *ast.CallExpr {
	call, ok := ast.Unparen(e).(*ast.CallExpr)
	if !ok {
		return nil
	}
	if isFunc(calleeObj(info, call), pkgPath, recv, name) {
		return call
	}
	return nil
}

// findCalls returns all calls to pkgPath.(recv).name below root.
func findCalls(info *types.Info, root ast.Node, pkgPath, recv, name string) []*ast.CallExpr {
	var out []*ast.CallExpr
	ast.Inspect(root, func(n ast.Node) bool {
		if call, ok := n.(*ast.CallExpr); ok && isFunc(calleeObj(info, call), pkgPath, recv, name) {
			out = append(out, call)
		}
		return true
	})
	return out
}

// stackTo returns the ancestor stack of target within root (outermost first,
// excluding target), or nil.
func stackTo(root ast.Node, target ast.Node) []ast.Node {
	var res []ast.Node
	walkStack(root, func(n ast.Node, stack []ast.Node) bool {
		if n == target {
			res = append([]ast.Node{}, stack...)
			return false
		}
		return res == nil
	})
	return res
}

// compositeField returns the value of `field: v` inside a composite literal.
func compositeField(cl *ast.CompositeLit, field string) ast.Expr {
	for _, e := range cl.Elts {
		if kv, ok := e.(*ast.KeyValueExpr); ok {
			if id, ok := kv.Key.(*ast.Ident); ok && id.Name == field {
				return kv.Value
			}
		}
	}
	return nil
}

// localDef returns the single expression assigned to the local variable obj in fn
// (nil if it is assigned more than once or not by a simple definition).
func localDef(info *types.Info, fn ast.Node, obj types.Object) ast.Expr {
	var def ast.Expr
	n := 0
	ast.Inspect(fn, func(x ast.Node) bool {
		switch s := x.(type) {
		case *ast.AssignStmt:
			for i, l := range s.Lhs {
				if id, ok := ast.Unparen(l).(*ast.Ident); ok && info.ObjectOf(id) == obj {
					n++
					if len(s.Rhs) == len(s.Lhs) {
						def = s.Rhs[i]
					} else {
						def = nil
					}
				}
			}
		case *ast.ValueSpec:
			for i, id := range s.Names {
				if info.ObjectOf(id) == obj {
					n++
					if i < len(s.Values) {
						def = s.Values[i]
					}
				}
			}
		}
		return true
	})
	if n != 1 {
		return nil
	}
	return def
}

func unaddr(e ast.Expr) ast.Expr {
	e = ast.Unparen(e)
	if u, ok := e.(*ast.UnaryExpr); ok && u.Op == token.AND {
		return ast.Unparen(u.X)
	}
	return e
}

// ---------------------------------------------------------------------------
// SSA helpers

// callsIn returns the call instructions of fn (optionally including closures) whose
// callee object satisfies pred.
func callsIn(fn *ssa.Function, withAnon bool, pred func(*types.Func) bool) []ssa.CallInstruction {
	var out []ssa.CallInstruction
	allInstrs(fn, withAnon, func(in ssa.Instruction) {
		if c, ok := in.(ssa.CallInstruction); ok {
			if o := ssaCalleeObj(c); o != nil && pred(o) {
				out = append(out, c)
			}
		}
	})
	return out
}

func isObj(pkgPath, recv, name string) func(*types.Func) bool {
	return func(o *types.Func) bool { return isFunc(o.Origin(), pkgPath, recv, name) }
}

// dominatedByEdge reports whether block b is only reachable through the true
// (want=true) or false edge of an If whose condition satisfies pred.
func dominatedByEdge(b *ssa.BasicBlock, want bool, pred func(cond ssa.Value) bool) bool {
	for d := b; d != nil; d = d.Idom() {
		idom := d.Idom()
		if idom == nil {
			break
		}
		ifi, ok := idom.Instrs[len(idom.Instrs)-1].(*ssa.If)
		if !ok || !pred(ifi.Cond) {
			continue
		}
		// d must be dominated by exactly one successor edge of idom
		tSucc, fSucc := idom.Succs[0], idom.Succs[1]
		if want && tSucc.Dominates(b) && len(tSucc.Preds) == 1 {
			return true
		}
		if !want && fSucc.Dominates(b) && len(fSucc.Preds) == 1 {
			return true
		}
	}
	return false
}

// underlyingValue strips conversions / ChangeType / MakeInterface wrappers.
func stripConv(v ssa.Value) ssa.Value {
	for {
		switch x := v.(type) {
		case *ssa.ChangeType:
			v = x.X
		case *ssa.Convert:
			v = x.X
		case *ssa.MakeInterface:
			v = x.X
		case *ssa.ChangeInterface:
			v = x.X
		default:
			return v
		}
	}
}

// isNilCheck: cond is `x != nil` (ne=true) or `x == nil` and x satisfies pred.
func isNilCheck(cond ssa.Value, pred func(ssa.Value) bool) (ne bool, ok bool) {
	b, isB := cond.(*ssa.BinOp)
	if !isB || (b.Op != token.NEQ && b.Op != token.EQL) {
		return false, false
	}
	var other ssa.Value
	if isNilConst(b.X) {
		other = b.Y
	} else if isNilConst(b.Y) {
		other = b.X
	} else {
		return false, false
	}
	if pred != nil && !pred(other) {
		return false, false
	}
	return b.Op == token.NEQ, true
}

func fmtSite(parts ...string) string { return strings.Join(parts, "/") }

func short(s string, n int) string {
	r := []rune(s)
	if len(r) > n {
		return string(r[:n]) + "…"
	}
	return s
}

var _ = fmt.Sprintf

// ---------------------------------------------------------------------------
// Regions and helper expansion (form tolerance, DESIGN §1.5)

// Region returns the function key plus its *helpers*: unexported functions of the
// same package all of whose call sites lie inside the region (closure, two rounds).
// Rules anchored in a named function search the whole region, so that extracting a
// few lines into a helper (or splitting a function) does not hide the construct.
func (p *Prog) Region(key string) []*FuncInfo {
	if p.regionMemo == nil {
		p.regionMemo = map[string][]*FuncInfo{}
	}
	if r, ok := p.regionMemo[key]; ok {
		return r
	}
	r := p.region0(key)
	p.regionMemo[key] = r
	return r
}

// anchorFor maps a function to the audited anchor whose region (the anchor plus its
// private helpers) contains it; table rows are keyed by anchors, so that code moved
// into a helper of an audited function keeps its audit (and its re-verified sub-facts).
// idCloneArg: the chain is `x.Clone()…` where the local x was defined as jen.Id(<name>): returns <name>.
// (`counter := jen.Id(index); counter.Clone().Op(":=")…` declares the identifier `index` stands for.)
func idCloneArg(c *Chain) ast.Expr {
	if c.Root == nil || c.Encl == nil || len(c.Links) == 0 || c.Links[0].Name != "Clone" {
		return nil
	}
	id, ok := ast.Unparen(c.Root).(*ast.Ident)
	if !ok {
		return nil
	}
	info := c.Pkg.TypesInfo
	def := localDef(info, c.Encl.Decl, info.ObjectOf(id))
	if def == nil {
		return nil
	}
	ch, ok := chainOf(info, def)
	if !ok || ch.Root != nil || len(ch.Links) != 1 || ch.Links[0].Name != "Id" || len(ch.Links[0].Args) != 1 {
		return nil
	}
	return ch.Links[0].Args[0]
}

// inspectRegion walks the declarations of the anchor function and of its private helpers.
func (p *Prog) inspectRegion(key string, f func(rf *FuncInfo, n ast.Node) bool) {
	for _, rf := range p.Region(key) {
		rf := rf
		ast.Inspect(rf.Decl, func(n ast.Node) bool { return f(rf, n) })
	}
}

// inlinedInto: an audited anchor that no longer exists because it was inlined into its only caller is represented by
// that caller (the reverse of extracting a helper).  One line per anchor that has exactly one caller today.
var inlinedInto = map[string]string{
	"config.resolveOutputPackage": "config.parseConverter",
}

// anchorOrCaller returns the anchor function, or — when it was inlined away — its documented single caller.
func (p *Prog) anchorOrCaller(anchor string) *FuncInfo {
	if fi := p.Func(anchor); fi != nil {
		return fi
	}
	if c, ok := inlinedInto[anchor]; ok {
		return p.Func(c)
	}
	return nil
}

func (p *Prog) anchorFor(fi *FuncInfo, anchors []string) string {
	if fi == nil {
		return ""
	}
	for _, a := range anchors {
		if a == fi.Name() {
			return a
		}
	}
	for _, a := range anchors {
		if c, ok := inlinedInto[a]; ok && p.Func(a) == nil && c == fi.Name() {
			return a
		}
	}
	for _, a := range anchors {
		if p.Func(a) != nil && p.inRegion(a, fi) {
			return a
		}
	}
	return fi.Name()
}

func mapKeys[V any](m map[string]V) []string {
	var out []string
	for k := range m {
		out = append(out, k)
	}
	return out
}

func fnPartsOf(keys []string) []string {
	seen := map[string]bool{}
	var out []string
	for _, k := range keys {
		f := k
		if i := strings.Index(k, "|"); i >= 0 {
			f = k[:i]
		}
		if !seen[f] {
			seen[f] = true
			out = append(out, f)
		}
	}
	sort.Strings(out)
	return out
}

func (p *Prog) region0(key string) []*FuncInfo {
	root := p.Func(key)
	if root == nil {
		return nil
	}
	in := map[*types.Func]bool{root.Obj: true}
	out := []*FuncInfo{root}
	for round := 0; round < 3; round++ {
		for _, fi := range p.Funcs {
			if in[fi.Obj] || fi.Pkg != root.Pkg || fi.Obj.Exported() {
				continue
			}
			n, all := 0, true
			for _, cs := range p.Calls() {
				f, ok := cs.Callee.(*types.Func)
				if !ok || f.Origin() != fi.Obj.Origin() {
					continue
				}
				n++
				if cs.Encl == nil || !in[cs.Encl.Obj] {
					all = false
				}
			}
			if n > 0 && all {
				// also not referenced as a value
				_, vals := p.refSites(fi.Obj)
				if len(vals) == 0 {
					in[fi.Obj] = true
					out = append(out, fi)
				}
			}
		}
	}
	return out
}

// inRegion reports whether fi is the anchor or one of its helpers.
func (p *Prog) inRegion(key string, fi *FuncInfo) bool {
	for _, f := range p.Region(key) {
		if f == fi {
			return true
		}
	}
	return false
}

// helperReturn: if call invokes an own function whose body ends in `return <expr>`
// (single result), it returns that expression, the helper and the parameter → argument
// substitution.
func (p *Prog) helperReturn(info *types.Info, e ast.Expr) (ast.Expr, *FuncInfo, map[types.Object]ast.Expr) {
	call, ok := ast.Unparen(e).(*ast.CallExpr)
	if !ok {
		return nil, nil, nil
	}
	fn, ok := calleeObj(info, call).(*types.Func)
	if !ok {
		return nil, nil, nil
	}
	h := p.funcIdx[funcKey(fn.Origin())]
	if h == nil || h.Decl.Body == nil || len(h.Decl.Body.List) == 0 {
		return nil, nil, nil
	}
	ret, ok := h.Decl.Body.List[len(h.Decl.Body.List)-1].(*ast.ReturnStmt)
	if !ok || len(ret.Results) != 1 {
		return nil, nil, nil
	}
	sig := fn.Type().(*types.Signature)
	subst := map[types.Object]ast.Expr{}
	for i := 0; i < sig.Params().Len() && i < len(call.Args); i++ {
		subst[sig.Params().At(i)] = call.Args[i]
	}
	if sig.Recv() != nil {
		if sel, ok := ast.Unparen(call.Fun).(*ast.SelectorExpr); ok && h.Decl.Recv != nil && len(h.Decl.Recv.List[0].Names) == 1 {
			subst[h.Pkg.TypesInfo.ObjectOf(h.Decl.Recv.List[0].Names[0])] = sel.X
		}
	}
	return ret.Results[0], h, subst
}

// substString renders e with parameters replaced by the caller's argument text.
func substString(info *types.Info, e ast.Expr, subst map[types.Object]ast.Expr) string {
	if len(subst) == 0 {
		return exprString(e)
	}
	s := exprString(e)
	// replace identifiers token-wise
	var ids []*ast.Ident
	ast.Inspect(e, func(n ast.Node) bool {
		if id, ok := n.(*ast.Ident); ok {
			ids = append(ids, id)
		}
		return true
	})
	for _, id := range ids {
		if a, ok := subst[info.ObjectOf(id)]; ok {
			// exprString printed the identifier under its canonical name, if it has one
			name := id.Name
			if c, ok := canonName(id); ok {
				name = c
			}
			s = replaceIdent(s, name, exprString(a))
		}
	}
	return s
}

func replaceIdent(s, name, with string) string {
	var sb strings.Builder
	for i := 0; i < len(s); {
		if strings.HasPrefix(s[i:], name) {
			before := i == 0 || !isIdentChar(s[i-1])
			after := i+len(name) >= len(s) || !isIdentChar(s[i+len(name)])
			if before && after && (i == 0 || s[i-1] != '.') {
				sb.WriteString(with)
				i += len(name)
				continue
			}
		}
		sb.WriteByte(s[i])
		i++
	}
	return sb.String()
}

func isIdentChar(c byte) bool {
	return c == '_' || c >= 'a' && c <= 'z' || c >= 'A' && c <= 'Z' || c >= '0' && c <= '9'
}

// nilGuardOf recognises jen.If(<X>.Op("!=").Nil()).Block(<B>...) — written in place or
// returned by an own helper — and returns the text of X and of B (with parameters of
// the helper replaced by the caller's arguments).
func (p *Prog) nilGuardOf(info *types.Info, e ast.Expr) (cond, block string, ok bool) {
	g := p.nilGuard(info, e)
	if g == nil {
		return "", "", false
	}
	return g.Cond, g.Block, true
}

// nilGuardInfo carries the pieces of a recognised nil guard.
type nilGuardInfo struct {
	Cond, Block string
	BlockArgs   []ast.Expr
	Info        *types.Info
	Subst       map[types.Object]ast.Expr
}

func (p *Prog) nilGuard(info *types.Info, e ast.Expr) *nilGuardInfo {
	try := func(info *types.Info, e ast.Expr, subst map[types.Object]ast.Expr) *nilGuardInfo {
		c, b, ok := nilGuardTry(info, e, subst)
		if !ok {
			return nil
		}
		ch, _ := chainOf(info, e)
		return &nilGuardInfo{Cond: c, Block: b, BlockArgs: ch.Links[1].Args, Info: info, Subst: subst}
	}
	if g := try(info, e, nil); g != nil {
		return g
	}
	if ret, h, subst := p.helperReturn(info, e); ret != nil {
		g := try(h.Pkg.TypesInfo, ret, subst)
		if g == nil {
			return nil
		}
		// Block(param...) with a slice/variadic parameter: the statements are the caller's arguments
		if len(g.BlockArgs) == 1 {
			if id, ok := ast.Unparen(g.BlockArgs[0]).(*ast.Ident); ok {
				sig := h.Obj.Type().(*types.Signature)
				call := ast.Unparen(e).(*ast.CallExpr)
				for i := 0; i < sig.Params().Len(); i++ {
					if sig.Params().At(i) == h.Pkg.TypesInfo.ObjectOf(id) && i < len(call.Args) {
						if sig.Variadic() && i == sig.Params().Len()-1 && !call.Ellipsis.IsValid() {
							g.BlockArgs = call.Args[i:]
							g.Info = info
							g.Subst = nil
						} else if cl, ok := ast.Unparen(call.Args[i]).(*ast.CompositeLit); ok {
							g.BlockArgs = cl.Elts
							g.Info = info
							g.Subst = nil
						}
					}
				}
			}
		}
		return g
	}
	return nil
}

func nilGuardTry(info *types.Info, e ast.Expr, subst map[types.Object]ast.Expr) (string, string, bool) {
	try := func(info *types.Info, e ast.Expr, subst map[types.Object]ast.Expr) (string, string, bool) {
		ch, ok := chainOf(info, e)
		if !ok || ch.Root != nil || len(ch.Links) < 2 || ch.Links[0].Name != "If" || ch.Links[1].Name != "Block" || len(ch.Links[0].Args) != 1 {
			return "", "", false
		}
		c, ok := chainOf(info, ch.Links[0].Args[0])
		if !ok || c.Root == nil || c.Has("Nil") == nil || c.Has("Op") == nil {
			return "", "", false
		}
		if s, _ := constString(info, c.Has("Op").Args[0]); s != "!=" {
			return "", "", false
		}
		// no further conjunct
		for _, l := range c.Links {
			if l.Name != "Clone" && l.Name != "Op" && l.Name != "Nil" {
				return "", "", false
			}
		}
		blk := ""
		if len(ch.Links[1].Args) >= 1 {
			var parts []string
			for _, a := range ch.Links[1].Args {
				parts = append(parts, substString(info, a, subst))
			}
			blk = strings.Join(parts, ", ")
		}
		return substString(info, c.Root, subst), blk, true
	}
	return try(info, e, subst)
}

// guardedSite: the node executes only under a guard satisfying pred — in its own
// function, or (when that function is an unexported helper) at every one of its call
// sites, transitively up to depth.
func (p *Prog) guardedSite(fi *FuncInfo, stack []ast.Node, n ast.Node, pred func(info *types.Info, g Guard) bool, depth int) bool {
	for _, g := range guardsOf(stack, n) {
		if pred(fi.Pkg.TypesInfo, g) {
			return true
		}
	}
	if depth <= 0 || fi.Obj.Exported() {
		return false
	}
	nc := 0
	for _, cs := range p.Calls() {
		f, ok := cs.Callee.(*types.Func)
		if !ok || f.Origin() != fi.Obj.Origin() {
			continue
		}
		nc++
		if cs.Encl == nil || !p.guardedSite(cs.Encl, cs.Stack, cs.Call, pred, depth-1) {
			return false
		}
	}
	if _, vals := p.refSites(fi.Obj); len(vals) > 0 {
		return false
	}
	return nc > 0
}

// existsPathAvoidingAtoms reports whether some CFG path from the entry of fn reaches
// an instruction satisfying goal without any branch having established that an
// *atom* (a condition value satisfying isAtom) is true.  Conditions materialised as
// φ-values (`a && b` in value context) are resolved along the path, negations are
// followed with their polarity, constant conditions prune the infeasible edge.
func existsPathAvoidingAtoms(fn *ssa.Function, isAtom func(ssa.Value) bool, goal func(ssa.Instruction) bool) ssa.Instruction {
	type st struct{ b, prev *ssa.BasicBlock }
	seen := map[st]bool{}
	var found ssa.Instruction
	var resolve func(v ssa.Value, b, prev *ssa.BasicBlock, depth int) (ssa.Value, bool) // value, negated
	resolve = func(v ssa.Value, b, prev *ssa.BasicBlock, depth int) (ssa.Value, bool) {
		if depth > 6 {
			return v, false
		}
		switch x := v.(type) {
		case *ssa.UnOp:
			if x.Op == token.NOT {
				r, neg := resolve(x.X, b, prev, depth+1)
				return r, !neg
			}
		case *ssa.Phi:
			if x.Block() == b && prev != nil {
				for i, pb := range b.Preds {
					if pb == prev {
						return resolve(x.Edges[i], b, prev, depth+1)
					}
				}
			}
		}
		return v, false
	}
	var walk func(b, prev *ssa.BasicBlock)
	walk = func(b, prev *ssa.BasicBlock) {
		if found != nil || seen[st{b, prev}] {
			return
		}
		seen[st{b, prev}] = true
		for _, in := range b.Instrs {
			if goal(in) {
				found = in
				return
			}
		}
		ifi, ok := b.Instrs[len(b.Instrs)-1].(*ssa.If)
		if !ok {
			for _, s := range b.Succs {
				walk(s, b)
			}
			return
		}
		v, neg := resolve(ifi.Cond, b, prev, 0)
		if k, isK := v.(*ssa.Const); isK && k.Value != nil && k.Value.Kind() == constant.Bool {
			val := constant.BoolVal(k.Value) != neg
			if val {
				walk(b.Succs[0], b)
			} else {
				walk(b.Succs[1], b)
			}
			return
		}
		if isAtom(v) {
			// the edge on which the atom is true is not followed
			if neg {
				walk(b.Succs[0], b) // cond = !atom true → atom false
			} else {
				walk(b.Succs[1], b)
			}
			return
		}
		walk(b.Succs[0], b)
		walk(b.Succs[1], b)
	}
	if len(fn.Blocks) > 0 {
		walk(fn.Blocks[0], nil)
	}
	return found
}
