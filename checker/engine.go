package main

// Engine: loads /repo's current working tree with go/packages, type-checks it,
// builds SSA and (lazily) a VTA call graph, and offers the fact extractors used by
// the rules (DESIGN.md §1.2).  Nothing here runs goverter.

import (
	"fmt"
	"go/ast"
	"go/constant"
	"go/token"
	"go/types"
	"os"
	"sort"
	"strings"

	"golang.org/x/tools/go/callgraph"
	"golang.org/x/tools/go/callgraph/cha"
	"golang.org/x/tools/go/callgraph/vta"
	"golang.org/x/tools/go/packages"
	"golang.org/x/tools/go/ssa"
	"golang.org/x/tools/go/ssa/ssautil"
	"golang.org/x/tools/go/types/typeutil"
)

const modPath = "github.com/jmattheis/goverter"
const jenPath = "github.com/dave/jennifer/jen"

// ownPkgs is the list of packages whose code is checked (everything of the module
// except the generated samples under example/).
var ownPkgNames = []string{"", "cli", "cmd/goverter", "comments", "config", "config/parse", "pkgload", "method", "namer", "xtype", "enum", "builder", "generator"}

type LoadOpts struct {
	Dir     string
	GOOS    string
	Tags    string
	Overlay map[string][]byte
}

type FuncInfo struct {
	Obj  *types.Func
	Decl *ast.FuncDecl
	Pkg  *packages.Package
	Lit  *ast.FuncLit // set for function literals (Obj/Decl are those of the enclosing declaration)
	P    *Prog        // the program this function belongs to
}

func (f *FuncInfo) Name() string {
	if f == nil || f.Obj == nil {
		return "<nil>"
	}
	return funcKey(f.Obj)
}

// funcKey gives "pkg.Func" or "pkg.(Recv).Method" with the package path relative to
// the module; this is what table rows and finding keys use (never line numbers).
func funcKey(fn *types.Func) string {
	pkg := ""
	if fn.Pkg() != nil {
		pkg = relPkg(fn.Pkg().Path())
	}
	sig, _ := fn.Type().(*types.Signature)
	if sig != nil && sig.Recv() != nil {
		t := sig.Recv().Type()
		ptr := ""
		if p, ok := t.(*types.Pointer); ok {
			t = p.Elem()
			ptr = "*"
		}
		name := "?"
		if n, ok := types.Unalias(t).(*types.Named); ok {
			name = n.Obj().Name()
		}
		return fmt.Sprintf("%s.(%s%s).%s", pkg, ptr, name, fn.Name())
	}
	return pkg + "." + fn.Name()
}

func relPkg(path string) string {
	if path == modPath {
		return "goverter"
	}
	if strings.HasPrefix(path, modPath+"/") {
		return strings.TrimPrefix(path, modPath+"/")
	}
	return path
}

type CallSite struct {
	Call   *ast.CallExpr
	Callee types.Object // *types.Func, *types.Builtin, *types.Var (func value) or nil (conversion / unknown)
	Encl   *FuncInfo
	Pkg    *packages.Package
	Stack  []ast.Node // ancestors, outermost first (excluding Call)
}

type Prog struct {
	Opts     LoadOpts
	Fset     *token.FileSet
	All      []*packages.Package
	Own      []*packages.Package
	ByPath   map[string]*packages.Package
	SSA      *ssa.Program
	Funcs    []*FuncInfo // every FuncDecl with a body in own code, sorted
	funcIdx  map[string]*FuncInfo
	calls    []*CallSite
	vta      *callgraph.Graph
	chaG     *callgraph.Graph
	nOwnFn   int
	ssaSites map[*ssa.Function][]ssa.CallInstruction
	// per-program memo tables (two programs — the tree and the tree with positive controls — are loaded concurrently)
	regionMemo map[string][]*FuncInfo
	seedBusy   map[*FuncInfo]bool
}

// SSACallSites returns every static call of fn in own code (including calls from function literals).
func (p *Prog) SSACallSites(fn *ssa.Function) []ssa.CallInstruction {
	if p.ssaSites == nil {
		p.ssaSites = map[*ssa.Function][]ssa.CallInstruction{}
		for _, fi := range p.Funcs {
			if fi.Lit != nil {
				continue
			}
			sf := p.SSAFunc(fi)
			if sf == nil {
				continue
			}
			allInstrs(sf, true, func(in ssa.Instruction) {
				if c, ok := in.(ssa.CallInstruction); ok {
					if callee := c.Common().StaticCallee(); callee != nil {
						p.ssaSites[callee] = append(p.ssaSites[callee], c)
					}
				}
			})
		}
	}
	out := p.ssaSites[fn]
	// calls of the instantiations of a generic function
	if fn.Origin() == nil && fn.TypeParams().Len() > 0 {
		for callee, sites := range p.ssaSites {
			if callee.Origin() == fn {
				out = append(out, sites...)
			}
		}
	}
	return out
}

func goEnv(o LoadOpts) []string {
	env := []string{}
	for _, kv := range os.Environ() {
		if strings.HasPrefix(kv, "GOWORK=") || strings.HasPrefix(kv, "GOFLAGS=") || strings.HasPrefix(kv, "GOPROXY=") ||
			strings.HasPrefix(kv, "GOSUMDB=") || strings.HasPrefix(kv, "GOTOOLCHAIN=") || strings.HasPrefix(kv, "GOOS=") ||
			strings.HasPrefix(kv, "GOARCH=") || strings.HasPrefix(kv, "CGO_ENABLED=") {
			continue
		}
		env = append(env, kv)
	}
	env = append(env, "GOWORK=off", "GOFLAGS=-mod=mod", "GOPROXY=off", "GOSUMDB=off", "GOTOOLCHAIN=local", "CGO_ENABLED=0")
	if o.GOOS != "" {
		env = append(env, "GOOS="+o.GOOS)
	}
	return env
}

// Load loads and type-checks the module in o.Dir.  Any type error, a missing own
// package or zero packages is an error: the checker refuses to decide on a tree it
// could not fully see.
func Load(o LoadOpts) (*Prog, error) {
	cfg := &packages.Config{
		Mode:    packages.LoadAllSyntax,
		Dir:     o.Dir,
		Env:     goEnv(o),
		Tests:   false,
		Overlay: o.Overlay,
	}
	if o.Tags != "" {
		cfg.BuildFlags = []string{"-tags", o.Tags}
	}
	pkgs, err := packages.Load(cfg, "./...")
	if err != nil {
		return nil, fmt.Errorf("packages.Load: %w", err)
	}
	if len(pkgs) == 0 {
		return nil, fmt.Errorf("no packages loaded from %s", o.Dir)
	}
	p := &Prog{Opts: o, ByPath: map[string]*packages.Package{}, funcIdx: map[string]*FuncInfo{}}
	var errs []string
	packages.Visit(pkgs, nil, func(pkg *packages.Package) {
		p.All = append(p.All, pkg)
		p.ByPath[pkg.PkgPath] = pkg
		if strings.HasPrefix(pkg.PkgPath, modPath) {
			for _, e := range pkg.Errors {
				errs = append(errs, e.Error())
			}
		}
	})
	if len(errs) > 0 {
		sort.Strings(errs)
		if len(errs) > 8 {
			errs = errs[:8]
		}
		return nil, fmt.Errorf("type errors in %s (the tree must compile):\n  %s", o.Dir, strings.Join(errs, "\n  "))
	}
	p.Fset = pkgs[0].Fset
	for _, n := range ownPkgNames {
		path := modPath
		if n != "" {
			path += "/" + n
		}
		pkg := p.ByPath[path]
		if pkg == nil || pkg.Types == nil || pkg.TypesInfo == nil {
			return nil, fmt.Errorf("own package %s not loaded", path)
		}
		p.Own = append(p.Own, pkg)
	}
	// Any additional non-example package of the module is own code as well (a new
	// package must not escape the rules).
	for _, pkg := range p.All {
		if strings.HasPrefix(pkg.PkgPath, modPath+"/") && !strings.HasPrefix(pkg.PkgPath, modPath+"/example") {
			found := false
			for _, o := range p.Own {
				if o == pkg {
					found = true
				}
			}
			if !found {
				p.Own = append(p.Own, pkg)
			}
		}
	}
	sort.Slice(p.Own, func(i, j int) bool { return p.Own[i].PkgPath < p.Own[j].PkgPath })

	prog, _ := ssautil.AllPackages(pkgs, ssa.InstantiateGenerics)
	prog.Build()
	p.SSA = prog

	for _, pkg := range p.Own {
		for _, f := range pkg.Syntax {
			for _, d := range f.Decls {
				fd, ok := d.(*ast.FuncDecl)
				if !ok || fd.Body == nil {
					continue
				}
				obj, _ := pkg.TypesInfo.Defs[fd.Name].(*types.Func)
				if obj == nil {
					continue
				}
				fi := &FuncInfo{Obj: obj, Decl: fd, Pkg: pkg}
				p.Funcs = append(p.Funcs, fi)
				p.funcIdx[funcKey(obj)] = fi
				registerCanonNames(pkg.TypesInfo, fd, obj)
			}
		}
	}
	sort.Slice(p.Funcs, func(i, j int) bool { return p.Funcs[i].Name() < p.Funcs[j].Name() })
	for _, fi := range p.Funcs {
		fi.P = p
	}
	computeExitHelpers(p)
	return p, nil
}

func (p *Prog) IsOwn(pkg *types.Package) bool {
	if pkg == nil {
		return false
	}
	for _, o := range p.Own {
		if o.Types == pkg {
			return true
		}
	}
	return false
}

func (p *Prog) IsOwnPath(path string) bool {
	for _, o := range p.Own {
		if o.PkgPath == path {
			return true
		}
	}
	return false
}

// Func resolves "generator.(*generator).CallMethod", "goverter.writeFiles" …
func (p *Prog) Func(key string) *FuncInfo { return p.funcIdx[key] }

func (p *Prog) Pkg(rel string) *packages.Package {
	if rel == "goverter" || rel == "" {
		return p.ByPath[modPath]
	}
	return p.ByPath[modPath+"/"+rel]
}

func (p *Prog) Pos(n ast.Node) token.Position { return p.Fset.Position(n.Pos()) }

func (p *Prog) PosStr(pos token.Pos) string {
	ps := p.Fset.Position(pos)
	f := ps.Filename
	if strings.HasPrefix(f, p.Opts.Dir+"/") {
		f = strings.TrimPrefix(f, p.Opts.Dir+"/")
	}
	return fmt.Sprintf("%s:%d", f, ps.Line)
}

// SSAFunc returns the SSA function of a declared function.
func (p *Prog) SSAFunc(fi *FuncInfo) *ssa.Function {
	if fi == nil {
		return nil
	}
	return p.SSA.FuncValue(fi.Obj)
}

// ---------------------------------------------------------------------------
// AST walking with ancestors

func walkStack(root ast.Node, fn func(n ast.Node, stack []ast.Node) bool) {
	var stack []ast.Node
	ast.Inspect(root, func(n ast.Node) bool {
		if n == nil {
			stack = stack[:len(stack)-1]
			return true
		}
		ok := fn(n, stack)
		if ok {
			stack = append(stack, n)
		}
		return ok
	})
}

// Calls enumerates every call expression of own code with its resolved callee.
func (p *Prog) Calls() []*CallSite {
	if p.calls != nil {
		return p.calls
	}
	for _, fi := range p.Funcs {
		fi := fi
		walkStack(fi.Decl, func(n ast.Node, stack []ast.Node) bool {
			call, ok := n.(*ast.CallExpr)
			if !ok {
				return true
			}
			cs := &CallSite{Call: call, Encl: fi, Pkg: fi.Pkg, Stack: append([]ast.Node{}, stack...)}
			cs.Callee = calleeObj(fi.Pkg.TypesInfo, call)
			p.calls = append(p.calls, cs)
			return true
		})
	}
	// package-level initialisers
	for _, pkg := range p.Own {
		for _, f := range pkg.Syntax {
			for _, d := range f.Decls {
				gd, ok := d.(*ast.GenDecl)
				if !ok {
					continue
				}
				walkStack(gd, func(n ast.Node, stack []ast.Node) bool {
					call, ok := n.(*ast.CallExpr)
					if !ok {
						return true
					}
					cs := &CallSite{Call: call, Encl: nil, Pkg: pkg, Stack: append([]ast.Node{}, stack...)}
					cs.Callee = calleeObj(pkg.TypesInfo, call)
					p.calls = append(p.calls, cs)
					return true
				})
			}
		}
	}
	return p.calls
}

func calleeObj(info *types.Info, call *ast.CallExpr) types.Object {
	if tv, ok := info.Types[call.Fun]; ok && tv.IsType() {
		return nil // conversion
	}
	if o := typeutil.Callee(info, call); o != nil {
		return o
	}
	return nil
}

// CalleeIs reports whether the call's resolved callee is pkgPath.name (function) or
// pkgPath.(Recv).name when recv != "".
func isFunc(obj types.Object, pkgPath, recv, name string) bool {
	fn, ok := obj.(*types.Func)
	if !ok || fn.Name() != name || fn.Pkg() == nil || fn.Pkg().Path() != pkgPath {
		return false
	}
	sig := fn.Type().(*types.Signature)
	if recv == "" {
		return sig.Recv() == nil
	}
	if sig.Recv() == nil {
		return false
	}
	return recvTypeName(fn) == recv
}

func recvTypeName(fn *types.Func) string {
	sig, _ := fn.Type().(*types.Signature)
	if sig == nil || sig.Recv() == nil {
		return ""
	}
	t := sig.Recv().Type()
	if p, ok := t.(*types.Pointer); ok {
		t = p.Elem()
	}
	if n, ok := types.Unalias(t).(*types.Named); ok {
		return n.Obj().Name()
	}
	return ""
}

func objPkgPath(o types.Object) string {
	if o == nil || o.Pkg() == nil {
		return ""
	}
	return o.Pkg().Path()
}

// constString returns the constant string value of e, if any.
func constString(info *types.Info, e ast.Expr) (string, bool) {
	tv, ok := info.Types[e]
	if !ok || tv.Value == nil || tv.Value.Kind() != constant.String {
		return "", false
	}
	return constant.StringVal(tv.Value), true
}

func constInt(info *types.Info, e ast.Expr) (int64, bool) {
	tv, ok := info.Types[e]
	if !ok || tv.Value == nil || tv.Value.Kind() != constant.Int {
		return 0, false
	}
	v, exact := constant.Int64Val(tv.Value)
	return v, exact
}

// ---------------------------------------------------------------------------
// jennifer emission chains

// Link is one call in a jennifer method chain such as jen.Id(n).Op(":=").Add(x).
type Link struct {
	Name string
	Call *ast.CallExpr
	Args []ast.Expr
	Fn   *types.Func
}

// Chain is a maximal syntactic chain of calls whose callees all live in package jen.
// Root is nil when the chain starts at a package-level jen function; otherwise it is
// the non-jen expression the first method is applied to (e.g. assignTo.Stmt).
type Chain struct {
	Root  ast.Expr
	Links []Link
	Encl  *FuncInfo
	Pkg   *packages.Package
	Outer *ast.CallExpr // outermost call of the chain
	Stack []ast.Node
}

func (c *Chain) Names() []string {
	var s []string
	for _, l := range c.Links {
		s = append(s, l.Name)
	}
	return s
}

func (c *Chain) Has(name string) *Link {
	for i := range c.Links {
		if c.Links[i].Name == name {
			return &c.Links[i]
		}
	}
	return nil
}

func isJenFunc(o types.Object) bool {
	fn, ok := o.(*types.Func)
	return ok && fn.Pkg() != nil && fn.Pkg().Path() == jenPath
}

// chainOf decomposes e (a call expression) into a jen chain; ok=false when the
// outermost call is not a jen call.
func chainOf(info *types.Info, e ast.Expr) (Chain, bool) {
	var links []Link
	cur := e
	for {
		cur = ast.Unparen(cur)
		call, ok := cur.(*ast.CallExpr)
		if !ok {
			break
		}
		obj := calleeObj(info, call)
		if !isJenFunc(obj) {
			break
		}
		fn := obj.(*types.Func)
		links = append(links, Link{Name: fn.Name(), Call: call, Args: call.Args, Fn: fn})
		sel, ok := ast.Unparen(call.Fun).(*ast.SelectorExpr)
		if !ok {
			cur = nil
			break
		}
		if fn.Type().(*types.Signature).Recv() == nil {
			cur = nil // package-level function jen.X(...)
			break
		}
		cur = sel.X
	}
	if len(links) == 0 {
		return Chain{}, false
	}
	// reverse
	for i, j := 0, len(links)-1; i < j; i, j = i+1, j-1 {
		links[i], links[j] = links[j], links[i]
	}
	c := Chain{Links: links}
	if cur != nil {
		c.Root = cur
	}
	c.Outer = links[len(links)-1].Call
	return c, true
}

// Chains enumerates all maximal jen chains in own code (a chain nested inside the
// argument of another chain is its own chain).
func (p *Prog) Chains() []*Chain {
	var out []*Chain
	for _, fi := range p.Funcs {
		fi := fi
		inner := map[*ast.CallExpr]bool{}
		walkStack(fi.Decl, func(n ast.Node, stack []ast.Node) bool {
			call, ok := n.(*ast.CallExpr)
			if !ok || inner[call] {
				return true
			}
			c, ok := chainOf(fi.Pkg.TypesInfo, call)
			if !ok {
				return true
			}
			for _, l := range c.Links {
				inner[l.Call] = true
			}
			c.Encl = fi
			c.Pkg = fi.Pkg
			c.Stack = append([]ast.Node{}, stack...)
			cc := c
			out = append(out, &cc)
			return true
		})
	}
	return out
}

// ---------------------------------------------------------------------------
// call graph

func (p *Prog) CHA() *callgraph.Graph {
	if p.chaG == nil {
		p.chaG = cha.CallGraph(p.SSA)
	}
	return p.chaG
}

func (p *Prog) VTA() *callgraph.Graph {
	if p.vta == nil {
		p.vta = vta.CallGraph(ssautil.AllFunctions(p.SSA), p.CHA())
	}
	return p.vta
}

// Reachable returns the own functions reachable from the given roots in g.
func (p *Prog) Reachable(g *callgraph.Graph, roots ...*ssa.Function) map[*ssa.Function]bool {
	seen := map[*ssa.Function]bool{}
	var visit func(f *ssa.Function)
	visit = func(f *ssa.Function) {
		if f == nil || seen[f] {
			return
		}
		seen[f] = true
		n := g.Nodes[f]
		if n == nil {
			return
		}
		for _, e := range n.Out {
			visit(e.Callee.Func)
		}
	}
	for _, r := range roots {
		visit(r)
	}
	return seen
}

func (p *Prog) ssaIsOwn(f *ssa.Function) bool {
	if f == nil {
		return false
	}
	for f.Parent() != nil {
		f = f.Parent()
	}
	if f.Origin() != nil {
		f = f.Origin()
	}
	if f.Pkg == nil {
		return false
	}
	return p.IsOwn(f.Pkg.Pkg)
}

// ---------------------------------------------------------------------------
// SSA path helpers

// ssaCallee returns the statically resolved callee object of an SSA call
// instruction (function, method or interface method).
func ssaCalleeObj(c ssa.CallInstruction) *types.Func {
	cc := c.Common()
	if cc.IsInvoke() {
		return cc.Method
	}
	if f := cc.StaticCallee(); f != nil {
		if o, ok := f.Object().(*types.Func); ok {
			return o
		}
		if f.Origin() != nil {
			if o, ok := f.Origin().Object().(*types.Func); ok {
				return o
			}
		}
	}
	return nil
}

// existsPath reports whether there is a path in fn from (block b, instruction
// index i) to an instruction satisfying goal that does not first execute an
// instruction satisfying avoid.  It returns the goal instruction found.
func existsPath(b *ssa.BasicBlock, i int, goal, avoid func(ssa.Instruction) bool) ssa.Instruction {
	seen := map[*ssa.BasicBlock]bool{}
	var walk func(b *ssa.BasicBlock, i int) ssa.Instruction
	walk = func(b *ssa.BasicBlock, i int) ssa.Instruction {
		for ; i < len(b.Instrs); i++ {
			in := b.Instrs[i]
			if avoid != nil && avoid(in) {
				return nil
			}
			if goal(in) {
				return in
			}
		}
		for _, s := range b.Succs {
			if seen[s] {
				continue
			}
			seen[s] = true
			if r := walk(s, 0); r != nil {
				return r
			}
		}
		return nil
	}
	return walk(b, i)
}

func isReturn(in ssa.Instruction) bool { _, ok := in.(*ssa.Return); return ok }

// instrIndex finds the position of in within its block.
func instrIndex(in ssa.Instruction) int {
	for i, x := range in.Block().Instrs {
		if x == in {
			return i
		}
	}
	return -1
}

// allInstrs iterates over all instructions of fn including anonymous functions.
func allInstrs(fn *ssa.Function, withAnon bool, f func(ssa.Instruction)) {
	if fn == nil {
		return
	}
	for _, b := range fn.Blocks {
		for _, in := range b.Instrs {
			f(in)
		}
	}
	if withAnon {
		for _, a := range fn.AnonFuncs {
			allInstrs(a, true, f)
		}
	}
}

// isNilConst reports whether v is the nil constant.
func isNilConst(v ssa.Value) bool {
	c, ok := v.(*ssa.Const)
	return ok && c.IsNil()
}

// ---------------------------------------------------------------------------
// misc type helpers

func namedOf(t types.Type) *types.Named {
	t = types.Unalias(t)
	if p, ok := t.(*types.Pointer); ok {
		t = types.Unalias(p.Elem())
	}
	n, _ := t.(*types.Named)
	return n
}

func isNamed(t types.Type, pkgPath, name string) bool {
	n := namedOf(t)
	return n != nil && n.Obj().Name() == name && n.Obj().Pkg() != nil && n.Obj().Pkg().Path() == pkgPath
}

func isErrorType(t types.Type) bool {
	n, ok := types.Unalias(t).(*types.Named)
	return ok && n.Obj().Pkg() == nil && n.Obj().Name() == "error"
}

func isBuilderError(t types.Type) bool {
	p, ok := types.Unalias(t).(*types.Pointer)
	if !ok {
		return false
	}
	return isNamed(p.Elem(), modPath+"/builder", "Error")
}

// exprString renders an expression.  Identifiers that denote a parameter with a well-known role are printed
// under the role's canonical name (canon.go), so rules that compare expression text do not depend on how a
// function spells its parameters.
func exprString(e ast.Expr) string {
	s := types.ExprString(e)
	if e == nil {
		return s
	}
	var ren [][2]string
	ast.Inspect(e, func(n ast.Node) bool {
		if id, ok := n.(*ast.Ident); ok {
			if c, ok := canonName(id); ok && c != id.Name {
				ren = append(ren, [2]string{id.Name, c})
			}
		}
		return true
	})
	done := map[string]bool{}
	for _, r := range ren {
		if !done[r[0]] {
			done[r[0]] = true
			s = replaceIdent(s, r[0], r[1])
		}
	}
	return s
}

// enclosingFuncOf returns the FuncInfo whose declaration contains pos.
func (p *Prog) enclosingFuncOf(pos token.Pos) *FuncInfo {
	for _, fi := range p.Funcs {
		if fi.Decl.Pos() <= pos && pos < fi.Decl.End() {
			return fi
		}
	}
	return nil
}
