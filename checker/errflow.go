package main

import (
	"fmt"
	"go/constant"
	"go/token"
	"go/types"
	"strings"
	"sync"

	"golang.org/x/tools/go/ssa"
)

// Error discipline (used by C03.R4, C13.R3, C17.O3).
//
// For a call whose result list contains an error-typed value v (error or
// *builder.Error) the rule is a path property:
//
//   there is no path from the call to a *success return* of the enclosing function
//   (a return whose error-typed results are all the nil constant) that does not pass
//   through the nil side of a nil-check of v.
//
// In words: on every path on which v may be non-nil the function does not report
// success.  `return x, v`, `return f(…, v)`, `if v != nil { return …, wrap(v) }` and
// tail calls all satisfy it; `_ = f()`, `v, _ := f()`, `if v != nil { continue }` and
// an unchecked fallthrough do not.  Functions without an error result (cli.Run,
// pre-loading helpers) cannot signal failure by returning; for them v must be passed
// on / printed and followed by a process exit on the non-nil side, or be audited.

func isErrLike(t types.Type) bool { return isErrorType(t) || isBuilderError(t) }

type errCall struct {
	fn    *ssa.Function
	call  ssa.CallInstruction
	vals  []ssa.Value // error-typed results actually bound (Extract or the call value)
	nErr  int         // number of error-typed results in the signature
	calle *types.Func
}

// errorCalls lists the calls in fn (and its closures) that produce error-typed results.
func errorCalls(fn *ssa.Function) []*errCall {
	var out []*errCall
	var visit func(f *ssa.Function)
	visit = func(f *ssa.Function) {
		for _, b := range f.Blocks {
			for _, in := range b.Instrs {
				c, ok := in.(ssa.CallInstruction)
				if !ok {
					continue
				}
				if _, isDefer := in.(*ssa.Defer); isDefer {
					continue
				}
				sig := c.Common().Signature()
				res := sig.Results()
				ec := &errCall{fn: f, call: c, calle: ssaCalleeObj(c)}
				var idx []int
				for i := 0; i < res.Len(); i++ {
					if isErrLike(res.At(i).Type()) {
						idx = append(idx, i)
					}
				}
				if len(idx) == 0 {
					continue
				}
				ec.nErr = len(idx)
				v := c.Value()
				if v == nil {
					out = append(out, ec) // go statement: dropped
					continue
				}
				if res.Len() == 1 {
					ec.vals = append(ec.vals, v)
				} else if v.Referrers() != nil {
					for _, r := range *v.Referrers() {
						if ex, ok := r.(*ssa.Extract); ok {
							for _, i := range idx {
								if ex.Index == i {
									ec.vals = append(ec.vals, ex)
								}
							}
						}
					}
				}
				out = append(out, ec)
			}
		}
		for _, a := range f.AnonFuncs {
			visit(a)
		}
	}
	visit(fn)
	return out
}

// aliasesOf returns v plus the values that carry v unchanged (phis, interface
// conversions, loads of a local cell v was stored into).
func aliasesOf(v ssa.Value) map[ssa.Value]bool {
	set := map[ssa.Value]bool{v: true}
	work := []ssa.Value{v}
	for len(work) > 0 {
		x := work[len(work)-1]
		work = work[:len(work)-1]
		refs := x.Referrers()
		if refs == nil {
			continue
		}
		for _, r := range *refs {
			switch y := r.(type) {
			case *ssa.Phi:
				if !set[y] {
					set[y] = true
					work = append(work, y)
				}
			case *ssa.MakeInterface:
				if !set[y] {
					set[y] = true
					work = append(work, y)
				}
			case *ssa.ChangeInterface:
				if !set[y] {
					set[y] = true
					work = append(work, y)
				}
			case *ssa.ChangeType:
				if !set[y] {
					set[y] = true
					work = append(work, y)
				}
			case *ssa.Store:
				if y.Val == x {
					if al, ok := y.Addr.(*ssa.Alloc); ok && al.Referrers() != nil {
						for _, rr := range *al.Referrers() {
							if ld, ok := rr.(*ssa.UnOp); ok && ld.Op == token.MUL && !set[ld] {
								set[ld] = true
								work = append(work, ld)
							}
						}
					}
				}
			}
		}
	}
	return set
}

// isSuccessReturn: all error-typed results are nil constants (or there is none).
func isSuccessReturn(ret *ssa.Return) bool {
	for _, r := range ret.Results {
		if isErrLike(r.Type()) && !isNilConst(r) {
			return false
		}
	}
	return true
}

// maySucceedIgnoring: the return reports an error that has nothing to do with the
// error under test and that may well be nil — `return other()` / `return x, otherErr`
// reached while v may be non-nil drops v just like `return nil`.  A result that is v,
// an alias, or computed from v (wrap(v), fmt.Errorf("%w", v), NewError(v.Error()))
// makes the return a failing one.
func maySucceedIgnoring(ret *ssa.Return, al map[ssa.Value]bool) bool {
	n := 0
	for _, r := range ret.Results {
		if !isErrLike(r.Type()) {
			continue
		}
		n++
		if derivedFrom(r, al, 6, map[ssa.Value]bool{}) {
			return false
		}
		if !mayBeNilErr(r, 3, map[ssa.Value]bool{}) {
			return false
		}
	}
	return n > 0
}

func derivedFrom(v ssa.Value, al map[ssa.Value]bool, depth int, seen map[ssa.Value]bool) bool {
	if al[v] {
		return true
	}
	if depth == 0 || seen[v] {
		return false
	}
	seen[v] = true
	if ld, ok := v.(*ssa.UnOp); ok && ld.Op == token.MUL {
		if a, ok := ld.X.(*ssa.Alloc); ok && a.Referrers() != nil {
			for _, r := range *a.Referrers() {
				if st, ok := r.(*ssa.Store); ok && st.Addr == a && derivedFrom(st.Val, al, depth-1, seen) {
					return true
				}
			}
		}
	}
	in, ok := v.(ssa.Instruction)
	if !ok {
		return false
	}
	for _, op := range in.Operands(nil) {
		if *op != nil && derivedFrom(*op, al, depth-1, seen) {
			return true
		}
	}
	return false
}

// mayBeNilErr: can this error-typed value be nil?  Only shapes that are understood
// answer yes (nil constant, a call of a function that has a success return or is
// unknown, a phi/cell with such a value); everything else counts as non-nil so that
// the rule does not guess.
func mayBeNilErr(v ssa.Value, depth int, seen map[ssa.Value]bool) bool {
	if isNilConst(v) {
		return true
	}
	if seen[v] {
		return false
	}
	seen[v] = true
	switch x := v.(type) {
	case *ssa.Phi:
		for _, e := range x.Edges {
			if mayBeNilErr(e, depth, seen) {
				return true
			}
		}
	case *ssa.Extract:
		if c, ok := x.Tuple.(*ssa.Call); ok {
			return callMayReturnNil(c, x.Index, depth)
		}
	case *ssa.Call:
		return callMayReturnNil(x, 0, depth)
	case *ssa.ChangeInterface:
		return mayBeNilErr(x.X, depth, seen)
	case *ssa.UnOp:
		if a, ok := x.X.(*ssa.Alloc); ok && x.Op == token.MUL && a.Referrers() != nil {
			for _, r := range *a.Referrers() {
				if st, ok := r.(*ssa.Store); ok && st.Addr == a && mayBeNilErr(st.Val, depth, seen) {
					return true
				}
			}
		}
	}
	return false
}

func callMayReturnNil(c *ssa.Call, idx int, depth int) bool {
	o := ssaCalleeObj(c)
	if o != nil {
		switch objPkgPath(o) + "." + o.Name() {
		case "fmt.Errorf", "errors.New":
			return false
		}
	}
	callee := c.Call.StaticCallee()
	if callee == nil || len(callee.Blocks) == 0 {
		return true // interface method / external: unknown, an error result can be nil
	}
	if depth == 0 {
		return false
	}
	for _, b := range callee.Blocks {
		for _, in := range b.Instrs {
			if ret, ok := in.(*ssa.Return); ok && idx < len(ret.Results) {
				if mayBeNilErr(ret.Results[idx], depth-1, map[ssa.Value]bool{}) {
					return true
				}
			}
		}
	}
	return false
}

// exclusiveSiblings returns the other results of v's call for which the (static, own)
// callee guarantees "this result non-nil ⇒ error result nil": on every return of the
// callee one of the two is the nil constant.
func exclusiveSiblings(v ssa.Value) map[ssa.Value]bool {
	ex, ok := v.(*ssa.Extract)
	if !ok {
		return nil
	}
	c, ok := ex.Tuple.(*ssa.Call)
	if !ok || c.Referrers() == nil {
		return nil
	}
	callee := c.Call.StaticCallee()
	if callee == nil || len(callee.Blocks) == 0 {
		return nil
	}
	out := map[ssa.Value]bool{}
	for _, r := range *c.Referrers() {
		sib, ok := r.(*ssa.Extract)
		if !ok || sib.Index == ex.Index || !isNilable(sib.Type()) {
			continue
		}
		good, n := true, 0
		for _, b := range callee.Blocks {
			for _, in := range b.Instrs {
				ret, ok := in.(*ssa.Return)
				if !ok {
					continue
				}
				n++
				if len(ret.Results) <= ex.Index || len(ret.Results) <= sib.Index || !(isNilConst(ret.Results[ex.Index]) || isNilConst(ret.Results[sib.Index])) {
					good = false
				}
			}
		}
		if good && n > 0 {
			out[sib] = true
			for a := range aliasesOf(sib) {
				out[a] = true
			}
		}
	}
	return out
}

func isNilable(t types.Type) bool {
	switch t.Underlying().(type) {
	case *types.Pointer, *types.Interface, *types.Map, *types.Slice, *types.Chan, *types.Signature:
		return true
	}
	return false
}

func hasErrResult(fn *ssa.Function) bool {
	res := fn.Signature.Results()
	for i := 0; i < res.Len(); i++ {
		if isErrLike(res.At(i).Type()) {
			return true
		}
	}
	return false
}

func isExitCall(in ssa.Instruction) bool {
	if _, ok := in.(*ssa.Panic); ok {
		return true
	}
	c, ok := in.(ssa.CallInstruction)
	if !ok {
		return false
	}
	o := ssaCalleeObj(c)
	if o == nil {
		return false
	}
	if isExitHelper(o) {
		return true
	}
	return isFunc(o, "os", "", "Exit") || (objPkgPath(o) == "log" && (o.Name() == "Fatal" || o.Name() == "Fatalf" || o.Name() == "Fatalln"))
}

// exitHelpers: private helpers of cli.Run that never return — every path prints one of their parameters to os.Stderr
// and then calls os.Exit with a non-zero constant (verified by computeExitHelpers at load time).
var (
	exitHelpersMu sync.RWMutex
	exitHelpers   = map[*types.Func]bool{} // entries of every loaded program (function objects are distinct per program)
)

func isExitHelper(o *types.Func) bool {
	if o == nil {
		return false
	}
	exitHelpersMu.RLock()
	defer exitHelpersMu.RUnlock()
	return exitHelpers[o.Origin()]
}

func computeExitHelpers(p *Prog) {
	anchor := p.Func("cli.Run")
	if anchor == nil {
		return
	}
	for _, rf := range p.Region("cli.Run") {
		if rf == anchor {
			continue
		}
		sf := p.SSAFunc(rf)
		if sf == nil || len(sf.Blocks) == 0 || sf.Signature.Results().Len() != 0 {
			continue
		}
		exitOK := func(in ssa.Instruction) bool {
			c, ok := in.(ssa.CallInstruction)
			if !ok || ssaCalleeObj(c) == nil || !isFunc(ssaCalleeObj(c), "os", "", "Exit") {
				return false
			}
			k, ok := c.Common().Args[0].(*ssa.Const)
			return ok && k.Value != nil && constant.Sign(k.Value) != 0
		}
		anyExit := func(in ssa.Instruction) bool {
			c, ok := in.(ssa.CallInstruction)
			return ok && ssaCalleeObj(c) != nil && isFunc(ssaCalleeObj(c), "os", "", "Exit")
		}
		// no return, no exit with status 0
		if existsPath(sf.Blocks[0], 0, func(in ssa.Instruction) bool { return isReturn(in) || (anyExit(in) && !exitOK(in)) }, exitOK) != nil {
			continue
		}
		// a parameter is printed to os.Stderr before the exit
		params := map[ssa.Value]bool{}
		for _, prm := range sf.Params {
			params[prm] = true
		}
		printOK := func(in ssa.Instruction) bool {
			c, ok := in.(ssa.CallInstruction)
			if !ok || ssaCalleeObj(c) == nil || objPkgPath(ssaCalleeObj(c)) != "fmt" || !strings.HasPrefix(ssaCalleeObj(c).Name(), "Fprint") {
				return false
			}
			if !isGlobalLoad(c.Common().Args[0], "os", "Stderr") {
				return false
			}
			for _, a := range c.Common().Args[1:] {
				if flowsFrom(a, params) {
					return true
				}
			}
			return false
		}
		if existsPath(sf.Blocks[0], 0, exitOK, printOK) != nil {
			continue
		}
		exitHelpersMu.Lock()
		exitHelpers[rf.Obj.Origin()] = true
		exitHelpersMu.Unlock()
	}
}

type errVerdict struct {
	ok  bool
	how string
	at  token.Pos
}

// checkErrValue decides the rule for one error value.
func checkErrValue(ec *errCall, v ssa.Value) errVerdict { return checkErrValueCut(ec, v, nil) }

// checkErrValueCut is checkErrValue with sanctioned edges: cut(if) returns the index
// of a successor edge that is not followed (an audited, separately verified way to
// continue with a non-nil error), or -1.
func checkErrValueCut(ec *errCall, v ssa.Value, cut func(*ssa.If) int) errVerdict {
	al := aliasesOf(v)
	fn := ec.fn
	start := ec.call.(ssa.Instruction)
	// exclusive siblings: another result of the same call that the callee sets to nil
	// on every return that carries an error (`def, err := Get(); if def != nil {…}`
	// knows err == nil on the non-nil side of def)
	excl := exclusiveSiblings(v)
	isCheckOf := func(cond ssa.Value) (ne bool, ok bool) {
		if ne, ok := isNilCheck(cond, func(x ssa.Value) bool { return al[x] }); ok {
			return ne, ok
		}
		if len(excl) > 0 {
			if ne, ok := isNilCheck(cond, func(x ssa.Value) bool { return excl[x] }); ok {
				return !ne, true // sibling non-nil ⇒ error nil
			}
		}
		return false, false
	}
	// "used": v (or an alias) is an operand of a return, a call, a store to non-local
	// memory, a send … anything but a nil comparison.
	used := false
	var useDesc string
	for a := range al {
		refs := a.Referrers()
		if refs == nil {
			continue
		}
		for _, r := range *refs {
			switch y := r.(type) {
			case *ssa.Return:
				used, useDesc = true, "returned"
			case ssa.CallInstruction:
				used = true
				if useDesc == "" {
					useDesc = "passed to " + calleeName(y)
				}
			case *ssa.Store:
				if _, isAlloc := y.Addr.(*ssa.Alloc); !isAlloc && y.Val == a {
					used = true
					if useDesc == "" {
						useDesc = "stored"
					}
				}
			case *ssa.MakeClosure, *ssa.Send, *ssa.MapUpdate:
				used = true
				if useDesc == "" {
					useDesc = "captured/stored"
				}
			}
		}
	}
	if hasErrResult(fn) {
		// path search: success return reachable without crossing the nil side of a check?
		seen := map[*ssa.BasicBlock]bool{}
		var bad ssa.Instruction
		var walk func(b *ssa.BasicBlock, i int)
		walk = func(b *ssa.BasicBlock, i int) {
			if bad != nil {
				return
			}
			for ; i < len(b.Instrs); i++ {
				in := b.Instrs[i]
				if ret, ok := in.(*ssa.Return); ok {
					if isSuccessReturn(ret) || maySucceedIgnoring(ret, al) {
						bad = ret
					}
					return
				}
				if isExitCall(in) {
					return
				}
				if ifi, ok := in.(*ssa.If); ok {
					if ne, isC := isCheckOf(ifi.Cond); isC {
						nilSide := b.Succs[1]
						nonNil := b.Succs[0]
						if !ne {
							nilSide, nonNil = nonNil, nilSide
						}
						_ = nilSide // the nil side is fine by definition
						// non-nil side must not reach a success return either
						if !seen[nonNil] {
							seen[nonNil] = true
							walk(nonNil, 0)
						}
						return
					}
					if cut != nil {
						if ci := cut(ifi); ci >= 0 {
							o := b.Succs[1-ci]
							if !seen[o] {
								seen[o] = true
								walk(o, 0)
							}
							return
						}
					}
				}
			}
			for _, s := range b.Succs {
				if !seen[s] {
					seen[s] = true
					walk(s, 0)
				}
			}
		}
		walk(start.Block(), instrIndex(start)+1)
		if bad == nil {
			// the same call executed again (a loop) before this error was looked at: the earlier error is overwritten
			if g := existsPath(start.Block(), instrIndex(start)+1, func(x ssa.Instruction) bool { return x == start }, func(x ssa.Instruction) bool {
				if ifi, ok := x.(*ssa.If); ok {
					if _, isC := isCheckOf(ifi.Cond); isC {
						return true
					}
					if cut != nil && cut(ifi) >= 0 {
						return true // sanctioned continuation (verified separately)
					}
				}
				_, isRet := x.(*ssa.Return)
				return isRet
			}); g != nil && inCycle(start.Block()) {
				return errVerdict{ok: false, at: start.Pos(), how: fmt.Sprintf("the error of %s is overwritten by the next iteration before it is checked: only the last element's error is reported", calleeName(ec.call))}
			}
		}
		if bad != nil {
			return errVerdict{ok: false, at: bad.Pos(), how: fmt.Sprintf("a success return (error result nil) is reachable while the error of %s may be non-nil", calleeName(ec.call))}
		}
		if !used {
			// never returned or passed: accepted only because every non-nil path ends in a failing return
			return errVerdict{ok: true, how: "checked; every path with a non-nil error ends in a failing return"}
		}
		return errVerdict{ok: true, how: useDesc + "; no success return reachable with a non-nil error"}
	}
	// enclosing function cannot return an error
	if !used {
		return errVerdict{ok: false, at: start.Pos(), how: fmt.Sprintf("error of %s is neither passed on nor reported (function has no error result)", calleeName(ec.call))}
	}
	// it is reported (printed/passed); on the non-nil side a process exit must follow
	for a := range al {
		refs := a.Referrers()
		if refs == nil {
			continue
		}
		for _, r := range *refs {
			bo, ok := r.(*ssa.BinOp)
			if !ok || bo.Referrers() == nil {
				continue
			}
			for _, rr := range *bo.Referrers() {
				ifi, ok := rr.(*ssa.If)
				if !ok {
					continue
				}
				ne, isC := isCheckOf(ifi.Cond)
				if !isC {
					continue
				}
				nonNil := ifi.Block().Succs[0]
				if !ne {
					nonNil = ifi.Block().Succs[1]
				}
				if g := existsPath(nonNil, 0, isReturn, isExitCall); g != nil {
					return errVerdict{ok: false, at: g.Pos(), how: "the function can return normally on the non-nil side of the error check (no exit/panic)"}
				}
				return errVerdict{ok: true, how: useDesc + " and followed by a process exit on the non-nil side"}
			}
		}
	}
	return errVerdict{ok: true, how: useDesc + " (function has no error result)"}
}

func calleeName(c ssa.CallInstruction) string {
	if o := ssaCalleeObj(c); o != nil {
		return funcKey(o)
	}
	return c.Common().Value.String()
}
