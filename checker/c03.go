package main

import (
	"fmt"
	"go/ast"
	"go/constant"
	"go/token"
	"go/types"
	"strings"

	"golang.org/x/tools/go/ssa"
)

func init() {
	register(&Check{
		ID: "C03", Level: "other",
		Explanation: "Decides that the rejection machinery is intact on every path of the generator: (R1) buildNoLookup and assignNoLookup both run the overlapping-settings check first, walk the same package-level rule " +
			"table calling Matches then Build/Assign of the same element, and fall through to typeMismatch; (R2) the fall-through and typeMismatch always yield a non-nil *builder.Error; (R3) opt-in gates: " +
			"SourcePointer / SkipCopy / UseUnderlyingTypeMethods / Enum match only under their setting, SkipCopy only for identical types (String equality or types.Identical), Basic only for equal BasicKind, " +
			"List never for an array target, Struct/Map/Pointer only for their own shape; (R4) error discipline in builder and generator: no success return is reachable while a nested conversion error may be " +
			"non-nil (the only sanctioned continuation is ignoreMissing with a *xtype.NoMatchError); (R5) a struct field is written or read by generated code only after an accessibility test " +
			"(known finding D11 for source paths); (R6) generator.Generate returns before rendering on the first error. Decides the necessary direction `no silent acceptance`; the full iff over type pairs is not decided.",
		NotDecided: []string{"the convertibility relation as a function of (source type, target type, settings)", "that no documented conversion is rejected"},
		Run:        runC03,
	})
}

func runC03(p *Prog, r *Report) {
	c03R1(p, r, "C03.R1")
	c03R2(p, r)
	matchesGates(p, r, "C03.R3")
	c03R4(p, r, "C03.R4", []string{"builder", "generator"})
	accessibilityRule(p, r, "C03.R5")
	accessibleRule(p, r, "C03.R5b")
	typeClassificationRule(p, r, "C03.R7")
	c08R2(p, r, "C03.R8")
	patternsUnmodifiedRule(p, r, "C03.R9")
	candidatesUnfilteredRule(p, r, "C03.R11")
	registerUpdateRule(p, r, "C03.R12")
	assignabilityRule(p, r, "C03.R14")
	componentRecursionRule(p, r, "C03.R15")
	precedenceRule(p, r, "C03.R16", "SkipCopy")
	cloneBeforeExtendRule(p, r, "C03.R13", p.Chains())
	matchesCompleteRule(p, r, "C03.R10", "the input would be rejected (or converted by a different rule) although the documented rules define it")
	// R6
	r.Rule("C03.R6", "generator.Generate returns (nil, err) for a failing converter before any file is rendered (shared with C17.O4)", 1)
	if _, sf := needFunc(p, r, "generator.Generate"); sf != nil {
		rc := callsIn(sf, false, isObj(modPath+"/generator", "fileManager", "renderFiles"))
		for _, c := range rc {
			if inCycle(c.(ssa.Instruction).Block()) {
				r.Bad("generator.Generate/renderFiles", p.PosStr(c.Pos()), "rendering inside the converter loop")
			} else {
				r.OK("generator.Generate/renderFiles", p.PosStr(c.Pos()), "after the converter loop; loop errors return first (error discipline checked in R4/C17)")
			}
		}
		if len(rc) == 0 {
			r.Unresolved("renderFiles call")
		}
	}
}

// c03R1: dispatcher agreement.
func c03R1(p *Prog, r *Report, id string) {
	r.Rule(id, "both dispatchers (generator.buildNoLookup, assignNoLookup) call getOverlappingStructDefinition before anything else, range over the same package-level rule table, call Matches and then Build resp. Assign on the same element, and end in typeMismatch", 6)
	var tables []types.Object
	for _, key := range []string{"generator.(*generator).buildNoLookup", "generator.(*generator).assignNoLookup"} {
		fi, sf := needFunc(p, r, key)
		if fi == nil {
			continue
		}
		info := fi.Pkg.TypesInfo
		want := "Build"
		if strings.HasSuffix(key, "assignNoLookup") {
			want = "Assign"
		}
		// (a) overlap first
		ov := callsIn(sf, false, isObj(modPath+"/generator", "generator", "getOverlappingStructDefinition"))
		if len(ov) == 1 && ov[0].(ssa.Instruction).Block() == sf.Blocks[0] {
			// its error is returned: covered by R4; here: it precedes the loop
			r.OK(key+"/overlap first", p.PosStr(ov[0].Pos()), "getOverlappingStructDefinition is called in the entry block")
		} else {
			r.Bad(key+"/overlap first", p.PosStr(fi.Decl.Pos()), "the overlapping-settings check does not run first: field settings on a pointer/non-pointer sibling method would be bypassed silently")
		}
		// (b) loop
		var rng *ast.RangeStmt
		ast.Inspect(fi.Decl, func(n ast.Node) bool {
			if rs, ok := n.(*ast.RangeStmt); ok && rng == nil {
				rng = rs
			}
			return true
		})
		if rng == nil {
			r.Bad(key+"/rule loop", p.PosStr(fi.Decl.Pos()), "no loop over the rule table")
			continue
		}
		tid, ok := ast.Unparen(rng.X).(*ast.Ident)
		if !ok || info.ObjectOf(tid).Parent() != fi.Pkg.Types.Scope() {
			r.Bad(key+"/rule loop", p.PosStr(rng.Pos()), "the loop does not range over a package-level rule table")
			continue
		}
		tables = append(tables, info.ObjectOf(tid))
		v, _ := rng.Value.(*ast.Ident)
		okBody := false
		if v != nil && len(rng.Body.List) == 1 {
			if ifs, ok := rng.Body.List[0].(*ast.IfStmt); ok && ifs.Else == nil {
				if mc, ok := ast.Unparen(ifs.Cond).(*ast.CallExpr); ok {
					if sel, ok := ast.Unparen(mc.Fun).(*ast.SelectorExpr); ok && sel.Sel.Name == "Matches" && sameIdent(info, sel.X, v) {
						if len(ifs.Body.List) == 1 {
							if ret, ok := ifs.Body.List[0].(*ast.ReturnStmt); ok && len(ret.Results) == 1 {
								if bc, ok := ast.Unparen(ret.Results[0]).(*ast.CallExpr); ok {
									if s2, ok := ast.Unparen(bc.Fun).(*ast.SelectorExpr); ok && s2.Sel.Name == want && sameIdent(info, s2.X, v) {
										// same source/target arguments for Matches and Build/Assign
										ms, mt := exprString(mc.Args[1]), exprString(mc.Args[2])
										n := len(bc.Args)
										if exprString(bc.Args[n-3]) == ms && exprString(bc.Args[n-2]) == mt {
											okBody = true
										}
									}
								}
							}
						}
					}
				}
			}
		}
		if okBody {
			r.OK(key+"/rule loop", p.PosStr(rng.Pos()), "first rule whose Matches(ctx, source, target) holds → return rule."+want+"(… same source, target …)")
		} else {
			r.Bad(key+"/rule loop", p.PosStr(rng.Pos()), "the loop is not `if rule.Matches(ctx, source, target) { return rule."+want+"(…) }` on the same element and types")
		}
		// (c) last statement: return …, typeMismatch(source, target)
		last := fi.Decl.Body.List[len(fi.Decl.Body.List)-1]
		okTail := false
		if ret, ok := last.(*ast.ReturnStmt); ok && len(ret.Results) >= 1 {
			if c := callTo(info, ret.Results[len(ret.Results)-1], modPath+"/generator", "", "typeMismatch"); c != nil {
				okTail = true
				for _, res := range ret.Results[:len(ret.Results)-1] {
					if id, ok := ast.Unparen(res).(*ast.Ident); !ok || id.Name != "nil" {
						okTail = false
					}
				}
			}
		}
		if okTail {
			r.OK(key+"/fall-through", p.PosStr(last.Pos()), "no rule matched → typeMismatch error, no code")
		} else {
			r.Bad(key+"/fall-through", p.PosStr(last.Pos()), "when no rule matches the dispatcher does not end in typeMismatch(source, target)")
		}
	}
	if len(tables) == 2 {
		if tables[0] == tables[1] {
			r.OK("dispatchers/same table", "", "both range over generator."+tables[0].Name())
		} else {
			r.Bad("dispatchers/same table", "", "Build and Assign positions consult different rule tables: a conversion could exist at top level but not in a field (or vice versa)")
		}
	}
}

func sameIdent(info *types.Info, e ast.Expr, id *ast.Ident) bool {
	x, ok := ast.Unparen(e).(*ast.Ident)
	return ok && info.ObjectOf(x) == info.ObjectOf(id)
}

func c03R2(p *Prog, r *Report) {
	r.Rule("C03.R2", "typeMismatch returns a freshly constructed *builder.Error (builder.NewError) on every path", 1)
	fi, sf := needFunc(p, r, "generator.typeMismatch")
	if fi == nil {
		return
	}
	n := 0
	for _, b := range sf.Blocks {
		for _, in := range b.Instrs {
			ret, ok := in.(*ssa.Return)
			if !ok {
				continue
			}
			n++
			site := fmt.Sprintf("generator.typeMismatch/return#%d", n)
			if c, ok := ret.Results[0].(*ssa.Call); ok && ssaCalleeObj(c) != nil && isFunc(ssaCalleeObj(c), modPath+"/builder", "", "NewError") {
				r.OK(site, p.PosStr(ret.Pos()), "builder.NewError(…)")
			} else {
				r.Bad(site, p.PosStr(ret.Pos()), "typeMismatch can return something else than a new error (possibly nil): generation would succeed without a conversion")
			}
		}
	}
}

// ---------------------------------------------------------------------------
// Matches gates

type gateSpec struct {
	fn    string
	flags []string // fields of config.Common / enum.Config that must be read true on every path returning true
	extra string   // additional required fact
}

var gateTable = []gateSpec{
	{"builder.(*SourcePointer).Matches", []string{"UseZeroValueOnPointerInconsistency"}, "srcptr"},
	{"builder.(*SkipCopy).Matches", []string{"SkipCopySameType"}, "identical"},
	{"builder.(*UseUnderlyingTypeMethods).Matches", []string{"UseUnderlyingTypeMethods"}, ""},
	{"builder.isEnum", []string{"Enabled"}, "enumok"},
	{"builder.(*Basic).Matches", nil, "basickind"},
	{"builder.(*List).Matches", nil, "list"},
	{"builder.(*Struct).Matches", nil, "struct"},
	{"builder.(*Map).Matches", nil, "map"},
	{"builder.(*Pointer).Matches", nil, "pointer"},
	{"builder.(*TargetPointer).Matches", nil, "targetptr"},
	{"builder.(*BasicTargetPointerRule).Matches", nil, "basictargetptr"},
}

// condFacts collects, for a return of fn, the conditions known true on the path:
// the dominating true edges plus (for `return a && b`) the conjunct structure.
// negFact wraps a condition known to be FALSE on the path (it is only ever
// inspected by the gate predicates below, never executed).
type negFact struct{ ssa.Value }

func trueFactsOfReturn(ret *ssa.Return) (vals []ssa.Value, mayBeTrue bool) {
	v := ret.Results[0]
	var facts []ssa.Value
	addDom := func(b *ssa.BasicBlock) {
		for d := b; d != nil && d.Idom() != nil; d = d.Idom() {
			idom := d.Idom()
			if ifi, ok := idom.Instrs[len(idom.Instrs)-1].(*ssa.If); ok {
				if idom.Succs[0].Dominates(b) && len(idom.Succs[0].Preds) == 1 {
					facts = append(facts, ifi.Cond)
				}
				if idom.Succs[1].Dominates(b) && len(idom.Succs[1].Preds) == 1 {
					facts = append(facts, negFact{ifi.Cond})
				}
			}
		}
	}
	if k, ok := v.(*ssa.Const); ok {
		if k.Value != nil && k.Value.Kind() == constant.Bool && !constant.BoolVal(k.Value) {
			return nil, false
		}
		addDom(ret.Block())
		return expandFacts(facts), true
	}
	if ph, ok := v.(*ssa.Phi); ok {
		// a && b && c: edges are false constants except the last operand
		any := false
		for i, e := range ph.Edges {
			if k, ok := e.(*ssa.Const); ok && k.Value != nil && k.Value.Kind() == constant.Bool && !constant.BoolVal(k.Value) {
				continue
			}
			any = true
			pred := ph.Block().Preds[i]
			facts = append(facts, e)
			addDom(pred)
			// the edge itself may be the true/false edge of an If in pred
			if ifi, ok := pred.Instrs[len(pred.Instrs)-1].(*ssa.If); ok && pred.Succs[0] == ph.Block() && pred.Succs[1] != ph.Block() {
				facts = append(facts, ifi.Cond)
			} else if ok && pred.Succs[1] == ph.Block() && pred.Succs[0] != ph.Block() {
				facts = append(facts, negFact{ifi.Cond})
			}
		}
		addDom(ret.Block())
		return expandFacts(facts), any
	}
	facts = append(facts, v)
	addDom(ret.Block())
	return expandFacts(facts), true
}

// trueAlternativesOfReturn is trueFactsOfReturn in disjunctive form: `return a || b`
// (a φ with several edges that may be true) yields one fact set per edge, so that a
// gate can be required of every way of returning true, not of their union.
func trueAlternativesOfReturn(ret *ssa.Return) [][]ssa.Value {
	ph, ok := ret.Results[0].(*ssa.Phi)
	if !ok || ph.Block() != ret.Block() {
		f, may := trueFactsOfReturn(ret)
		if !may {
			return nil
		}
		return [][]ssa.Value{f}
	}
	var dom []ssa.Value
	addDom := func(b *ssa.BasicBlock, to *[]ssa.Value) {
		for d := b; d != nil && d.Idom() != nil; d = d.Idom() {
			idom := d.Idom()
			if ifi, ok := idom.Instrs[len(idom.Instrs)-1].(*ssa.If); ok {
				if idom.Succs[0].Dominates(b) && len(idom.Succs[0].Preds) == 1 {
					*to = append(*to, ifi.Cond)
				}
				if idom.Succs[1].Dominates(b) && len(idom.Succs[1].Preds) == 1 {
					*to = append(*to, negFact{ifi.Cond})
				}
			}
		}
	}
	addDom(ret.Block(), &dom)
	var alts [][]ssa.Value
	for i, e := range ph.Edges {
		if k, ok := e.(*ssa.Const); ok && k.Value != nil && k.Value.Kind() == constant.Bool && !constant.BoolVal(k.Value) {
			continue
		}
		facts := append([]ssa.Value{}, dom...)
		if _, isK := e.(*ssa.Const); !isK {
			facts = append(facts, e)
		}
		pred := ph.Block().Preds[i]
		addDom(pred, &facts)
		if ifi, ok := pred.Instrs[len(pred.Instrs)-1].(*ssa.If); ok && len(pred.Succs) == 2 {
			if pred.Succs[0] == ph.Block() && pred.Succs[1] != ph.Block() {
				facts = append(facts, ifi.Cond)
			} else if pred.Succs[1] == ph.Block() && pred.Succs[0] != ph.Block() {
				facts = append(facts, negFact{ifi.Cond})
			}
		}
		alts = append(alts, expandFacts(facts))
	}
	return alts
}

// factsAt returns the conditions known true (or, as negFact, false) whenever control
// is in block b: the dominating branch edges, expanded through &&/|| φ-values.
func factsAt(b *ssa.BasicBlock) []ssa.Value {
	var dom []ssa.Value
	for d := b; d != nil && d.Idom() != nil; d = d.Idom() {
		idom := d.Idom()
		if ifi, ok := idom.Instrs[len(idom.Instrs)-1].(*ssa.If); ok {
			if idom.Succs[0].Dominates(b) && len(idom.Succs[0].Preds) == 1 {
				dom = append(dom, ifi.Cond)
			}
			if idom.Succs[1].Dominates(b) && len(idom.Succs[1].Preds) == 1 {
				dom = append(dom, negFact{ifi.Cond})
			}
		}
	}
	return expandFacts(dom)
}

// expandFacts: a condition materialised as `a && b` is a phi [false, …, X]; when it is
// known true, X is true and so is everything that had to hold to evaluate X.
func expandFacts(facts []ssa.Value) []ssa.Value {
	seen := map[ssa.Value]bool{}
	var out []ssa.Value
	var add func(v ssa.Value, depth int)
	addDomOf := func(b *ssa.BasicBlock, depth int) {
		for d := b; d != nil && d.Idom() != nil; d = d.Idom() {
			idom := d.Idom()
			if ifi, ok := idom.Instrs[len(idom.Instrs)-1].(*ssa.If); ok {
				if idom.Succs[0].Dominates(b) && len(idom.Succs[0].Preds) == 1 {
					add(ifi.Cond, depth+1)
				}
				if idom.Succs[1].Dominates(b) && len(idom.Succs[1].Preds) == 1 {
					add(negFact{ifi.Cond}, depth+1)
				}
			}
		}
	}
	add = func(v ssa.Value, depth int) {
		if depth > 12 {
			return
		}
		if nf, ok := v.(negFact); ok {
			out = append(out, nf)
			// !(a || b) ⇒ !a, !b : an or-phi [true, …, X] known false
			if ph, ok := nf.Value.(*ssa.Phi); ok {
				allTrueOrOne := true
				var rest []int
				for i, e := range ph.Edges {
					if k, ok := e.(*ssa.Const); ok && k.Value != nil && k.Value.Kind() == constant.Bool && constant.BoolVal(k.Value) {
						continue
					}
					rest = append(rest, i)
				}
				if len(rest) == 1 && len(ph.Edges) > 1 && allTrueOrOne {
					add(negFact{ph.Edges[rest[0]]}, depth+1)
					addDomOf(ph.Block().Preds[rest[0]], depth)
				}
			}
			if u, ok := nf.Value.(*ssa.UnOp); ok && u.Op == token.NOT {
				add(u.X, depth+1)
			}
			return
		}
		if seen[v] {
			return
		}
		seen[v] = true
		out = append(out, v)
		switch x := v.(type) {
		case *ssa.Phi:
			var rest []int
			for i, e := range x.Edges {
				if k, ok := e.(*ssa.Const); ok && k.Value != nil && k.Value.Kind() == constant.Bool && !constant.BoolVal(k.Value) {
					continue
				}
				rest = append(rest, i)
			}
			if len(rest) == 1 && len(x.Edges) > 1 {
				i := rest[0]
				add(x.Edges[i], depth+1)
				pred := x.Block().Preds[i]
				addDomOf(pred, depth)
				if ifi, ok := pred.Instrs[len(pred.Instrs)-1].(*ssa.If); ok && len(pred.Succs) == 2 {
					if pred.Succs[0] == x.Block() && pred.Succs[1] != x.Block() {
						add(ifi.Cond, depth+1)
					} else if pred.Succs[1] == x.Block() && pred.Succs[0] != x.Block() {
						add(negFact{ifi.Cond}, depth+1)
					}
				}
			}
		case *ssa.UnOp:
			if x.Op == token.NOT {
				add(negFact{x.X}, depth+1)
			}
		}
	}
	for _, f := range facts {
		add(f, 0)
	}
	return out
}

// flattenFact expands `!x` is NOT expanded; calls to own bool helpers are inlined one level.
func loadsField(v ssa.Value, name string) bool {
	switch x := v.(type) {
	case negFact:
		return false
	case *ssa.UnOp:
		if x.Op == token.MUL {
			if fa, ok := x.X.(*ssa.FieldAddr); ok && fieldName(fa) == name {
				return true
			}
		}
	case *ssa.Field:
		if st, ok := x.X.Type().Underlying().(*types.Struct); ok && st.Field(x.Field).Name() == name {
			return true
		}
	}
	return false
}

// fieldOfParam: v loads <param>.<f1>[.<f2>] ; returns param index (in fn.Params) or -1.
func fieldPathOfParam(v ssa.Value, path ...string) int {
	if _, isNeg := v.(negFact); isNeg {
		return -1
	}
	cur := v
	for i := len(path) - 1; i >= 0; i-- {
		u, ok := cur.(*ssa.UnOp)
		if !ok || u.Op != token.MUL {
			return -1
		}
		fa, ok := u.X.(*ssa.FieldAddr)
		if !ok || fieldName(fa) != path[i] {
			return -1
		}
		cur = fa.X
	}
	prm, ok := cur.(*ssa.Parameter)
	if !ok {
		return -1
	}
	for i, q := range prm.Parent().Params {
		if q == prm {
			return i
		}
	}
	return -1
}

func matchesGates(p *Prog, r *Report, id string, only ...string) {
	floor := 11
	if len(only) > 0 {
		floor = len(only)
	}
	r.Rule(id, "each builder's Matches can return true only when its gate holds: the opt-in setting was read true (SourcePointer, SkipCopy, UseUnderlyingTypeMethods, Enum), SkipCopy additionally requires identical types (source.String == target.String or types.Identical), Basic requires equal BasicType.Kind() (an injective view), List requires a non-array target, and the shape rules test both source and target"+onlyNote(only), floor)
	for _, g := range gateTable {
		if len(only) > 0 && !has(only, g.fn) {
			continue
		}
		fi, sf := needFunc(p, r, g.fn)
		if fi == nil {
			continue
		}
		site := g.fn + "/gate"
		nret := 0
		bad := ""
		for _, b := range sf.Blocks {
			for _, in := range b.Instrs {
				ret, ok := in.(*ssa.Return)
				if !ok {
					continue
				}
				alts := trueAlternativesOfReturn(ret)
				if len(alts) == 0 {
					continue
				}
				nret++
				for _, facts := range alts {
					for _, fl := range g.flags {
						found := false
						for _, f := range facts {
							if loadsField(f, fl) {
								found = true
							}
						}
						if !found {
							bad = fmt.Sprintf("%s: can return true without the setting %s having been read as true", p.PosStr(ret.Pos()), fl)
						}
					}
					if m := extraGate(g.extra, facts, sf); m != "" && bad == "" {
						bad = p.PosStr(ret.Pos()) + ": " + m
					}
				}
			}
		}
		if bad != "" || nret == 0 {
			// the facts are not visible at the returns (helpers with several results, early returns over locals …):
			// decide by evaluation — with any single documented atom fixed to the opposite value no path returns true
			if gateByEval(sf, g.fn) {
				r.OK(site, p.PosStr(fi.Decl.Pos()), fmt.Sprintf("evaluated: with any one of %v %s violated no path returns true", g.flags, g.extra))
				continue
			}
		}
		switch {
		case nret == 0:
			r.Bad(site, p.PosStr(fi.Decl.Pos()), "Matches can never return true (rule disabled) or its shape is not recognised")
		case bad != "":
			r.Bad(site, p.PosStr(fi.Decl.Pos()), bad)
		default:
			r.OK(site, p.PosStr(fi.Decl.Pos()), fmt.Sprintf("every true result is under %v %s", g.flags, g.extra))
		}
	}
	// Enum.Matches delegates to isEnum
	if len(only) > 0 {
		return
	}
	if fi := p.Func("builder.(*Enum).Matches"); fi != nil {
		if len(findCalls(fi.Pkg.TypesInfo, fi.Decl, modPath+"/builder", "", "isEnum")) == 1 && len(fi.Decl.Body.List) == 1 {
			r.OK("builder.(*Enum).Matches/gate", p.PosStr(fi.Decl.Pos()), "return isEnum(ctx, source, target)")
		} else {
			r.Bad("builder.(*Enum).Matches/gate", p.PosStr(fi.Decl.Pos()), "Enum.Matches is no longer exactly isEnum(ctx, source, target)")
		}
	} else {
		r.Unresolved("builder.(*Enum).Matches")
	}
}

func onlyNote(only []string) string {
	if len(only) == 0 {
		return ""
	}
	return " [here restricted to " + strings.Join(only, ", ") + "]"
}

// extraGate checks the additional fact among the conditions known true.
func extraGate(kind string, facts []ssa.Value, fn *ssa.Function) string {
	// parameter indexes in Matches(recv, ctx, source, target): source = 2, target = 3; isEnum(ctx, source, target): 1, 2
	src, tgt := 2, 3
	if fn.Signature.Recv() == nil {
		src, tgt = 1, 2
	}
	has := func(test func(ssa.Value) bool) bool {
		for _, f := range facts {
			if test(f) {
				return true
			}
		}
		return false
	}
	flagOf := func(idx int, path ...string) func(ssa.Value) bool {
		return func(v ssa.Value) bool { return fieldPathOfParam(v, path...) == idx }
	}
	notFlagOf := func(idx int, path ...string) func(ssa.Value) bool {
		return func(v ssa.Value) bool {
			if nf, ok := v.(negFact); ok {
				return fieldPathOfParam(nf.Value, path...) == idx
			}
			u, ok := v.(*ssa.UnOp)
			return ok && u.Op == token.NOT && fieldPathOfParam(u.X, path...) == idx
		}
	}
	switch kind {
	case "":
		return ""
	case "identical":
		ok := has(func(v ssa.Value) bool {
			if b, ok := v.(*ssa.BinOp); ok && b.Op == token.EQL {
				x, y := fieldPathOfParam(b.X, "String"), fieldPathOfParam(b.Y, "String")
				return (x == src && y == tgt) || (x == tgt && y == src)
			}
			if c, ok := v.(*ssa.Call); ok && ssaCalleeObj(c) != nil && isFunc(ssaCalleeObj(c), "go/types", "", "Identical") {
				x, y := fieldPathOfParam(c.Call.Args[0], "T"), fieldPathOfParam(c.Call.Args[1], "T")
				if x < 0 || y < 0 {
					// MakeInterface wrappers
					x, y = fieldPathOfParam(stripConv(c.Call.Args[0]), "T"), fieldPathOfParam(stripConv(c.Call.Args[1]), "T")
				}
				return (x == src && y == tgt) || (x == tgt && y == src)
			}
			return false
		})
		if !ok {
			return "can return true for types that are not identical (the test is neither source.String == target.String nor types.Identical): with skipCopySameType merely assignable types would be accepted and shared"
		}
	case "srcptr":
		if !has(flagOf(src, "Pointer")) || !has(notFlagOf(tgt, "Pointer")) {
			return "does not require source.Pointer && !target.Pointer"
		}
	case "enumok":
		// source.Enum(..).OK && target.Enum(..).OK
		n := 0
		for _, f := range facts {
			if loadsField(f, "OK") {
				n++
			}
		}
		if n < 2 {
			return "does not require both source and target to be detected enums"
		}
	case "basickind":
		if !has(flagOf(src, "Basic")) || !has(flagOf(tgt, "Basic")) {
			return "does not require both types to be basic"
		}
		ok := has(func(v ssa.Value) bool {
			b, ok := v.(*ssa.BinOp)
			if !ok || b.Op != token.EQL {
				return false
			}
			inj := func(x ssa.Value) int {
				c, ok := x.(*ssa.Call)
				if ok && ssaCalleeObj(c) != nil && objPkgPath(ssaCalleeObj(c)) == "go/types" {
					switch ssaCalleeObj(c).Name() {
					case "Kind", "Name", "String":
						return fieldPathOfParam(c.Call.Args[0], "BasicType")
					}
					return -1
				}
				return fieldPathOfParam(x, "BasicType")
			}
			x, y := inj(b.X), inj(b.Y)
			return (x == src && y == tgt) || (x == tgt && y == src)
		})
		if !ok {
			return "basic types are not compared by an injective view (Kind()/Name()/identity) of source and target: differing kinds such as int and int64 would be converted (lossy)"
		}
	case "list":
		if !has(flagOf(src, "List")) || !has(flagOf(tgt, "List")) || !has(notFlagOf(tgt, "ListFixed")) {
			return "does not require source.List && target.List && !target.ListFixed (slice → array has no rule)"
		}
	case "struct":
		if !has(flagOf(src, "Struct")) || !has(flagOf(tgt, "Struct")) {
			return "does not require both types to be structs"
		}
	case "map":
		if !has(flagOf(src, "Map")) || !has(flagOf(tgt, "Map")) {
			return "does not require both types to be maps"
		}
	case "pointer":
		if !has(flagOf(src, "Pointer")) || !has(flagOf(tgt, "Pointer")) {
			return "does not require both types to be pointers"
		}
	case "targetptr":
		if !has(notFlagOf(src, "Pointer")) || !has(flagOf(tgt, "Pointer")) {
			return "does not require !source.Pointer && target.Pointer"
		}
	case "basictargetptr":
		if !has(flagOf(src, "Basic")) || !has(flagOf(tgt, "Pointer")) || !has(flagOf(tgt, "PointerInner", "Basic")) {
			return "does not require source.Basic && target.Pointer && target.PointerInner.Basic"
		}
	}
	return ""
}

// c03R4: error discipline restricted to the named packages (same engine as C13.R3).
func c03R4(p *Prog, r *Report, id string, pkgs []string) {
	r.Rule(id, "error discipline in "+strings.Join(pkgs, ", ")+": for every call yielding an error / *builder.Error / no success return of the enclosing function is reachable while it may be non-nil; the only sanctioned continuation is `if skip { continue }` in Struct.Assign, whose skip provably derives from ignoreMissing ∧ *xtype.NoMatchError", 40)
	for _, fi := range p.Funcs {
		if !has(pkgs, relPkg(fi.Pkg.PkgPath)) {
			continue
		}
		sf := p.SSAFunc(fi)
		if sf == nil || len(sf.Blocks) == 0 {
			continue
		}
		cnt := map[string]int{}
		for _, ec := range errorCalls(sf) {
			name := calleeName(ec.call)
			if ec.calle != nil && objPkgPath(ec.calle) == "fmt" && (strings.HasPrefix(ec.calle.Name(), "Fprint") || strings.HasPrefix(ec.calle.Name(), "Print")) {
				continue
			}
			if ec.calle != nil && (objPkgPath(ec.calle) == "strings" && recvTypeName(ec.calle) == "Builder" || objPkgPath(ec.calle) == "bytes" && recvTypeName(ec.calle) == "Buffer") {
				continue // documented: these writers always return a nil error
			}
			if ec.calle != nil && (isFunc(ec.calle, "fmt", "", "Errorf") || isFunc(ec.calle, "errors", "", "New") || isFunc(ec.calle, modPath+"/builder", "", "NewError") || isFunc(ec.calle, modPath+"/builder", "Error", "Lift")) {
				continue
			}
			cnt[name]++
			site := fmt.Sprintf("%s/call %s#%d", fi.Name(), name, cnt[name])
			pos := p.PosStr(ec.call.Pos())
			akey := p.anchorFor(fi, fnPartsOf(append(mapKeys(auditedErrDrops), mapKeys(sanctionedEdges)...))) + "|" + name
			if why, ok := auditedErrDrops[akey]; ok {
				r.OK(site, pos, "audited drop: "+why)
				continue
			}
			if len(ec.vals) < ec.nErr {
				r.Bad(site, pos, "the error result of "+name+" is discarded: a nested conversion failure would be accepted silently")
				continue
			}
			var cut func(*ssa.If) int
			if sc, ok := sanctionedEdges[akey]; ok {
				if msg := sc.fact(p); msg != "" {
					r.Bad(site, pos, "sanctioned continuation, but its sub-fact no longer holds: "+msg)
					continue
				}
				cut = sc.cut(ec)
			}
			bad := false
			how := ""
			for _, v := range ec.vals {
				vd := checkErrValueCut(ec, v, cut)
				if !vd.ok {
					where := ""
					if vd.at.IsValid() {
						where = " (" + p.PosStr(vd.at) + ")"
					}
					r.Bad(site, pos, vd.how+where)
					bad = true
					break
				}
				how = vd.how
			}
			if !bad {
				r.OK(site, pos, how)
			}
		}
	}
}

// ---------------------------------------------------------------------------
// accessibility before selection (C01.R4 = C03.R5)

func accessibilityRule(p *Prog, r *Report, id string) {
	r.Rule(id, "an emitted selector `.Dot(<name of a user struct field or method>)` is dominated by xtype.Accessible(obj, ctx.OutputPackagePath) (or obj.Exported()) on that same object: generated code never names a member that is inaccessible from the output package", 3)
	n := 0
	siteCounter = map[string]int{}
	for _, c := range p.Chains() {
		if relPkg(c.Pkg.PkgPath) != "builder" && relPkg(c.Pkg.PkgPath) != "generator" {
			continue
		}
		info := c.Pkg.TypesInfo
		for _, l := range c.Links {
			if l.Name != "Dot" || len(l.Args) != 1 {
				continue
			}
			arg := ast.Unparen(l.Args[0])
			// what does the name derive from?
			var objExpr ast.Expr // expression denoting the types.Object whose name is used
			kind := ""
			if call, ok := arg.(*ast.CallExpr); ok {
				if sel, ok := ast.Unparen(call.Fun).(*ast.SelectorExpr); ok && sel.Sel.Name == "Name" {
					if t := info.TypeOf(sel.X); t != nil && (isNamed(t, "go/types", "Var") || isNamed(t, "go/types", "Func") || strings.Contains(t.String(), "go/types.Object")) {
						objExpr, kind = sel.X, "object"
					}
				}
			}
			if sel, ok := arg.(*ast.SelectorExpr); ok && sel.Sel.Name == "Name" {
				if isNamed(info.TypeOf(sel.X), modPath+"/xtype", "SimpleStructField") {
					objExpr, kind = sel.X, "matched source field"
				}
				if isNamed(info.TypeOf(sel.X), modPath+"/method", "Definition") {
					continue // generated/declared method names (checked by method.Parse's accessibility guard, C14.R2)
				}
			}
			if objExpr == nil {
				continue
			}
			n++
			site := fmt.Sprintf("%s/.Dot(%s)#%d", c.Encl.Name(), exprString(arg), countSite(c.Encl.Name()+exprString(arg)))
			pos := p.PosStr(l.Call.Pos())
			guarded := false
			for _, g := range guardsOf(c.Stack, c.Outer) {
				if g.Cond == nil {
					continue
				}
				for _, cj := range disjunctsOrConjuncts(g) {
					neg := g.Neg
					e := ast.Unparen(cj)
					if u, ok := e.(*ast.UnaryExpr); ok && u.Op == token.NOT {
						neg = !neg
						e = ast.Unparen(u.X)
					}
					call, ok := e.(*ast.CallExpr)
					if !ok || neg {
						continue
					}
					if fn, ok := calleeObj(info, call).(*types.Func); ok {
						if isFunc(fn, modPath+"/xtype", "", "Accessible") && len(call.Args) == 2 && (exprString(call.Args[0]) == exprString(objExpr) || exprString(call.Args[0]) == exprString(objExpr)+".Obj") {
							guarded = true
						}
						if fn.Name() == "Exported" {
							if sel, ok := ast.Unparen(call.Fun).(*ast.SelectorExpr); ok && exprString(sel.X) == exprString(objExpr) {
								guarded = true
							}
						}
					}
				}
			}
			if guarded {
				r.OK(site, pos, "dominated by an accessibility test on "+exprString(objExpr))
			} else {
				r.Bad(site, pos, "the "+kind+" "+exprString(objExpr)+" is selected in generated code without an accessibility test: an unexported member of another package would be emitted (goverter reports success, the output does not compile)")
			}
		}
	}
	r.Analysed["emitted_member_selectors"] = n
}

var siteCounter = map[string]int{}

func countSite(k string) int { siteCounter[k]++; return siteCounter[k] }

// disjunctsOrConjuncts: for a taken guard the conjuncts are each true; for a
// not-taken guard (early exit on cond) each disjunct of cond is false.
func disjunctsOrConjuncts(g Guard) []ast.Expr {
	if g.Neg {
		return disjuncts(g.Cond)
	}
	return conjuncts(g.Cond)
}
