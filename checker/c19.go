package main

import (
	"fmt"
	"go/ast"
	"go/constant"
	"go/token"
	"go/types"
	"strings"

	"golang.org/x/tools/go/ssa"
)

func init() {
	register(&Check{
		ID: "C19", Level: "other",
		Explanation: "Decides structural necessary conditions: (R1) own code reads comment text only through the .Doc field of GenDecl / TypeSpec / ValueSpec / interface-method Field / FuncDecl — never .Comment " +
			"(trailing comments), ast.File.Comments, ast.NewCommentMap or CommentGroup.Text() (which drops //goverter: directive lines); (R2) config.RawLines{Lines:…} is built only from " +
			"parse.SettingLines(parse.CommentToString(<doc of the same declaration the lines are filed under>)) and from the -g flags; (R3) between extraction and application the lines stay in slice order: no sort, " +
			"plain range loops, each line handed to exactly one parse*Line; (R4) a converter marker on anything but a single interface type declaration and a variables marker on anything but a var block are errors, and " +
			"markers are searched in doc comments only; (R5) in SettingLines the `goverter:` prefix test is applied to strings.TrimSpace of the line; (R6) parse.Command returns as value exactly the text after the first " +
			"space (no trimming or re-tokenising). Does not decide CommentToString's treatment of every comment layout.",
		NotDecided: []string{"parse.CommentToString's handling of every comment layout (block comments, tabs) — a string function whose only static description is its own body", "that go/parser attaches doc comments as documented (trusted)"},
		Run:        runC19,
		Controls: map[string]string{"comments/zz_gvlint_control_c19.go": `package comments

import (
	"bufio"
	"go/ast"
	"strings"
)

func zzControlTrailing(ts *ast.TypeSpec, f *ast.File) string {
	_ = f.Comments
	sc := bufio.NewScanner(strings.NewReader(ts.Doc.Text()))
	for sc.Scan() {
	}
	return ts.Comment.Text() + ts.Doc.Text()
}
`},
		ControlRules: []string{"C19.R1", "C19.R10"},
	})
}

var docOwners = map[string]bool{"GenDecl": true, "TypeSpec": true, "ValueSpec": true, "Field": true, "FuncDecl": true}

func runC19(p *Prog, r *Report) {
	// ---- R1
	r.Rule("C19.R1", "comment text enters own code only through the Doc field of ast.GenDecl/TypeSpec/ValueSpec/Field/FuncDecl; no .Comment, File.Comments, ast.NewCommentMap, CommentGroup.Text(); ast.Comment.Text is read only in parse.CommentToString", 6)
	for _, fi := range p.Funcs {
		fi := fi
		info := fi.Pkg.TypesInfo
		cnt := map[string]int{}
		ast.Inspect(fi.Decl, func(n ast.Node) bool {
			switch x := n.(type) {
			case *ast.SelectorExpr:
				v, ok := info.ObjectOf(x.Sel).(*types.Var)
				if !ok || !v.IsField() || v.Pkg() == nil || v.Pkg().Path() != "go/ast" {
					return true
				}
				t := v.Type().String()
				isCG := strings.Contains(t, "go/ast.CommentGroup")
				if !isCG && !(x.Sel.Name == "Text" && isNamed(info.TypeOf(x.X), "go/ast", "Comment")) && !(x.Sel.Name == "List" && isNamed(info.TypeOf(x.X), "go/ast", "CommentGroup")) {
					return true
				}
				owner := "?"
				if nt := namedOf(info.TypeOf(x.X)); nt != nil {
					owner = nt.Obj().Name()
				}
				cnt[owner+"."+x.Sel.Name]++
				site := fmt.Sprintf("%s/ast.%s.%s#%d", fi.Name(), owner, x.Sel.Name, cnt[owner+"."+x.Sel.Name])
				pos := p.PosStr(x.Pos())
				switch {
				case x.Sel.Name == "Doc" && docOwners[owner]:
					r.OK(site, pos, "doc comment attached to the declaration")
				case (x.Sel.Name == "Text" || x.Sel.Name == "List") && fi.Name() == "config/parse.CommentToString":
					r.OK(site, pos, "raw comment text inside CommentToString")
				default:
					r.Bad(site, pos, "comment text is read from ast."+owner+"."+x.Sel.Name+": trailing or detached comments (or comments of other nodes) would influence generation")
				}
			case *ast.CallExpr:
				fn, ok := calleeObj(info, x).(*types.Func)
				if !ok || objPkgPath(fn) != "go/ast" {
					return true
				}
				if recvTypeName(fn) == "CommentGroup" || recvTypeName(fn) == "CommentMap" || fn.Name() == "NewCommentMap" {
					r.Bad(fi.Name()+"/ast."+recvTypeName(fn)+"."+fn.Name(), p.PosStr(x.Pos()), "CommentGroup.Text()/CommentMap: drops directive-style //goverter: lines or associates detached comments")
				}
			}
			return true
		})
	}

	// ---- R2
	r.Rule("C19.R2", "config.RawLines{Lines: …} is constructed only in comments.parseRawLines from parse.SettingLines(comment) and in cli.parseGen from the -g flags; every comment passed to parseRawLines / tested for a marker is parse.CommentToString(X.Doc), and the lines are filed under the name of the same X; pkgload.localConfig uses the same two functions on fn.Doc", 6)
	for _, fi := range p.Funcs {
		fi := fi
		info := fi.Pkg.TypesInfo
		ast.Inspect(fi.Decl, func(n ast.Node) bool {
			cl, ok := n.(*ast.CompositeLit)
			if !ok || !isNamed(info.TypeOf(cl), modPath+"/config", "RawLines") {
				return true
			}
			v := compositeField(cl, "Lines")
			if v == nil {
				return true
			}
			site := fi.Name() + "/RawLines{Lines}"
			switch p.anchorFor(fi, []string{"comments.parseRawLines", "cli.parseGen"}) {
			case "comments.parseRawLines":
				if c := callTo(info, v, modPath+"/config/parse", "", "SettingLines"); c != nil && isParamIdent(info, fi, c.Args[0], 1) {
					r.OK(site, p.PosStr(cl.Pos()), "parse.SettingLines(comment)")
				} else {
					r.Bad(site, p.PosStr(cl.Pos()), "setting lines are not produced by parse.SettingLines(comment)")
				}
			case "cli.parseGen":
				r.OK(site, p.PosStr(cl.Pos()), "-g / -global flags (checked in C12.R3)")
			default:
				r.Bad(site, p.PosStr(cl.Pos()), "setting lines are constructed outside the extraction pipeline")
			}
			return true
		})
	}
	// callers of parseRawLines and marker tests
	for _, cs := range p.Calls() {
		fn, ok := cs.Callee.(*types.Func)
		if !ok || cs.Encl == nil {
			continue
		}
		info := cs.Pkg.TypesInfo
		if isFunc(fn, modPath+"/comments", "", "parseRawLines") {
			site := cs.Encl.Name() + "/parseRawLines(comment)"
			docOf := docOrigin(p, cs.Encl, cs.Call.Args[1], 0)
			if docOf == nil {
				r.Bad(site, p.PosStr(cs.Call.Pos()), "the comment given to parseRawLines is not parse.CommentToString(<decl>.Doc)")
				continue
			}
			// association: if the result is stored under result[name], name must come from the same node
			okAssoc := true
			why := "doc of " + exprString(docOf)
			if as, ok := cs.Stack[len(cs.Stack)-1].(*ast.AssignStmt); ok && len(as.Lhs) == 1 {
				if ix, ok := ast.Unparen(as.Lhs[0]).(*ast.IndexExpr); ok {
					nameFrom := nameOrigin(info, cs.Encl, ix.Index)
					if nameFrom == nil || exprString(nameFrom) != exprString(docOf) {
						okAssoc = false
					} else {
						why += ", filed under " + exprString(nameFrom) + ".Names[0]"
					}
				}
			}
			if okAssoc {
				r.OK(site, p.PosStr(cs.Call.Pos()), why)
			} else {
				r.Bad(site, p.PosStr(cs.Call.Pos()), "the setting lines are filed under a name that does not come from the declaration whose doc comment they were read from")
			}
		}
		if isFunc(fn, "strings", "", "Contains") && relPkg(cs.Pkg.PkgPath) == "comments" && len(cs.Call.Args) == 2 {
			if s, ok := constString(info, cs.Call.Args[1]); ok && strings.HasPrefix(s, "goverter:") {
				site := cs.Encl.Name() + "/marker test " + s
				if d := docOrigin(p, cs.Encl, cs.Call.Args[0], 0); d != nil {
					r.OK(site, p.PosStr(cs.Call.Pos()), "searched in parse.CommentToString("+exprString(d)+".Doc)")
				} else {
					r.Bad(site, p.PosStr(cs.Call.Pos()), "the marker is searched in text that is not the attached doc comment")
				}
			}
		}
	}
	if region := p.Region("pkgload.(*PackageLoader).localConfig"); region != nil {
		fi := region[0]
		ok := false
		for _, f := range region {
			for _, c := range findCalls(f.Pkg.TypesInfo, f.Decl, modPath+"/config/parse", "", "SettingLines") {
				if docOrigin(p, f, c.Args[0], 0) != nil {
					ok = true
				}
			}
		}
		if ok {
			r.OK("pkgload.(*PackageLoader).localConfig/lines", p.PosStr(fi.Decl.Pos()), "parse.SettingLines(parse.CommentToString(fn.Doc))")
		} else {
			r.Bad("pkgload.(*PackageLoader).localConfig/lines", p.PosStr(fi.Decl.Pos()), "custom function settings are not read with SettingLines(CommentToString(fn.Doc))")
		}
	} else {
		r.Unresolved("pkgload.(*PackageLoader).localConfig")
	}

	// ---- R3
	r.Rule("C19.R3", "source order: the extraction and application path (config/parse, comments, config.parseConverterLines, config.parseMethod) contains no sort call; SettingLines appends in scan order; consumers iterate `for _, v := range X.Lines` and hand v to exactly one parse*Line", 3)
	for _, cs := range p.Calls() {
		fn, ok := cs.Callee.(*types.Func)
		if !ok || cs.Encl == nil {
			continue
		}
		pp := objPkgPath(fn)
		if pp != "sort" && pp != "slices" {
			continue
		}
		rel := relPkg(cs.Pkg.PkgPath)
		inPath := rel == "config/parse" || cs.Encl.Name() == "config.parseConverterLines" || cs.Encl.Name() == "config.parseMethod" || cs.Encl.Name() == "comments.parseRawLines" || cs.Encl.Name() == "comments.parseInterfaceMethods" || cs.Encl.Name() == "comments.parseFunctions" || cs.Encl.Name() == "pkgload.(*PackageLoader).localConfig"
		if inPath && !(fn.Name() == "Contains" || fn.Name() == "Index") {
			r.Bad(cs.Encl.Name()+"/"+pp+"."+fn.Name(), p.PosStr(cs.Call.Pos()), "sorting/reordering on the path of the setting lines: they must be applied in source order")
		}
	}
	for _, s := range []struct{ fn, callee string }{{"config.parseConverterLines", "parseConverterLine"}, {"config.parseMethod", "parseMethodLine"}} {
		fi := p.Func(s.fn)
		if fi == nil {
			r.Unresolved(s.fn)
			continue
		}
		info := fi.Pkg.TypesInfo
		site := s.fn + "/apply loop"
		ok := false
		n := 0
		var decls []ast.Node
		for _, rf := range p.Region(s.fn) {
			decls = append(decls, rf.Decl)
		}
		for _, d := range decls {
			ast.Inspect(d, func(nn ast.Node) bool {
				rs, isR := nn.(*ast.RangeStmt)
				if !isR || !isFieldSel(info, rs.X, modPath+"/config", "RawLines", "Lines") {
					return true
				}
				n++
				v, isID := rs.Value.(*ast.Ident)
				if !isID {
					return true
				}
				calls := findCalls(info, rs.Body, modPath+"/config", "", s.callee)
				if len(calls) == 1 {
					last := calls[0].Args[len(calls[0].Args)-1]
					if id, isID := ast.Unparen(last).(*ast.Ident); isID && info.ObjectOf(id) == info.ObjectOf(v) {
						ok = true
					}
				}
				return true
			})
		}
		if ok && n == 1 {
			r.OK(site, p.PosStr(fi.Decl.Pos()), "for _, value := range lines.Lines { "+s.callee+"(…, value) }")
		} else {
			r.Bad(site, p.PosStr(fi.Decl.Pos()), "the lines are not applied one by one in slice order by a single range loop")
		}
	}
	if fi, sf := needFunc(p, r, "config/parse.SettingLines"); fi != nil {
		// every append to the result appends in the scanning loop; the result variable is only appended to
		okApp := true
		nApp := 0
		allInstrs(sf, false, func(in ssa.Instruction) {
			if c, ok := in.(*ssa.Call); ok {
				if b, ok := c.Call.Value.(*ssa.Builtin); ok && b.Name() == "append" {
					nApp++
					// append(lines, x...) — first arg must be the accumulated slice (phi) and not a fresh prefix
					if _, isPhi := c.Call.Args[0].(*ssa.Phi); !isPhi {
						if _, isConst := c.Call.Args[0].(*ssa.Const); !isConst {
							okApp = false
						}
					}
				}
			}
		})
		if okApp && nApp >= 1 {
			r.OK("config/parse.SettingLines/append order", p.PosStr(fi.Decl.Pos()), "matching lines are appended to the result in scan order")
		} else {
			r.Bad("config/parse.SettingLines/append order", p.PosStr(fi.Decl.Pos()), "lines are not accumulated by appending in scan order")
		}
	}

	c19R4(p, r)
	c19R5(p, r)
	c19R6(p, r)
	loopCompleteRule(p, r, "C19.R7", "every comment of a doc group and every line of it is looked at: the loops of parse.CommentToString and parse.SettingLines have no break/continue/goto/return that leaves them early (a `break` captured by an inner switch is fine)", []loopSpec{
		{"config/parse.CommentToString", "comments/lines", ""},
		{"config/parse.SettingLines", "lines", ""},
		{"comments.ParseDocs", "files of a package", "ast.File"},
		{"comments.parseInterfaceMethods", "methods of the converter interface", "ast.Field"},
	})
	sharedMapAliasRule(p, r, "C19.R8")
	localConfigFunctionsOnlyRule(p, r, "C19.R9")
	noScannerRule(p, r, "C19.R10")
	localConfigNameRule(p, r, "C19.R11")
	localsKeyRule(p, r, "C19.R12")
	everyGenDeclRule(p, r, "C19.R13")
}

// docOrigin: e is parse.CommentToString(X.Doc) (possibly via a local variable or a
// parameter whose every caller passes such a value); returns X.
func docOrigin(p *Prog, fi *FuncInfo, e ast.Expr, depth int) ast.Expr {
	if depth > 3 || e == nil {
		return nil
	}
	info := fi.Pkg.TypesInfo
	e = ast.Unparen(e)
	if c := callTo(info, e, modPath+"/config/parse", "", "CommentToString"); c != nil {
		if sel, ok := ast.Unparen(c.Args[0]).(*ast.SelectorExpr); ok && sel.Sel.Name == "Doc" {
			if nt := namedOf(info.TypeOf(sel.X)); nt != nil && docOwners[nt.Obj().Name()] && nt.Obj().Pkg().Path() == "go/ast" {
				return sel.X
			}
		}
		return nil
	}
	if id, ok := e.(*ast.Ident); ok {
		obj := info.ObjectOf(id)
		if v, ok := obj.(*types.Var); ok && isParamOf(fi, v) {
			// every caller must pass a doc-derived value
			sig := fi.Obj.Type().(*types.Signature)
			idx := -1
			for i := 0; i < sig.Params().Len(); i++ {
				if sig.Params().At(i) == v {
					idx = i
				}
			}
			var res ast.Expr
			n := 0
			for _, cs := range p.Calls() {
				f, ok := cs.Callee.(*types.Func)
				if !ok || f != fi.Obj || cs.Encl == nil {
					continue
				}
				n++
				d := docOrigin(p, cs.Encl, cs.Call.Args[idx], depth+1)
				if d == nil {
					return nil
				}
				res = d
			}
			if n == 0 {
				return nil
			}
			return res
		}
		if def := localDef(info, fi.Decl, obj); def != nil {
			return docOrigin(p, fi, def, depth+1)
		}
	}
	return nil
}

// nameOrigin: e is X.Names[0].Name / X.Names[0].String() (possibly via a local); returns X.
func nameOrigin(info *types.Info, fi *FuncInfo, e ast.Expr) ast.Expr {
	e = ast.Unparen(e)
	if id, ok := e.(*ast.Ident); ok {
		if def := localDef(info, fi.Decl, info.ObjectOf(id)); def != nil {
			return nameOrigin(info, fi, def)
		}
		return nil
	}
	if call, ok := e.(*ast.CallExpr); ok {
		if sel, ok := ast.Unparen(call.Fun).(*ast.SelectorExpr); ok && sel.Sel.Name == "String" {
			e = sel.X
		}
	} else if sel, ok := e.(*ast.SelectorExpr); ok && sel.Sel.Name == "Name" {
		e = sel.X
	}
	ix, ok := ast.Unparen(e).(*ast.IndexExpr)
	if !ok {
		return nil
	}
	if v, ok := constInt(info, ix.Index); !ok || v != 0 {
		return nil
	}
	sel, ok := ast.Unparen(ix.X).(*ast.SelectorExpr)
	if !ok || sel.Sel.Name != "Names" {
		return nil
	}
	return sel.X
}

func c19R4(p *Prog, r *Report) {
	r.Rule("C19.R4", "marker kinds: in parseGenDecl the converter marker on a declaration doc leads to an error unless Tok == token.TYPE, exactly one spec, a *ast.TypeSpec whose type is an *ast.InterfaceType; the variables marker leads to an error unless Tok == token.VAR; each check precedes the use of the declaration", 5)
	gd := p.Func("comments.parseGenDecl")
	pf := p.Func("comments.parseFunctions")
	pi := p.Func("comments.parseInterface")
	if gd == nil || pf == nil || pi == nil {
		r.Unresolved("comments.parseGenDecl / parseFunctions / parseInterface")
		return
	}
	// generic helper: in fn there is an early-exit `if COND { return …error… }` before the first call of `before`
	hasEarlyError := func(fi *FuncInfo, test func(info *types.Info, cond ast.Expr) bool, scope ast.Node) bool {
		info := fi.Pkg.TypesInfo
		found := false
		ast.Inspect(scope, func(n ast.Node) bool {
			ifs, ok := n.(*ast.IfStmt)
			if !ok || !endsInExit(ifs.Body) {
				return true
			}
			ret, ok := ifs.Body.List[len(ifs.Body.List)-1].(*ast.ReturnStmt)
			if !ok || len(ret.Results) == 0 {
				return true
			}
			last := ret.Results[len(ret.Results)-1]
			if callTo(info, last, "fmt", "", "Errorf") == nil && callTo(info, last, "errors", "", "New") == nil {
				return true
			}
			if test(info, ifs.Cond) {
				found = true
			}
			return true
		})
		return found
	}
	tokTest := func(tok string) func(info *types.Info, cond ast.Expr) bool {
		return func(info *types.Info, cond ast.Expr) bool {
			b, ok := ast.Unparen(cond).(*ast.BinaryExpr)
			if !ok || b.Op != token.NEQ {
				return false
			}
			sel, ok := ast.Unparen(b.X).(*ast.SelectorExpr)
			if !ok || sel.Sel.Name != "Tok" {
				return false
			}
			return exprString(b.Y) == "token."+tok
		}
	}
	// converter marker branch
	info := gd.Pkg.TypesInfo
	var convBranch *ast.IfStmt
	ast.Inspect(gd.Decl, func(n ast.Node) bool {
		ifs, ok := n.(*ast.IfStmt)
		if !ok || convBranch != nil {
			return true
		}
		if c := callTo(info, ifs.Cond, "strings", "", "Contains"); c != nil {
			if s, ok := constString(info, c.Args[1]); ok && s == "goverter:converter" {
				if d := docOrigin(p, gd, c.Args[0], 0); d != nil && isNamed(info.TypeOf(d), "go/ast", "GenDecl") {
					convBranch = ifs
				}
			}
		}
		return true
	})
	var scope ast.Node
	if convBranch != nil {
		scope = convBranch.Body
		// the branch may delegate to a helper of parseGenDecl: then the checks live there
		if len(convBranch.Body.List) == 1 {
			if ret, ok := convBranch.Body.List[0].(*ast.ReturnStmt); ok && len(ret.Results) == 1 {
				if call, ok := ast.Unparen(ret.Results[0]).(*ast.CallExpr); ok {
					if f, ok := calleeObj(info, call).(*types.Func); ok {
						if h := p.funcIdx[funcKey(f)]; h != nil && p.inRegion("comments.parseGenDecl", h) {
							scope = h.Decl.Body
						}
					}
				}
			}
		}
	}
	if convBranch == nil {
		r.Bad("comments.parseGenDecl/converter marker branch", p.PosStr(gd.Decl.Pos()), "no branch testing the declaration doc for goverter:converter")
	} else {
		checks := []struct {
			name string
			test func(info *types.Info, cond ast.Expr) bool
		}{
			{"Tok != token.TYPE", tokTest("TYPE")},
			{"len(decl.Specs) != 1", func(info *types.Info, cond ast.Expr) bool {
				b, ok := ast.Unparen(cond).(*ast.BinaryExpr)
				if !ok || b.Op != token.NEQ {
					return false
				}
				v, ok := constInt(info, b.Y)
				return ok && v == 1 && strings.Contains(exprString(b.X), "Specs")
			}},
			{"spec is not *ast.TypeSpec", func(info *types.Info, cond ast.Expr) bool {
				u, ok := ast.Unparen(cond).(*ast.UnaryExpr)
				return ok && u.Op == token.NOT
			}},
		}
		for _, c := range checks {
			site := "comments.parseGenDecl/converter marker: " + c.name
			if hasEarlyError(gd, c.test, scope) {
				r.OK(site, p.PosStr(convBranch.Pos()), "returns an error")
			} else {
				r.Bad(site, p.PosStr(convBranch.Pos()), "the converter marker on a wrong kind of declaration is no longer rejected ("+c.name+")")
			}
		}
		// the checks precede parseInterface: the call must be the last statement group
		calls := findCalls(info, scope, modPath+"/comments", "", "parseInterface")
		if len(calls) == 1 {
			okOrder := true
			ast.Inspect(scope, func(n ast.Node) bool {
				if ifs, ok := n.(*ast.IfStmt); ok && endsInExit(ifs.Body) && ifs.Pos() > calls[0].Pos() {
					if tokTest("TYPE")(info, ifs.Cond) {
						okOrder = false
					}
				}
				return true
			})
			if okOrder {
				r.OK("comments.parseGenDecl/converter marker: order", p.PosStr(calls[0].Pos()), "kind checks precede parseInterface")
			} else {
				r.Bad("comments.parseGenDecl/converter marker: order", p.PosStr(calls[0].Pos()), "kind checks follow the use of the declaration")
			}
		}
	}
	// interface type check in parseInterface
	pinfo := pi.Pkg.TypesInfo
	okIface := false
	ast.Inspect(pi.Decl, func(n ast.Node) bool {
		as, ok := n.(*ast.AssignStmt)
		if !ok || len(as.Lhs) != 2 || len(as.Rhs) != 1 {
			return true
		}
		ta, ok := ast.Unparen(as.Rhs[0]).(*ast.TypeAssertExpr)
		if ok && isNamed(pinfo.TypeOf(ta.Type), "go/ast", "InterfaceType") {
			okIface = true
		}
		return true
	})
	if okIface && hasEarlyError(pi, func(info *types.Info, cond ast.Expr) bool {
		u, ok := ast.Unparen(cond).(*ast.UnaryExpr)
		return ok && u.Op == token.NOT
	}, pi.Decl) {
		r.OK("comments.parseInterface/interface type", p.PosStr(pi.Decl.Pos()), "a converter marker on a non-interface type is an error")
	} else {
		r.Bad("comments.parseInterface/interface type", p.PosStr(pi.Decl.Pos()), "a converter marker on a non-interface type is no longer rejected")
	}
	// variables marker
	if hasEarlyError(pf, tokTest("VAR"), pf.Decl) {
		r.OK("comments.parseFunctions/Tok != token.VAR", p.PosStr(pf.Decl.Pos()), "a variables marker on a non-var declaration is an error")
	} else {
		r.Bad("comments.parseFunctions/Tok != token.VAR", p.PosStr(pf.Decl.Pos()), "a variables marker on a non-var declaration is no longer rejected")
	}
	// the Tok test must come before anything else in parseFunctions
	if len(pf.Decl.Body.List) > 0 {
		if ifs, ok := pf.Decl.Body.List[0].(*ast.IfStmt); ok && tokTest("VAR")(pf.Pkg.TypesInfo, ifs.Cond) {
			r.OK("comments.parseFunctions/order", p.PosStr(ifs.Pos()), "the kind check is the first statement")
		} else {
			r.Bad("comments.parseFunctions/order", p.PosStr(pf.Decl.Pos()), "the kind check is not performed first")
		}
	}
}

// c19R5: the prefix predicate is applied to the trimmed line.
func c19R5(p *Prog, r *Report) { settingLinesTrimRule(p, r, "C19.R5") }

func settingLinesTrimRule(p *Prog, r *Report, id string) {
	r.Rule(id, "in parse.SettingLines every test for the `goverter:` prefix (HasPrefix / CutPrefix / TrimPrefix with the constant \"goverter:\") takes strings.TrimSpace(<line>) as its subject, and the stored setting is that trimmed line without the prefix", 1)
	fi, sf := needFunc(p, r, "config/parse.SettingLines")
	if fi == nil {
		return
	}
	n := 0
	var region []*ssa.Function
	for _, rf := range p.Region("config/parse.SettingLines") {
		if hf := p.SSAFunc(rf); hf != nil {
			region = append(region, hf)
		}
	}
	_ = sf
	forAllInstrs(region, func(in ssa.Instruction) {
		c, ok := in.(*ssa.Call)
		if !ok {
			return
		}
		o := ssaCalleeObj(c)
		if o == nil || objPkgPath(o) != "strings" {
			return
		}
		switch o.Name() {
		case "HasPrefix", "CutPrefix", "TrimPrefix":
		default:
			return
		}
		k, ok := c.Call.Args[1].(*ssa.Const)
		if !ok || k.Value == nil || k.Value.Kind() != constant.String || constant.StringVal(k.Value) != "goverter:" {
			return
		}
		n++
		site := fmt.Sprintf("config/parse.SettingLines/strings.%s#%d", o.Name(), n)
		subj := c.Call.Args[0]
		if ts, ok := subj.(*ssa.Call); ok && ssaCalleeObj(ts) != nil && isFunc(ssaCalleeObj(ts), "strings", "", "TrimSpace") {
			r.OK(site, p.PosStr(c.Pos()), "subject is strings.TrimSpace(line)")
		} else {
			r.Bad(site, p.PosStr(c.Pos()), "the prefix test is applied to text that was not trimmed with strings.TrimSpace: indented `goverter:` lines (extra spaces, tabs, block comments) are no longer settings")
		}
	})
	if n == 0 {
		r.Bad("config/parse.SettingLines/prefix test", p.PosStr(fi.Decl.Pos()), "no test for the constant prefix \"goverter:\" found")
	}
}

// c19R6: value = text after the first space, verbatim.
func c19R6(p *Prog, r *Report) {
	r.Rule("C19.R6", "parse.Command returns (text before the first space, text after it) without further processing: the second result is \"\" or element 1 of strings.SplitN(value, \" \", 2) / the `after` of strings.Cut(value, \" \")", 2)
	fi, sf := needFunc(p, r, "config/parse.Command")
	if fi == nil {
		return
	}
	param := sf.Params[0]
	isSplit := func(v ssa.Value) bool {
		c, ok := v.(*ssa.Call)
		if !ok || ssaCalleeObj(c) == nil || !isFunc(ssaCalleeObj(c), "strings", "", "SplitN") {
			return false
		}
		sep, ok1 := c.Call.Args[1].(*ssa.Const)
		lim, ok2 := c.Call.Args[2].(*ssa.Const)
		return c.Call.Args[0] == param && ok1 && ok2 && sep.Value != nil && constant.StringVal(sep.Value) == " " && lim.Int64() == 2
	}
	isCut := func(v ssa.Value) bool {
		c, ok := v.(*ssa.Call)
		if !ok || ssaCalleeObj(c) == nil || !isFunc(ssaCalleeObj(c), "strings", "", "Cut") {
			return false
		}
		sep, ok1 := c.Call.Args[1].(*ssa.Const)
		return c.Call.Args[0] == param && ok1 && sep.Value != nil && constant.StringVal(sep.Value) == " "
	}
	var leafOK func(v ssa.Value, idx int64, depth int) string
	leafOK = func(v ssa.Value, idx int64, depth int) string {
		if depth > 4 {
			return "too deep"
		}
		switch x := v.(type) {
		case *ssa.Const:
			if idx == 1 && x.Value != nil && x.Value.Kind() == constant.String && constant.StringVal(x.Value) == "" {
				return ""
			}
			return "constant " + x.String()
		case *ssa.UnOp:
			if x.Op == token.MUL {
				if ia, ok := x.X.(*ssa.IndexAddr); ok && isSplit(ia.X) {
					if k, ok := ia.Index.(*ssa.Const); ok && k.Int64() == idx {
						return ""
					}
				}
			}
		case *ssa.Extract:
			if isCut(x.Tuple) && ((idx == 0 && x.Index == 0) || (idx == 1 && x.Index == 1)) {
				return ""
			}
		case *ssa.Phi:
			for _, e := range x.Edges {
				if m := leafOK(e, idx, depth+1); m != "" {
					return m
				}
			}
			return ""
		case *ssa.Parameter:
			if idx == 0 && x == param {
				return "" // no space: the whole text is the command
			}
		}
		return "value " + v.String() + " (" + v.Name() + ") is post-processed or not taken from the split at the first space"
	}
	nret := 0
	for _, b := range sf.Blocks {
		for _, in := range b.Instrs {
			ret, ok := in.(*ssa.Return)
			if !ok || len(ret.Results) != 2 {
				continue
			}
			nret++
			for idx, name := range []string{"command", "value"} {
				site := fmt.Sprintf("config/parse.Command/return#%d %s", nret, name)
				if m := leafOK(ret.Results[idx], int64(idx), 0); m == "" {
					r.OK(site, p.PosStr(ret.Pos()), "taken verbatim from the split at the first space")
				} else {
					r.Bad(site, p.PosStr(ret.Pos()), "the "+name+" is not the verbatim text around the first space: "+m)
				}
			}
		}
	}
	if nret == 0 {
		r.Unresolved("returns of parse.Command")
	}
}
