package main

// Thorough tier (DESIGN.md §1.7): everything the quick tier does, plus
//  1. the same rules under the build-configuration matrix GOOS × build tags (a static
//     tool sees only what was parsed: a *_windows.go file is invisible to quick);
//  2. checker self-validation: every confirmed seeded mutant of this property
//     (/verif/seeded/<prop>-*/patch.diff) is applied to a scratch copy of /repo's
//     CURRENT working tree and must be reported; every behaviour-preserving variant
//     (/verif/checker/selftest/benign/*.diff) must stay silent;
//  3. cross-reference linters (information only).
// Self-validation results are evidence; they never change the verdict about /repo.

import (
	"bytes"
	"fmt"
	"go/types"
	"os"
	"os/exec"
	"path/filepath"
	"sort"
	"strings"
	"sync"
	"time"
)

type matrixCfg struct{ goos, tags string }

var matrix = []matrixCfg{{"linux", "goverter"}, {"windows", ""}, {"windows", "goverter"}, {"darwin", ""}, {"darwin", "goverter"}}

func thorough(c *Check, p *Prog, r *Report, repo, verif string) {
	// ---- 1. configuration matrix
	quickKeys := map[string]bool{}
	for _, o := range r.Obls {
		if o.Verdict == "violation" {
			quickKeys[o.Key] = true
		}
	}
	var mu sync.Mutex
	var wg sync.WaitGroup
	type res struct {
		cfg   matrixCfg
		obls  []*Obligation
		fatal []string
		funcs int
		err   error
	}
	results := make([]res, len(matrix))
	sem := make(chan struct{}, 3)
	for i, m := range matrix {
		wg.Add(1)
		go func(i int, m matrixCfg) {
			defer wg.Done()
			sem <- struct{}{}
			defer func() { <-sem }()
			pp, err := Load(LoadOpts{Dir: repo, GOOS: m.goos, Tags: m.tags})
			if err != nil {
				results[i] = res{cfg: m, err: err}
				return
			}
			sub := newReport(c.ID, "thorough")
			mu.Lock() // rule code keeps a few package-level memo tables: run rule evaluation serially
			resetMemos()
			safeRun(c, pp, sub)
			mu.Unlock()
			results[i] = res{cfg: m, obls: sub.Obls, fatal: sub.Fatal, funcs: len(pp.Funcs)}
		}(i, m)
	}
	wg.Wait()
	resetMemos()
	var matrixInfo []string
	for _, rs := range results {
		name := fmt.Sprintf("GOOS=%s tags=%q", rs.cfg.goos, rs.cfg.tags)
		if rs.err != nil {
			r.Fatal = append(r.Fatal, "matrix "+name+": "+firstLine(rs.err.Error()))
			continue
		}
		nv := 0
		for _, o := range rs.obls {
			if o.Verdict == "violation" && !quickKeys[o.Key] {
				// a violation that only exists under this configuration
				nv++
				o.Site = o.Site + " [" + name + "]"
				o.Key = o.Key + " [" + name + "]"
				r.Obls = append(r.Obls, o)
				if st := r.Rules[o.Rule]; st != nil {
					st.Instances++
				}
			}
		}
		for _, f := range rs.fatal {
			r.Fatal = append(r.Fatal, "matrix "+name+": "+f)
		}
		matrixInfo = append(matrixInfo, fmt.Sprintf("%s: %d own functions, %d obligations, %d additional violations", name, rs.funcs, len(rs.obls), nv))
	}
	r.Info = append(r.Info, matrixInfo...)
	r.Analysed["matrix_configurations"] = len(matrix) + 1

	// ---- 2. self-validation
	st := selfValidate(c.ID, repo, verif)
	r.Info = append(r.Info, st...)

	// ---- 3. cross reference (information only)
	if c.ID == "C13" || c.ID == "C03" {
		r.Info = append(r.Info, crossReference(repo)...)
	}
}

// resetMemos clears the per-program memo tables used by rule code.
func resetMemos() {
	effectFreeMemo = map[*types.Func]int{}
	commutativeMemo = map[*types.Func]int{}
	fieldSourcesMemo = nil
	siteCounter = map[string]int{}
}

// scratchCopy copies the working tree of repo (without .git and the scenario scratch dir) to a temp dir.
func scratchCopy(repo string) (string, error) {
	dir, err := os.MkdirTemp("", "gvlint-selftest-")
	if err != nil {
		return "", err
	}
	cmd := exec.Command("rsync", "-a", "--exclude", ".git", "--exclude", "execution", repo+"/", dir+"/")
	if out, err := cmd.CombinedOutput(); err != nil {
		os.RemoveAll(dir)
		return "", fmt.Errorf("rsync: %v: %s", err, out)
	}
	return dir, nil
}

func applyPatch(dir, patch string) error {
	cmd := exec.Command("git", "apply", "--whitespace=nowarn", patch)
	cmd.Dir = dir
	cmd.Env = append(os.Environ(), "GIT_CEILING_DIRECTORIES="+filepath.Dir(dir))
	out, err := cmd.CombinedOutput()
	if err != nil {
		return fmt.Errorf("%v: %s", err, firstLine(string(out)))
	}
	return nil
}

func runSelf(prop, repo, verif string) (int, string) {
	tmpVerif, _ := os.MkdirTemp("", "gvlint-verif-")
	defer os.RemoveAll(tmpVerif)
	if b, err := os.ReadFile(filepath.Join(verif, "known_findings.json")); err == nil {
		_ = os.WriteFile(filepath.Join(tmpVerif, "known_findings.json"), b, 0o644)
	}
	cmd := exec.Command(os.Args[0], "check", "-property", prop, "-tier", "quick", "-repo", repo, "-verif", tmpVerif)
	var buf bytes.Buffer
	cmd.Stdout = &buf
	cmd.Stderr = &buf
	err := cmd.Run()
	code := 0
	if ee, ok := err.(*exec.ExitError); ok {
		code = ee.ExitCode()
	} else if err != nil {
		code = 99
	}
	return code, buf.String()
}

const alphaJob = "<alpha-renamed copy>"

func selfValidate(prop, repo, verif string) []string {
	var info []string
	start := time.Now()
	muts, _ := filepath.Glob(filepath.Join(verif, "seeded", prop+"-*", "patch.diff"))
	benign, _ := filepath.Glob(filepath.Join(verif, "checker", "selftest", "benign", "*.diff"))
	rmuts, _ := filepath.Glob(filepath.Join(verif, "checker", "selftest", "mutants", prop+"-*.diff"))
	sort.Strings(rmuts)
	sort.Strings(muts)
	muts = append(muts, rmuts...)
	sort.Strings(benign)
	type job struct {
		patch  string
		mutant bool
	}
	var jobs []job
	for _, m := range muts {
		jobs = append(jobs, job{m, true})
	}
	for _, b := range benign {
		jobs = append(jobs, job{b, false})
	}
	// α-renaming of every local identifier: behaviour-preserving by construction
	jobs = append(jobs, job{alphaJob, false})
	type out struct {
		job
		skipped string
		code    int
		text    string
	}
	outs := make([]out, len(jobs))
	sem := make(chan struct{}, 14)
	var wg sync.WaitGroup
	for i, j := range jobs {
		wg.Add(1)
		go func(i int, j job) {
			defer wg.Done()
			sem <- struct{}{}
			defer func() { <-sem }()
			dir, err := scratchCopy(repo)
			if err != nil {
				outs[i] = out{job: j, skipped: err.Error()}
				return
			}
			defer os.RemoveAll(dir)
			if j.patch == alphaJob {
				self, _ := os.Executable()
				cmd := exec.Command(self, "alpharename", "-dir", dir)
				cmd.Env = append(os.Environ(), "GOFLAGS=-mod=mod", "GOPROXY=off", "GOSUMDB=off", "GOTOOLCHAIN=local", "GOWORK=off")
				if o, err := cmd.CombinedOutput(); err != nil {
					outs[i] = out{job: j, skipped: "alpharename failed: " + short(string(o), 200)}
					return
				}
			} else if err := applyPatch(dir, j.patch); err != nil {
				outs[i] = out{job: j, skipped: "does not apply to the current tree: " + err.Error()}
				return
			}
			code, text := runSelf(prop, dir, verif)
			outs[i] = out{job: j, code: code, text: text}
		}(i, j)
	}
	wg.Wait()
	nm, dm, nb, sb, skipped := 0, 0, 0, 0, 0
	for _, o := range outs {
		name := filepath.Base(filepath.Dir(o.patch))
		if !o.mutant || filepath.Base(o.patch) != "patch.diff" {
			name = filepath.Base(o.patch)
		}
		switch {
		case o.skipped != "":
			skipped++
			info = append(info, "selftest skipped "+name+": "+o.skipped)
		case o.mutant:
			nm++
			if o.code == 1 {
				dm++
			} else {
				msg := fmt.Sprintf("SELFTEST-MISS property=%s seeded mutant %s is not reported (exit %d)", prop, name, o.code)
				fmt.Println(msg)
				info = append(info, msg)
			}
		default:
			nb++
			if o.code == 0 {
				sb++
			} else {
				first := ""
				for _, l := range strings.Split(o.text, "\n") {
					if strings.HasPrefix(l, "  ") || strings.HasPrefix(l, "UNDECIDED") {
						first = strings.TrimSpace(l)
						break
					}
				}
				msg := fmt.Sprintf("SELFTEST-FALSE-ALARM property=%s behaviour-preserving variant %s raises an alarm (exit %d): %s", prop, name, o.code, short(first, 200))
				fmt.Println(msg)
				info = append(info, msg)
			}
		}
	}
	sum := fmt.Sprintf("self-validation: %d/%d seeded mutants of %s reported, %d/%d behaviour-preserving variants silent, %d skipped (%.0fs)", dm, nm, prop, sb, nb, skipped, time.Since(start).Seconds())
	fmt.Println(sum)
	return append([]string{sum}, info...)
}

func crossReference(repo string) []string {
	var info []string
	run := func(name string, args ...string) {
		path, err := exec.LookPath(name)
		if err != nil {
			info = append(info, "cross-reference: "+name+" not on PATH")
			return
		}
		cmd := exec.Command(path, args...)
		cmd.Dir = repo
		cmd.Env = goEnv(LoadOpts{})
		done := make(chan struct{})
		var out []byte
		go func() { out, _ = cmd.CombinedOutput(); close(done) }()
		select {
		case <-done:
		case <-time.After(240 * time.Second):
			_ = cmd.Process.Kill()
			info = append(info, "cross-reference: "+name+" timed out")
			return
		}
		lines := 0
		for _, l := range strings.Split(string(out), "\n") {
			if strings.TrimSpace(l) != "" && !strings.Contains(l, "/example/") {
				lines++
			}
		}
		info = append(info, fmt.Sprintf("cross-reference (information only): %s %s → %d report line(s) on own packages", name, strings.Join(args, " "), lines))
	}
	pk := []string{".", "./cli/...", "./cmd/...", "./comments/...", "./config/...", "./pkgload/...", "./method/...", "./namer/...", "./xtype/...", "./enum/...", "./builder/...", "./generator/..."}
	run("staticcheck", pk...)
	run("errcheck", pk...)
	return info
}

func cmdSelftest(args []string) int {
	prop := "C09"
	if len(args) > 0 {
		prop = args[0]
	}
	_ = selfValidate(prop, "/repo", "/verif")
	return 0
}
