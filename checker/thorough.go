package main

func thorough(c *Check, p *Prog, r *Report, repo, verif string) {}

func cmdSelftest(args []string) int { return 0 }
