package main

import (
	"fmt"
	"go/ast"
	"go/types"
	"sort"
	"strings"

	"golang.org/x/tools/go/ssa"
)

func init() {
	register(&Check{
		ID: "C06", Level: "other",
		Explanation: "Decides the layering that makes `custom functions are used wherever their types occur, at any depth` true: (R1) lookup-before-build — generator.Build and Assign consult callExisting before creating a sub-method " +
			"or dispatching to a rule; callExisting reports `nothing found` only after asking the extend index and then the method index; buildNoLookup/assignNoLookup are called only from Build, Assign and buildMethod; package builder reaches " +
			"nested conversions only through the builder.Generator interface (a concrete builder's Build/Assign is called directly only as self-delegation or for the update root); explicit methods consult the extend index before their own body; " +
			"(R2) argument assembly — CallMethod and delegateMethod switch over all ArgUse roles and map role → argument identically (interface → receiver, context → the stored context identifier for that type, source → the source expression), " +
			"appending one argument per declared parameter in order; (R3) an unavailable context and every index error become generation errors; (R4) the local settings of a custom function (goverter:context) are looked up under " +
			"the same name as the function object that is parsed. Does not decide which function is selected by a regex or that its result is what comes out at run time.",
		NotDecided: []string{"run-time equality of the result with the custom function's result", "regex selection semantics", "convergence of re-generated dirty sub-methods to the right signature (termination shape: C13.R5)"},
		Run:        runC06,
	})
}

func runC06(p *Prog, r *Report) {
	c06R1(p, r)
	c06R2(p, r, "C06.R2")
	c06R3(p, r)
	c06R4(p, r)
	indexRule(p, r, "C06.R5")
	assignabilityRule(p, r, "C06.R6")
	indexStableRule(p, r, "C06.R7")
	parentPointerRule(p, r, "C06.R9")
	callersRebuiltRule(p, r, "C06.R10")
	sharedMapAliasRule(p, r, "C06.R11")
	indexGetTotalRule(p, r, "C06.R12")
	declaredSignatureRule(p, r, "C06.R13")
	originPathOrderRule(p, r, "C06.R14")
	roleOrderRule(p, r, "C06.R16")
	underlyingMatchesCompleteRule(p, r, "C06.R17")
	lookupContextRule(p, r, "C06.R18")
	underlyingMappingCompleteRule(p, r, "C06.R19")
	forwardToExtendRule(p, r, "C06.R20")
	componentRecursionRule(p, r, "C06.R21")
	r.Rule("C06.R15", "context arguments of custom functions are recognised with the regex in effect where the function is named: the ParseOpts handed to the loader for map … | FUNC and default FUNC carry the method's ArgContextRegex, those for extend the converter's (shared with C12.R3) — otherwise a context parameter is classified as the source and receives the conversion source", 3)
	parseOptsContextRule(p, r)
	calleeErrRule(p, r, "C06.R8", "the error of Index.Get (`a function for these types exists but its context is not available`) is never dropped: at every call no success return is reachable while it may be non-nil — generation fails instead of silently using another rule", 2, func(f *types.Func) bool {
		return isFunc(f, modPath+"/method", "Index", "Get")
	})
}

func c06R1(p *Prog, r *Report) {
	r.Rule("C06.R1", "lookup-before-build: (a) in generator.Build/Assign no path reaches createSubMethod, buildNoLookup or assignNoLookup without callExisting (or the delegation to Build) first; (b) every `nothing found` return of callExisting is preceded by extend.Get and lookup.Get, in that order; (c) who-may-call(buildNoLookup, assignNoLookup) ⊆ {Build, Assign, buildMethod}; (d) package builder calls Build/Assign of a concrete builder only on its own receiver (self-delegation) — nested conversions go through the Generator interface; (e) buildMethod asks the extend index before building an explicit method's own body", 8)
	isNamed0 := func(names ...string) func(in ssa.Instruction) bool {
		return func(in ssa.Instruction) bool {
			c, ok := in.(ssa.CallInstruction)
			if !ok || ssaCalleeObj(c) == nil {
				return false
			}
			o := ssaCalleeObj(c)
			return has(names, o.Name()) && objPkgPath(o) == modPath+"/generator"
		}
	}
	for _, k := range []string{"generator.(*generator).Build", "generator.(*generator).Assign"} {
		fi, sf := needFunc(p, r, k)
		if fi == nil {
			continue
		}
		// evaluated with the verified `declared by the user?` lookup answering yes (its negative answer is the only
		// sanctioned way past callExisting: update positions, C11.R9): no rule-based conversion and no new sub-method
		// before callExisting (or the delegation to Build)
		yes := true
		if g := lookupFirstEval(p, sf, nil, &yes); g != nil {
			r.Bad(k+"/lookup first", p.PosStr(g.Pos()), "a rule-based conversion or a new sub-method can be chosen without first looking for an extend function / declared method for this type pair")
		} else {
			r.OK(k+"/lookup first", p.PosStr(fi.Decl.Pos()), "callExisting precedes createSubMethod / *NoLookup on every path")
		}
		_ = isNamed0
		// a hit of callExisting is returned: `if nextID != nil || err != nil { return … }`
	}
	// (b) callExisting
	if fi, sf := needFunc(p, r, "generator.(generator).callExisting"); fi != nil {
		isGet := func(field string) func(in ssa.Instruction) bool {
			return func(in ssa.Instruction) bool {
				c, ok := in.(ssa.CallInstruction)
				if !ok || ssaCalleeObj(c) == nil || ssaCalleeObj(c).Name() != "Get" || recvTypeName(ssaCalleeObj(c)) != "Index" {
					return false
				}
				// receiver: load of g.<field>
				args := c.Common().Args
				if len(args) == 0 {
					return false
				}
				return loadsFieldNamed(args[0], field)
			}
		}
		n := 0
		bad := ""
		for _, b := range sf.Blocks {
			for _, in := range b.Instrs {
				ret, ok := in.(*ssa.Return)
				if !ok {
					continue
				}
				allNil := true
				for _, v := range ret.Results {
					if !isNilConst(v) {
						allNil = false
					}
				}
				if !allNil {
					continue
				}
				n++
				// every path from entry to this return passes extend.Get and lookup.Get
				for _, f := range []string{"extend", "lookup"} {
					if g := existsPath(sf.Blocks[0], 0, func(x ssa.Instruction) bool { return x == ssa.Instruction(ret) }, isGet(f)); g != nil {
						bad = fmt.Sprintf("%s: `nothing found` is returned without consulting the %s index", p.PosStr(ret.Pos()), f)
					}
				}
			}
		}
		// order: extend.Get dominates lookup.Get
		var eg, lg ssa.Instruction
		allInstrs(sf, false, func(in ssa.Instruction) {
			if isGet("extend")(in) {
				eg = in
			}
			if isGet("lookup")(in) {
				lg = in
			}
		})
		switch {
		case eg == nil || lg == nil:
			r.Bad("generator.(*generator).callExisting/indexes", p.PosStr(fi.Decl.Pos()), "callExisting does not consult both the extend index and the method index")
		case bad != "":
			r.Bad("generator.(*generator).callExisting/indexes", p.PosStr(fi.Decl.Pos()), bad+": an extend function or declared method for this pair would be bypassed by the automatic conversion")
		case !(eg.Block().Dominates(lg.Block()) && eg != lg):
			r.Bad("generator.(*generator).callExisting/indexes", p.PosStr(fi.Decl.Pos()), "the method index is consulted before the extend index (extend functions take precedence)")
		case n == 0:
			r.Bad("generator.(*generator).callExisting/indexes", p.PosStr(fi.Decl.Pos()), "no `nothing found` return recognised")
		default:
			r.OK("generator.(*generator).callExisting/indexes", p.PosStr(fi.Decl.Pos()), "extend.Get, then lookup.Get, on every path to the `nothing found` return")
		}
		// hits are turned into CallMethod
		nCall := len(callsIn(sf, false, isObj(modPath+"/generator", "generator", "CallMethod")))
		if nCall >= 2 {
			r.OK("generator.(*generator).callExisting/hits", p.PosStr(fi.Decl.Pos()), "both kinds of hit are emitted through CallMethod")
		} else {
			r.Bad("generator.(*generator).callExisting/hits", p.PosStr(fi.Decl.Pos()), "a found function is not emitted through CallMethod")
		}
	}
	// (c) who may call the NoLookup dispatchers
	for _, k := range []string{"generator.(*generator).buildNoLookup", "generator.(*generator).assignNoLookup"} {
		fi := p.Func(k)
		if fi == nil {
			r.Unresolved(k)
			continue
		}
		callers, vals := p.refSites(fi.Obj)
		var cs []string
		for c := range callers {
			cs = append(cs, c)
		}
		sort.Strings(cs)
		bad := len(vals) > 0
		for _, c := range cs {
			if c != "generator.(*generator).Build" && c != "generator.(*generator).Assign" && c != "generator.(*generator).buildMethod" {
				bad = true
			}
		}
		if bad {
			r.Bad("who-may-call("+fi.Obj.Name()+")", p.PosStr(fi.Decl.Pos()), "called from "+strings.Join(cs, ", ")+": the lookup of custom functions is bypassed")
		} else {
			r.OK("who-may-call("+fi.Obj.Name()+")", p.PosStr(fi.Decl.Pos()), strings.Join(cs, ", "))
		}
	}
	// (d) builder reaches nested conversions only via the interface
	bp := p.Pkg("builder")
	nDirect := 0
	for _, cs := range p.Calls() {
		if cs.Pkg != bp && relPkg(cs.Pkg.PkgPath) != "generator" {
			continue
		}
		fn, ok := cs.Callee.(*types.Func)
		if !ok || cs.Encl == nil || (fn.Name() != "Build" && fn.Name() != "Assign") || objPkgPath(fn) != modPath+"/builder" {
			continue
		}
		rt := recvTypeName(fn)
		if rt == "Generator" || rt == "Builder" || rt == "" {
			continue // interface calls: dispatched by the generator / rule table
		}
		nDirect++
		site := fmt.Sprintf("%s/direct %s.%s", cs.Encl.Name(), rt, fn.Name())
		sel, _ := ast.Unparen(cs.Call.Fun).(*ast.SelectorExpr)
		self := false
		if sel != nil && cs.Encl.Decl.Recv != nil && len(cs.Encl.Decl.Recv.List[0].Names) == 1 {
			if id, ok := ast.Unparen(sel.X).(*ast.Ident); ok && cs.Pkg.TypesInfo.ObjectOf(id) == cs.Pkg.TypesInfo.ObjectOf(cs.Encl.Decl.Recv.List[0].Names[0]) {
				self = true
			}
		}
		switch {
		case self:
			r.OK(site, p.PosStr(cs.Call.Pos()), "self-delegation")
		case cs.Encl.Name() == "generator.(*generator).convertTo" && rt == "Struct" && fn.Name() == "Assign":
			r.OK(site, p.PosStr(cs.Call.Pos()), "root of an update method: field-wise assignment into the given target (its fields go through gen.Assign)")
		default:
			r.Bad(site, p.PosStr(cs.Call.Pos()), "a concrete builder is invoked directly for a nested conversion: extend functions and declared methods for that type pair are skipped")
		}
	}
	r.Analysed["direct_builder_calls"] = nDirect
	// (e) buildMethod: extend.Get before buildNoLookup
	if fi, sf := needFunc(p, r, "generator.(*generator).buildMethod"); fi != nil {
		isExtGet := func(in ssa.Instruction) bool {
			c, ok := in.(ssa.CallInstruction)
			return ok && ssaCalleeObj(c) != nil && ssaCalleeObj(c).Name() == "Get" && recvTypeName(ssaCalleeObj(c)) == "Index" && loadsFieldNamed(c.Common().Args[0], "extend")
		}
		if g := existsPath(sf.Blocks[0], 0, isNamed0("buildNoLookup"), isExtGet); g != nil {
			r.Bad("generator.(*generator).buildMethod/extend first", p.PosStr(g.Pos()), "a declared method is generated by the rules without asking the extend index for a function of the same signature")
		} else {
			r.OK("generator.(*generator).buildMethod/extend first", p.PosStr(fi.Decl.Pos()), "extend.Get precedes buildNoLookup; a hit is delegated to")
		}
	}
}

func loadsFieldNamed(v ssa.Value, field string) bool {
	u, ok := v.(*ssa.UnOp)
	if !ok {
		return false
	}
	fa, ok := u.X.(*ssa.FieldAddr)
	return ok && fieldName(fa) == field
}

// roleArg: how an argument role is turned into an emitted argument.
func roleArgKind(info *types.Info, cc *ast.CaseClause) string {
	kind := "none"
	ast.Inspect(cc, func(n ast.Node) bool {
		as, ok := n.(*ast.AssignStmt)
		if !ok || len(as.Lhs) != 1 {
			return true
		}
		// the argument list under construction: a local []jen.Code that is appended to
		if t := info.TypeOf(as.Lhs[0]); t == nil || t.String() != "[]"+jenPath+".Code" {
			return true
		}
		call, ok := ast.Unparen(as.Rhs[0]).(*ast.CallExpr)
		if !ok || len(call.Args) != 2 {
			kind = "other"
			return true
		}
		if b, ok := calleeObj(info, call).(*types.Builtin); !ok || b.Name() != "append" || exprString(call.Args[0]) != exprString(as.Lhs[0]) {
			kind = "other"
			return true
		}
		a := exprString(call.Args[1])
		// <X>.Code.Clone() where X is ctx.Context[<arg>.Type.String] — directly or through the comma-ok local of that lookup
		isCtxLookup := func(e ast.Expr) bool {
			ix, ok := ast.Unparen(e).(*ast.IndexExpr)
			return ok && exprString(ix.X) == "ctx.Context" && strings.HasSuffix(exprString(ix.Index), ".Type.String")
		}
		ctxArg := false
		if strings.HasSuffix(a, ".Code.Clone()") {
			if c1, ok := ast.Unparen(call.Args[1]).(*ast.CallExpr); ok {
				if s1, ok := ast.Unparen(c1.Fun).(*ast.SelectorExpr); ok {
					if s2, ok := ast.Unparen(s1.X).(*ast.SelectorExpr); ok {
						x := ast.Unparen(s2.X)
						if isCtxLookup(x) {
							ctxArg = true
						} else if id0, ok := x.(*ast.Ident); ok {
							obj := info.ObjectOf(id0)
							ast.Inspect(cc, func(m ast.Node) bool {
								if a2, ok := m.(*ast.AssignStmt); ok && len(a2.Lhs) == 2 && len(a2.Rhs) == 1 {
									if l0, ok := a2.Lhs[0].(*ast.Ident); ok && info.ObjectOf(l0) == obj && isCtxLookup(a2.Rhs[0]) {
										ctxArg = true
									}
								}
								return true
							})
						}
					}
				}
			}
		}
		switch {
		case a == "jen.Id(xtype.ThisVar)":
			kind = "receiver"
		case a == "sourceID.Code":
			kind = "source"
		case ctxArg:
			kind = "context"
		default:
			kind = "other:" + a
		}
		return true
	})
	if kind == "none" {
		ast.Inspect(cc, func(n ast.Node) bool {
			if call, ok := n.(*ast.CallExpr); ok {
				if b, ok := calleeObj(info, call).(*types.Builtin); ok && b.Name() == "panic" {
					kind = "panic"
				}
			}
			return true
		})
	}
	return kind
}

func c06R2(p *Prog, r *Report, id string) {
	r.Rule(id, "argument assembly: CallMethod and delegateMethod range over the callee's RawArgs in order and switch over every method.ArgUse role; interface → jen.Id(xtype.ThisVar), context → the identifier stored in ctx.Context under the argument type, source → sourceID.Code, the two unsupported roles panic (audited unreachable, C13.R1); both functions agree", 10)
	want := map[string]string{"ArgUseInterface": "receiver", "ArgUseContext": "context", "ArgUseSource": "source", "ArgUseMultiSource": "panic", "ArgUseTarget": "panic"}
	got := map[string]map[string]string{}
	for _, k := range []string{"generator.(*generator).CallMethod", "generator.(*generator).delegateMethod"} {
		fi := p.Func(k)
		if fi == nil {
			r.Unresolved(k)
			continue
		}
		info := fi.Pkg.TypesInfo
		var rng *ast.RangeStmt
		p.inspectRegion(k, func(_ *FuncInfo, n ast.Node) bool {
			if rs, ok := n.(*ast.RangeStmt); ok && rng == nil && isFieldSel(info, rs.X, modPath+"/method", "Parameters", "RawArgs") {
				rng = rs
			}
			return true
		})
		if rng == nil {
			r.Bad(k+"/args loop", p.PosStr(fi.Decl.Pos()), "does not range over the callee's RawArgs: arguments would not follow the declared parameter order")
			continue
		}
		var sw *ast.SwitchStmt
		for _, s := range rng.Body.List {
			if x, ok := s.(*ast.SwitchStmt); ok {
				sw = x
			}
		}
		if sw == nil || !strings.HasSuffix(exprString(sw.Tag), ".Use") {
			r.Bad(k+"/role switch", p.PosStr(rng.Pos()), "no switch over arg.Use in the argument loop")
			continue
		}
		got[k] = map[string]string{}
		for _, c := range sw.Body.List {
			cc := c.(*ast.CaseClause)
			for _, e := range cc.List {
				name := strings.TrimPrefix(exprString(e), "method.")
				kind := roleArgKind(info, cc)
				got[k][name] = kind
				site := fmt.Sprintf("%s/role %s", k, name)
				if w, ok := want[name]; ok && w == kind {
					r.OK(site, p.PosStr(cc.Pos()), "→ "+kind)
				} else if ok {
					r.Bad(site, p.PosStr(cc.Pos()), fmt.Sprintf("role %s is turned into %q, documented %q: the custom function would receive the wrong argument", name, kind, w))
				}
			}
		}
		for name := range want {
			if _, ok := got[k][name]; !ok {
				r.Bad(fmt.Sprintf("%s/role %s", k, name), p.PosStr(sw.Pos()), "no arm for this role: such a parameter would silently get no argument")
			}
		}
	}
	a, b := got["generator.(*generator).CallMethod"], got["generator.(*generator).delegateMethod"]
	if a != nil && b != nil {
		same := true
		for k, v := range a {
			if b[k] != v {
				same = false
			}
		}
		if same {
			r.OK("CallMethod~delegateMethod", "", "role → argument mapping agrees")
		} else {
			r.Bad("CallMethod~delegateMethod", "", "the two call emitters disagree on how roles become arguments")
		}
	}
}

func c06R3(p *Prog, r *Report) {
	r.Rule("C06.R3", "an unavailable context is a generation error: in CallMethod the false result of requireContext leads to a returned *builder.Error; requireContext returns false exactly when an explicit method on the origin path lacks the context; index errors (Index.Get) become builder.NewError (error discipline, C03.R4)", 2)
	fi, sf := needFunc(p, r, "generator.(*generator).CallMethod")
	if fi != nil {
		n := 0
		// the argument loop may live in a private helper of CallMethod: look in the whole region (the error
		// discipline rule makes sure the helper's error stops CallMethod as well)
		var rcalls []ssa.CallInstruction
		for _, rf := range p.Region("generator.(*generator).CallMethod") {
			if hf := p.SSAFunc(rf); hf != nil {
				rcalls = append(rcalls, callsIn(hf, false, isObj(modPath+"/generator", "generator", "requireContext"))...)
			}
		}
		_ = sf
		for _, c := range rcalls {
			n++
			v := c.Value()
			okUse := false
			if v != nil && v.Referrers() != nil {
				for _, ref := range *v.Referrers() {
					ifi, ok := ref.(*ssa.If)
					if !ok {
						continue
					}
					// false edge must return a non-nil error on every path
					fb := ifi.Block().Succs[1]
					if g := existsPath(fb, 0, func(in ssa.Instruction) bool {
						ret, ok := in.(*ssa.Return)
						return ok && isSuccessReturn(ret)
					}, nil); g == nil {
						okUse = true
					}
				}
			}
			if okUse {
				r.OK("generator.(*generator).CallMethod/requireContext", p.PosStr(c.Pos()), "false → error return")
			} else {
				r.Bad("generator.(*generator).CallMethod/requireContext", p.PosStr(c.Pos()), "a missing context does not stop generation: the custom function would be called without (or with a wrong) context argument")
			}
		}
		if n == 0 {
			r.Bad("generator.(*generator).CallMethod/requireContext", p.PosStr(fi.Decl.Pos()), "context parameters are emitted without requireContext")
		}
	}
	if rc, rsf := needFunc(p, r, "generator.(*generator).requireContext"); rc != nil {
		// the `return false` is under check.Explicit
		ok := false
		for _, b := range rsf.Blocks {
			for _, in := range b.Instrs {
				ret, isRet := in.(*ssa.Return)
				if !isRet {
					continue
				}
				if k, isK := ret.Results[0].(*ssa.Const); isK && !constantBool(k) {
					if dominatedByEdge(b, true, func(c ssa.Value) bool { return loadsField(c, "Explicit") }) {
						ok = true
					} else {
						ok = false
					}
				}
			}
		}
		if ok {
			r.OK("generator.(*generator).requireContext/refusal", p.PosStr(rc.Decl.Pos()), "false only for an explicit method that lacks the context; generated methods get the parameter added")
		} else {
			r.Bad("generator.(*generator).requireContext/refusal", p.PosStr(rc.Decl.Pos()), "requireContext no longer refuses exactly when an explicit method lacks the context")
		}
	}
}

// c06R4: localConfig name agreement.
func c06R4(p *Prog, r *Report) { localConfigNameRule(p, r, "C06.R4") }

func localConfigNameRule(p *Prog, r *Report, id string) {
	r.Rule(id, "in package pkgload every method.Parse(obj, opts, g.localConfig(pkg, name)) looks up the local settings under the same name value that produced obj (scope.Lookup(name) / GetOneRaw(pkg, name)): a function's own `goverter:context` lines are applied to that function", 2)
	for _, fi := range p.Funcs {
		if relPkg(fi.Pkg.PkgPath) != "pkgload" {
			continue
		}
		sf := p.SSAFunc(fi)
		n := 0
		for _, c := range callsIn(sf, true, isObj(modPath+"/method", "", "Parse")) {
			n++
			site := fmt.Sprintf("%s/method.Parse#%d", fi.Name(), n)
			args := c.Common().Args
			objName := lookupNameOf(args[0])
			var lcName ssa.Value
			if lc, ok := args[2].(*ssa.Call); ok && ssaCalleeObj(lc) != nil && ssaCalleeObj(lc).Name() == "localConfig" {
				lcName = lc.Call.Args[len(lc.Call.Args)-1]
			}
			switch {
			case lcName == nil:
				r.Bad(site, p.PosStr(c.Pos()), "the local options do not come from g.localConfig(pkg, name)")
			case objName == nil:
				r.Bad(site, p.PosStr(c.Pos()), "cannot trace the parsed object to a scope lookup by name")
			case objName != lcName:
				r.Bad(site, p.PosStr(c.Pos()), "the function object is looked up under one name but its local settings (goverter:context) under another value: context parameters of regex-selected functions would be misclassified")
			default:
				r.OK(site, p.PosStr(c.Pos()), "object and local settings are looked up under the same name")
			}
		}
	}
}

// lookupNameOf: v = scope.Lookup(name) or the object result of GetOneRaw(pkg, name) → name value.
func lookupNameOf(v ssa.Value) ssa.Value {
	switch x := v.(type) {
	case *ssa.Call:
		if o := ssaCalleeObj(x); o != nil && o.Name() == "Lookup" && objPkgPath(o) == "go/types" {
			return x.Call.Args[len(x.Call.Args)-1]
		}
	case *ssa.Extract:
		if c, ok := x.Tuple.(*ssa.Call); ok && ssaCalleeObj(c) != nil && ssaCalleeObj(c).Name() == "GetOneRaw" {
			return c.Call.Args[len(c.Call.Args)-1]
		}
	}
	return nil
}
