package main

import (
	"fmt"
	"go/token"
	"go/types"
	"strings"

	"golang.org/x/tools/go/ssa"
)

// Rules added after the seventh round of seeded changes (property groups, any file).

// ---------------------------------------------------------------------------
// C03.R15 / C02.R14: container rules convert every component through the generator

// compPath: v is <role>[.<f1>…] where role is the source/target parameter of the enclosing rule (seen through
// helpers by way of origin); returns "source", "target.PointerInner", … or "".
func compPath(sc *absScenario, v ssa.Value) string {
	var path []string
	cur := v
	for i := 0; i < 8; i++ {
		cur = scOrigin(sc, cur)
		u, ok := cur.(*ssa.UnOp)
		if !ok || u.Op != token.MUL {
			break
		}
		fa, ok := u.X.(*ssa.FieldAddr)
		if !ok {
			break
		}
		path = append([]string{fieldName(fa)}, path...)
		cur = fa.X
	}
	prm, ok := cur.(*ssa.Parameter)
	if !ok {
		return ""
	}
	role := typeRole(prm)
	if role == "" {
		return ""
	}
	return strings.Join(append([]string{role}, path...), ".")
}

func isXTypePtr(t types.Type) bool {
	pt, ok := t.(*types.Pointer)
	return ok && isNamed(pt.Elem(), modPath+"/xtype", "Type")
}

func componentRecursionRule(p *Prog, r *Report, id string) {
	r.Rule(id, "a container rule never decides convertibility of a component by itself: every successful return of Map/List/Pointer/SourcePointer/TargetPointer Build and Assign has either delegated to its sibling (BuildByAssign, AssignByBuild, the rule's own other method) or asked the generator (gen.Build / gen.Assign) for each component pair — map key → key and value → value, element → element, pointee → pointee (resp. pointee → target, source → pointee); no shortcut (same spelling, unnamed, basic …) bypasses the rule table, the declared methods and the extend functions for a component", 10)
	table := []struct {
		fn    string
		needs []need
	}{
		{"builder.(*Map).Build", []need{{"source.MapKey", "target.MapKey", "key"}, {"source.MapValue", "target.MapValue", "value"}}},
		{"builder.(*Map).Assign", []need{{"source.MapKey", "target.MapKey", "key"}, {"source.MapValue", "target.MapValue", "value"}}},
		{"builder.(*List).Build", []need{{"source.ListInner", "target.ListInner", "element"}}},
		{"builder.(*List).Assign", []need{{"source.ListInner", "target.ListInner", "element"}}},
		{"builder.(*Pointer).Build", []need{{"source.PointerInner", "target.PointerInner", "pointee"}}},
		{"builder.(*Pointer).Assign", []need{{"source.PointerInner", "target.PointerInner", "pointee"}}},
		{"builder.(*SourcePointer).Build", []need{{"source.PointerInner", "target", "pointee"}}},
		{"builder.(*SourcePointer).Assign", []need{{"source.PointerInner", "target", "pointee"}}},
		{"builder.(*TargetPointer).Build", []need{{"source", "target.PointerInner", "pointee"}}},
		{"builder.(*TargetPointer).Assign", []need{{"source", "target.PointerInner", "pointee"}}},
	}
	for _, k := range table {
		fi, sf := needFunc(p, r, k.fn)
		if fi == nil {
			continue
		}
		recv := recvTypeName(fi.Obj)
		var sc *absScenario
		nGen := 0
		sc = &absScenario{
			marks: func(in ssa.Instruction) (string, bool) {
				c, ok := in.(ssa.CallInstruction)
				if !ok {
					return "", false
				}
				com := c.Common()
				if com.IsInvoke() {
					if (com.Method.Name() != "Build" && com.Method.Name() != "Assign") || !isNamed(com.Value.Type(), modPath+"/builder", "Generator") {
						return "", false
					}
					var ts []ssa.Value
					for _, a := range com.Args {
						if isXTypePtr(a.Type()) {
							ts = append(ts, a)
						}
					}
					if len(ts) != 2 {
						return "", false
					}
					s, d := compPath(sc, ts[0]), compPath(sc, ts[1])
					for _, n := range k.needs {
						if n.src == s && n.dst == d {
							nGen++
							return n.what, true
						}
					}
					return "", false
				}
				o := ssaCalleeObj(c)
				if o == nil {
					return "", false
				}
				o = o.Origin()
				if isFunc(o, modPath+"/builder", "", "BuildByAssign") || isFunc(o, modPath+"/builder", "", "AssignByBuild") {
					return "delegated", true
				}
				if (o.Name() == "Build" || o.Name() == "Assign") && o.Name() != fi.Obj.Name() && recvTypeName(o) == recv && objPkgPath(o) == modPath+"/builder" {
					return "delegated", true
				}
				return "", false
			},
		}
		missing := ""
		got := absReachState(sf, sc, func(ret *ssa.Return, eval func(ssa.Value) absVal, st map[string]absVal) bool {
			if !successGoal(ret, eval) {
				return false
			}
			if _, ok := st["@delegated"]; ok {
				return false
			}
			for _, n := range k.needs {
				if _, ok := st["@"+n.what]; !ok {
					missing = n.what
					return true
				}
			}
			return false
		})
		site := k.fn + "/components converted by the generator"
		if got != nil {
			r.Bad(site, p.PosStr(got.Pos()), "a path returns success without gen.Build/gen.Assign for the "+missing+" ("+describeNeeds(k.needs, missing)+") and without delegating: that component is accepted (and copied as it is) whatever its type — no rule, declared method or extend function is consulted, and types without any rule (interface, chan, func …) are no longer rejected")
		} else {
			r.OK(site, p.PosStr(fi.Decl.Pos()), fmt.Sprintf("every successful path delegates or converts %d component(s) through the generator", len(k.needs)))
		}
	}
}

type need struct{ src, dst, what string }

func describeNeeds(ns []need, what string) string {
	for _, n := range ns {
		if n.what == what {
			return n.src + " → " + n.dst
		}
	}
	return what
}


// ---------------------------------------------------------------------------
// C19.R13: every general declaration of a file reaches parseGenDecl

// reachesAvoiding: from block `from`, can `to` be reached without entering `avoid`?
func reachesAvoiding(from, to, avoid *ssa.BasicBlock) bool {
	if from == avoid {
		return false
	}
	seen := map[*ssa.BasicBlock]bool{from: true}
	work := []*ssa.BasicBlock{from}
	for len(work) > 0 {
		b := work[len(work)-1]
		work = work[:len(work)-1]
		if b == to {
			return true
		}
		for _, s := range b.Succs {
			if s != avoid && !seen[s] {
				seen[s] = true
				work = append(work, s)
			}
		}
	}
	return false
}

func isGenDeclAssertOK(v ssa.Value) bool {
	ex, ok := v.(*ssa.Extract)
	if !ok || ex.Index != 1 {
		return false
	}
	ta, ok := ex.Tuple.(*ssa.TypeAssert)
	if !ok || !ta.CommaOk {
		return false
	}
	pt, ok := ta.AssertedType.(*types.Pointer)
	return ok && isNamed(pt.Elem(), "go/ast", "GenDecl")
}

func everyGenDeclRule(p *Prog, r *Report, id string) {
	r.Rule(id, "a marker on the wrong kind of declaration is an error, so every *ast.GenDecl of every file must reach comments.parseGenDecl: inside the loops around the call, the only test that sends a declaration back to the loop head without the call is the type assertion to *ast.GenDecl (no filter on Tok, on the doc comment, on the number of specs …); a test whose other branch returns an error is not a skip", 1)
	n := 0
	for _, fi := range p.Funcs {
		if fi.Lit != nil || relPkg(fi.Pkg.PkgPath) != "comments" {
			continue
		}
		sf := p.SSAFunc(fi)
		if sf == nil {
			continue
		}
		for _, c := range callsIn(sf, true, isObj(modPath+"/comments", "", "parseGenDecl")) {
			in := c.(ssa.Instruction)
			B := in.Block()
			n++
			site := fmt.Sprintf("%s/parseGenDecl#%d reached by every GenDecl", fi.Name(), n)
			bad := ""
			loops := 0
			for d := B.Idom(); d != nil; d = d.Idom() {
				iff, ok := d.Instrs[len(d.Instrs)-1].(*ssa.If)
				if !ok || len(d.Succs) != 2 {
					continue
				}
				if strings.HasSuffix(d.Comment, ".loop") {
					continue // the loop's own condition: leaving the loop is not skipping an element
				}
				for _, s := range d.Succs {
					if s == B || (s.Dominates(B) && d.Dominates(s)) {
						continue
					}
					// the branch that does not lead to the call: a silent skip if it comes back to this test
					if reachesAvoiding(s, d, B) {
						loops++
						if !isGenDeclAssertOK(iff.Cond) {
							bad = p.PosStr(iff.Cond.Pos()) + ": the declaration is skipped when `" + iff.Cond.String() + "` decides so — a goverter:converter / goverter:variables marker on such a declaration would be ignored silently instead of being reported"
						}
					}
				}
			}
			switch {
			case bad != "":
				r.Bad(site, p.PosStr(in.Pos()), bad)
			case loops == 0 && !inCycle(B):
				r.Note(site, p.PosStr(in.Pos()), "the call is not inside a loop of this function")
			default:
				r.OK(site, p.PosStr(in.Pos()), "skipped only when the declaration is not a *ast.GenDecl")
			}
		}
	}
	if n == 0 {
		r.Unresolved("call of comments.parseGenDecl")
	}
}

// ---------------------------------------------------------------------------
// C08.R18: transformers registered by the embedding program win over the built-in ones

func transformerLookupOrderRule(p *Prog, r *Report, id string) {
	r.Rule(id, "enum:transform NAME selects the transformer the program registered under NAME (cli.RunOpts.EnumTransformers) and only otherwise the built-in one: in config.parseTransformer every lookup in enum.DefaultTransformers happens on the not-found branch of a lookup in ctx.EnumTransformers", 1)
	fi, sf := needFunc(p, r, "config.parseTransformer")
	if fi == nil {
		return
	}
	isDefault := func(v ssa.Value) bool {
		u, ok := v.(*ssa.UnOp)
		if !ok {
			return false
		}
		g, ok := u.X.(*ssa.Global)
		return ok && g.Name() == "DefaultTransformers"
	}
	var custom []*ssa.Lookup
	var deflt []*ssa.Lookup
	allInstrs(sf, true, func(in ssa.Instruction) {
		l, ok := in.(*ssa.Lookup)
		if !ok {
			return
		}
		switch {
		case isDefault(l.X):
			deflt = append(deflt, l)
		case loadsField(l.X, "EnumTransformers"):
			custom = append(custom, l)
		}
	})
	site := "config.parseTransformer/registered before built-in"
	if len(custom) == 0 || len(deflt) == 0 {
		r.Bad(site, p.PosStr(fi.Decl.Pos()), fmt.Sprintf("%d lookups in ctx.EnumTransformers, %d in enum.DefaultTransformers: one of the two transformer tables is no longer consulted", len(custom), len(deflt)))
		return
	}
	for _, dl := range deflt {
		ok := false
		for _, cl := range custom {
			if !cl.CommaOk {
				continue
			}
			if dominatedByEdge(dl.Block(), false, func(cond ssa.Value) bool {
				ex, isEx := cond.(*ssa.Extract)
				return isEx && ex.Tuple == cl && ex.Index == 1
			}) {
				ok = true
			}
		}
		if !ok {
			r.Bad(site, p.PosStr(dl.Pos()), "enum.DefaultTransformers is consulted without a failed lookup in ctx.EnumTransformers before it: a transformer the program registered under a built-in name is replaced by the built-in one")
			return
		}
	}
	r.OK(site, p.PosStr(fi.Decl.Pos()), "the built-in table is the fallback")
}

// ---------------------------------------------------------------------------
// C18.R9 / C12.R20 / C08.R17: with enum detection switched off no type is an enum, for every caller

func enumDisabledRule(p *Prog, r *Report, id string) {
	r.Rule(id, "`enum no` switches enum handling off for every consumer, not only for the enum builder: evaluated with cfg.Enabled = false, xtype.loadEnum returns the shared not-an-enum value on every path (generator.shouldCreateSubMethod and builder.Enum read Type.Enum(...).OK), so no enum switch — and no fmt import for its @error/@panic action — is emitted for a method that disabled it", 1)
	fi, sf := needFunc(p, r, "xtype.loadEnum")
	if fi == nil {
		return
	}
	nRead := 0
	sc := &absScenario{
		assume: func(v ssa.Value, _ func(ssa.Value) absVal) (absVal, bool) {
			if loadsFieldNamed(v, "Enabled") {
				nRead++
				return aBool(false), true
			}
			return aUnknown, false
		},
	}
	isDisabled := func(v ssa.Value) bool {
		u, ok := v.(*ssa.UnOp)
		if !ok {
			return false
		}
		g, ok := u.X.(*ssa.Global)
		return ok && g.Name() == "disabled"
	}
	got := absReach(sf, sc, func(ret *ssa.Return, eval func(ssa.Value) absVal) bool {
		return len(ret.Results) == 1 && !isDisabled(ret.Results[0])
	})
	site := "xtype.loadEnum/disabled when enum detection is off"
	switch {
	case nRead == 0:
		r.Bad(site, p.PosStr(fi.Decl.Pos()), "cfg.Enabled is not read: a type is reported as enum although the method (or converter) says `enum no` — callers other than the enum builder (generator.shouldCreateSubMethod) create an enum conversion with the converter-level settings")
	case got != nil:
		r.Bad(site, p.PosStr(got.Pos()), "with cfg.Enabled = false a path still returns a freshly detected enum")
	default:
		r.OK(site, p.PosStr(fi.Decl.Pos()), "Enabled = false ⇒ the shared `disabled` value on every path")
	}
}

// ---------------------------------------------------------------------------
// C06.R20: a declared method whose pair has an extend function forwards to it, whatever else is configured

func forwardToExtendRule(p *Prog, r *Report, id string) {
	r.Rule(id, "a declared method for a pair that also has an extend function returns that function's result: evaluated with g.extend.Get(…) answering (def ≠ nil, nil) in generator.buildMethod, every successful path after the lookup passes g.delegateMethod and none reaches buildNoLookup — no further condition (field settings on the method, its name …) sends the method back to the automatic conversion while nested occurrences still call the function", 1)
	fi, sf := needFunc(p, r, "generator.(*generator).buildMethod")
	if fi == nil {
		return
	}
	isExtendGet := func(v ssa.Value) bool {
		c, ok := v.(*ssa.Call)
		if !ok || ssaCalleeObj(c) == nil || ssaCalleeObj(c).Name() != "Get" || recvTypeName(ssaCalleeObj(c)) != "Index" || len(c.Call.Args) == 0 {
			return false
		}
		return loadsField(c.Call.Args[0], "extend")
	}
	nGet := 0
	sc := &absScenario{
		assume: func(v ssa.Value, _ func(ssa.Value) absVal) (absVal, bool) {
			if ex, ok := v.(*ssa.Extract); ok && isExtendGet(ex.Tuple) {
				if ex.Index == 0 {
					return aNonNil, true
				}
				return aNil, true
			}
			return aUnknown, false
		},
		marks: func(in ssa.Instruction) (string, bool) {
			if c, ok := in.(*ssa.Call); ok && isExtendGet(c) {
				nGet++
				return "asked", true
			}
			c, ok := in.(ssa.CallInstruction)
			if !ok || ssaCalleeObj(c) == nil {
				return "", false
			}
			switch ssaCalleeObj(c).Name() {
			case "delegateMethod":
				return "fwd", true
			case "buildNoLookup", "assignNoLookup", "convertTo":
				return "auto", true
			}
			return "", false
		},
	}
	got := absReachState(sf, sc, func(ret *ssa.Return, eval func(ssa.Value) absVal, st map[string]absVal) bool {
		if !successGoal(ret, eval) {
			return false
		}
		_, asked := st["@asked"]
		_, fwd := st["@fwd"]
		return asked && !fwd
	})
	site := "generator.buildMethod/forwards to the extend function"
	switch {
	case nGet == 0:
		r.Bad(site, p.PosStr(fi.Decl.Pos()), "buildMethod no longer asks g.extend for a function with the method's own signature")
	case got != nil:
		r.Bad(site, p.PosStr(got.Pos()), "although an extend function exists for the declared method's pair, a path returns success without delegateMethod: the declared method gets an automatic body while nested occurrences of the pair still call the function")
	default:
		r.OK(site, p.PosStr(fi.Decl.Pos()), "def ≠ nil ⇒ delegateMethod on every successful path")
	}
}
