package main

import (
	"fmt"
	"go/token"
	"go/types"
	"strings"

	"golang.org/x/tools/go/ssa"
)

// Rules added after the seventh round of seeded changes (property groups, any file).

// ---------------------------------------------------------------------------
// C03.R15 / C02.R14: container rules convert every component through the generator

// compPath: v is <role>[.<f1>…] where role is the source/target parameter of the enclosing rule (seen through
// helpers by way of origin); returns "source", "target.PointerInner", … or "".
func compPath(sc *absScenario, v ssa.Value) string {
	var path []string
	cur := v
	for i := 0; i < 8; i++ {
		cur = scOrigin(sc, cur)
		u, ok := cur.(*ssa.UnOp)
		if !ok || u.Op != token.MUL {
			break
		}
		if al, isAlloc := u.X.(*ssa.Alloc); isAlloc {
			// a local that lives in memory (captured by a closure): follow its only store
			if v := singleStoreInto(al); v != nil {
				cur = v
				continue
			}
			break
		}
		fa, ok := u.X.(*ssa.FieldAddr)
		if !ok {
			break
		}
		path = append([]string{fieldName(fa)}, path...)
		cur = fa.X
	}
	prm, ok := cur.(*ssa.Parameter)
	if !ok {
		return ""
	}
	role := typeRole(prm)
	if role == "" {
		return ""
	}
	return strings.Join(append([]string{role}, path...), ".")
}

func isXTypePtr(t types.Type) bool {
	pt, ok := t.(*types.Pointer)
	return ok && isNamed(pt.Elem(), modPath+"/xtype", "Type")
}

func componentRecursionRule(p *Prog, r *Report, id string) {
	r.Rule(id, "a container rule never decides convertibility of a component by itself: every successful return of Map/List/Pointer/SourcePointer/TargetPointer Build and Assign has either delegated to its sibling (BuildByAssign, AssignByBuild, the rule's own other method) or asked the generator (gen.Build / gen.Assign) for each component pair — map key → key and value → value, element → element, pointee → pointee (resp. pointee → target, source → pointee); no shortcut (same spelling, unnamed, basic …) bypasses the rule table, the declared methods and the extend functions for a component", 10)
	table := []struct {
		fn    string
		needs []need
	}{
		{"builder.(*Map).Build", []need{{"source.MapKey", "target.MapKey", "key"}, {"source.MapValue", "target.MapValue", "value"}}},
		{"builder.(*Map).Assign", []need{{"source.MapKey", "target.MapKey", "key"}, {"source.MapValue", "target.MapValue", "value"}}},
		{"builder.(*List).Build", []need{{"source.ListInner", "target.ListInner", "element"}}},
		{"builder.(*List).Assign", []need{{"source.ListInner", "target.ListInner", "element"}}},
		{"builder.(*Pointer).Build", []need{{"source.PointerInner", "target.PointerInner", "pointee"}}},
		{"builder.(*Pointer).Assign", []need{{"source.PointerInner", "target.PointerInner", "pointee"}}},
		{"builder.(*SourcePointer).Build", []need{{"source.PointerInner", "target", "pointee"}}},
		{"builder.(*SourcePointer).Assign", []need{{"source.PointerInner", "target", "pointee"}}},
		{"builder.(*TargetPointer).Build", []need{{"source", "target.PointerInner", "pointee"}}},
		{"builder.(*TargetPointer).Assign", []need{{"source", "target.PointerInner", "pointee"}}},
	}
	for _, k := range table {
		fi, sf := needFunc(p, r, k.fn)
		if fi == nil {
			continue
		}
		recv := recvTypeName(fi.Obj)
		var sc *absScenario
		nGen := 0
		sc = &absScenario{
			marks: func(in ssa.Instruction) (string, bool) {
				c, ok := in.(ssa.CallInstruction)
				if !ok {
					return "", false
				}
				com := c.Common()
				if com.IsInvoke() {
					if (com.Method.Name() != "Build" && com.Method.Name() != "Assign") || !isNamed(com.Value.Type(), modPath+"/builder", "Generator") {
						return "", false
					}
					var ts []ssa.Value
					for _, a := range com.Args {
						if isXTypePtr(a.Type()) {
							ts = append(ts, a)
						}
					}
					if len(ts) != 2 {
						return "", false
					}
					s, d := compPath(sc, ts[0]), compPath(sc, ts[1])
					for _, n := range k.needs {
						if n.src == s && n.dst == d {
							nGen++
							return n.what, true
						}
					}
					return "", false
				}
				o := ssaCalleeObj(c)
				if o == nil {
					return "", false
				}
				o = o.Origin()
				if isFunc(o, modPath+"/builder", "", "BuildByAssign") || isFunc(o, modPath+"/builder", "", "AssignByBuild") {
					return "delegated", true
				}
				if (o.Name() == "Build" || o.Name() == "Assign") && o.Name() != fi.Obj.Name() && recvTypeName(o) == recv && objPkgPath(o) == modPath+"/builder" {
					return "delegated", true
				}
				return "", false
			},
		}
		missing := ""
		got := absReachState(sf, sc, func(ret *ssa.Return, eval func(ssa.Value) absVal, st map[string]absVal) bool {
			if !successGoal(ret, eval) {
				return false
			}
			if _, ok := st["@delegated"]; ok {
				return false
			}
			for _, n := range k.needs {
				if _, ok := st["@"+n.what]; !ok {
					missing = n.what
					return true
				}
			}
			return false
		})
		site := k.fn + "/components converted by the generator"
		if got != nil {
			r.Bad(site, p.PosStr(got.Pos()), "a path returns success without gen.Build/gen.Assign for the "+missing+" ("+describeNeeds(k.needs, missing)+") and without delegating: that component is accepted (and copied as it is) whatever its type — no rule, declared method or extend function is consulted, and types without any rule (interface, chan, func …) are no longer rejected")
		} else {
			r.OK(site, p.PosStr(fi.Decl.Pos()), fmt.Sprintf("every successful path delegates or converts %d component(s) through the generator", len(k.needs)))
		}
	}
}

type need struct{ src, dst, what string }

func describeNeeds(ns []need, what string) string {
	for _, n := range ns {
		if n.what == what {
			return n.src + " → " + n.dst
		}
	}
	return what
}


// ---------------------------------------------------------------------------
// C19.R13: every general declaration of a file reaches parseGenDecl

// reachesAvoiding: from block `from`, can `to` be reached without entering `avoid`?
func reachesAvoiding(from, to, avoid *ssa.BasicBlock) bool {
	if from == avoid {
		return false
	}
	seen := map[*ssa.BasicBlock]bool{from: true}
	work := []*ssa.BasicBlock{from}
	for len(work) > 0 {
		b := work[len(work)-1]
		work = work[:len(work)-1]
		if b == to {
			return true
		}
		for _, s := range b.Succs {
			if s != avoid && !seen[s] {
				seen[s] = true
				work = append(work, s)
			}
		}
	}
	return false
}

func isGenDeclAssertOK(v ssa.Value) bool {
	ex, ok := v.(*ssa.Extract)
	if !ok || ex.Index != 1 {
		return false
	}
	ta, ok := ex.Tuple.(*ssa.TypeAssert)
	if !ok || !ta.CommaOk {
		return false
	}
	pt, ok := ta.AssertedType.(*types.Pointer)
	return ok && isNamed(pt.Elem(), "go/ast", "GenDecl")
}

func everyGenDeclRule(p *Prog, r *Report, id string) {
	r.Rule(id, "a marker on the wrong kind of declaration is an error, so every *ast.GenDecl of every file must reach comments.parseGenDecl: inside the loops around the call, the only test that sends a declaration back to the loop head without the call is the type assertion to *ast.GenDecl (no filter on Tok, on the doc comment, on the number of specs …); a test whose other branch returns an error is not a skip", 1)
	n := 0
	for _, fi := range p.Funcs {
		if fi.Lit != nil || relPkg(fi.Pkg.PkgPath) != "comments" {
			continue
		}
		sf := p.SSAFunc(fi)
		if sf == nil {
			continue
		}
		for _, c := range callsIn(sf, true, isObj(modPath+"/comments", "", "parseGenDecl")) {
			in := c.(ssa.Instruction)
			B := in.Block()
			n++
			site := fmt.Sprintf("%s/parseGenDecl#%d reached by every GenDecl", fi.Name(), n)
			bad := ""
			loops := 0
			for d := B.Idom(); d != nil; d = d.Idom() {
				iff, ok := d.Instrs[len(d.Instrs)-1].(*ssa.If)
				if !ok || len(d.Succs) != 2 {
					continue
				}
				if strings.HasSuffix(d.Comment, ".loop") {
					continue // the loop's own condition: leaving the loop is not skipping an element
				}
				for _, s := range d.Succs {
					if s == B || (s.Dominates(B) && d.Dominates(s)) {
						continue
					}
					// the branch that does not lead to the call: a silent skip if it comes back to this test
					if reachesAvoiding(s, d, B) {
						loops++
						if !isGenDeclAssertOK(iff.Cond) {
							bad = p.PosStr(iff.Cond.Pos()) + ": the declaration is skipped when `" + iff.Cond.String() + "` decides so — a goverter:converter / goverter:variables marker on such a declaration would be ignored silently instead of being reported"
						}
					}
				}
			}
			switch {
			case bad != "":
				r.Bad(site, p.PosStr(in.Pos()), bad)
			case loops == 0 && !inCycle(B):
				r.Note(site, p.PosStr(in.Pos()), "the call is not inside a loop of this function")
			default:
				r.OK(site, p.PosStr(in.Pos()), "skipped only when the declaration is not a *ast.GenDecl")
			}
		}
	}
	if n == 0 {
		r.Unresolved("call of comments.parseGenDecl")
	}
}

// ---------------------------------------------------------------------------
// C08.R18: transformers registered by the embedding program win over the built-in ones

func transformerLookupOrderRule(p *Prog, r *Report, id string) {
	r.Rule(id, "enum:transform NAME selects the transformer the program registered under NAME (cli.RunOpts.EnumTransformers) and only otherwise the built-in one: in config.parseTransformer every lookup in enum.DefaultTransformers happens on the not-found branch of a lookup in ctx.EnumTransformers", 1)
	fi, sf := needFunc(p, r, "config.parseTransformer")
	if fi == nil {
		return
	}
	isDefault := func(v ssa.Value) bool {
		u, ok := v.(*ssa.UnOp)
		if !ok {
			return false
		}
		g, ok := u.X.(*ssa.Global)
		return ok && g.Name() == "DefaultTransformers"
	}
	site := "config.parseTransformer/registered before built-in"
	guardedBy := func(b *ssa.BasicBlock, custom []*ssa.Lookup) bool {
		for _, cl := range custom {
			if !cl.CommaOk {
				continue
			}
			if dominatedByEdge(b, false, func(cond ssa.Value) bool {
				ex, isEx := cond.(*ssa.Extract)
				return isEx && ex.Tuple == cl && ex.Index == 1
			}) {
				return true
			}
		}
		return false
	}
	type lk struct {
		custom, deflt []*ssa.Lookup
	}
	per := map[*ssa.Function]*lk{}
	nc, nd := 0, 0
	region := p.Region("config.parseTransformer")
	for _, rf := range region {
		h := p.SSAFunc(rf)
		if h == nil {
			continue
		}
		e := &lk{}
		per[h] = e
		allInstrs(h, false, func(in ssa.Instruction) {
			l, ok := in.(*ssa.Lookup)
			if !ok {
				return
			}
			switch {
			case isDefault(l.X):
				e.deflt = append(e.deflt, l)
				nd++
			case loadsField(l.X, "EnumTransformers"):
				e.custom = append(e.custom, l)
				nc++
			}
		})
	}
	_ = sf
	if nc == 0 || nd == 0 {
		r.Bad(site, p.PosStr(fi.Decl.Pos()), fmt.Sprintf("%d lookups in ctx.EnumTransformers, %d in enum.DefaultTransformers: one of the two transformer tables is no longer consulted", nc, nd))
		return
	}
	for h, e := range per {
		for _, dl := range e.deflt {
			if guardedBy(dl.Block(), e.custom) {
				continue
			}
			// the fallback lives in a helper of its own: every call of it must sit on the not-found branch
			okCalls, calls := true, 0
			for g, ge := range per {
				for _, c := range callsIn(g, false, func(o *types.Func) bool { return h.Object() != nil && o == h.Object() }) {
					calls++
					if !guardedBy(c.(ssa.Instruction).Block(), ge.custom) {
						okCalls = false
					}
				}
			}
			if calls == 0 || !okCalls {
				r.Bad(site, p.PosStr(dl.Pos()), "enum.DefaultTransformers is consulted without a failed lookup in ctx.EnumTransformers before it: a transformer the program registered under a built-in name is replaced by the built-in one")
				return
			}
		}
	}
	r.OK(site, p.PosStr(fi.Decl.Pos()), "the built-in table is the fallback")
}

// ---------------------------------------------------------------------------
// C18.R9 / C12.R20 / C08.R17: with enum detection switched off no type is an enum, for every caller

func enumDisabledRule(p *Prog, r *Report, id string) {
	r.Rule(id, "`enum no` switches enum handling off for every consumer, not only for the enum builder: evaluated with cfg.Enabled = false, xtype.loadEnum returns the shared not-an-enum value on every path (generator.shouldCreateSubMethod and builder.Enum read Type.Enum(...).OK), so no enum switch — and no fmt import for its @error/@panic action — is emitted for a method that disabled it", 1)
	fi, sf := needFunc(p, r, "xtype.loadEnum")
	if fi == nil {
		return
	}
	nRead := 0
	sc := &absScenario{
		assume: func(v ssa.Value, _ func(ssa.Value) absVal) (absVal, bool) {
			if loadsFieldNamed(v, "Enabled") {
				nRead++
				return aBool(false), true
			}
			return aUnknown, false
		},
	}
	isDisabled := func(v ssa.Value) bool {
		u, ok := v.(*ssa.UnOp)
		if !ok {
			return false
		}
		g, ok := u.X.(*ssa.Global)
		return ok && g.Name() == "disabled"
	}
	got := absReach(sf, sc, func(ret *ssa.Return, eval func(ssa.Value) absVal) bool {
		return len(ret.Results) == 1 && !isDisabled(ret.Results[0])
	})
	site := "xtype.loadEnum/disabled when enum detection is off"
	switch {
	case nRead == 0:
		r.Bad(site, p.PosStr(fi.Decl.Pos()), "cfg.Enabled is not read: a type is reported as enum although the method (or converter) says `enum no` — callers other than the enum builder (generator.shouldCreateSubMethod) create an enum conversion with the converter-level settings")
	case got != nil:
		r.Bad(site, p.PosStr(got.Pos()), "with cfg.Enabled = false a path still returns a freshly detected enum")
	default:
		r.OK(site, p.PosStr(fi.Decl.Pos()), "Enabled = false ⇒ the shared `disabled` value on every path")
	}
}

// ---------------------------------------------------------------------------
// C06.R20: a declared method whose pair has an extend function forwards to it, whatever else is configured

func forwardToExtendRule(p *Prog, r *Report, id string) {
	r.Rule(id, "a declared method for a pair that also has an extend function returns that function's result: evaluated with g.extend.Get(…) answering (def ≠ nil, nil) in generator.buildMethod, every successful path after the lookup passes g.delegateMethod and none reaches buildNoLookup — no further condition (field settings on the method, its name …) sends the method back to the automatic conversion while nested occurrences still call the function", 1)
	fi, sf := needFunc(p, r, "generator.(*generator).buildMethod")
	if fi == nil {
		return
	}
	isExtendGet := func(v ssa.Value) bool {
		c, ok := v.(*ssa.Call)
		if !ok || ssaCalleeObj(c) == nil || ssaCalleeObj(c).Name() != "Get" || recvTypeName(ssaCalleeObj(c)) != "Index" || len(c.Call.Args) == 0 {
			return false
		}
		return loadsField(c.Call.Args[0], "extend")
	}
	nGet := 0
	sc := &absScenario{
		assume: func(v ssa.Value, _ func(ssa.Value) absVal) (absVal, bool) {
			if ex, ok := v.(*ssa.Extract); ok && isExtendGet(ex.Tuple) {
				if ex.Index == 0 {
					return aNonNil, true
				}
				return aNil, true
			}
			return aUnknown, false
		},
		marks: func(in ssa.Instruction) (string, bool) {
			if c, ok := in.(*ssa.Call); ok && isExtendGet(c) {
				nGet++
				return "asked", true
			}
			c, ok := in.(ssa.CallInstruction)
			if !ok || ssaCalleeObj(c) == nil {
				return "", false
			}
			switch ssaCalleeObj(c).Name() {
			case "delegateMethod":
				return "fwd", true
			case "buildNoLookup", "assignNoLookup", "convertTo":
				return "auto", true
			}
			return "", false
		},
	}
	got := absReachState(sf, sc, func(ret *ssa.Return, eval func(ssa.Value) absVal, st map[string]absVal) bool {
		if !successGoal(ret, eval) {
			return false
		}
		_, asked := st["@asked"]
		_, fwd := st["@fwd"]
		return asked && !fwd
	})
	site := "generator.buildMethod/forwards to the extend function"
	switch {
	case nGet == 0:
		r.Bad(site, p.PosStr(fi.Decl.Pos()), "buildMethod no longer asks g.extend for a function with the method's own signature")
	case got != nil:
		r.Bad(site, p.PosStr(got.Pos()), "although an extend function exists for the declared method's pair, a path returns success without delegateMethod: the declared method gets an automatic body while nested occurrences of the pair still call the function")
	default:
		r.OK(site, p.PosStr(fi.Decl.Pos()), "def ≠ nil ⇒ delegateMethod on every successful path")
	}
}

// ---------------------------------------------------------------------------
// C07.R12: element and entry conversions receive the extended error path

func pathExtendedPerComponentRule(p *Prog, r *Report, id string) {
	r.Rule(id, "the location of a failing element names its index / key: in List.Assign every gen.Build/gen.Assign call receives as ErrorPath the result of <path>.Index(…), in Map.Assign the result of <path>.Key(…) — never the container's own path or a value that is only sometimes extended (a φ of the two)", 3)
	for _, k := range []struct{ fn, want string }{
		{"builder.(*List).Assign", "Index"},
		{"builder.(*Map).Assign", "Key"},
	} {
		fi, _ := needFunc(p, r, k.fn)
		if fi == nil {
			continue
		}
		n := 0
		for _, rf := range p.Region(k.fn) {
			sf := p.SSAFunc(rf)
			if sf == nil {
				continue
			}
			allInstrs(sf, true, func(in ssa.Instruction) {
				c, ok := in.(ssa.CallInstruction)
				if !ok || !c.Common().IsInvoke() {
					return
				}
				com := c.Common()
				if (com.Method.Name() != "Build" && com.Method.Name() != "Assign") || !isNamed(com.Value.Type(), modPath+"/builder", "Generator") {
					return
				}
				for _, a := range com.Args {
					if !isNamed(a.Type(), modPath+"/builder", "ErrorPath") {
						continue
					}
					n++
					site := fmt.Sprintf("%s/gen.%s#%d path extended by %s", k.fn, com.Method.Name(), n, k.want)
					v := stripConv(a)
					call, isCall := v.(*ssa.Call)
					if isCall && ssaCalleeObj(call) != nil && ssaCalleeObj(call).Name() == k.want && recvTypeName(ssaCalleeObj(call)) == "ErrorPath" {
						r.OK(site, p.PosStr(in.Pos()), "ErrorPath."+k.want+"(…)")
					} else {
						r.Bad(site, p.PosStr(in.Pos()), "the component conversion receives `"+v.String()+"` as error path, not the result of ErrorPath."+k.want+"(…): for some inputs the reported location stops at the container and does not name the failing element")
					}
				}
			})
		}
		if n == 0 {
			r.Bad(k.fn+"/component conversions", p.PosStr(fi.Decl.Pos()), "no gen.Build/gen.Assign call with an ErrorPath found")
		}
	}
}

// ---------------------------------------------------------------------------
// C05.R15 / C10.R10: entries of Method.Fields are only created by the get-or-create accessor

func fieldsAccessorRule(p *Prog, r *Report, id string) {
	r.Rule(id, "settings for one target field accumulate in one entry: the only function that stores into a config.Method.Fields map is the get-or-create accessor config.(*Method).Field, and it stores only on the not-found branch of its own lookup — a later `map` line can never replace the entry that already holds `ignore` (or vice versa), so the outcome does not depend on losing an earlier line", 1)
	n := 0
	for _, fi := range p.Funcs {
		sf := p.SSAFunc(fi)
		if sf == nil || !p.IsOwnPath(fi.Pkg.PkgPath) {
			continue
		}
		allInstrs(sf, false, func(in ssa.Instruction) {
			mu, ok := in.(*ssa.MapUpdate)
			if !ok || !loadsField(mu.Map, "Fields") {
				return
			}
			mt, ok := mu.Map.Type().Underlying().(*types.Map)
			if !ok {
				return
			}
			pt, ok := mt.Elem().(*types.Pointer)
			if !ok || !isNamed(pt.Elem(), modPath+"/config", "FieldMapping") {
				return
			}
			n++
			site := fmt.Sprintf("%s/Fields[…] = …#%d", fi.Name(), n)
			if fi.Lit == nil && fi.Obj != nil && fi.Obj.Name() == "Field" && recvTypeName(fi.Obj) == "Method" {
				guarded := dominatedByEdge(mu.Block(), false, func(cond ssa.Value) bool {
					ex, isEx := cond.(*ssa.Extract)
					if !isEx || ex.Index != 1 {
						return false
					}
					l, isL := ex.Tuple.(*ssa.Lookup)
					return isL && l.CommaOk && loadsField(l.X, "Fields")
				})
				if guarded {
					r.OK(site, p.PosStr(in.Pos()), "only when no entry exists yet")
				} else {
					r.Bad(site, p.PosStr(in.Pos()), "the accessor overwrites an existing entry: settings recorded earlier for the field are lost")
				}
				return
			}
			r.Bad(site, p.PosStr(in.Pos()), "an entry of Method.Fields is assigned outside the get-or-create accessor Method.Field: an entry created by an earlier setting line for the same target field (ignore, map, …) is replaced and its flags are lost")
		})
	}
	if n == 0 {
		r.Unresolved("stores into config.Method.Fields")
	}
}

// ---------------------------------------------------------------------------
// C14.R14: goverter:context names are consulted whatever arg:context:regex says

func contextNamesAlwaysConsultedRule(p *Prog, r *Report, id string) {
	r.Rule(id, "a parameter is a context if it was declared with goverter:context ARG *or* matches arg:context:regex: in method.Parse no path classifies a parameter as source / additional source (store of ArgUseSource / ArgUseMultiSource into Arg.Use) without having looked the name up in LocalOpts.Context; a helper counts as the lookup only if each of its returns that may be false passes the lookup", 2)
	fi, sf := needFunc(p, r, "method.Parse")
	if fi == nil {
		return
	}
	isCtxLookup := func(in ssa.Instruction) bool {
		l, ok := in.(*ssa.Lookup)
		if !ok {
			return false
		}
		if loadsField(l.X, "Context") {
			if f, isF := l.X.(*ssa.Field); isF {
				return isNamed(f.X.Type(), modPath+"/method", "LocalOpts")
			}
			if u, isU := l.X.(*ssa.UnOp); isU {
				if fa, isFA := u.X.(*ssa.FieldAddr); isFA {
					if pt, isP := fa.X.Type().Underlying().(*types.Pointer); isP {
						return isNamed(pt.Elem(), modPath+"/method", "LocalOpts")
					}
				}
			}
		}
		return false
	}
	// helpers that always consult the table before answering false
	consults := map[*ssa.Function]bool{}
	var helpers []*ssa.Function
	names := map[*ssa.Function]string{}
	for _, rf := range p.Region("method.Parse") {
		if h := p.SSAFunc(rf); h != nil && h != sf {
			helpers = append(helpers, h)
			names[h] = rf.Name()
		}
	}
	for _, af := range sf.AnonFuncs {
		helpers = append(helpers, af)
		names[af] = af.Name()
	}
	for _, h := range helpers {
		if len(h.Blocks) == 0 {
			continue
		}
		has := false
		allInstrs(h, false, func(in ssa.Instruction) {
			if isCtxLookup(in) {
				has = true
			}
		})
		if !has {
			continue
		}
		leak := existsPath(h.Blocks[0], 0, func(in ssa.Instruction) bool {
			ret, ok := in.(*ssa.Return)
			if !ok {
				return false
			}
			for _, res := range ret.Results {
				if c, isC := res.(*ssa.Const); isC && c.Value != nil && c.Value.String() == "true" {
					return false
				}
			}
			return true
		}, isCtxLookup)
		if leak == nil {
			consults[h] = true
		} else {
			r.Note("method."+names[h]+"/consults goverter:context names", p.PosStr(leak.Pos()), "this helper can answer without the lookup in LocalOpts.Context — it does not count as the lookup")
		}
	}
	consult := func(in ssa.Instruction) bool {
		if isCtxLookup(in) {
			return true
		}
		if c, ok := in.(ssa.CallInstruction); ok {
			if callee := c.Common().StaticCallee(); callee != nil && consults[callee] {
				return true
			}
		}
		return false
	}
	want := map[string]bool{}
	if mp := p.Pkg("method"); mp != nil {
		for _, nme := range []string{"ArgUseSource", "ArgUseMultiSource"} {
			if c, ok := mp.Types.Scope().Lookup(nme).(*types.Const); ok {
				want[c.Val().ExactString()] = true
			}
		}
	}
	if len(want) != 2 {
		r.Unresolved("method.ArgUseSource / ArgUseMultiSource")
		return
	}
	n := 0
	nLook := 0
	allInstrs(sf, true, func(in ssa.Instruction) {
		if isCtxLookup(in) {
			nLook++
		}
	})
	r.Analysed["context_name_lookups_in_Parse"] = nLook
	allInstrs(sf, true, func(in ssa.Instruction) {
		st, ok := in.(*ssa.Store)
		if !ok {
			return
		}
		fa, ok := st.Addr.(*ssa.FieldAddr)
		if !ok || fieldName(fa) != "Use" {
			return
		}
		c, ok := st.Val.(*ssa.Const)
		if !ok || c.Value == nil || !want[c.Value.ExactString()] {
			return
		}
		n++
		site := fmt.Sprintf("method.Parse/Arg.Use = %s#%d after the context lookup", c.Value.ExactString(), n)
		if in.Parent() != sf {
			r.Note(site, p.PosStr(in.Pos()), "stored inside a closure")
			return
		}
		goal := func(x ssa.Instruction) bool { return x == in }
		if w := existsPathPhi(sf.Blocks[0], goal, consult); w != nil {
			r.Bad(site, p.PosStr(in.Pos()), "a path classifies the parameter as a conversion source without having consulted the goverter:context names (LocalOpts.Context): with arg:context:regex configured, an explicitly declared context that the regex does not match becomes a second source")
		} else {
			r.OK(site, p.PosStr(in.Pos()), "every path passes the lookup in LocalOpts.Context")
		}
	})
	if n == 0 {
		r.Unresolved("stores of ArgUseSource / ArgUseMultiSource in method.Parse")
	}
}

// existsPathPhi is existsPath from the head of block b, but a branch on a φ of the same block (the value form of
// `a || b` / `a && b`) follows only the successor that agrees with the constant the φ has for the edge taken.
func existsPathPhi(b *ssa.BasicBlock, goal, avoid func(ssa.Instruction) bool) ssa.Instruction {
	type state struct{ b, from *ssa.BasicBlock }
	seen := map[state]bool{}
	var walk func(b, from *ssa.BasicBlock) ssa.Instruction
	walk = func(b, from *ssa.BasicBlock) ssa.Instruction {
		for _, in := range b.Instrs {
			if avoid != nil && avoid(in) {
				return nil
			}
			if goal(in) {
				return in
			}
		}
		succs := b.Succs
		if iff, ok := b.Instrs[len(b.Instrs)-1].(*ssa.If); ok && from != nil && len(b.Succs) == 2 {
			if phi, isPhi := iff.Cond.(*ssa.Phi); isPhi && phi.Block() == b {
				for i, pb := range b.Preds {
					if pb != from || i >= len(phi.Edges) {
						continue
					}
					if c, isC := phi.Edges[i].(*ssa.Const); isC && c.Value != nil {
						if c.Value.String() == "true" {
							succs = b.Succs[:1]
						} else if c.Value.String() == "false" {
							succs = b.Succs[1:]
						}
					}
				}
			}
		}
		for _, s := range succs {
			st := state{s, b}
			if seen[st] {
				continue
			}
			seen[st] = true
			if r := walk(s, b); r != nil {
				return r
			}
		}
		return nil
	}
	return walk(b, nil)
}

// ---------------------------------------------------------------------------
// C04.R9: only a fresh variable is addressable

func variableFlagRule(p *Prog, r *Report, id string) {
	r.Rule(id, "JenID.Pointer takes the address of an expression directly when JenID.Variable is set, so the flag may only be true for expressions that are fresh locals of the generated code: Variable is written nowhere but in the composite literals of xtype.VariableID (true) and xtype.OtherID (false) — in particular JenID.Deref never marks `*source` addressable, which would make &(*source) the source's own pointer", 2)
	n := 0
	for _, fi := range p.Funcs {
		sf := p.SSAFunc(fi)
		if sf == nil || !p.IsOwnPath(fi.Pkg.PkgPath) || strings.Contains(fi.Pkg.PkgPath, "/example") {
			continue
		}
		allInstrs(sf, false, func(in ssa.Instruction) {
			st, ok := in.(*ssa.Store)
			if !ok {
				return
			}
			fa, ok := st.Addr.(*ssa.FieldAddr)
			if !ok || fieldName(fa) != "Variable" {
				return
			}
			pt, ok := fa.X.Type().Underlying().(*types.Pointer)
			if !ok || !isNamed(pt.Elem(), modPath+"/xtype", "JenID") {
				return
			}
			n++
			site := fmt.Sprintf("%s/JenID.Variable = …#%d", fi.Name(), n)
			c, isConst := st.Val.(*ssa.Const)
			_, fresh := fa.X.(*ssa.Alloc)
			name := ""
			if fi.Obj != nil && fi.Lit == nil {
				name = fi.Obj.Name()
			}
			prm, isPrm := st.Val.(*ssa.Parameter)
			switch {
			case fresh && isConst && c.Value != nil && ((name == "VariableID" && c.Value.String() == "true") || c.Value.String() == "false"):
				r.OK(site, p.PosStr(in.Pos()), "constructor literal")
			case fresh && isPrm && fi.Obj != nil && !fi.Obj.Exported() && variableCallersOK(p, sf, prm):
				r.OK(site, p.PosStr(in.Pos()), "private constructor: every caller passes a constant, true only from VariableID")
			default:
				r.Bad(site, p.PosStr(in.Pos()), "JenID.Variable is written outside the constructors VariableID/OtherID (value "+st.Val.String()+"): an expression that is not a fresh local — e.g. a dereferenced source pointer — becomes addressable, and JenID.Pointer returns &(expr): the target then points into the source")
			}
		})
	}
	if n < 1 {
		r.Unresolved("constructor stores of JenID.Variable")
	}
}

// ---------------------------------------------------------------------------
// C11.R14 / C10.R11: an update position alone enables the zero guards

func updatePositionSufficesRule(p *Prog, r *Report, id string) {
	r.Rule(id, "update:ignoreZeroValueField applies wherever a source is applied on top of an existing value — update methods *and* every position built with AssignTo.Update (default:update, T → *U on top of FUNC's result): evaluated with isUpdate = true, ctx.Conf.UpdateTarget = false, a struct source and IgnoreStructZeroValueField = true, builder.shouldCheckAgainstZero cannot return false — no further setting (DefaultUpdate …) is required", 1)
	fi, sf := needFunc(p, r, "builder.shouldCheckAgainstZero")
	if fi == nil {
		return
	}
	var isUpd *ssa.Parameter
	for _, prm := range sf.Params {
		if b, ok := prm.Type().Underlying().(*types.Basic); ok && b.Kind() == types.Bool {
			isUpd = prm
			break
		}
	}
	if isUpd == nil {
		r.Unresolved("isUpdate parameter of builder.shouldCheckAgainstZero")
		return
	}
	sc := &absScenario{}
	sc.assume = func(v ssa.Value, _ func(ssa.Value) absVal) (absVal, bool) {
		if scOrigin(sc, v) == ssa.Value(isUpd) {
			return aBool(true), true
		}
		if loadsFieldNamed(v, "UpdateTarget") {
			return aBool(false), true
		}
		if loadsFieldNamed(v, "IgnoreStructZeroValueField") {
			return aBool(true), true
		}
		if loadsFieldNamed(v, "Struct") {
			return aBool(true), true
		}
		if loadsFieldNamed(v, "DefaultUpdate") || loadsFieldNamed(v, "UseConstructor") {
			return aBool(false), true
		}
		return aUnknown, false
	}
	got := absReach(sf, sc, falseGoal)
	site := "builder.shouldCheckAgainstZero/isUpdate suffices"
	if got != nil {
		r.Bad(site, p.PosStr(got.Pos()), "at an update position (AssignTo.Update) with a struct source and update:ignoreZeroValueField:struct the function can still answer false: the zero guard is left out, so a zero source field overwrites the value FUNC (or the caller) put there")
	} else {
		r.OK(site, p.PosStr(fi.Decl.Pos()), "isUpdate ∧ struct ∧ IgnoreStructZeroValueField ⇒ true")
	}
}

// ---------------------------------------------------------------------------
// C07.R13: whoever asks the generator for a conversion has been given the error path

func pathParameterRule(p *Prog, r *Report, id string) {
	r.Rule(id, "a conversion call can only report an accurate location if the caller was told where it is: every named function of package builder that invokes Generator.Build / Generator.Assign has a parameter of type builder.ErrorPath (not a variadic or optional substitute callers may leave out), so C07.R10's pass-through obligation applies to it and to each of its callers", 10)
	n := 0
	for _, fi := range p.Funcs {
		if fi.Lit != nil || fi.Obj == nil || relPkg(fi.Pkg.PkgPath) != "builder" {
			continue
		}
		sf := p.SSAFunc(fi)
		if sf == nil {
			continue
		}
		calls := 0
		var first ssa.Instruction
		allInstrs(sf, true, func(in ssa.Instruction) {
			c, ok := in.(ssa.CallInstruction)
			if !ok || !c.Common().IsInvoke() {
				return
			}
			com := c.Common()
			if (com.Method.Name() == "Build" || com.Method.Name() == "Assign") && isNamed(com.Value.Type(), modPath+"/builder", "Generator") {
				calls++
				if first == nil {
					first = in
				}
			}
		})
		if calls == 0 {
			continue
		}
		n++
		site := fi.Name() + "/has an ErrorPath parameter"
		sig := fi.Obj.Type().(*types.Signature)
		has := false
		for i := 0; i < sig.Params().Len(); i++ {
			if isNamed(sig.Params().At(i).Type(), modPath+"/builder", "ErrorPath") {
				if _, isPtr := sig.Params().At(i).Type().(*types.Pointer); !isPtr {
					has = true
				}
			}
		}
		if has {
			r.OK(site, p.PosStr(fi.Decl.Pos()), fmt.Sprintf("%d conversion call(s)", calls))
		} else {
			r.Bad(site, p.PosStr(first.Pos()), "this function asks the generator for a conversion but has no builder.ErrorPath parameter: the path it passes on is made up locally or comes from an optional (variadic) argument a caller can leave out — errors from that conversion lose the location of the enclosing field, index or key")
		}
	}
	if n == 0 {
		r.Unresolved("functions of package builder that call Generator.Build/Assign")
	}
}

// ---------------------------------------------------------------------------
// C15.R14 / C16.R10: load errors of the existing output package do not matter for its name

func outputPackageErrorsIgnoredRule(p *Prog, r *Report, id string) {
	r.Rule(id, "the existing package at the output location gives its name whether or not it currently type-checks (goverter loads with the build tag that hides its own output, so hand-written files that use the generated code never type-check during the run): in config.resolveOutputPackage (or the function it was inlined into) and its private helpers, the *packages.Package obtained from GetUncheckedPkg is tested against nil only — its Errors / TypeErrors / IllTyped fields are never read", 1)
	anchor := p.anchorOrCaller("config.resolveOutputPackage")
	anchorKey := "config.resolveOutputPackage"
	if p.Func(anchorKey) == nil {
		anchorKey = inlinedInto[anchorKey]
	}
	if anchor == nil {
		r.Unresolved("config.resolveOutputPackage")
		return
	}
	nLookup, bad := 0, ""
	for _, rf := range p.Region(anchorKey) {
		sf := p.SSAFunc(rf)
		if sf == nil {
			continue
		}
		allInstrs(sf, true, func(in ssa.Instruction) {
			if c, ok := in.(ssa.CallInstruction); ok && ssaCalleeObj(c) != nil && ssaCalleeObj(c).Name() == "GetUncheckedPkg" {
				nLookup++
			}
			fa, ok := in.(*ssa.FieldAddr)
			if !ok {
				return
			}
			pt, ok := fa.X.Type().Underlying().(*types.Pointer)
			if !ok || !isNamed(pt.Elem(), "golang.org/x/tools/go/packages", "Package") {
				return
			}
			switch fieldName(fa) {
			case "Errors", "TypeErrors", "IllTyped":
				bad = p.PosStr(in.Pos()) + ": reads " + fieldName(fa) + " of the package found at the output location"
			}
		})
	}
	site := "config.resolveOutputPackage/load errors ignored"
	switch {
	case nLookup == 0:
		r.Unresolved("GetUncheckedPkg call in the region of config.resolveOutputPackage")
	case bad != "":
		r.Bad(site, p.PosStr(anchor.Decl.Pos()), bad+": an existing output package that does not type-check during the run (it usually cannot: its generated half is hidden by the build tag) no longer gives its name, and the emitted file gets the directory-derived package clause next to files that say otherwise")
	default:
		r.OK(site, p.PosStr(anchor.Decl.Pos()), fmt.Sprintf("%d unchecked lookup(s); only nil is tested", nLookup))
	}
}

// ---------------------------------------------------------------------------
// C18.R10: the zero value of a basic type names no type

func basicZeroUntypedRule(p *Prog, r *Report, id string) {
	r.Rule(id, "zero values of basic types are untyped constants (\"\", 0, false, nil): in xtype.ZeroValue and its private helpers no type-rendering function (toCode*, TypeAsJen) receives a *types.Basic — spelling a basic zero value with its type (unsafe.Pointer(nil)) would make the generated file import unsafe for a plain comparison", 1)
	fi, _ := needFunc(p, r, "xtype.ZeroValue")
	if fi == nil {
		return
	}
	n, bad := 0, ""
	for _, rf := range p.Region("xtype.ZeroValue") {
		sf := p.SSAFunc(rf)
		if sf == nil {
			continue
		}
		allInstrs(sf, true, func(in ssa.Instruction) {
			c, ok := in.(ssa.CallInstruction)
			if !ok || ssaCalleeObj(c) == nil {
				return
			}
			o := ssaCalleeObj(c)
			if objPkgPath(o) != modPath+"/xtype" || !(strings.HasPrefix(o.Name(), "toCode") || o.Name() == "TypeAsJen") {
				return
			}
			n++
			if o.Name() == "toCodeBasic" {
				bad = p.PosStr(in.Pos()) + ": toCodeBasic called while rendering a zero value"
				return
			}
			for _, a := range c.Common().Args {
				v := a
				if mi, isMI := v.(*ssa.MakeInterface); isMI {
					v = mi.X
				}
				if pt, isP := v.Type().(*types.Pointer); isP && isNamed(pt.Elem(), "go/types", "Basic") {
					bad = p.PosStr(in.Pos()) + ": " + o.Name() + " receives a *types.Basic while rendering a zero value"
				}
			}
		})
	}
	site := "xtype.ZeroValue/basic zero values are untyped"
	if bad != "" {
		r.Bad(site, p.PosStr(fi.Decl.Pos()), bad+": the zero value of a basic type is spelled with its type — for unsafe.Pointer that is a qualified identifier, and the generated file imports unsafe")
	} else {
		r.OK(site, p.PosStr(fi.Decl.Pos()), fmt.Sprintf("%d type renderings, all of composite types", n))
	}
}

// singleStoreInto returns the value of the only store into the cell, or nil.
func singleStoreInto(al *ssa.Alloc) ssa.Value {
	var val ssa.Value
	n := 0
	if al.Referrers() == nil {
		return nil
	}
	for _, ref := range *al.Referrers() {
		if st, ok := ref.(*ssa.Store); ok && st.Addr == ssa.Value(al) {
			n++
			val = st.Val
		}
	}
	if n == 1 {
		return val
	}
	return nil
}

// variableCallersOK: every call of the private constructor fn passes a constant for prm — true only inside VariableID.
func variableCallersOK(p *Prog, fn *ssa.Function, prm *ssa.Parameter) bool {
	idx := -1
	for i, q := range fn.Params {
		if q == prm {
			idx = i
		}
	}
	if idx < 0 {
		return false
	}
	calls := 0
	ok := true
	for _, fi := range p.Funcs {
		g := p.SSAFunc(fi)
		if g == nil || !p.IsOwnPath(fi.Pkg.PkgPath) {
			continue
		}
		allInstrs(g, true, func(in ssa.Instruction) {
			// any use of the constructor as a value (not a direct call) defeats the audit
			c, isCall := in.(ssa.CallInstruction)
			if !isCall || c.Common().StaticCallee() != fn {
				for _, op := range in.Operands(nil) {
					if op != nil && *op == ssa.Value(fn) {
						if !isCall {
							ok = false
						}
					}
				}
				return
			}
			calls++
			args := c.Common().Args
			if idx >= len(args) {
				ok = false
				return
			}
			k, isK := args[idx].(*ssa.Const)
			if !isK || k.Value == nil {
				ok = false
				return
			}
			if k.Value.String() == "true" && !(fi.Lit == nil && fi.Obj != nil && fi.Obj.Name() == "VariableID") {
				ok = false
			}
		})
	}
	return ok && calls > 0
}
