package main

// Canonical parameter names.
//
// Many rules compare the text of an expression with what the rule expects
// ("sourceID.Code", "assignTo.Stmt", "target.PointerInner" …).  That text must not
// depend on how the function under analysis happens to spell its parameters: renaming
// a parameter is behaviour-preserving.  At load time every parameter whose *type*
// gives it a well-known role in goverter's builder/generator layer is assigned the
// canonical name of that role; exprString prints identifiers referring to such
// parameters under the canonical name.  (Locals are resolved by the rules themselves,
// through their defining expression.)

import (
	"go/ast"
	"go/types"
	"strconv"
	"strings"
	"sync"
)

var canonMu sync.RWMutex
var canonIdents = map[*ast.Ident]string{}

func canonName(id *ast.Ident) (string, bool) {
	canonMu.RLock()
	defer canonMu.RUnlock()
	c, ok := canonIdents[id]
	return c, ok
}

// paramCanonName returns the name under which exprString prints the i-th parameter of fi.
func paramCanonName(fi *FuncInfo, i int) string {
	if fi.Decl.Type.Params == nil {
		return ""
	}
	k := 0
	for _, f := range fi.Decl.Type.Params.List {
		if len(f.Names) == 0 {
			k++
			continue
		}
		for _, n := range f.Names {
			if k == i {
				if c, ok := canonName(n); ok {
					return c
				}
				return n.Name
			}
			k++
		}
	}
	return ""
}

// substText rewrites the text of an expression of helper h (as printed by exprString) into the caller's terms:
// every parameter of h is replaced by the text of the argument the call passes for it.
func substText(h *FuncInfo, subst map[types.Object]ast.Expr, s string) string {
	sig := h.Obj.Type().(*types.Signature)
	// two passes (placeholders first) so that an argument's text is never itself rewritten
	args := map[string]string{}
	for i := 0; i < sig.Params().Len(); i++ {
		if a, ok := subst[sig.Params().At(i)]; ok {
			if name := paramCanonName(h, i); name != "" && name != "_" {
				ph := "\x00" + strconv.Itoa(i) + "\x00"
				s = replaceIdent(s, name, ph)
				args[ph] = exprString(a)
			}
		}
	}
	for ph, a := range args {
		s = strings.ReplaceAll(s, ph, a)
	}
	return s
}

// roleOfType maps a parameter type to the base of its canonical name.
func roleOfType(t types.Type) string {
	switch {
	case isNamed(t, modPath+"/builder", "Generator"):
		return "gen"
	case isNamed(derefType(t), modPath+"/builder", "MethodContext") && t != derefType(t):
		return "ctx"
	case isNamed(derefType(t), modPath+"/builder", "AssignTo") && t != derefType(t):
		return "assignTo"
	case isNamed(derefType(t), modPath+"/xtype", "JenID") && t != derefType(t):
		return "sourceID"
	case isNamed(derefType(t), modPath+"/xtype", "Type") && t != derefType(t):
		return "source" // second one: target
	case isNamed(t, modPath+"/builder", "ErrorPath"):
		return "errPath"
	case isNamed(derefType(t), modPath+"/method", "Definition") && t != derefType(t):
		return "definition"
	case isNamed(derefType(t), modPath+"/generator", "generator"):
		return "g"
	}
	return ""
}

// registerCanonNames records canonical names for the parameters of fd.
func registerCanonNames(info *types.Info, fd *ast.FuncDecl, obj *types.Func) {
	if fd.Type.Params == nil {
		return
	}
	names := map[types.Object]string{}
	count := map[string]int{}
	var fields []*ast.Field
	if fd.Recv != nil {
		fields = append(fields, fd.Recv.List...)
	}
	fields = append(fields, fd.Type.Params.List...)
	for _, f := range fields {
		for _, n := range f.Names {
			o := info.ObjectOf(n)
			if o == nil || n.Name == "_" {
				continue
			}
			role := roleOfType(o.Type())
			if role == "" {
				continue
			}
			count[role]++
			c := role
			switch {
			case role == "source" && count[role] == 2:
				c = "target"
			case count[role] > 1:
				c = role + string(rune('0'+count[role]))
			}
			names[o] = c
		}
	}
	if len(names) == 0 {
		return
	}
	// a canonical name must not capture another identifier of the function
	used := map[string]bool{}
	ast.Inspect(fd, func(n ast.Node) bool {
		if id, ok := n.(*ast.Ident); ok {
			if o := info.ObjectOf(id); o != nil {
				if _, isParam := names[o]; !isParam {
					used[id.Name] = true
				}
			}
		}
		return true
	})
	canonMu.Lock()
	defer canonMu.Unlock()
	ast.Inspect(fd, func(n ast.Node) bool {
		if id, ok := n.(*ast.Ident); ok {
			if c, ok := names[info.ObjectOf(id)]; ok && !used[c] {
				canonIdents[id] = c
			}
		}
		return true
	})
}
