package main

// A small path-sensitive abstract evaluator over go/ssa, used to decide rules of the
// form "under these assumptions about its inputs, function F cannot return X".
//
// It is conditional constant propagation along CFG paths: a scenario fixes the value
// of some *atoms* (SSA values recognised by the caller: a length, a flag read, the
// result of a predicate call), branch conditions are evaluated over {true, false,
// unknown} — an unknown condition follows both edges — φ-values take the operand of
// the edge the path came through, and a few struct fields can be *tracked*: their
// loads yield what the path last stored.  Nothing is executed and no solver is
// involved; the answer is "some path reaches the goal" or "none does".
//
// Because an unknown condition explores both successors the search over-approximates
// the feasible paths: "unreachable" is a proof under the stated assumptions,
// "reachable" may be spurious.  Rules therefore use it in the sound direction only
// (a forbidden result must be unreachable) and use "reachable" answers merely as a
// vacuity control (the permitted result is still possible).

import (
	"fmt"
	"go/constant"
	"go/token"
	"go/types"
	"sort"
	"strings"

	"golang.org/x/tools/go/ssa"
)

type absKind int

const (
	absUnknown absKind = iota
	absBool
	absInt
	absNil    // the nil value of a pointer/interface/slice/map
	absNonNil // some non-nil value
	absStr    // a known string
	absStrNE  // some non-empty string (e.g. a constant text with something appended)
)

type absVal struct {
	k absKind
	b bool
	n int64
	s string
}

func (v absVal) String() string {
	switch v.k {
	case absBool:
		return fmt.Sprint(v.b)
	case absInt:
		return fmt.Sprint(v.n)
	case absNil:
		return "nil"
	case absNonNil:
		return "non-nil"
	case absStr:
		return fmt.Sprintf("%q", v.s)
	case absStrNE:
		return "non-empty string"
	}
	return "?"
}

func aBool(b bool) absVal  { return absVal{k: absBool, b: b} }
func aInt(n int64) absVal  { return absVal{k: absInt, n: n} }
func aStr(s string) absVal { return absVal{k: absStr, s: s} }

var (
	aUnknown = absVal{}
	aNil     = absVal{k: absNil}
	aNonNil  = absVal{k: absNonNil}
)

// absScenario describes one evaluation.
type absScenario struct {
	// assume returns the assumed value of an atom, or ok=false if v is not an atom.
	assume func(v ssa.Value, eval func(ssa.Value) absVal) (absVal, bool)
	// tracked fields: name → initial value.  A load of a field with this name yields
	// the last value stored on the path (constant stores only; any other store makes
	// it unknown).  fieldOK restricts which FieldAddr count (nil = by name only).
	tracked map[string]absVal
	fieldOK func(fa *ssa.FieldAddr) bool
	// marks: executing an instruction for which marks returns (name, true) records "@name" = true in
	// the path state (for must-pass-through questions: reach a return without the mark).
	marks func(in ssa.Instruction) (string, bool)
	// marksState is marks with the marks and tracked fields recorded so far on the path (order-sensitive questions:
	// "X executed before any Y").
	marksState func(in ssa.Instruction, state map[string]absVal) (string, bool)
	// unsetMarker: a tracked field still holding aStr(unsetMarker) reads as unknown (the marker only records that no
	// store happened; the code under evaluation must not be steered by it)
	unsetMarker string
	// origin (set by the evaluator): maps a parameter of a helper that is being walked into to the value the caller
	// passed, transitively — atom recognisers use it to see through helpers (nil outside an evaluation: identity)
	origin func(v ssa.Value) ssa.Value
	// entry: start the walk at this block instead of the function's entry (one loop iteration under assumptions);
	// stopAt: reaching this block ends the path — onStop decides whether that counts as reaching the goal
	entry  *ssa.BasicBlock
	stopAt func(b *ssa.BasicBlock) bool
	onStop func(state map[string]absVal) bool
	// noInline: calls of these functions are atomic events for the scenario (never walked into)
	noInline func(callee *ssa.Function) bool
	// onStore may refine the value recorded for a tracked field (e.g. "a stored parameter type is non-nil").
	onStore func(field string, v absVal) absVal
	// calls lets the caller interpret calls (own predicate helpers): return ok=false
	// to leave the result unknown.
	calls func(c *ssa.Call, eval func(ssa.Value) absVal) (absVal, bool)
}

type absPath struct {
	phi   map[*ssa.Phi]absVal
	state map[string]absVal
	cells map[*ssa.Alloc]absVal // local variables that live in memory (captured or address-taken)
	// refine: what a branch already decided about an otherwise unknown value (x != nil taken ⇒ x is non-nil)
	refine map[ssa.Value]absVal
	// calls: the results of calls that were interpreted by walking into the callee (own private helpers)
	calls map[*ssa.Call][]absVal
}

func (p *absPath) clone() *absPath {
	q := &absPath{phi: make(map[*ssa.Phi]absVal, len(p.phi)), state: make(map[string]absVal, len(p.state)), cells: make(map[*ssa.Alloc]absVal, len(p.cells))}
	for k, v := range p.phi {
		q.phi[k] = v
	}
	for k, v := range p.cells {
		q.cells[k] = v
	}
	if len(p.refine) > 0 {
		q.refine = make(map[ssa.Value]absVal, len(p.refine))
		for k, v := range p.refine {
			q.refine[k] = v
		}
	}
	for k, v := range p.state {
		q.state[k] = v
	}
	if len(p.calls) > 0 {
		q.calls = make(map[*ssa.Call][]absVal, len(p.calls))
		for k, v := range p.calls {
			q.calls[k] = v
		}
	}
	return q
}

func (p *absPath) key() string {
	ks := make([]string, 0, len(p.state))
	for k, v := range p.state {
		ks = append(ks, k+"="+v.String())
	}
	for k, v := range p.cells {
		if v.k != absUnknown {
			ks = append(ks, k.Name()+"="+v.String())
		}
	}
	for k, v := range p.refine {
		ks = append(ks, "~"+k.Name()+"="+v.String())
	}
	for k, vs := range p.calls {
		ks = append(ks, fmt.Sprintf("!%s=%v", k.Name(), vs))
	}
	sort.Strings(ks)
	return strings.Join(ks, ",")
}

type absEval struct {
	fn   *ssa.Function
	sc   *absScenario
	nest int
	seen map[string]bool
	// steps bounds the search
	steps int
	// stack of functions being walked (root first): no recursive inlining
	stack []*ssa.Function
	// incomplete: an eligible helper could not be walked within the bounds; tracked fields were forgotten
	incomplete bool
	budget     *int
	relevant   map[*ssa.Function]bool
	origins    map[*ssa.Parameter]ssa.Value
	entry      *ssa.BasicBlock
	stopped    bool
}

func (e *absEval) originOf(v ssa.Value) ssa.Value {
	for i := 0; i < 8; i++ {
		prm, ok := v.(*ssa.Parameter)
		if !ok {
			return v
		}
		o, ok := e.origins[prm]
		if !ok {
			return v
		}
		v = o
	}
	return v
}

// scOrigin resolves v through the scenario's origin map when an evaluation is running.
func scOrigin(sc *absScenario, v ssa.Value) ssa.Value {
	if sc != nil && sc.origin != nil {
		return sc.origin(v)
	}
	return v
}

func constVal(k *ssa.Const) absVal {
	if k.Value == nil {
		// nil constant of a pointer-like type (or zero value of others: treat only nil-able types as nil)
		switch k.Type().Underlying().(type) {
		case *types.Pointer, *types.Interface, *types.Slice, *types.Map, *types.Chan, *types.Signature:
			return aNil
		}
		return aUnknown
	}
	switch k.Value.Kind() {
	case constant.Bool:
		return aBool(constant.BoolVal(k.Value))
	case constant.Int:
		if n, ok := constant.Int64Val(k.Value); ok {
			return aInt(n)
		}
	case constant.String:
		return aStr(constant.StringVal(k.Value))
	}
	return aUnknown
}

func (e *absEval) eval(v ssa.Value, path *absPath, depth int) absVal {
	if v == nil || depth > 24 {
		return aUnknown
	}
	if e.sc.assume != nil {
		if a, ok := e.sc.assume(v, func(y ssa.Value) absVal {
			if y == v {
				return aUnknown
			}
			return e.eval(y, path, depth+1)
		}); ok {
			return a
		}
	}
	if r, ok := path.refine[v]; ok {
		return r
	}
	switch x := v.(type) {
	case *ssa.Const:
		return constVal(x)
	case *ssa.Phi:
		if a, ok := path.phi[x]; ok {
			return a
		}
		return aUnknown
	case *ssa.UnOp:
		switch x.Op {
		case token.NOT:
			a := e.eval(x.X, path, depth+1)
			if a.k == absBool {
				return aBool(!a.b)
			}
			return aUnknown
		case token.MUL:
			if al, ok := x.X.(*ssa.Alloc); ok {
				if cur, ok := path.cells[al]; ok {
					return cur
				}
				return aUnknown
			}
			if fa, ok := x.X.(*ssa.FieldAddr); ok {
				name := fieldName(fa)
				if _, tracked := e.sc.tracked[name]; tracked && (e.sc.fieldOK == nil || e.sc.fieldOK(fa)) {
					if cur, ok := path.state[name]; ok {
						if e.sc.unsetMarker != "" && cur.k == absStr && cur.s == e.sc.unsetMarker {
							return aUnknown
						}
						return cur
					}
				}
			}
			return aUnknown
		case token.SUB:
			a := e.eval(x.X, path, depth+1)
			if a.k == absInt {
				return aInt(-a.n)
			}
		}
		return aUnknown
	case *ssa.BinOp:
		a, b := e.eval(x.X, path, depth+1), e.eval(x.Y, path, depth+1)
		return absBinOp(x.Op, a, b)
	case *ssa.ChangeType:
		return e.eval(x.X, path, depth+1)
	case *ssa.Convert:
		a := e.eval(x.X, path, depth+1)
		if a.k == absInt || a.k == absStr {
			return a
		}
		return aUnknown
	case *ssa.MakeInterface:
		return aNonNil
	case *ssa.Alloc, *ssa.MakeMap, *ssa.MakeSlice, *ssa.MakeChan, *ssa.MakeClosure, *ssa.FieldAddr, *ssa.IndexAddr:
		return aNonNil
	case *ssa.Call:
		if rs, ok := path.calls[x]; ok && len(rs) > 0 {
			return rs[0]
		}
		if b, ok := x.Call.Value.(*ssa.Builtin); ok && b.Name() == "len" && len(x.Call.Args) == 1 {
			a := e.eval(x.Call.Args[0], path, depth+1)
			if a.k == absNil {
				return aInt(0)
			}
			if a.k == absStr {
				return aInt(int64(len(a.s)))
			}
			return aUnknown
		}
		if e.sc.calls != nil {
			if a, ok := e.sc.calls(x, func(y ssa.Value) absVal { return e.eval(y, path, depth+1) }); ok {
				return a
			}
		}
		// error constructors never return nil
		if o := ssaCalleeObj(x); o != nil {
			switch objPkgPath(o) + "." + o.Name() {
			case "fmt.Errorf", "errors.New", modPath + "/builder.NewError":
				return aNonNil
			}
			// (*builder.Error).Lift returns its receiver
			if o.Name() == "Lift" && objPkgPath(o) == modPath+"/builder" && len(x.Call.Args) > 0 {
				return e.eval(x.Call.Args[0], path, depth+1)
			}
		}
		return e.evalCall(x, 0, path, depth)
	case *ssa.Extract:
		if c, ok := x.Tuple.(*ssa.Call); ok {
			if rs, ok := path.calls[c]; ok && x.Index < len(rs) {
				return rs[x.Index]
			}
			return e.evalCall(c, x.Index, path, depth)
		}
		return aUnknown
	}
	return aUnknown
}

// evalCall interprets a call of a boolean-valued closure or own helper of the same
// package by evaluating the callee under the same scenario with its parameters bound
// to the (abstract) arguments and its free variables to the current content of the
// captured cells.  Anything else stays unknown.
func (e *absEval) evalCall(x *ssa.Call, idx int, path *absPath, depth int) absVal {
	if e.nest >= 3 {
		return aUnknown
	}
	callee := x.Call.StaticCallee()
	if callee == nil || len(callee.Blocks) == 0 || x.Call.IsInvoke() {
		return aUnknown
	}
	if callee.Pkg != e.fn.Pkg && callee.Parent() == nil {
		return aUnknown
	}
	res := callee.Signature.Results()
	if idx >= res.Len() || !types.Identical(res.At(idx).Type().Underlying(), types.Typ[types.Bool]) {
		return aUnknown
	}
	args := make([]absVal, len(x.Call.Args))
	for i, a := range x.Call.Args {
		args[i] = e.eval(a, path, depth+1)
	}
	free := map[*ssa.FreeVar]absVal{}
	if mc, ok := x.Call.Value.(*ssa.MakeClosure); ok {
		for i, b := range mc.Bindings {
			if i >= len(callee.FreeVars) {
				break
			}
			// a captured variable is bound by address: remember what the cell holds now
			if al, ok := b.(*ssa.Alloc); ok {
				if cur, ok := path.cells[al]; ok {
					free[callee.FreeVars[i]] = cur
					continue
				}
			}
			free[callee.FreeVars[i]] = aUnknown
		}
	}
	outer := e.sc
	sub := &absScenario{
		tracked: outer.tracked, fieldOK: outer.fieldOK, onStore: outer.onStore, calls: outer.calls, unsetMarker: outer.unsetMarker, origin: outer.origin,
		assume: func(v ssa.Value, ev func(ssa.Value) absVal) (absVal, bool) {
			switch y := v.(type) {
			case *ssa.Parameter:
				for i, prm := range callee.Params {
					if prm == y && i < len(args) {
						return args[i], true
					}
				}
			case *ssa.UnOp:
				if fv, ok := y.X.(*ssa.FreeVar); ok && y.Op == token.MUL {
					if a, ok := free[fv]; ok {
						return a, true
					}
				}
			}
			if outer.assume != nil {
				return outer.assume(v, ev)
			}
			return aUnknown, false
		},
	}
	resultMay := func(want bool) func(ret *ssa.Return, eval func(ssa.Value) absVal) bool {
		return func(ret *ssa.Return, eval func(ssa.Value) absVal) bool {
			if idx >= len(ret.Results) {
				return false
			}
			a := eval(ret.Results[idx])
			return !(a.k == absBool && a.b != want)
		}
	}
	mayTrue := absReachNested(callee, sub, resultMay(true), e.nest+1) != nil
	mayFalse := absReachNested(callee, sub, resultMay(false), e.nest+1) != nil
	switch {
	case mayTrue && !mayFalse:
		return aBool(true)
	case mayFalse && !mayTrue:
		return aBool(false)
	}
	return aUnknown
}

func absBinOp(op token.Token, a, b absVal) absVal {
	// nil comparisons
	isNilish := func(v absVal) bool { return v.k == absNil || v.k == absNonNil }
	if isNilish(a) && isNilish(b) && (op == token.EQL || op == token.NEQ) {
		if a.k == absNonNil && b.k == absNonNil {
			return aUnknown
		}
		eq := a.k == absNil && b.k == absNil
		if op == token.NEQ {
			return aBool(!eq)
		}
		return aBool(eq)
	}
	if a.k == absBool && b.k == absBool {
		switch op {
		case token.EQL:
			return aBool(a.b == b.b)
		case token.NEQ:
			return aBool(a.b != b.b)
		case token.AND, token.LAND:
			return aBool(a.b && b.b)
		case token.OR, token.LOR:
			return aBool(a.b || b.b)
		}
	}
	// short-circuit knowledge with one known operand (non-short-circuit & and | on bools)
	if op == token.AND && ((a.k == absBool && !a.b) || (b.k == absBool && !b.b)) {
		return aBool(false)
	}
	if op == token.OR && ((a.k == absBool && a.b) || (b.k == absBool && b.b)) {
		return aBool(true)
	}
	if a.k == absInt && b.k == absInt {
		switch op {
		case token.EQL:
			return aBool(a.n == b.n)
		case token.NEQ:
			return aBool(a.n != b.n)
		case token.LSS:
			return aBool(a.n < b.n)
		case token.LEQ:
			return aBool(a.n <= b.n)
		case token.GTR:
			return aBool(a.n > b.n)
		case token.GEQ:
			return aBool(a.n >= b.n)
		}
		// arithmetic is deliberately not evaluated: loop counters become unknown after the first
		// iteration, which keeps the number of distinct path states finite (widening)
	}
	if a.k == absStr && b.k == absStr {
		switch op {
		case token.EQL:
			return aBool(a.s == b.s)
		case token.NEQ:
			return aBool(a.s != b.s)
		case token.ADD:
			return aStr(a.s + b.s)
		}
	}
	// concatenation with a known non-empty part is non-empty; a non-empty string differs from ""
	nonEmpty := func(v absVal) bool { return v.k == absStrNE || (v.k == absStr && v.s != "") }
	if op == token.ADD && (nonEmpty(a) || nonEmpty(b)) {
		return absVal{k: absStrNE}
	}
	if (a.k == absStrNE && b.k == absStr && b.s == "") || (b.k == absStrNE && a.k == absStr && a.s == "") {
		switch op {
		case token.EQL:
			return aBool(false)
		case token.NEQ:
			return aBool(true)
		}
	}
	return aUnknown
}

// absReach searches for a path from the entry of fn to a Return satisfying goal.
// goal receives an evaluator bound to the path.  It returns the Return found, or nil.
func absReach(fn *ssa.Function, sc *absScenario, goal func(ret *ssa.Return, eval func(ssa.Value) absVal) bool) *ssa.Return {
	return absReachState(fn, sc, func(ret *ssa.Return, eval func(ssa.Value) absVal, _ map[string]absVal) bool { return goal(ret, eval) })
}

// absReachState is absReach with the tracked-field state of the path handed to the goal.
func absReachState(fn *ssa.Function, sc *absScenario, goal func(ret *ssa.Return, eval func(ssa.Value) absVal, state map[string]absVal) bool) *ssa.Return {
	return absReachN(fn, sc, goal, 0)
}

func absReachNested(fn *ssa.Function, sc *absScenario, goal func(ret *ssa.Return, eval func(ssa.Value) absVal) bool, nest int) *ssa.Return {
	return absReachN(fn, sc, func(ret *ssa.Return, eval func(ssa.Value) absVal, _ map[string]absVal) bool { return goal(ret, eval) }, nest)
}

func absReachN(fn *ssa.Function, sc *absScenario, goal func(ret *ssa.Return, eval func(ssa.Value) absVal, state map[string]absVal) bool, nest int) *ssa.Return {
	if fn == nil || len(fn.Blocks) == 0 {
		return nil
	}
	budget := 0
	e := &absEval{fn: fn, sc: sc, seen: map[string]bool{}, nest: nest, stack: []*ssa.Function{fn}, budget: &budget, relevant: map[*ssa.Function]bool{}, origins: map[*ssa.Parameter]ssa.Value{}}
	sc.origin = e.originOf
	start := &absPath{phi: map[*ssa.Phi]absVal{}, state: map[string]absVal{}, cells: map[*ssa.Alloc]absVal{}}
	for k, v := range sc.tracked {
		start.state[k] = v
	}
	var found *ssa.Return
	e.entry = sc.entry
	e.explore(start, func(ret *ssa.Return, path *absPath) bool {
		if goal(ret, func(v ssa.Value) absVal { return e.eval(v, path, 0) }, path.state) {
			found = ret
			return true
		}
		return false
	})
	if found == nil && e.stopped {
		for _, blk := range fn.Blocks {
			for _, in := range blk.Instrs {
				if ret, ok := in.(*ssa.Return); ok {
					return ret
				}
			}
		}
	}
	if found == nil && e.incomplete {
		// the search was cut off: nothing can be claimed unreachable — report the first return as reachable
		for _, blk := range fn.Blocks {
			for _, in := range blk.Instrs {
				if ret, ok := in.(*ssa.Return); ok {
					return ret
				}
			}
		}
	}
	return found
}

type absOutcome struct {
	state   map[string]absVal
	results []absVal
}

func cloneState(m map[string]absVal) map[string]absVal {
	q := make(map[string]absVal, len(m))
	for k, v := range m {
		q[k] = v
	}
	return q
}

// helperRelevant: walking into the callee can change what the scenario observes — it stores to a tracked field,
// executes an instruction the scenario marks, or calls something that does (bounded depth).
func (e *absEval) helperRelevant(fn *ssa.Function, depth int) bool {
	if v, ok := e.relevant[fn]; ok {
		return v
	}
	e.relevant[fn] = false
	rel := false
	// a small helper is always walked: its results are then as precise as if its body stood at the call
	ninstr := 0
	for _, b := range fn.Blocks {
		ninstr += len(b.Instrs)
	}
	if ninstr <= 80 {
		rel = true
	}
	for _, b := range fn.Blocks {
		for _, in := range b.Instrs {
			if rel {
				break
			}
			if e.sc.marks != nil {
				if _, ok := e.sc.marks(in); ok {
					rel = true
				}
			}
			if e.sc.marksState != nil {
				if _, ok := e.sc.marksState(in, map[string]absVal{}); ok {
					rel = true
				}
			}
			// the helper evaluates one of the scenario's atoms
			if v, isVal := in.(ssa.Value); isVal && e.sc.assume != nil {
				if _, ok := e.sc.assume(v, func(ssa.Value) absVal { return aUnknown }); ok {
					rel = true
				}
			}
			switch x := in.(type) {
			case *ssa.Store:
				if fa, ok := x.Addr.(*ssa.FieldAddr); ok {
					if _, tracked := e.sc.tracked[fieldName(fa)]; tracked {
						rel = true
					}
				}
			case *ssa.Call:
				if depth < 2 {
					if c := x.Call.StaticCallee(); c != nil && e.inlinable(c) && e.helperRelevant(c, depth+1) {
						rel = true
					}
				}
			}
		}
	}
	e.relevant[fn] = rel
	return rel
}

// inlinable: an own, unexported, non-recursive function of the package under evaluation with a body.
func (e *absEval) inlinable(callee *ssa.Function) bool {
	if callee == nil || len(callee.Blocks) == 0 || callee.Pkg == nil || callee.Pkg != e.stack[0].Pkg {
		return false
	}
	if callee.Object() == nil || callee.Object().Exported() {
		return false
	}
	if len(e.stack) > 3 {
		return false
	}
	for _, f := range e.stack {
		if f == callee {
			return false
		}
	}
	return true
}

// inline walks into a relevant private helper: every way the helper can return yields one outcome (the marks and
// tracked fields after it, and its abstract results).  ok=false: the call is not interpreted this way.
func (e *absEval) inline(x *ssa.Call, path *absPath) ([]absOutcome, bool) {
	if x.Call.IsInvoke() {
		return nil, false
	}
	callee := x.Call.StaticCallee()
	if !e.inlinable(callee) || (e.sc.noInline != nil && e.sc.noInline(callee)) || !e.helperRelevant(callee, 0) {
		return nil, false
	}
	ev := func(y ssa.Value) absVal { return e.eval(y, path, 1) }
	if e.sc.calls != nil {
		if _, ok := e.sc.calls(x, ev); ok {
			return nil, false
		}
	}
	if e.sc.assume != nil {
		if _, ok := e.sc.assume(x, ev); ok {
			return nil, false
		}
	}
	args := make([]absVal, len(x.Call.Args))
	for i, a := range x.Call.Args {
		args[i] = e.eval(a, path, 1)
	}
	outer := e.sc
	sub := &absScenario{
		tracked: outer.tracked, fieldOK: outer.fieldOK, onStore: outer.onStore, calls: outer.calls, marks: outer.marks, marksState: outer.marksState, unsetMarker: outer.unsetMarker, noInline: outer.noInline,
		assume: func(v ssa.Value, evf func(ssa.Value) absVal) (absVal, bool) {
			if prm, ok := v.(*ssa.Parameter); ok {
				for i, q := range callee.Params {
					if q == prm && i < len(args) {
						if args[i].k == absUnknown {
							break
						}
						return args[i], true
					}
				}
			}
			if outer.assume != nil {
				return outer.assume(v, evf)
			}
			return aUnknown, false
		},
	}
	for i, q := range callee.Params {
		if i < len(x.Call.Args) {
			e.origins[q] = x.Call.Args[i]
		}
	}
	sub.origin = e.originOf
	se := &absEval{fn: callee, sc: sub, seen: map[string]bool{}, nest: e.nest, stack: append(append([]*ssa.Function{}, e.stack...), callee), budget: e.budget, relevant: map[*ssa.Function]bool{}, origins: e.origins}
	start := &absPath{phi: map[*ssa.Phi]absVal{}, state: cloneState(path.state), cells: map[*ssa.Alloc]absVal{}}
	var outs []absOutcome
	seen := map[string]bool{}
	se.explore(start, func(ret *ssa.Return, cp *absPath) bool {
		o := absOutcome{state: cloneState(cp.state)}
		for _, rv := range ret.Results {
			o.results = append(o.results, se.eval(rv, cp, 0))
		}
		k := (&absPath{state: o.state}).key() + fmt.Sprint(o.results)
		if !seen[k] {
			seen[k] = true
			outs = append(outs, o)
		}
		return len(outs) > 64
	})
	if se.incomplete || *e.budget > 200000 || len(outs) > 64 {
		// could not be walked completely: forget what the helper may have changed
		e.incomplete = true
		st := cloneState(path.state)
		for k := range outer.tracked {
			st[k] = aUnknown
		}
		res := make([]absVal, callee.Signature.Results().Len())
		return []absOutcome{{state: st, results: res}}, true
	}
	return outs, true
}

// explore enumerates the paths of e.fn from its entry; onReturn is called at every Return reached and stops the
// search by returning true.
func (e *absEval) explore(start *absPath, onReturn func(ret *ssa.Return, path *absPath) bool) {
	sc := e.sc
	stop := false
	var walk func(b *ssa.BasicBlock, from int, prev *ssa.BasicBlock, path *absPath)
	walk = func(b *ssa.BasicBlock, from int, prev *ssa.BasicBlock, path *absPath) {
		if stop {
			return
		}
		*e.budget++
		if *e.budget > 200000 {
			e.incomplete = true
			return
		}
		if from == 0 && prev != nil && sc.stopAt != nil && len(e.stack) == 1 && sc.stopAt(b) {
			if sc.onStop != nil && sc.onStop(path.state) {
				e.stopped = true
				stop = true
			}
			return
		}
		if from == 0 {
			// the instructions of this block are about to be executed (again): what an earlier
			// iteration learned about their values no longer applies
			if len(path.refine) > 0 || len(path.calls) > 0 {
				for _, in := range b.Instrs {
					if v, ok := in.(ssa.Value); ok {
						delete(path.refine, v)
					}
					if c, ok := in.(*ssa.Call); ok {
						delete(path.calls, c)
					}
				}
			}
			// φ-values for this entry edge
			if prev != nil {
				pi := -1
				for i, pb := range b.Preds {
					if pb == prev {
						pi = i
					}
				}
				if pi >= 0 {
					// evaluate all φ of the block simultaneously on the incoming path
					vals := map[*ssa.Phi]absVal{}
					for _, in := range b.Instrs {
						ph, ok := in.(*ssa.Phi)
						if !ok {
							break
						}
						vals[ph] = e.eval(ph.Edges[pi], path, 0)
					}
					for ph, v := range vals {
						path.phi[ph] = v
					}
				}
			}
			// the visited key carries every known φ-value: two arrivals are merged only when they agree on all of them
			var pk []string
			for ph, v := range path.phi {
				if v.k != absUnknown {
					pk = append(pk, ph.Name()+"="+v.String())
				}
			}
			sort.Strings(pk)
			prevIdx := -1
			if prev != nil {
				prevIdx = prev.Index
			}
			key := fmt.Sprintf("%d<%d|%s|%s", b.Index, prevIdx, path.key(), strings.Join(pk, ","))
			if e.seen[key] {
				return
			}
			e.seen[key] = true
		}
		for i := from; i < len(b.Instrs); i++ {
			in := b.Instrs[i]
			marked := false
			if sc.marks != nil {
				if name, ok := sc.marks(in); ok {
					path.state["@"+name] = aBool(true)
					marked = true
				}
			}
			if sc.marksState != nil {
				if name, ok := sc.marksState(in, path.state); ok {
					path.state["@"+name] = aBool(true)
					marked = true
				}
			}
			switch x := in.(type) {
			case *ssa.UnOp:
				// a load reads memory now: later stores on the path must not change what it yielded
				if x.Op == token.MUL {
					snap := false
					switch a := x.X.(type) {
					case *ssa.Alloc:
						snap = true
					case *ssa.FieldAddr:
						_, tracked := sc.tracked[fieldName(a)]
						snap = tracked && (sc.fieldOK == nil || sc.fieldOK(a))
					}
					if snap {
						v := e.eval(x, path, 0)
						if path.refine == nil {
							path.refine = map[ssa.Value]absVal{}
						}
						path.refine[x] = v
					}
				}
			case *ssa.Store:
				if al, ok := x.Addr.(*ssa.Alloc); ok {
					path.cells[al] = e.eval(x.Val, path, 0)
				}
				if fa, ok := x.Addr.(*ssa.FieldAddr); ok {
					name := fieldName(fa)
					if _, tracked := sc.tracked[name]; tracked && (sc.fieldOK == nil || sc.fieldOK(fa)) {
						nv := e.eval(x.Val, path, 0)
						if sc.onStore != nil {
							nv = sc.onStore(name, nv)
						}
						path.state[name] = nv
					}
				}
			case *ssa.Return:
				if onReturn(x, path) {
					stop = true
				}
				return
			case *ssa.Panic:
				return
			case *ssa.Call:
				if isExitCall(x) {
					return
				}
				if marked {
					break // a marked call is an atomic event of the scenario
				}
				if outs, ok := e.inline(x, path); ok {
					for _, o := range outs {
						p2 := path.clone()
						p2.state = cloneState(o.state)
						if p2.calls == nil {
							p2.calls = map[*ssa.Call][]absVal{}
						}
						p2.calls[x] = o.results
						walk(b, i+1, prev, p2)
						if stop {
							return
						}
					}
					return
				}
			case *ssa.If:
				c := e.eval(x.Cond, path, 0)
				switch {
				case c.k == absBool && c.b:
					walk(b.Succs[0], 0, b, path)
				case c.k == absBool && !c.b:
					walk(b.Succs[1], 0, b, path)
				default:
					pt, pf := path.clone(), path
					refineBranch(x.Cond, pt, true)
					refineBranch(x.Cond, pf, false)
					walk(b.Succs[0], 0, b, pt)
					walk(b.Succs[1], 0, b, pf)
				}
				return
			case *ssa.Jump:
				walk(b.Succs[0], 0, b, path)
				return
			}
		}
	}
	if e.entry != nil && len(e.stack) == 1 {
		walk(e.entry, 0, nil, start)
		return
	}
	walk(e.fn.Blocks[0], 0, nil, start)
}

// refineBranch records what taking the given side of an undecided condition implies:
// `x != nil` / `x == nil` for an unknown x, and the truth value of the condition itself.
func refineBranch(cond ssa.Value, path *absPath, taken bool) {
	if path.refine == nil {
		path.refine = map[ssa.Value]absVal{}
	}
	path.refine[cond] = aBool(taken)
	switch c := cond.(type) {
	case *ssa.UnOp:
		if c.Op == token.NOT {
			refineBranch(c.X, path, !taken)
		}
	case *ssa.BinOp:
		if c.Op != token.EQL && c.Op != token.NEQ {
			return
		}
		x, y := c.X, c.Y
		if isNilConst(x) {
			x, y = y, x
		}
		if !isNilConst(y) {
			return
		}
		isNil := (c.Op == token.EQL) == taken
		v := aNonNil
		if isNil {
			v = aNil
		}
		path.refine[x] = v
		// the same value seen through an interface conversion
		if mi, ok := x.(*ssa.MakeInterface); ok {
			path.refine[mi.X] = v
		}
	}
}

// successGoal: the return's error-typed results are all nil (constant, or evaluated nil).
func successGoal(ret *ssa.Return, eval func(ssa.Value) absVal) bool {
	n := 0
	for _, v := range ret.Results {
		if !isErrLike(v.Type()) {
			continue
		}
		n++
		if isNilConst(v) {
			continue
		}
		if a := eval(v); a.k == absNil {
			continue
		}
		return false
	}
	return n > 0
}

// trueGoal: the single boolean result may be true on this path.
func trueGoal(ret *ssa.Return, eval func(ssa.Value) absVal) bool {
	if len(ret.Results) == 0 {
		return false
	}
	a := eval(ret.Results[0])
	return !(a.k == absBool && !a.b)
}

// falseGoal: the single boolean result may be false on this path.
func falseGoal(ret *ssa.Return, eval func(ssa.Value) absVal) bool {
	if len(ret.Results) == 0 {
		return false
	}
	a := eval(ret.Results[0])
	return !(a.k == absBool && a.b)
}

// ---------------------------------------------------------------------------
// method.Parse: result validation as a scenario table (C14.R2 / C10.R1)

type parseAtoms struct {
	nRL, nErr, nUP, nTP int
}

// parseScenario builds the scenario for method.Parse: up = `opts.UpdateParam != ""`,
// rl = number of results, e0/e1 = isError(result 0/1) (nil pointer = unknown),
// tpLen = number of type parameters (-1 unknown), allowTP (nil = unknown).
func parseScenario(up bool, rl int64, e0, e1 *bool, tpLen int64, allowTP *bool, seen *parseAtoms) *absScenario {
	var sc *absScenario
	isResults := func(v ssa.Value) bool {
		c, ok := scOrigin(sc, v).(*ssa.Call)
		return ok && ssaCalleeObj(c) != nil && isFunc(ssaCalleeObj(c), "go/types", "Signature", "Results")
	}
	sc = &absScenario{
		tracked: map[string]absVal{"UpdateTarget": aBool(false), "TypeParams": aBool(false)},
		assume: func(v ssa.Value, ev func(ssa.Value) absVal) (absVal, bool) {
			switch x := v.(type) {
			case *ssa.Call:
				o := ssaCalleeObj(x)
				if o == nil {
					return aUnknown, false
				}
				if isFunc(o, "go/types", "Tuple", "Len") && len(x.Call.Args) == 1 && isResults(x.Call.Args[0]) {
					seen.nRL++
					return aInt(rl), true
				}
				if isFunc(o, "go/types", "TypeParamList", "Len") {
					seen.nTP++
					if tpLen < 0 {
						return aUnknown, true
					}
					return aInt(tpLen), true
				}
				if o.Name() == "isError" && objPkgPath(o) == modPath+"/method" && len(x.Call.Args) == 1 {
					if at, ok := scOrigin(sc, x.Call.Args[0]).(*ssa.Call); ok && ssaCalleeObj(at) != nil && isFunc(ssaCalleeObj(at), "go/types", "Tuple", "At") && len(at.Call.Args) == 2 && isResults(at.Call.Args[0]) {
						if a := ev(at.Call.Args[1]); a.k == absInt {
							seen.nErr++
							var e *bool
							switch a.n {
							case 0:
								e = e0
							case 1:
								e = e1
							}
							if e == nil {
								return aUnknown, true
							}
							return aBool(*e), true
						}
						return aUnknown, true
					}
				}
			case *ssa.BinOp:
				if x.Op != token.EQL && x.Op != token.NEQ {
					return aUnknown, false
				}
				l, r := x.X, x.Y
				if _, ok := l.(*ssa.Const); ok {
					l, r = r, l
				}
				k, ok := r.(*ssa.Const)
				if !ok || !loadsFieldNamed(l, "UpdateParam") {
					return aUnknown, false
				}
				if a := constVal(k); a.k == absStr && a.s == "" {
					seen.nUP++
					if x.Op == token.NEQ {
						return aBool(up), true
					}
					return aBool(!up), true
				}
			case *ssa.UnOp:
				if allowTP != nil && x.Op == token.MUL && loadsFieldNamed(x, "AllowTypeParams") {
					return aBool(*allowTP), true
				}
			}
			return aUnknown, false
		},
	}
	return sc
}

func boolPtr(b bool) *bool { return &b }

// parseResultTable decides, for every documented combination of result count / error
// position / update argument, whether method.Parse can still return success.
func parseResultTable(p *Prog, r *Report, fi *FuncInfo) {
	sf := p.SSAFunc(fi)
	if sf == nil {
		r.Unresolved("SSA of method.Parse")
		return
	}
	type row struct {
		name    string
		up      bool
		rl      int64
		e0, e1  *bool
		tp      int64
		allowTP *bool
		accept  bool
		why     string
	}
	t, f := boolPtr(true), boolPtr(false)
	rows := []row{
		{"non-update, 0 results", false, 0, nil, nil, -1, nil, false, "a conversion function without result would be accepted"},
		{"non-update, 1 result", false, 1, nil, nil, -1, nil, true, ""},
		{"non-update, 2 results, second not error", false, 2, nil, f, -1, nil, false, "a second result that is not the built-in error would be accepted (and mis-generated as an error result)"},
		{"non-update, 2 results, second error", false, 2, nil, t, -1, nil, true, ""},
		{"non-update, 3 results", false, 3, nil, nil, -1, nil, false, "more than two results would be accepted"},
		{"non-update, 4 results", false, 4, nil, nil, -1, nil, false, "more than two results would be accepted"},
		{"update, 0 results", true, 0, nil, nil, -1, nil, true, ""},
		{"update, 1 result error", true, 1, t, nil, -1, nil, true, ""},
		{"update, 1 result not error", true, 1, f, nil, -1, nil, false, "an update method returning a value would be accepted"},
		{"update, 2 results (error, error)", true, 2, t, t, -1, nil, false, "an update method with two results would be accepted"},
		{"update, 2 results (error, other)", true, 2, t, f, -1, nil, false, "an update method with two results would be accepted"},
		{"update, 2 results (other, error)", true, 2, f, t, -1, nil, false, "an update method with two results would be accepted"},
		{"update, 3 results", true, 3, t, nil, -1, nil, false, "an update method with several results would be accepted"},
		{"generic without AllowTypeParams", false, 1, nil, nil, 1, f, false, "a generic function would be accepted where type parameters cannot be inferred"},
		{"generic with AllowTypeParams", false, 1, nil, nil, 1, t, true, ""},
	}
	for _, rw := range rows {
		seen := &parseAtoms{}
		sc := parseScenario(rw.up, rw.rl, rw.e0, rw.e1, rw.tp, rw.allowTP, seen)
		got := absReach(sf, sc, successGoal)
		site := "method.Parse/results table: " + rw.name
		if seen.nRL == 0 || (rw.up && seen.nUP == 0) {
			r.Bad(site, p.PosStr(fi.Decl.Pos()), "the result count (sig.Results().Len()) or the update-argument test (opts.UpdateParam != \"\") is no longer recognisable in method.Parse: the table cannot be evaluated")
			continue
		}
		switch {
		case rw.accept && got == nil:
			r.Bad(site, p.PosStr(fi.Decl.Pos()), "a documented signature is rejected on every path (or the evaluation lost the success path)")
		case !rw.accept && got != nil:
			r.Bad(site, p.PosStr(got.Pos()), "method.Parse can return success for this shape: "+rw.why)
		case rw.accept:
			r.OK(site, p.PosStr(got.Pos()), "success reachable")
		default:
			r.OK(site, p.PosStr(fi.Decl.Pos()), "no success return reachable")
		}
	}
	// update argument must exist: with UpdateParam set, no success return is reached while UpdateTarget was never set
	for _, rl := range []int64{0, 1} {
		seen := &parseAtoms{}
		sc := parseScenario(true, rl, boolPtr(true), nil, -1, nil, seen)
		got := absReachState(sf, sc, func(ret *ssa.Return, eval func(ssa.Value) absVal, st map[string]absVal) bool {
			ut := st["UpdateTarget"]
			return successGoal(ret, eval) && ut.k == absBool && !ut.b
		})
		site := fmt.Sprintf("method.Parse/results table: update argument must exist (%d results)", rl)
		if got != nil {
			r.Bad(site, p.PosStr(got.Pos()), "with goverter:update ARG set, method.Parse can succeed although no parameter named ARG exists: the method would be generated as an ordinary conversion")
		} else {
			r.OK(site, p.PosStr(fi.Decl.Pos()), "no success return reachable while UpdateTarget is still false")
		}
	}
}

// loopBodyOf returns the entry block of the innermost loop body that contains (dominates) the instruction, and the
// loop header it returns to.
func loopBodyOf(in ssa.Instruction) (body, header *ssa.BasicBlock) {
	for d := in.Block(); d != nil; d = d.Idom() {
		if strings.HasSuffix(d.Comment, ".body") {
			for _, p := range d.Preds {
				if strings.HasSuffix(p.Comment, ".loop") {
					return d, p
				}
			}
		}
	}
	return nil, nil
}
