package main

// gvlint alpharename: rewrites a scratch copy of the goverter tree so that every local variable, parameter,
// named result and receiver of goverter's own non-test code gets a new name (old name + suffix).  The result is
// behaviour-preserving by construction (α-conversion).  The thorough tier runs every check on such a copy: an
// alarm there is a rule that depends on the spelling of local identifiers (SELFTEST-FALSE-ALARM).

import (
	"bytes"
	"flag"
	"fmt"
	"go/ast"
	"go/format"
	"go/types"
	"os"
	"strings"

	"golang.org/x/tools/go/packages"
)

func cmdAlphaRename(args []string) int {
	fs := flag.NewFlagSet("alpharename", flag.ContinueOnError)
	dir := fs.String("dir", "", "root of the (scratch) copy to rewrite in place")
	suffix := fs.String("suffix", "Q7", "suffix appended to every local name")
	if err := fs.Parse(args); err != nil {
		return 2
	}
	cfg := &packages.Config{Mode: packages.NeedName | packages.NeedFiles | packages.NeedSyntax | packages.NeedTypes | packages.NeedTypesInfo | packages.NeedCompiledGoFiles, Dir: *dir, BuildFlags: []string{"-tags", "goverter"}}
	pkgs, err := packages.Load(cfg, "./...")
	if err != nil {
		fmt.Fprintln(os.Stderr, err)
		return 2
	}
	n := 0
	for _, pkg := range pkgs {
		if strings.Contains(pkg.PkgPath, "/example") || strings.Contains(pkg.PkgPath, "/scenario") || strings.Contains(pkg.PkgPath, "/docs") || len(pkg.Errors) > 0 {
			continue
		}
		isLocal := func(o types.Object) bool {
			v, ok := o.(*types.Var)
			if !ok || v.IsField() || v.Name() == "_" || v.Name() == "" || v.Pkg() == nil {
				return false
			}
			// package-level variables keep their names
			return v.Parent() != v.Pkg().Scope() && v.Parent() != types.Universe
		}
		for i, f := range pkg.Syntax {
			name := pkg.CompiledGoFiles[i]
			if strings.HasSuffix(name, "_test.go") {
				continue
			}
			changed := false
			ast.Inspect(f, func(nd ast.Node) bool {
				id, ok := nd.(*ast.Ident)
				if !ok {
					return true
				}
				var o types.Object
				if d := pkg.TypesInfo.Defs[id]; d != nil {
					o = d
				} else if u := pkg.TypesInfo.Uses[id]; u != nil {
					o = u
				}
				if o != nil && isLocal(o) {
					id.Name += *suffix
					changed = true
					n++
				}
				return true
			})
			// implicit objects of type switches (`switch x := v.(type)`): the symbolic variable is in Defs with a nil
			// object and each clause has an implicit object used by the idents in the clause (handled above via Uses);
			// rename the defining ident as well
			ast.Inspect(f, func(nd ast.Node) bool {
				ts, ok := nd.(*ast.TypeSwitchStmt)
				if !ok {
					return true
				}
				if as, ok := ts.Assign.(*ast.AssignStmt); ok && len(as.Lhs) == 1 {
					if id, ok := as.Lhs[0].(*ast.Ident); ok && !strings.HasSuffix(id.Name, *suffix) && id.Name != "_" {
						id.Name += *suffix
						changed = true
					}
				}
				return true
			})
			if !changed {
				continue
			}
			var buf bytes.Buffer
			if err := format.Node(&buf, pkg.Fset, f); err != nil {
				fmt.Fprintln(os.Stderr, name, err)
				return 2
			}
			if err := os.WriteFile(name, buf.Bytes(), 0o644); err != nil {
				fmt.Fprintln(os.Stderr, err)
				return 2
			}
		}
	}
	fmt.Printf("renamed %d identifier occurrences\n", n)
	return 0
}
