package main

import (
	"fmt"
	"go/ast"
	"go/constant"
	"go/token"
	"go/types"
	"sort"
	"strings"

	"golang.org/x/tools/go/ssa"
)

func init() {
	register(&Check{
		ID: "C13", Level: "other",
		Explanation: "Obligation inventory over goverter's own code. (R1) every explicit panic() is unreachable: default of a switch that is exhaustive over a closed universe read from the type-checked " +
			"program (implementers of types.Type, typed BasicKinds, ChanDir, sealed cli.Command), a guard established at every caller (struct-fact analysis for findAllFields, Lift for ToString) or an audited " +
			"ArgUse arm whose sub-facts are re-verified. (R2) implicit partial operations: single-value type assertions, Object.Pkg() results used as receivers (nil for universe types), strings.Repeat counts, " +
			"regexp.MustCompile arguments, constant indexes into directive-derived slices, stores into map-typed struct fields. (R3) no error result is dropped anywhere in own code (path rule: no success return " +
			"reachable while an error may be non-nil; audited pre-loading drops). (R4) every recursion cycle that unfolds named types consults a visited set; other cycles are structural or audited. " +
			"(R5) every loop without a bounding condition is an audited allocator loop, and every `Dirty = true` in the generator's fix-point is tied to a monotone state change. " +
			"Decides that no input can steer goverter's own code into one of these panics/hangs; does not decide termination in general.",
		NotDecided: []string{"termination in general", "panics inside go/packages, jennifer or regexp on hostile input", "out-of-memory", "that the diagnostic names the offending declaration"},
		Run:        runC13,
	})
}

func runC13(p *Prog, r *Report) {
	c13R1(p, r)
	c13R2(p, r)
	c13R3(p, r)
	indexGetTotalRule(p, r, "C13.R3b")
	patternsUnmodifiedRule(p, r, "C13.R2g")
	mapLookupNilRule(p, r, "C13.R2h")
	c13R4(p, r)
	c13R5(p, r)
}

// ---------------------------------------------------------------------------
// R2 implicit partial operations

var auditedTypeAsserts = map[string]string{
	"config.parseMethods|*go/types.Interface": "c.typ is the type of a declaration that comments.parseInterface accepted only as *ast.InterfaceType",
	"xtype.toCodeFunc|*go/types.Signature":    "the type of a *types.Func is always a *types.Signature (go/types invariant)",
}

var auditedPkgDeref = map[string]string{
	"builder.(*Enum).Build": "reached only for types for which Enum().OK holds, i.e. enum.Detect found constants in the type's package scope, so Pkg() is non-nil",
	"builder.caseAction":    "the target type passed by Enum.Build is a detected enum (constants in its package), so Pkg() is non-nil",
	"enum.Detect":           "guarded by `named.Underlying().(*types.Basic)`: the universe contains no named type with a basic underlying type (byte and rune are aliases), so such a type has a package",
}

func c13R2(p *Prog, r *Report) {
	r.Rule("C13.R2a", "single-value type assertions x.(T) (which panic on mismatch) occur only at audited sites", 1)
	for _, fi := range p.Funcs {
		fi := fi
		info := fi.Pkg.TypesInfo
		walkStack(fi.Decl, func(n ast.Node, stack []ast.Node) bool {
			ta, ok := n.(*ast.TypeAssertExpr)
			if !ok || ta.Type == nil {
				return true
			}
			parent := stack[len(stack)-1]
			switch x := parent.(type) {
			case *ast.AssignStmt:
				if len(x.Lhs) == 2 && len(x.Rhs) == 1 {
					return true
				}
			case *ast.ValueSpec:
				if len(x.Names) == 2 && len(x.Values) == 1 {
					return true
				}
			}
			tstr := types.TypeString(info.TypeOf(ta.Type), nil)
			key := p.anchorFor(fi, fnPartsOf(mapKeys(auditedTypeAsserts))) + "|" + tstr
			site := fi.Name() + "/assert " + tstr
			// a library invariant, wherever it is used: (*types.Func).Type() is always a *types.Signature
			funcType := false
			if call, isCall := ast.Unparen(ta.X).(*ast.CallExpr); isCall && tstr == "*go/types.Signature" {
				if sel, isSel := ast.Unparen(call.Fun).(*ast.SelectorExpr); isSel && sel.Sel.Name == "Type" && len(call.Args) == 0 {
					if rt := info.TypeOf(sel.X); rt != nil && isNamed(derefType(rt), "go/types", "Func") {
						funcType = true
					}
				}
			}
			if why, ok := auditedTypeAsserts[key]; ok {
				r.OK(site, p.PosStr(ta.Pos()), "audited: "+why)
				r.Tables = append(r.Tables, "C13.R2a "+key+" — "+why)
			} else if funcType {
				r.OK(site, p.PosStr(ta.Pos()), "the type of a *types.Func is always a *types.Signature (go/types invariant)")
			} else {
				r.Bad(site, p.PosStr(ta.Pos()), "single-value type assertion can panic; use the comma-ok form or a type switch")
			}
			return true
		})
	}

	r.Rule("C13.R2b", "the result of (types.Object).Pkg() is nil for universe types (error, comparable …): it may be used as a receiver only under a dominating nil test of Pkg() on the same object, or at an audited site", 4)
	for _, fi := range p.Funcs {
		sf := p.SSAFunc(fi)
		cnt := 0
		allInstrs(sf, true, func(in ssa.Instruction) {
			c, ok := in.(ssa.CallInstruction)
			if !ok {
				return
			}
			o := ssaCalleeObj(c)
			if o == nil || objPkgPath(o) != "go/types" || recvTypeName(o) != "Package" {
				return
			}
			args := c.Common().Args
			if len(args) == 0 {
				return
			}
			pk, ok := args[0].(*ssa.Call)
			if !ok && c.Common().IsInvoke() {
				return
			}
			var recv ssa.Value = args[0]
			// the *types.Package value: where does it come from?
			origin := pkgCallOrigin(recv)
			if origin == nil {
				return // not derived from an Object.Pkg() call (e.g. packages.Package.Types)
			}
			_ = pk
			cnt++
			site := fmt.Sprintf("%s/Pkg().%s#%d", fi.Name(), o.Name(), cnt)
			pos := p.PosStr(c.Pos())
			guard := func(want bool) func(ssa.Value) bool {
				return func(cond ssa.Value) bool {
					ne, ok := isNilCheck(cond, func(x ssa.Value) bool {
						if x == recv {
							return true
						}
						o2 := pkgCallOrigin(x)
						return o2 != nil && sameAccessPath(o2, origin)
					})
					return ok && ne == want
				}
			}
			b := in.Block()
			if dominatedByEdge(b, true, guard(true)) || dominatedByEdge(b, false, guard(false)) {
				r.OK(site, pos, "dominated by a nil test of Pkg() on the same object")
				return
			}
			if why, ok := auditedPkgDeref[p.anchorFor(fi, mapKeys(auditedPkgDeref))]; ok {
				r.OK(site, pos, "audited: "+why)
				r.Tables = append(r.Tables, "C13.R2b "+fi.Name()+" — "+why)
				return
			}
			r.Bad(site, pos, "Pkg() can be nil (universe types such as error); calling ."+o.Name()+"() on it without a nil test crashes goverter")
		})
	}

	r.Rule("C13.R2c", "strings.Repeat receives a count that is non-negative by construction (constant, len(), or clamped by a dominating `< 0` test); regexp.MustCompile only receives constants", 1)
	for _, fi := range p.Funcs {
		sf := p.SSAFunc(fi)
		for _, c := range callsIn(sf, true, isObj("strings", "", "Repeat")) {
			site := fi.Name() + "/strings.Repeat"
			if ok, how := nonNegative(c.Common().Args[1], c.(ssa.Instruction).Block(), 0); ok {
				r.OK(site, p.PosStr(c.Pos()), how)
			} else {
				r.Bad(site, p.PosStr(c.Pos()), "strings.Repeat panics on a negative count and this count is not provably non-negative: "+how)
			}
		}
		for _, c := range callsIn(sf, true, func(o *types.Func) bool {
			return objPkgPath(o) == "regexp" && strings.HasPrefix(o.Name(), "MustCompile") || objPkgPath(o) == "text/template" && o.Name() == "Must"
		}) {
			site := fi.Name() + "/regexp.MustCompile"
			if _, isConst := c.Common().Args[0].(*ssa.Const); isConst {
				r.OK(site, p.PosStr(c.Pos()), "constant pattern")
			} else {
				r.Bad(site, p.PosStr(c.Pos()), "MustCompile on a non-constant pattern panics on user input")
			}
		}
	}
	// package-level MustCompile
	for _, cs := range p.Calls() {
		if cs.Encl != nil {
			continue
		}
		if fn, ok := cs.Callee.(*types.Func); ok && objPkgPath(fn) == "regexp" && strings.HasPrefix(fn.Name(), "MustCompile") {
			if _, ok := constString(cs.Pkg.TypesInfo, cs.Call.Args[0]); ok {
				r.OK("<package init>/regexp.MustCompile", p.PosStr(cs.Call.Pos()), "constant pattern")
			} else {
				r.Bad("<package init>/regexp.MustCompile", p.PosStr(cs.Call.Pos()), "MustCompile on a non-constant pattern")
			}
		}
	}

	c13R2d(p, r)
	c13R2e(p, r)
	c13R2f(p, r)
}

// pkgCallOrigin: v is the result of a call to a go/types method named Pkg (possibly
// through a phi-free chain); returns that call.
func pkgCallOrigin(v ssa.Value) *ssa.Call {
	c, ok := v.(*ssa.Call)
	if !ok {
		return nil
	}
	cc := c.Common()
	if cc.IsInvoke() {
		if cc.Method.Name() == "Pkg" && objPkgPath(cc.Method) == "go/types" {
			return c
		}
		return nil
	}
	if o := ssaCalleeObj(c); o != nil && o.Name() == "Pkg" && objPkgPath(o) == "go/types" {
		return c
	}
	return nil
}

// sameAccessPath: two call chains x.A().B() with identical callees over the same root value.
func sameAccessPath(a, b ssa.Value) bool {
	if a == b {
		return true
	}
	ca, ok1 := a.(*ssa.Call)
	cb, ok2 := b.(*ssa.Call)
	if ok1 && ok2 {
		var fa, fb *types.Func
		var ra, rb ssa.Value
		if ca.Call.IsInvoke() {
			fa, ra = ca.Call.Method, ca.Call.Value
		} else if o := ssaCalleeObj(ca); o != nil && len(ca.Call.Args) == 1 {
			fa, ra = o, ca.Call.Args[0]
		}
		if cb.Call.IsInvoke() {
			fb, rb = cb.Call.Method, cb.Call.Value
		} else if o := ssaCalleeObj(cb); o != nil && len(cb.Call.Args) == 1 {
			fb, rb = o, cb.Call.Args[0]
		}
		if fa != nil && fa == fb {
			return sameAccessPath(ra, rb)
		}
		return false
	}
	if fa, ok := a.(*ssa.FieldAddr); ok {
		if fb, ok := b.(*ssa.FieldAddr); ok && fa.Field == fb.Field {
			return sameAccessPath(fa.X, fb.X)
		}
		return false
	}
	// loads of the same field of the same base
	ua, ok1 := a.(*ssa.UnOp)
	ub, ok2 := b.(*ssa.UnOp)
	if ok1 && ok2 && ua.Op == token.MUL && ub.Op == token.MUL {
		fa, ok1 := ua.X.(*ssa.FieldAddr)
		fb, ok2 := ub.X.(*ssa.FieldAddr)
		if ok1 && ok2 && fa.Field == fb.Field {
			return sameAccessPath(fa.X, fb.X)
		}
	}
	return false
}

func nonNegative(v ssa.Value, use *ssa.BasicBlock, depth int) (bool, string) {
	if depth > 4 {
		return false, "too deep"
	}
	switch x := v.(type) {
	case *ssa.Const:
		if x.Value != nil && constant.Sign(x.Value) >= 0 {
			return true, "non-negative constant"
		}
		return false, "negative constant"
	case *ssa.Call:
		if b, ok := x.Call.Value.(*ssa.Builtin); ok && (b.Name() == "len" || b.Name() == "cap") {
			return true, "len()"
		}
		if o := ssaCalleeObj(x); o != nil && objPkgPath(o) == "math" && o.Name() == "Max" {
			// math.Max(a, b) ≥ both
			for _, a := range x.Call.Args {
				if ok, _ := nonNegative(a, use, depth+1); ok {
					return true, "math.Max with a non-negative operand"
				}
			}
		}
	case *ssa.Convert:
		return nonNegative(x.X, use, depth+1)
	case *ssa.BinOp:
		if x.Op == token.ADD || x.Op == token.MUL {
			ok1, _ := nonNegative(x.X, use, depth+1)
			ok2, _ := nonNegative(x.Y, use, depth+1)
			if ok1 && ok2 {
				return true, "sum/product of non-negative values"
			}
		}
	case *ssa.Phi:
		for i, e := range x.Edges {
			pred := x.Block().Preds[i]
			if ok, _ := nonNegative(e, pred, depth+1); ok {
				continue
			}
			// the edge must come from the side where e >= 0 was established
			isNeg := func(c ssa.Value) bool {
				b, ok := c.(*ssa.BinOp)
				if !ok || b.Op != token.LSS || b.X != e {
					return false
				}
				k, ok := b.Y.(*ssa.Const)
				return ok && k.Value != nil && constant.Sign(k.Value) == 0
			}
			if dominatedByEdge(pred, false, isNeg) || edgeIsFalseOf(pred, x.Block(), isNeg) {
				continue
			}
			return false, "one incoming value may be negative"
		}
		return true, "clamped: every incoming value is a non-negative constant or passed a `< 0` test"
	case *ssa.Parameter:
		// parameter: every caller must pass a non-negative value
		fn := x.Parent()
		idx := -1
		for i, prm := range fn.Params {
			if prm == x {
				idx = i
			}
		}
		obj, _ := fn.Object().(*types.Func)
		if obj == nil || idx < 0 {
			return false, "parameter of an anonymous function"
		}
		// an early exit for the non-positive values: `if l <= 0 { return … }` (or < 0, < 1) dominates the use
		if use != nil {
			nonPos := func(c ssa.Value) bool {
				b, ok := c.(*ssa.BinOp)
				if !ok || b.X != ssa.Value(x) {
					return false
				}
				k, ok := b.Y.(*ssa.Const)
				if !ok || k.Value == nil {
					return false
				}
				n, _ := constant.Int64Val(k.Value)
				return (b.Op == token.LEQ && n >= -1) || (b.Op == token.LSS && n >= 0)
			}
			pos := func(c ssa.Value) bool {
				b, ok := c.(*ssa.BinOp)
				if !ok || b.X != ssa.Value(x) {
					return false
				}
				k, ok := b.Y.(*ssa.Const)
				if !ok || k.Value == nil {
					return false
				}
				n, _ := constant.Int64Val(k.Value)
				return (b.Op == token.GEQ && n >= 0) || (b.Op == token.GTR && n >= -1)
			}
			if dominatedByEdge(use, false, nonPos) || dominatedByEdge(use, true, pos) {
				return true, "the function returns early for negative values of " + x.Name()
			}
		}
		return false, "parameter " + x.Name() + " of " + funcKey(obj) + " is not clamped before use"
	}
	return false, "value " + v.String() + " may be negative"
}

// edgeIsFalseOf: the CFG edge pred→succ is the false edge of an If in pred whose condition satisfies is.
func edgeIsFalseOf(pred, succ *ssa.BasicBlock, is func(ssa.Value) bool) bool {
	ifi, ok := pred.Instrs[len(pred.Instrs)-1].(*ssa.If)
	return ok && is(ifi.Cond) && len(pred.Succs) == 2 && pred.Succs[1] == succ
}

// R2d — constant indexes into slices/strings.
func c13R2d(p *Prog, r *Report) {
	r.Rule("C13.R2d", "a constant index or slice bound on a slice/string is covered by a dominating length fact: a len() test (if or switch form), a producer that guarantees the length (strings.Split/SplitN ≥ 1 element, regexp FindStringIndex == 2 after its len test) or an audited invariant", 8)
	for _, fi := range p.Funcs {
		fi := fi
		info := fi.Pkg.TypesInfo
		cnt := map[string]int{}
		walkStack(fi.Decl, func(n ast.Node, stack []ast.Node) bool {
			var base ast.Expr
			var need int64 = -1
			var what string
			switch x := n.(type) {
			case *ast.IndexExpr:
				t := info.TypeOf(x.X)
				if t == nil {
					return true
				}
				switch t.Underlying().(type) {
				case *types.Slice, *types.Basic:
				default:
					return true
				}
				if tv, ok := info.Types[x.X]; ok && tv.IsType() {
					return true // generic instantiation
				}
				if _, isBasic := t.Underlying().(*types.Basic); isBasic && t.Underlying().(*types.Basic).Info()&types.IsString == 0 {
					return true
				}
				v, isConst := constInt(info, x.Index)
				if !isConst {
					// len(x)-1 style indexes are handled as non-constant: need len ≥ 1
					if isLenMinus(info, x.Index, x.X) {
						base, need, what = x.X, 1, exprString(x)
						break
					}
					return true
				}
				base, need, what = x.X, v+1, exprString(x)
			case *ast.SliceExpr:
				t := info.TypeOf(x.X)
				if t == nil {
					return true
				}
				switch t.Underlying().(type) {
				case *types.Slice, *types.Basic:
				default:
					return true
				}
				var mx int64 = -1
				for _, e := range []ast.Expr{x.Low, x.High} {
					if e == nil {
						continue
					}
					if v, ok := constInt(info, e); ok && v > mx {
						mx = v
					}
				}
				if mx <= 0 {
					return true
				}
				base, need, what = x.X, mx, exprString(x)
			default:
				return true
			}
			if base == nil {
				return true
			}
			cnt[what]++
			site := fmt.Sprintf("%s/%s#%d", fi.Name(), what, cnt[what])
			pos := p.PosStr(n.Pos())
			if ok, how := lengthFact(p, fi, base, need, stack, n); ok {
				r.OK(site, pos, how)
			} else {
				r.Bad(site, pos, fmt.Sprintf("needs len(%s) ≥ %d but no dominating length test or producer fact establishes it: %s", exprString(base), need, how))
			}
			return true
		})
	}
}

func isLenMinus(info *types.Info, idx ast.Expr, base ast.Expr) bool {
	b, ok := ast.Unparen(idx).(*ast.BinaryExpr)
	if !ok || b.Op != token.SUB {
		return false
	}
	call, ok := ast.Unparen(b.X).(*ast.CallExpr)
	if !ok || len(call.Args) != 1 || exprString(call.Args[0]) != exprString(base) {
		return false
	}
	if bi, ok := calleeObj(info, call).(*types.Builtin); !ok || bi.Name() != "len" {
		return false
	}
	v, ok := constInt(info, b.Y)
	return ok && v == 1
}

// auditedLengths: invariants that are not visible as a test.
// Keys: function | shape of the indexed expression (kind and type of its root, then the selected fields) — not its name.
var auditedLengths = map[string]string{
	"config/parse.CommentToString|local:string":          "go/parser delivers comment text that starts with // or /* (and /* comments end with */): len ≥ 2 resp. ≥ 4; the inner c[0] access is under an explicit len(c) == 0 early exit",
	"builder.ToString|param:*builder.Error.Path":         "ToString's caller guarantee (C13.R1) gives len(err.Path) ≥ 1",
	"xtype.ambiguousMatchError|param:[]string":           "only called from FindField's default arm of `switch len(matches)` after cases 0 and 1, with one name per match: len ≥ 2",
	"xtype.FindExactField|local:*xtype.StructField.Path": "every StructField produced by findAllFields carries a path that ends in the matched name (append(path, obj.Name())): len ≥ 1",
	"builder.mapField|local:[]*builder.Path":             "reached only when a pointer hop happened (condition != nil), which requires at least one path element and hence one appended lift entry; on the Func branch one more is appended",
}

// shapeOf describes an expression by the kind and type of its root identifier and the fields selected from it
// (`param:*builder.Error.Path`, `local:[]string`), so that audit rows do not depend on variable names.
func shapeOf(info *types.Info, fi *FuncInfo, e ast.Expr) string {
	switch x := ast.Unparen(e).(type) {
	case *ast.Ident:
		o := info.ObjectOf(x)
		if o == nil {
			return x.Name
		}
		kind := "local"
		sig := fi.Obj.Type().(*types.Signature)
		for i := 0; i < sig.Params().Len(); i++ {
			if sig.Params().At(i) == o {
				kind = "param"
			}
		}
		if sig.Recv() == o {
			kind = "recv"
		}
		return kind + ":" + types.TypeString(o.Type(), func(p *types.Package) string { return p.Name() })
	case *ast.SelectorExpr:
		return shapeOf(info, fi, x.X) + "." + x.Sel.Name
	case *ast.IndexExpr:
		return shapeOf(info, fi, x.X) + "[]"
	}
	return exprString(e)
}

// lengthFact: is len(base) ≥ need established at node n?
func lengthFact(p *Prog, fi *FuncInfo, base ast.Expr, need int64, stack []ast.Node, n ast.Node) (bool, string) {
	info := fi.Pkg.TypesInfo
	bs := exprString(base)
	lenOf := func(e ast.Expr) bool {
		// a local that merely names the length (`count := len(x)`) stands for it
		if lid, isID := ast.Unparen(e).(*ast.Ident); isID {
			if def := localDef(info, fi.Decl, info.ObjectOf(lid)); def != nil {
				e = def
			}
		}
		call, ok := ast.Unparen(e).(*ast.CallExpr)
		if !ok || len(call.Args) != 1 {
			return false
		}
		if bi, ok := calleeObj(info, call).(*types.Builtin); !ok || bi.Name() != "len" {
			return false
		}
		return exprString(call.Args[0]) == bs
	}
	// short-circuit evaluation: in `a || b` the operand b runs only when a is false, in `a && b` only when a is true
	gs := guardsOf(stack, n)
	full := append(append([]ast.Node{}, stack...), n)
	for i := 0; i+1 < len(full); i++ {
		if be, ok := full[i].(*ast.BinaryExpr); ok && (be.Op == token.LOR || be.Op == token.LAND) && full[i+1] == ast.Node(be.Y) {
			gs = append(gs, Guard{Cond: be.X, Neg: be.Op == token.LOR, Node: be})
		}
	}
	// guards: if len(x) == K / >= K / > K (taken) ; if len(x) != K / < K (not taken, early exit) ; switch len(x) case K
	for _, g := range gs {
		if g.Cond == nil {
			continue
		}
		if g.Tag != nil && lenOf(g.Tag) {
			if v, ok := constInt(info, g.Cond); ok && v >= need {
				return true, fmt.Sprintf("inside `switch len(%s)` case %d", bs, v)
			}
			continue
		}
		conds := conjuncts(g.Cond)
		if g.Neg {
			conds = disjuncts(g.Cond)
		}
		for _, c := range conds {
			b, ok := ast.Unparen(c).(*ast.BinaryExpr)
			if !ok || !lenOf(b.X) {
				continue
			}
			v, ok := constInt(info, b.Y)
			if !ok {
				continue
			}
			if !g.Neg {
				switch b.Op {
				case token.EQL:
					if v >= need {
						return true, fmt.Sprintf("guarded by len(%s) == %d", bs, v)
					}
				case token.GEQ:
					if v >= need {
						return true, fmt.Sprintf("guarded by len(%s) >= %d", bs, v)
					}
				case token.GTR:
					if v+1 >= need {
						return true, fmt.Sprintf("guarded by len(%s) > %d", bs, v)
					}
				case token.NEQ:
					if v == 0 && need == 1 {
						return true, fmt.Sprintf("guarded by len(%s) != 0", bs)
					}
				}
			} else {
				switch b.Op {
				case token.NEQ: // if len != K { exit }
					if v >= need {
						return true, fmt.Sprintf("after early exit on len(%s) != %d", bs, v)
					}
				case token.LSS:
					if v >= need {
						return true, fmt.Sprintf("after early exit on len(%s) < %d", bs, v)
					}
				case token.EQL:
					if v == 0 && need == 1 {
						return true, fmt.Sprintf("after early exit on len(%s) == 0", bs)
					}
				case token.LEQ:
					if v+1 >= need {
						return true, fmt.Sprintf("after early exit on len(%s) <= %d", bs, v)
					}
				}
			}
		}
	}
	// producer facts for a local variable
	if id, ok := ast.Unparen(base).(*ast.Ident); ok {
		def := localDef(info, fi.Decl, info.ObjectOf(id))
		if call, ok := ast.Unparen(def).(*ast.CallExpr); ok {
			if fn, ok := calleeObj(info, call).(*types.Func); ok && objPkgPath(fn) == "strings" {
				switch fn.Name() {
				case "Split", "SplitN", "SplitAfter", "SplitAfterN":
					if need == 1 {
						if fn.Name() == "Split" || fn.Name() == "SplitAfter" {
							return true, "strings.Split always returns at least one element"
						}
						if k, ok := constInt(info, call.Args[2]); ok && k != 0 {
							return true, "strings.SplitN with n != 0 returns at least one element"
						}
					}
				}
			}
		}
	}
	// loop induction: for i := 0; i < len(x); i++ { x[i] } is non-constant and not examined here
	if why, ok := auditedLengths[p.anchorFor(fi, fnPartsOf(mapKeys(auditedLengths)))+"|"+shapeOf(info, fi, base)]; ok {
		return true, "audited: " + why
	}
	return false, "no fact found"
}

// R2f — stores into map-typed struct fields.
func c13R2f(p *Prog, r *Report) {
	r.Rule("C13.R2f", "a struct field of map type that is written with f[k] = v is initialised (non-nil) by every composite literal of its struct type in own code (a write to a nil map panics)", 5)
	type fieldKey struct {
		owner *types.Named
		field string
	}
	written := map[fieldKey]token.Pos{}
	for _, fi := range p.Funcs {
		info := fi.Pkg.TypesInfo
		ast.Inspect(fi.Decl, func(n ast.Node) bool {
			as, ok := n.(*ast.AssignStmt)
			if !ok {
				return true
			}
			for _, l := range as.Lhs {
				ix, ok := ast.Unparen(l).(*ast.IndexExpr)
				if !ok {
					continue
				}
				sel, ok := ast.Unparen(ix.X).(*ast.SelectorExpr)
				if !ok {
					continue
				}
				v, ok := info.ObjectOf(sel.Sel).(*types.Var)
				if !ok || !v.IsField() {
					continue
				}
				if _, isMap := v.Type().Underlying().(*types.Map); !isMap {
					continue
				}
				if owner := fieldOwner(p, v); owner != nil {
					written[fieldKey{owner, v.Name()}] = as.Pos()
				}
			}
			return true
		})
	}
	var keys []fieldKey
	for k := range written {
		keys = append(keys, k)
	}
	sort.Slice(keys, func(i, j int) bool {
		return keys[i].owner.Obj().Name()+keys[i].field < keys[j].owner.Obj().Name()+keys[j].field
	})
	for _, k := range keys {
		site := fmt.Sprintf("%s.%s.%s", relPkg(k.owner.Obj().Pkg().Path()), k.owner.Obj().Name(), k.field)
		nLit, bad := 0, ""
		for _, fi := range p.Funcs {
			info := fi.Pkg.TypesInfo
			ast.Inspect(fi.Decl, func(n ast.Node) bool {
				cl, ok := n.(*ast.CompositeLit)
				if !ok {
					return true
				}
				nt := namedOf(info.TypeOf(cl))
				if nt == nil || nt.Origin().Obj() != k.owner.Origin().Obj() {
					return true
				}
				nLit++
				v := compositeField(cl, k.field)
				if v == nil {
					if len(cl.Elts) > 0 {
						if _, keyed := cl.Elts[0].(*ast.KeyValueExpr); !keyed {
							return true // positional literal sets every field
						}
					}
					if why, ok := auditedNilMapLiterals[site+"|"+fi.Name()]; ok {
						r.Tables = append(r.Tables, "C13.R2f "+site+" in "+fi.Name()+" — "+why)
						return true
					}
					bad = fmt.Sprintf("%s (%s) creates a %s without initialising %s", fi.Name(), p.PosStr(cl.Pos()), k.owner.Obj().Name(), k.field)
					return true
				}
				if id, ok := ast.Unparen(v).(*ast.Ident); ok && id.Name == "nil" {
					bad = fmt.Sprintf("%s sets %s to nil", fi.Name(), k.field)
				}
				return true
			})
		}
		if bad != "" {
			r.Bad(site, p.PosStr(written[k]), "the map field is written ("+p.PosStr(written[k])+") but "+bad)
		} else {
			r.OK(site, p.PosStr(written[k]), fmt.Sprintf("initialised in all %d composite literal(s) of its struct type", nLit))
		}
	}
}

var auditedNilMapLiterals = map[string]string{}

func fieldOwner(p *Prog, v *types.Var) *types.Named {
	if v.Pkg() == nil {
		return nil
	}
	sc := v.Pkg().Scope()
	for _, name := range sc.Names() {
		tn, ok := sc.Lookup(name).(*types.TypeName)
		if !ok {
			continue
		}
		st, ok := tn.Type().Underlying().(*types.Struct)
		if !ok {
			continue
		}
		for i := 0; i < st.NumFields(); i++ {
			if st.Field(i) == v || (st.Field(i).Name() == v.Name() && st.Field(i).Pos() == v.Pos()) {
				if n, ok := tn.Type().(*types.Named); ok {
					return n
				}
			}
		}
	}
	return nil
}

// ---------------------------------------------------------------------------
// R3 no error dropped

var auditedErrDrops = map[string]string{
	"config.registerFullMethod|pkgload.ParseMethodString":                       "pre-loading of packages only; the same text is parsed again with error reporting by parseConverterLine/parseMethodLine",
	"config.registerConverterLines|config/parse.File":                           "pre-loading only; parseConverterLine reports the error of the same text",
	"config.registerConverterLines|config.resolvePackage":                       "pre-loading only",
	"config.registerMethodLines|config.parseMethodMap":                          "pre-loading only; parseMethodLine reports the error of the same text",
	"pkgload.(*PackageLoader).localConfig|config/parse.String":                  "a malformed goverter:context line on a custom function is ignored by design (documented: only well formed lines count)",
	"pkgload.(*PackageLoader).GetMatching|method.Parse":                         "regex-selected functions whose signature does not fit are skipped by design; zero matches is an error",
	"generator.(*generator).getOverlappingStructDefinition|method.(*Index).Get": "context errors are irrelevant for the question whether an overlapping definition exists",
	"generator.(*generator).createSubMethod|method.(*Index).Register":           "cannot overlap: callExisting found no method and no context error for this signature immediately before",
	"config.resolveOutputPackage|config.resolvePackage":                         "a filepath.Rel failure leaves the explicitly configured output:package in force",
	"generator.(*generator).hasDeclared|method.(*Index).Get":                    "an index error makes the answer `declared`, which sends generator.Assign on to callExisting where the same Get reports it (sub-fact re-verified by C11.R9: the helper asks both indexes and an extend hit or error answers true)",
	"generator.(*generator).buildMethod|method.(*Index).Get":                    "buildMethod tests the definition first and turns a remaining error into a builder.Error in the next branch",
}

// auditedDropFacts: sub-facts re-verified on every run for audited drops whose
// justification depends on the shape of the dropping function.
var auditedDropFacts = map[string]func(p *Prog) string{
	// "cannot overlap: callExisting found no method and no context error immediately before" holds only if
	// Index.Get answers `nothing` exactly for unknown signatures
	"generator.(*generator).createSubMethod|method.(*Index).Register": indexGetTotalFact,
	"generator.(*generator).hasDeclared|method.(*Index).Get": func(p *Prog) string {
		fi := p.Func("generator.(*generator).hasDeclared")
		if fi == nil {
			return "generator.hasDeclared not found"
		}
		why, ok := declaredLookupHelpers(p)[fi.Obj]
		if !ok {
			return "hasDeclared no longer asks both the extend index and the method index (with Explicit)"
		}
		return why
	},
}

func auditedDrop(p *Prog, akey string) (string, bool, string) {
	why, ok := auditedErrDrops[akey]
	if !ok {
		return "", false, ""
	}
	if f, has := auditedDropFacts[akey]; has {
		if msg := f(p); msg != "" {
			return why, true, msg
		}
	}
	return why, true, ""
}

func c13R3(p *Prog, r *Report) {
	r.Rule("C13.R3", "no error is dropped in own code: for every call that yields an error or *builder.Error, no success return of the enclosing function is reachable while that error may be non-nil (functions without error result must pass it on and exit); audited pre-loading drops excepted", 80)
	total := 0
	for _, fi := range p.Funcs {
		sf := p.SSAFunc(fi)
		if sf == nil || len(sf.Blocks) == 0 {
			continue
		}
		cnt := map[string]int{}
		for _, ec := range errorCalls(sf) {
			name := calleeName(ec.call)
			if ec.calle != nil && (objPkgPath(ec.calle) == "fmt" && strings.Contains(ec.calle.Name(), "print")) {
				continue // result of fmt.Fprint*: (n, err) of writing to a buffer/stderr
			}
			if ec.calle != nil && objPkgPath(ec.calle) == "fmt" && (strings.HasPrefix(ec.calle.Name(), "Fprint") || strings.HasPrefix(ec.calle.Name(), "Print")) {
				continue
			}
			if ec.calle != nil && (objPkgPath(ec.calle) == "strings" && recvTypeName(ec.calle) == "Builder" || objPkgPath(ec.calle) == "bytes" && recvTypeName(ec.calle) == "Buffer") {
				continue // documented: these writers always return a nil error
			}
			if ec.calle != nil && (isFunc(ec.calle, "fmt", "", "Errorf") || isFunc(ec.calle, "errors", "", "New") || isFunc(ec.calle, modPath+"/builder", "", "NewError") || isFunc(ec.calle, modPath+"/builder", "Error", "Lift")) {
				continue // constructors: produce the error that is being reported
			}
			if ec.calle != nil && isFunc(ec.calle, "flag", "FlagSet", "Set") {
				continue
			}
			total++
			cnt[name]++
			site := fmt.Sprintf("%s/call %s#%d", fi.Name(), name, cnt[name])
			pos := p.PosStr(ec.call.Pos())
			akey := p.anchorFor(fi, fnPartsOf(append(mapKeys(auditedErrDrops), mapKeys(sanctionedEdges)...))) + "|" + name
			if why, ok, broken := auditedDrop(p, akey); ok {
				if broken != "" {
					r.Bad(site, pos, "audited drop whose sub-fact no longer holds: "+broken)
					continue
				}
				r.OK(site, pos, "audited drop: "+why)
				r.Tables = append(r.Tables, "C13.R3 audited drop "+akey+" — "+why)
				continue
			}
			if len(ec.vals) < ec.nErr {
				r.Bad(site, pos, "the error result of "+name+" is discarded (blank identifier or unused): the failure would not reach the user as a diagnostic")
				continue
			}
			bad := false
			how := ""
			var cut func(*ssa.If) int
			if sc, ok := sanctionedEdges[akey]; ok {
				if msg := sc.fact(p); msg != "" {
					r.Bad(site, pos, "sanctioned continuation, but its sub-fact no longer holds: "+msg)
					continue
				}
				cut = sc.cut(ec)
				r.Tables = append(r.Tables, "C13.R3 sanctioned edge "+akey+" — "+sc.why)
			}
			for _, v := range ec.vals {
				vd := checkErrValueCut(ec, v, cut)
				if !vd.ok {
					where := ""
					if vd.at.IsValid() {
						where = " (" + p.PosStr(vd.at) + ")"
					}
					r.Bad(site, pos, vd.how+where)
					bad = true
					break
				}
				how = vd.how
			}
			if !bad {
				r.OK(site, pos, how)
			}
		}
	}
	r.Analysed["error_producing_calls"] = total
}

// ---------------------------------------------------------------------------
// R4 recursion

func c13R4(p *Prog, r *Report) {
	r.Rule("C13.R4", "every recursion cycle of own functions (VTA call graph) is (a) structural over a finite type expression without unfolding named types, (b) unfolds named types and consults a visited set keyed by *types.Named, (c) the single-step ZeroValue unfolding, or (d) the audited generator cycle (lookup.Register before buildMethod; MarkSeen on every path)", 4)
	g := p.VTA()
	// own nodes
	idx := map[*ssa.Function]int{}
	var nodes []*ssa.Function
	for fn := range g.Nodes {
		if fn != nil && p.ssaIsOwn(fn) {
			idx[fn] = len(nodes)
			nodes = append(nodes, fn)
		}
	}
	adj := make([][]int, len(nodes))
	for fn, i := range idx {
		for _, e := range g.Nodes[fn].Out {
			if j, ok := idx[e.Callee.Func]; ok {
				adj[i] = append(adj[i], j)
			}
		}
	}
	sccs := tarjan(len(nodes), adj)
	for _, comp := range sccs {
		if len(comp) == 1 {
			self := false
			for _, j := range adj[comp[0]] {
				if j == comp[0] {
					self = true
				}
			}
			if !self {
				continue
			}
		}
		var names []string
		members := map[*ssa.Function]bool{}
		for _, i := range comp {
			members[nodes[i]] = true
			names = append(names, ssaName(nodes[i]))
		}
		sort.Strings(names)
		site := "cycle{" + short(strings.Join(names, ","), 90) + "}"
		// does the cycle unfold named types?
		unfolds := false
		hasVisited := false
		isGenerator := false
		for fn := range members {
			if strings.Contains(ssaName(fn), "generator.(*generator)") || strings.Contains(ssaName(fn), "builder.") {
				isGenerator = true
			}
			allInstrs(fn, false, func(in ssa.Instruction) {
				if c, ok := in.(ssa.CallInstruction); ok {
					cc := c.Common()
					var o *types.Func
					if cc.IsInvoke() {
						o = cc.Method
					} else {
						o = ssaCalleeObj(c)
					}
					if o != nil && objPkgPath(o) == "go/types" && o.Name() == "Underlying" {
						unfolds = true
					}
				}
			})
			for _, prm := range fn.Params {
				if m, ok := prm.Type().Underlying().(*types.Map); ok && isNamed(m.Key(), "go/types", "Named") {
					// must be read (lookup) and written in the cycle
					read, write := false, false
					for _, ref := range *prm.Referrers() {
						switch ref.(type) {
						case *ssa.Lookup:
							read = true
						case *ssa.MapUpdate:
							write = true
						}
					}
					if read && write {
						hasVisited = true
					}
				}
			}
		}
		pos := ""
		switch {
		case isGenerator && len(comp) > 5:
			if bad := generatorCycleFacts(p); bad != "" {
				r.Bad(site, pos, "audited generator cycle, but: "+bad)
			} else {
				r.OK(site, pos, fmt.Sprintf("(d) generator cycle of %d functions: sub-methods are registered before they are built and every visited named type is marked (sub-facts re-verified)", len(comp)))
			}
		case !unfolds:
			r.OK(site, pos, "(a) structural recursion: no member calls Underlying(), so each step descends into a strictly smaller part of a finite type expression")
		case hasVisited:
			if bad := visitedSetThreaded(members); bad != "" {
				r.Bad(site, pos, "the cycle unfolds named types under a visited set, but "+bad+": the bookkeeping restarts inside the cycle, so a type that reaches itself on that route (e.g. `type Trie [26]*Trie`) recurses until the stack overflows")
			} else {
				r.OK(site, pos, "(b) unfolds named types under a visited set map[*types.Named]… that is consulted, extended and handed unchanged to every call inside the cycle")
			}
		case cycleInRegion(p, members, "xtype.ZeroValue"):
			if bad := zeroValueSingleStep(p); bad != "" {
				r.Bad(site, pos, bad)
			} else {
				r.OK(site, pos, "(c) the only recursive call sits in the *types.Named arm with an Underlying() argument, which is never named: depth ≤ 2")
			}
		default:
			r.Bad(site, pos, "the cycle unfolds named types (calls Underlying()) without consulting a visited set: a recursive type such as `type T map[string]T` recurses without bound")
		}
	}
}

// visitedSetThreaded: every member of the cycle has a map[*types.Named]… parameter and every call from one member to
// another passes the caller's own parameter in that position (a fresh or different map restarts the bookkeeping).
func visitedSetThreaded(members map[*ssa.Function]bool) string {
	setParam := func(fn *ssa.Function) (int, *ssa.Parameter) {
		for i, prm := range fn.Params {
			if m, ok := prm.Type().Underlying().(*types.Map); ok && isNamed(m.Key(), "go/types", "Named") {
				return i, prm
			}
		}
		return -1, nil
	}
	var names []string
	for fn := range members {
		names = append(names, ssaName(fn))
	}
	sort.Strings(names)
	byName := map[string]*ssa.Function{}
	for fn := range members {
		byName[ssaName(fn)] = fn
	}
	for _, nm := range names {
		fn := byName[nm]
		_, own := setParam(fn)
		if own == nil {
			return ssaName(fn) + " is part of the cycle and has no visited-set parameter (it starts a fresh set)"
		}
		bad := ""
		allInstrs(fn, false, func(in ssa.Instruction) {
			c, ok := in.(ssa.CallInstruction)
			if !ok || bad != "" {
				return
			}
			callee := c.Common().StaticCallee()
			if callee == nil || !members[callee] {
				return
			}
			i, _ := setParam(callee)
			if i < 0 || i >= len(c.Common().Args) {
				return
			}
			if c.Common().Args[i] != ssa.Value(own) {
				bad = ssaName(fn) + " calls " + ssaName(callee) + " with a visited set other than the one it received"
			}
		})
		if bad != "" {
			return bad
		}
	}
	return ""
}

func ssaName(fn *ssa.Function) string {
	if o, ok := fn.Object().(*types.Func); ok {
		return funcKey(o)
	}
	if fn.Parent() != nil {
		return ssaName(fn.Parent()) + "$anon"
	}
	if fn.Origin() != nil {
		return ssaName(fn.Origin())
	}
	return fn.Name()
}

func tarjan(n int, adj [][]int) [][]int {
	index := 0
	idx := make([]int, n)
	low := make([]int, n)
	on := make([]bool, n)
	for i := range idx {
		idx[i] = -1
	}
	var stack []int
	var out [][]int
	var strong func(v int)
	strong = func(v int) {
		idx[v], low[v] = index, index
		index++
		stack = append(stack, v)
		on[v] = true
		for _, w := range adj[v] {
			if idx[w] == -1 {
				strong(w)
				if low[w] < low[v] {
					low[v] = low[w]
				}
			} else if on[w] && idx[w] < low[v] {
				low[v] = idx[w]
			}
		}
		if low[v] == idx[v] {
			var comp []int
			for {
				w := stack[len(stack)-1]
				stack = stack[:len(stack)-1]
				on[w] = false
				comp = append(comp, w)
				if w == v {
					break
				}
			}
			out = append(out, comp)
		}
	}
	for v := 0; v < n; v++ {
		if idx[v] == -1 {
			strong(v)
		}
	}
	return out
}

func zeroValueSingleStep(p *Prog) string {
	fi := p.Func("xtype.ZeroValue")
	if fi == nil {
		return "xtype.ZeroValue not found"
	}
	sf := p.SSAFunc(fi)
	if sf == nil {
		return "no SSA for xtype.ZeroValue"
	}
	// every recursive call receives (*types.Named).Underlying() of the named type at hand — one unfolding step
	// whose result is never a *types.Named again — whatever the surrounding if/switch looks like
	bad := ""
	var region []*ssa.Function
	for _, rf := range p.Region("xtype.ZeroValue") {
		if hf := p.SSAFunc(rf); hf != nil {
			region = append(region, hf)
		}
	}
	forAllInstrs(region, func(in ssa.Instruction) {
		c, ok := in.(*ssa.Call)
		if !ok || c.Call.StaticCallee() != sf || len(c.Call.Args) != 1 {
			return
		}
		v := c.Call.Args[0]
		okArg := false
		for i := 0; i < 6 && v != nil; i++ {
			switch x := v.(type) {
			case *ssa.MakeInterface:
				v = x.X
				continue
			case *ssa.ChangeInterface:
				v = x.X
				continue
			case *ssa.TypeAssert:
				v = x.X
				continue
			case *ssa.Extract:
				v = x.Tuple
				continue
			case *ssa.Phi:
				// all edges must qualify: take the first and let the others be checked by the same walk
				if len(x.Edges) > 0 {
					v = x.Edges[0]
					continue
				}
			case *ssa.Call:
				if o := ssaCalleeObj(x); o != nil && o.Name() == "Underlying" && !x.Call.IsInvoke() && recvTypeName(o) == "Named" && objPkgPath(o) == "go/types" {
					okArg = true
				}
			}
			break
		}
		if !okArg {
			bad = "ZeroValue recurses with an argument that is not (*types.Named).Underlying(): recursion on a recursive type is unbounded (" + p.PosStr(c.Pos()) + ")"
		}
	})
	return bad
}

// generatorCycleFacts re-verifies what the audit of the generator cycle relies on.
func generatorCycleFacts(p *Prog) string {
	fi, sf := p.Func("generator.(*generator).createSubMethod"), (*ssa.Function)(nil)
	if fi == nil {
		return "createSubMethod not found"
	}
	sf = p.SSAFunc(fi)
	regs := callsIn(sf, false, func(o *types.Func) bool { return recvTypeName(o) == "Index" && o.Name() == "Register" })
	builds := callsIn(sf, false, isObj(modPath+"/generator", "generator", "buildMethod"))
	if len(regs) == 0 || len(builds) == 0 {
		return "createSubMethod no longer registers the new method / builds it"
	}
	for _, b := range builds {
		dom := false
		for _, rg := range regs {
			ri, bi := rg.(ssa.Instruction), b.(ssa.Instruction)
			if ri.Block().Dominates(bi.Block()) && (ri.Block() != bi.Block() || instrIndex(ri) < instrIndex(bi)) {
				dom = true
			}
		}
		if !dom {
			return "in createSubMethod, buildMethod is not dominated by lookup.Register: a recursive type would create sub-methods for ever"
		}
	}
	// shouldCreateSubMethod: MarkSeen on every path to return
	fi2 := p.Func("generator.(*generator).shouldCreateSubMethod")
	if fi2 == nil {
		return "shouldCreateSubMethod not found"
	}
	sf2 := p.SSAFunc(fi2)
	isMark := func(in ssa.Instruction) bool {
		c, ok := in.(ssa.CallInstruction)
		return ok && ssaCalleeObj(c) != nil && ssaCalleeObj(c).Name() == "MarkSeen"
	}
	if g := existsPath(sf2.Blocks[0], 0, isReturn, isMark); g != nil {
		return "shouldCreateSubMethod can return without MarkSeen(source): recursion through a named type is not recognised"
	}
	// Build / Assign consult callExisting before creating or building
	for _, k := range []string{"generator.(*generator).Build", "generator.(*generator).Assign"} {
		f := p.Func(k)
		if f == nil {
			return k + " not found"
		}
		s := p.SSAFunc(f)
		isCallExisting := func(in ssa.Instruction) bool {
			c, ok := in.(ssa.CallInstruction)
			return ok && ssaCalleeObj(c) != nil && ssaCalleeObj(c).Name() == "callExisting"
		}
		isCreate := func(in ssa.Instruction) bool {
			c, ok := in.(ssa.CallInstruction)
			return ok && ssaCalleeObj(c) != nil && (ssaCalleeObj(c).Name() == "createSubMethod")
		}
		if g := existsPath(s.Blocks[0], 0, isCreate, func(in ssa.Instruction) bool {
			if isCallExisting(in) {
				return true
			}
			// delegating to Build (which does the lookup) also counts
			c, ok := in.(ssa.CallInstruction)
			return ok && ssaCalleeObj(c) != nil && ssaCalleeObj(c).Name() == "Build" && recvTypeName(ssaCalleeObj(c)) == "generator"
		}); g != nil {
			return k + " can create a sub-method without looking up an existing one first"
		}
	}
	return ""
}

// ---------------------------------------------------------------------------
// R5 loops and the fix-point

var auditedLoops = map[string]string{
	"namer.(*Namer).Index": "candidate names v, v2, v3 … are pairwise distinct; the loop returns at the first name Register accepts and the lookup set is finite",
	"namer.(*Namer).Map":   "candidate pairs key/value, key2/value2 … are pairwise distinct (from i ≥ 2); the loop returns at the first unused pair",
	"namer.(*Namer).Name":  "candidates name, name2, name3 … are pairwise distinct; returns at the first name Register accepts",
}

func c13R5(p *Prog, r *Report) {
	r.Rule("C13.R5", "a `for` loop without a bounding condition exists only in the audited name allocators (sub-fact: the loop body returns under a Register/lookup test and the candidate depends on the counter); the generator's fix-point `for anyDirty()` terminates because every `Dirty = true` is tied to a monotone state change", 5)
	for _, fi := range p.Funcs {
		fi := fi
		info := fi.Pkg.TypesInfo
		n := 0
		ast.Inspect(fi.Decl, func(nn ast.Node) bool {
			fs, ok := nn.(*ast.ForStmt)
			if !ok {
				return true
			}
			bounded := false
			if fs.Cond != nil {
				// i < len(x) / i < n.NumX() / i < const with i++ post
				if b, ok := ast.Unparen(fs.Cond).(*ast.BinaryExpr); ok && (b.Op == token.LSS || b.Op == token.LEQ || b.Op == token.GTR || b.Op == token.GEQ) && fs.Post != nil {
					bounded = true
				}
			}
			if fs.Cond != nil && !bounded {
				for _, c := range conjuncts(fs.Cond) {
					if call, ok := ast.Unparen(c).(*ast.CallExpr); ok {
						if fn, ok := calleeObj(info, call).(*types.Func); ok && isFunc(fn, "bufio", "Scanner", "Scan") {
							bounded = true // consumes a finite reader
						}
					}
					if b, ok := ast.Unparen(c).(*ast.BinaryExpr); ok && (b.Op == token.LSS || b.Op == token.LEQ || b.Op == token.GTR || b.Op == token.GEQ) {
						if id, ok := ast.Unparen(b.X).(*ast.Ident); ok {
							obj := info.ObjectOf(id)
							ast.Inspect(fs.Body, func(m ast.Node) bool {
								if inc, ok := m.(*ast.IncDecStmt); ok {
									if i2, ok := ast.Unparen(inc.X).(*ast.Ident); ok && info.ObjectOf(i2) == obj {
										bounded = true
									}
								}
								return true
							})
						}
					}
				}
			}
			if bounded {
				return true
			}
			n++
			site := fmt.Sprintf("%s/for#%d", fi.Name(), n)
			pos := p.PosStr(fs.Pos())
			if fs.Cond != nil {
				// for g.anyDirty()
				if call, ok := ast.Unparen(fs.Cond).(*ast.CallExpr); ok {
					if fn, ok := calleeObj(info, call).(*types.Func); ok && fn.Name() == "anyDirty" {
						r.OK(site, pos, "fix-point loop; termination by the Dirty obligations below")
						return true
					}
				}
				r.Bad(site, pos, "loop condition "+exprString(fs.Cond)+" is not a recognised bound")
				return true
			}
			why, ok := auditedLoops[p.anchorFor(fi, mapKeys(auditedLoops))]
			if !ok {
				r.Bad(site, pos, "unbounded `for` loop outside the audited allocators")
				return true
			}
			// sub-fact: a return inside an if inside the loop; candidate built with fmt.Sprint(i)
			hasRet, usesCounter := false, false
			var counter types.Object
			if as, ok := fs.Init.(*ast.AssignStmt); ok {
				if id, ok := as.Lhs[0].(*ast.Ident); ok {
					counter = info.ObjectOf(id)
				}
			}
			ast.Inspect(fs.Body, func(m ast.Node) bool {
				if ifs, ok := m.(*ast.IfStmt); ok {
					ast.Inspect(ifs.Body, func(q ast.Node) bool {
						if _, ok := q.(*ast.ReturnStmt); ok {
							hasRet = true
						}
						return true
					})
				}
				if id, ok := m.(*ast.Ident); ok && counter != nil && info.ObjectOf(id) == counter {
					usesCounter = true
				}
				return true
			})
			if msg := candidatesStayDistinct(info, fs, counter); msg != "" {
				r.Bad(site, pos, "allocator loop: "+msg+": two counter values can yield the same candidate, so the loop may never find a free name")
				return true
			}
			if hasRet && usesCounter && fs.Post != nil {
				r.OK(site, pos, "audited allocator loop: "+why)
				r.Tables = append(r.Tables, "C13.R5 "+fi.Name()+" — "+why)
			} else {
				r.Bad(site, pos, "allocator loop lost its exit (a return under a test) or its candidate no longer depends on the counter")
			}
			return true
		})
	}
	dirtyObligations(p, r)
}

// candidatesStayDistinct: inside an allocator loop the string candidates declared in
// the body are only initialised (:=) and extended with `+= fmt.Sprint(counter)` (or
// strconv.Itoa / Sprintf of the counter); they are never re-assigned, sliced or
// otherwise shortened — base+decimal(counter) is injective in the counter.
func candidatesStayDistinct(info *types.Info, fs *ast.ForStmt, counter types.Object) string {
	cands := map[types.Object]bool{}
	ast.Inspect(fs.Body, func(m ast.Node) bool {
		if as, ok := m.(*ast.AssignStmt); ok && as.Tok == token.DEFINE {
			for _, l := range as.Lhs {
				if id, ok := l.(*ast.Ident); ok {
					if o := info.ObjectOf(id); o != nil {
						if b, ok := o.Type().Underlying().(*types.Basic); ok && b.Info()&types.IsString != 0 {
							cands[o] = true
						}
					}
				}
			}
		}
		return true
	})
	msg := ""
	mentionsCounter := func(e ast.Expr) bool { return counter != nil && refersTo(info, e, counter) }
	ast.Inspect(fs.Body, func(m ast.Node) bool {
		switch x := m.(type) {
		case *ast.SliceExpr:
			if t := info.TypeOf(x.X); t != nil {
				if b, ok := t.Underlying().(*types.Basic); ok && b.Info()&types.IsString != 0 {
					msg = "a candidate name is shortened by slicing (" + exprString(x) + ")"
				}
			}
		case *ast.AssignStmt:
			if x.Tok == token.DEFINE {
				return true
			}
			for i, l := range x.Lhs {
				id, ok := ast.Unparen(l).(*ast.Ident)
				if !ok || !cands[info.ObjectOf(id)] {
					continue
				}
				okExt := false
				if x.Tok == token.ADD_ASSIGN && i < len(x.Rhs) {
					if call, ok := ast.Unparen(x.Rhs[i]).(*ast.CallExpr); ok {
						if fn, ok := calleeObj(info, call).(*types.Func); ok && (isFunc(fn, "fmt", "", "Sprint") || isFunc(fn, "fmt", "", "Sprintf") || isFunc(fn, "strconv", "", "Itoa")) {
							for _, a := range call.Args {
								if mentionsCounter(a) {
									okExt = true
								}
							}
						}
					}
				}
				if !okExt {
					msg = "candidate " + id.Name + " is re-assigned by `" + exprString(l) + " " + x.Tok.String() + " …` other than appending the counter"
				}
			}
		}
		return true
	})
	return msg
}

// dirtyObligations: every store of `true` into generatedMethod.Dirty.
func dirtyObligations(p *Prog, r *Report) {
	n := 0
	for _, fi := range p.Funcs {
		sf := p.SSAFunc(fi)
		if sf == nil {
			continue
		}
		cnt := 0
		allInstrs(sf, true, func(in ssa.Instruction) {
			st, ok := in.(*ssa.Store)
			if !ok {
				return
			}
			fa, ok := st.Addr.(*ssa.FieldAddr)
			if !ok || fieldName(fa) != "Dirty" || !isNamed(fa.X.Type(), modPath+"/generator", "generatedMethod") {
				return
			}
			k, ok := st.Val.(*ssa.Const)
			if !ok || k.Value == nil || !constant.BoolVal(k.Value) {
				return
			}
			n++
			cnt++
			site := fmt.Sprintf("%s/Dirty=true#%d", fi.Name(), cnt)
			pos := p.PosStr(st.Pos())
			b := st.Block()
			switch p.anchorFor(fi, []string{"generator.(*generator).ReturnError", "generator.(*generator).requireContext", "generator.(*generator).shouldCreateSubMethod", "generator.setupGenerator"}) {
			case "generator.(*generator).ReturnError":
				// dominated by the false edge of a load of <same method>.ReturnError, and ReturnError = true stored in the same block
				okGuard := dominatedByEdge(b, false, func(c ssa.Value) bool { return readsNamedFieldUnder(c, fa.X, "ReturnError") }) ||
					dominatedByEdge(b, true, func(c ssa.Value) bool {
						u, ok := c.(*ssa.UnOp)
						return ok && u.Op == token.NOT && readsNamedFieldUnder(u.X, fa.X, "ReturnError")
					})
				setsFlag := false
				for _, x := range b.Instrs {
					if s2, ok := x.(*ssa.Store); ok {
						if f2, ok := s2.Addr.(*ssa.FieldAddr); ok && fieldName(f2) == "ReturnError" {
							if k2, ok := s2.Val.(*ssa.Const); ok && k2.Value != nil && constant.BoolVal(k2.Value) {
								setsFlag = true
							}
						}
					}
				}
				if okGuard && setsFlag {
					r.OK(site, pos, "only when ReturnError was false, and it is set to true alongside (can happen once per method)")
				} else {
					r.Bad(site, pos, "Dirty is set without the `!check.ReturnError` guard / without flipping ReturnError: the fix-point may never settle")
				}
			case "generator.(*generator).requireContext":
				hasInsert := false
				for _, x := range b.Instrs {
					if mu, ok := x.(*ssa.MapUpdate); ok {
						if ld, ok := mu.Map.(*ssa.UnOp); ok {
							if f2, ok := ld.X.(*ssa.FieldAddr); ok && fieldName(f2) == "Context" {
								hasInsert = true
							}
						}
					}
				}
				// guard: reached only when the key was absent (continue on present)
				okGuard := dominatedByEdge(b, false, func(c ssa.Value) bool {
					ex, ok := c.(*ssa.Extract)
					if !ok || ex.Index != 1 {
						return false
					}
					_, isLookup := ex.Tuple.(*ssa.Lookup)
					return isLookup
				})
				if !okGuard && fi.Name() != "generator.(*generator).requireContext" {
					// the store sits in a private helper of requireContext: the guard must hold at every call of it
					sites := p.SSACallSites(st.Parent())
					okGuard = len(sites) > 0
					for _, cs := range sites {
						if !dominatedByEdge(cs.Block(), false, func(c ssa.Value) bool {
							ex, ok := c.(*ssa.Extract)
							if !ok || ex.Index != 1 {
								return false
							}
							_, isLookup := ex.Tuple.(*ssa.Lookup)
							return isLookup
						}) {
							okGuard = false
						}
					}
				}
				if hasInsert && okGuard {
					r.OK(site, pos, "only after inserting a context type that was absent (finite set of types)")
				} else {
					r.Bad(site, pos, "Dirty is set without inserting a previously absent context: the fix-point may never settle")
				}
			case "generator.(*generator).shouldCreateSubMethod":
				// every return reachable from here yields the constant true
				bad := returnsOnlyTrueFrom(st)
				if bad == "" {
					r.OK(site, pos, "every path from here returns true, so a sub-method is registered (finite set of signatures) before the method is rebuilt")
				} else {
					r.Bad(site, pos, "the current method is marked dirty but "+bad+": without a newly registered sub-method the rebuild repeats for ever")
				}
			case "generator.setupGenerator":
				r.OK(site, pos, "initial marking of the declared methods (each is built at least once)")
			default:
				// a helper that re-marks methods is fine when each of its calls sits next to a
				// monotone signature change (ReturnError false→true, a new context type): the
				// number of such changes is bounded, so is the number of re-markings
				if why := remarkHelperTied(p, fi); why == "" {
					r.OK(site, pos, "re-marking helper: every call of "+fi.Name()+" is in the block that flips ReturnError to true or inserts a new context type (bounded number of signature changes)")
				} else {
					r.Bad(site, pos, "unaudited place that re-marks a method dirty: "+why)
				}
			}
		})
	}
	if n < 3 {
		r.Unresolved(fmt.Sprintf("stores of generatedMethod.Dirty = true (found %d, expected ≥ 3)", n))
	}
	// clearing: buildDirtyMethods sets Dirty = false before building
	if fi := p.Func("generator.(*generator).buildDirtyMethods"); fi == nil {
		r.Unresolved("generator.(*generator).buildDirtyMethods")
	}
}

// remarkHelperTied: every call of the helper fi is made from generator.ReturnError or
// requireContext, in the basic block that performs the monotone change.
func remarkHelperTied(p *Prog, fi *FuncInfo) string {
	n := 0
	for _, caller := range p.Funcs {
		sf := p.SSAFunc(caller)
		if sf == nil {
			continue
		}
		for _, c := range callsIn(sf, true, func(o *types.Func) bool { return o.Origin() == fi.Obj.Origin() }) {
			n++
			name := p.anchorFor(caller, []string{"generator.(*generator).ReturnError", "generator.(*generator).requireContext"})
			if name != "generator.(*generator).ReturnError" && name != "generator.(*generator).requireContext" {
				return "called from " + caller.Name()
			}
			tied := false
			for _, x := range c.(ssa.Instruction).Block().Instrs {
				switch y := x.(type) {
				case *ssa.Store:
					if f2, ok := y.Addr.(*ssa.FieldAddr); ok && fieldName(f2) == "ReturnError" {
						if k2, ok := y.Val.(*ssa.Const); ok && k2.Value != nil && constant.BoolVal(k2.Value) {
							tied = true
						}
					}
				case *ssa.MapUpdate:
					if ld, ok := y.Map.(*ssa.UnOp); ok {
						if f2, ok := ld.X.(*ssa.FieldAddr); ok && fieldName(f2) == "Context" {
							tied = true
						}
					}
				}
			}
			if !tied {
				return "its call in " + name + " is not next to a signature change"
			}
		}
	}
	if _, vals := p.refSites(fi.Obj); len(vals) > 0 {
		return "used as a function value"
	}
	if n == 0 {
		return "never called"
	}
	return ""
}

// returnsOnlyTrueFrom enumerates acyclic paths from the store to returns and
// resolves the returned value through phis along the path.
func returnsOnlyTrueFrom(st *ssa.Store) string {
	type state struct {
		b    *ssa.BasicBlock
		prev *ssa.BasicBlock
	}
	bad := ""
	var walk func(b, prev *ssa.BasicBlock, i int, onPath map[*ssa.BasicBlock]bool, phiVal map[*ssa.Phi]ssa.Value, depth int)
	walk = func(b, prev *ssa.BasicBlock, i int, onPath map[*ssa.BasicBlock]bool, phiVal map[*ssa.Phi]ssa.Value, depth int) {
		if bad != "" || depth > 64 {
			return
		}
		local := phiVal
		if prev != nil {
			local = map[*ssa.Phi]ssa.Value{}
			for k, v := range phiVal {
				local[k] = v
			}
			pi := -1
			for k, pb := range b.Preds {
				if pb == prev {
					pi = k
				}
			}
			for _, in := range b.Instrs {
				ph, ok := in.(*ssa.Phi)
				if !ok {
					break
				}
				if pi >= 0 {
					v := ph.Edges[pi]
					if p2, ok := v.(*ssa.Phi); ok {
						if rv, ok := phiVal[p2]; ok {
							v = rv
						}
					}
					local[ph] = v
				}
			}
		}
		for ; i < len(b.Instrs); i++ {
			if ret, ok := b.Instrs[i].(*ssa.Return); ok {
				v := ret.Results[0]
				if ph, ok := v.(*ssa.Phi); ok {
					if rv, ok := local[ph]; ok {
						v = rv
					}
				}
				k, ok := v.(*ssa.Const)
				if !ok || k.Value == nil || k.Value.Kind() != constant.Bool || !constant.BoolVal(k.Value) {
					bad = "a path from here returns " + v.String() + " instead of true"
				}
				return
			}
		}
		for _, s := range b.Succs {
			if onPath[s] {
				continue
			}
			onPath[s] = true
			walk(s, b, 0, onPath, local, depth+1)
			delete(onPath, s)
		}
	}
	walk(st.Block(), nil, instrIndex(st)+1, map[*ssa.BasicBlock]bool{st.Block(): true}, map[*ssa.Phi]ssa.Value{}, 0)
	return bad
}

// readsNamedFieldUnder: cond loads a field called name reached from root through
// field selections (embedded structs / pointers).
func readsNamedFieldUnder(cond ssa.Value, root ssa.Value, name string) bool {
	u, ok := cond.(*ssa.UnOp)
	if !ok || u.Op != token.MUL {
		return false
	}
	fa, ok := u.X.(*ssa.FieldAddr)
	if !ok || fieldName(fa) != name {
		return false
	}
	var cur ssa.Value = fa.X
	for i := 0; i < 8; i++ {
		if cur == root {
			return true
		}
		switch x := cur.(type) {
		case *ssa.FieldAddr:
			cur = x.X
		case *ssa.UnOp:
			if x.Op != token.MUL {
				return false
			}
			cur = x.X
		default:
			return false
		}
	}
	return false
}

// sanctionedEdges: a call whose error may legitimately be non-nil while the function
// carries on, but only through one specific, separately verified edge.
type sanction struct {
	why  string
	fact func(p *Prog) string
	cut  func(ec *errCall) func(*ssa.If) int
}

var sanctionedEdges = map[string]sanction{
	"builder.(*Struct).Assign|builder.mapField": {
		why:  "`if skip { continue }`: mapField sets skip only for ignoreMissing together with a *xtype.NoMatchError (documented: the field is left unassigned)",
		fact: mapFieldSkipFact,
		cut: func(ec *errCall) func(*ssa.If) int {
			// the If whose condition is the skip result (#4) of this very call
			return func(ifi *ssa.If) int {
				if ex, ok := ifi.Cond.(*ssa.Extract); ok && ex.Index == 4 && ex.Tuple == ec.call.Value() {
					return 0
				}
				return -1
			}
		},
	},
	"cli.Parse|flag.(*FlagSet).Parse":    {why: "flag.ErrHelp is turned into the Help command (exit 0); every other flag error becomes a usage error", fact: func(*Prog) string { return "" }, cut: errHelpCut},
	"cli.parseGen|flag.(*FlagSet).Parse": {why: "flag.ErrHelp is turned into the Help command (exit 0); every other flag error becomes a usage error", fact: func(*Prog) string { return "" }, cut: errHelpCut},
}

func errHelpCut(ec *errCall) func(*ssa.If) int {
	return func(ifi *ssa.If) int {
		c, ok := ifi.Cond.(*ssa.Call)
		if !ok || ssaCalleeObj(c) == nil || !isFunc(ssaCalleeObj(c), "errors", "", "Is") {
			return -1
		}
		if isGlobalLoad(c.Call.Args[1], "flag", "ErrHelp") {
			return 0
		}
		return -1
	}
}

// mapFieldSkipFact: every return of builder.mapField whose skip result can be true
// takes it from `_, skip = err.(*xtype.NoMatchError)` under ctx.Conf.IgnoreMissing.
func mapFieldSkipFact(p *Prog) string {
	fi := p.Func("builder.mapField")
	if fi == nil {
		return "builder.mapField not found"
	}
	sf := p.SSAFunc(fi)
	if sf == nil {
		return "no SSA for builder.mapField"
	}
	// skip (5th result) may be true only if ctx.Conf.IgnoreMissing was read true AND the lookup error is a
	// *xtype.NoMatchError — decided by evaluating mapField (and the private helpers it delegates to) with one of
	// the two fixed to false: no return may then carry skip = true.
	type tri struct{ set, val bool }
	explicitPath := false // when set: the field has a configured source path (fieldMapping.Source != "")
	nSrc := 0
	run := func(im, nm tri) (*ssa.Return, int, int) {
		nIM, nNM := 0, 0
		sc := &absScenario{assume: func(v ssa.Value, _ func(ssa.Value) absVal) (absVal, bool) {
			if bo, ok := v.(*ssa.BinOp); ok && (bo.Op == token.EQL || bo.Op == token.NEQ) {
				x, y := bo.X, bo.Y
				if _, isK := x.(*ssa.Const); isK {
					x, y = y, x
				}
				if k, isK := y.(*ssa.Const); isK && loadsFieldNamed(x, "Source") {
					if a := constVal(k); a.k == absStr && a.s == "" {
						nSrc++
						if explicitPath {
							return aBool(bo.Op == token.NEQ), true
						}
					}
				}
			}
			if loadsFieldNamed(v, "IgnoreMissing") {
				nIM++
				if im.set {
					return aBool(im.val), true
				}
				return aUnknown, true
			}
			if ex, ok := v.(*ssa.Extract); ok && ex.Index == 1 {
				if ta, ok := ex.Tuple.(*ssa.TypeAssert); ok && ta.CommaOk && isNamed(derefType(ta.AssertedType), modPath+"/xtype", "NoMatchError") {
					nNM++
					if nm.set {
						return aBool(nm.val), true
					}
					return aUnknown, true
				}
			}
			return aUnknown, false
		}}
		got := absReach(sf, sc, func(ret *ssa.Return, eval func(ssa.Value) absVal) bool {
			if len(ret.Results) != 6 {
				return false
			}
			a := eval(ret.Results[4])
			return !(a.k == absBool && !a.b)
		})
		return got, nIM, nNM
	}
	if got, _, _ := run(tri{true, false}, tri{}); got != nil {
		return p.PosStr(got.Pos()) + ": skip can be true although ctx.Conf.IgnoreMissing is false: a target field could be silently skipped without the setting"
	}
	if got, _, _ := run(tri{}, tri{true, false}); got != nil {
		return p.PosStr(got.Pos()) + ": skip can be true for an error that is not a *xtype.NoMatchError (e.g. an ambiguous match): the field would be silently skipped instead of reported"
	}
	explicitPath = true
	if got, _, _ := run(tri{}, tri{}); got != nil {
		return p.PosStr(got.Pos()) + ": skip can be true for a field with a configured source path (goverter:map PATH FIELD): a path that cannot be resolved must fail generation, ignoreMissing only covers fields without a matching source"
	}
	explicitPath = false
	if nSrc == 0 {
		return "the test `fieldMapping.Source == \"\"` (no configured path) is no longer recognisable in mapField"
	}
	got, nIM, nNM := run(tri{true, true}, tri{true, true})
	if got == nil || nIM == 0 || nNM == 0 {
		return "the ignoreMissing continuation is no longer recognisable in mapField (IgnoreMissing read / *xtype.NoMatchError test not found on a path that sets skip)"
	}
	return ""
}

// cycleInRegion: the cycle consists of the anchor function and private helpers of its region only.
func cycleInRegion(p *Prog, members map[*ssa.Function]bool, anchor string) bool {
	afi := p.Func(anchor)
	if afi == nil {
		return false
	}
	hasAnchor := false
	for fn := range members {
		o, ok := fn.Object().(*types.Func)
		if !ok {
			return false
		}
		fi := p.Func(funcKey(o))
		if fi == nil || !p.inRegion(anchor, fi) {
			return false
		}
		if fi == afi {
			hasAnchor = true
		}
	}
	return hasAnchor
}
