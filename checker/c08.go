package main

import (
	"fmt"
	"go/ast"
	"go/constant"
	"go/token"
	"go/types"
	"os"
	"sort"
	"strings"

	"golang.org/x/tools/go/ssa"
)

func init() {
	register(&Check{
		ID: "C08", Level: "other",
		Explanation: "Decides structural necessary conditions of enum conversion: (R1) action-set agreement — the actions accepted by config.validateEnumAction, the arms of builder.caseAction and the declared EnumAction* constants are " +
			"the same set, and caseAction's default is an error; (R2) totality — enum.Detect collects every package-level constant of the type (its loop filters only on `is a constant` and `has exactly this type`), " +
			"SortedMembers returns all of them, Enum.Build visits every source member and each iteration ends in an appended case or an appended skip-comment (only for a duplicate value mapped to the same target), " +
			"a missing enum:unknown is an error, the default arm is appended before success, the mapped target must exist in the target enum, and the target name is resolved enum:map > transformers > identical name; " +
			"(R3) values coming from constant.Val (possibly *big.Int/*big.Rat/*big.Float) are compared or used as map keys only through a canonicaliser built on constant.Make(v).ExactString(); " +
			"(R4) enum:map keys that match no source member are reported. The run-time result per value is not decided.",
		NotDecided: []string{"the run-time result for each member / non-member value", "semantics of custom enum transformers (user code)"},
		Run:        runC08,
	})
}

func runC08(p *Prog, r *Report) {
	c08R1(p, r)
	c08R2(p, r, "C08.R2")
	c08R3(p, r)
	c05R2(p, r, "C08.R4", []string{"builder.(*Enum).Build"})
	pkgLevelStateRule(p, r, "C08.R5")
	r.Rule("C08.R8", "generated sub-methods (nested enum conversions) take the converter-level enum settings (enum:unknown …), never those of the method that happens to create them first", 1)
	subMethodCommonRule(p, r, "generator.(*generator).createSubMethod/Common")
	transformEveryKeyRule(p, r, "C08.R7")
	patternsUnmodifiedRule(p, r, "C08.R9")
	armStoresRule(p, r, "C08.R6", "config.parseMethodLine", "enum:map", "enum:transform")
	precedenceRule(p, r, "C08.R10", "Enum")
	underlyingEnumRefusalRule(p, r, "C08.R12")
	anyPatternRule(p, r, "C08.R14")
	enumKindMaskRule(p, r, "C08.R15")
	transformersMergedRule(p, r, "C08.R16")
	enumDisabledRule(p, r, "C08.R17")
	transformerLookupOrderRule(p, r, "C08.R18")
	relativePackageRule(p, r, "C08.R13")
	matchesCompleteRule(p, r, "C08.R11", "two detected enums are always converted by the name-driven switch, never by the plain basic conversion", "builder.(*Enum).Matches")
}

func c08R1(p *Prog, r *Report) {
	r.Rule("C08.R1", "action-set agreement: {declared config.EnumAction* constants} = {values accepted by config.validateEnumAction} = {arms of builder.caseAction}; both switches end in an error for anything else", 3)
	cfg := p.Pkg("config")
	declared := map[string]string{}
	for _, name := range cfg.Types.Scope().Names() {
		if c, ok := cfg.Types.Scope().Lookup(name).(*types.Const); ok && strings.HasPrefix(name, "EnumAction") {
			declared[c.Val().ExactString()] = name
		}
	}
	collect := func(key string) (map[string]bool, bool, *FuncInfo) {
		fi := p.Func(key)
		if fi == nil {
			r.Unresolved(key)
			return nil, false, nil
		}
		info := fi.Pkg.TypesInfo
		got := map[string]bool{}
		defErr := false
		region := p.Region(key)
		for _, rf := range region {
			ast.Inspect(rf.Decl, func(n ast.Node) bool {
				switch x := n.(type) {
				case *ast.SwitchStmt:
					if x.Tag == nil {
						return true
					}
					for _, c := range x.Body.List {
						cc := c.(*ast.CaseClause)
						if len(cc.List) == 0 && len(cc.Body) > 0 {
							if ret, ok := cc.Body[len(cc.Body)-1].(*ast.ReturnStmt); ok {
								last := ret.Results[len(ret.Results)-1]
								if id, isID := ast.Unparen(last).(*ast.Ident); !isID || id.Name != "nil" {
									defErr = true
								}
							}
						}
						for _, e := range cc.List {
							if tv, ok := info.Types[e]; ok && tv.Value != nil {
								got[tv.Value.ExactString()] = true
							}
						}
					}
				case *ast.BinaryExpr:
					// if-form: s == EnumActionX || …
					if x.Op == token.EQL {
						if tv, ok := info.Types[x.Y]; ok && tv.Value != nil && tv.Value.Kind() == constant.String {
							if _, isID := ast.Unparen(x.X).(*ast.Ident); isID {
								got[tv.Value.ExactString()] = true
							}
						}
					}
				}
				return true
			})
		}
		// if-form: the function ends in an error return
		if !defErr && len(fi.Decl.Body.List) > 0 {
			if ret, ok := fi.Decl.Body.List[len(fi.Decl.Body.List)-1].(*ast.ReturnStmt); ok && len(ret.Results) > 0 {
				last := ret.Results[len(ret.Results)-1]
				if id, isID := ast.Unparen(last).(*ast.Ident); !isID || id.Name != "nil" {
					defErr = true
				}
			}
		}
		return got, defErr, fi
	}
	v, vDef, vfi := collect("config.validateEnumAction")
	c, cDef, cfi := collect("builder.caseAction")
	if v == nil || c == nil {
		return
	}
	names := func(m map[string]bool) string {
		var s []string
		for k := range m {
			if n, ok := declared[k]; ok {
				s = append(s, n)
			} else {
				s = append(s, k)
			}
		}
		sort.Strings(s)
		return strings.Join(s, ",")
	}
	decl := map[string]bool{}
	for k := range declared {
		decl[k] = true
	}
	if names(v) == names(decl) && vDef {
		r.OK("config.validateEnumAction/set", p.PosStr(vfi.Decl.Pos()), "accepts exactly "+names(decl)+"; anything else is an error")
	} else {
		r.Bad("config.validateEnumAction/set", p.PosStr(vfi.Decl.Pos()), fmt.Sprintf("accepts {%s}, declared actions are {%s} (default is error: %v): an action would be accepted in the configuration but not implemented, or vice versa", names(v), names(decl), vDef))
	}
	if names(c) == names(decl) && cDef {
		r.OK("builder.caseAction/set", p.PosStr(cfi.Decl.Pos()), "implements exactly "+names(decl)+"; default is an error")
	} else {
		r.Bad("builder.caseAction/set", p.PosStr(cfi.Decl.Pos()), fmt.Sprintf("implements {%s}, declared actions are {%s} (default is error: %v)", names(c), names(decl), cDef))
	}
	// what each arm emits
	if cfi != nil {
		info := cfi.Pkg.TypesInfo
		want := map[string]string{"EnumActionIgnore": "Comment", "EnumActionPanic": "Panic", "EnumActionError": "ReturnError"}
		ast.Inspect(cfi.Decl, func(n ast.Node) bool {
			cc, ok := n.(*ast.CaseClause)
			if !ok || len(cc.List) != 1 {
				return true
			}
			name := strings.TrimPrefix(exprString(cc.List[0]), "config.")
			w, ok := want[name]
			if !ok {
				return true
			}
			found := false
			ast.Inspect(cc, func(m ast.Node) bool {
				if call, ok := m.(*ast.CallExpr); ok {
					if f, ok := calleeObj(info, call).(*types.Func); ok && f.Name() == w {
						found = true
					}
				}
				return true
			})
			site := "builder.caseAction/arm " + name
			if found {
				r.OK(site, p.PosStr(cc.Pos()), "emits "+w)
			} else {
				r.Bad(site, p.PosStr(cc.Pos()), "the "+name+" arm no longer emits its documented action ("+w+")")
			}
			return true
		})
	}
}

func c08R2(p *Prog, r *Report, id string) {
	r.Rule(id, "totality: enum.Detect's member loop stores every constant whose type is identical to the enum type (the only filters are the *types.Const assertion and types.Identical); SortedMembers appends every key; Enum.Build ranges over SortedMembers(), every iteration appends a case or (for a duplicate value with an equal target) a skip-comment, `enum:unknown == \"\"` is an error, jen.Default() is appended before the switch is emitted, a mapped target must exist, and the target name is looked up in enum:map, then transformers, then taken from the source name", 7)
	// Detect
	if fi := p.Func("enum.Detect"); fi != nil {
		info := fi.Pkg.TypesInfo
		var store *ast.AssignStmt
		var stack []ast.Node
		walkStack(fi.Decl, func(n ast.Node, st []ast.Node) bool {
			as, ok := n.(*ast.AssignStmt)
			if ok && len(as.Lhs) == 1 {
				if ix, ok := ast.Unparen(as.Lhs[0]).(*ast.IndexExpr); ok {
					if _, isMap := info.TypeOf(ix.X).Underlying().(*types.Map); isMap {
						store = as
						stack = append([]ast.Node{}, st...)
					}
				}
			}
			return true
		})
		if store == nil {
			// the member loop may live in a private helper: decide on control dependence
			if why := detectMemberFilterSSA(p); why == "" {
				r.OK("enum.Detect/member filter", p.PosStr(fi.Decl.Pos()), "the member store depends only on `is a *types.Const` and types.Identical(enum type, constant type); the value is constant.Val(…)")
			} else {
				r.Bad("enum.Detect/member filter", p.PosStr(fi.Decl.Pos()), why)
			}
		} else {
			bad := ""
			// guards inside the loop only
			inLoop := false
			for _, g := range guardsOf(stack, store) {
				if _, isFor := g.Node.(*ast.RangeStmt); isFor {
					inLoop = true
				}
				pos := g.Node.Pos()
				// only guards located inside the range loop matter
				var loop *ast.RangeStmt
				for _, s := range stack {
					if rs, ok := s.(*ast.RangeStmt); ok {
						loop = rs
					}
				}
				if loop == nil || pos < loop.Pos() || g.Cond == nil {
					continue
				}
				c := exprString(g.Cond)
				ok := false
				switch {
				case g.Neg && isNegatedCommaOkAssert(info, fi.Decl, g.Cond, "go/types", "Const"):
					ok = true // c, ok := scope.Lookup(name).(*types.Const); if !ok { continue }
				case !g.Neg && strings.HasPrefix(c, "types.Identical("):
					ok = true
				}
				if !ok {
					bad = "members are additionally filtered by `" + c + "`: declared members (e.g. unexported ones) would be missing from the generated switch and fall into enum:unknown"
				}
			}
			_ = inLoop
			// the value stored is constant.Val(c.Val())
			if !strings.HasPrefix(exprString(store.Rhs[0]), "constant.Val(") {
				bad = "member values are not constant.Val(c.Val())"
			}
			if bad != "" {
				r.Bad("enum.Detect/member filter", p.PosStr(store.Pos()), bad)
			} else {
				r.OK("enum.Detect/member filter", p.PosStr(store.Pos()), "filters: is a *types.Const, types.Identical(enum type, constant type) — nothing else")
			}
		}
	} else {
		r.Unresolved("enum.Detect")
	}
	// SortedMembers
	if fi := p.Func("xtype.(Enum).SortedMembers"); fi != nil {
		ok := false
		ast.Inspect(fi.Decl, func(n ast.Node) bool {
			rs, isR := n.(*ast.RangeStmt)
			if isR && strings.HasSuffix(exprString(rs.X), ".Members") && len(rs.Body.List) == 1 {
				if as, isAs := rs.Body.List[0].(*ast.AssignStmt); isAs && strings.HasPrefix(exprString(as.Rhs[0]), "append(") {
					ok = true
				}
			}
			return true
		})
		if ok {
			r.OK("xtype.(Enum).SortedMembers", p.PosStr(fi.Decl.Pos()), "appends every key of Members (sorted afterwards, C09)")
		} else {
			r.Bad("xtype.(Enum).SortedMembers", p.PosStr(fi.Decl.Pos()), "does not return every member")
		}
	} else {
		r.Unresolved("xtype.(Enum).SortedMembers")
	}
	fi, sf := needFunc(p, r, "builder.(*Enum).Build")
	if fi == nil {
		return
	}
	info := fi.Pkg.TypesInfo
	// loop body: last statement is if/else whose leaves append to cases or return an error
	var loop *ast.RangeStmt
	ast.Inspect(fi.Decl, func(n ast.Node) bool {
		if rs, ok := n.(*ast.RangeStmt); ok && loop == nil && strings.HasSuffix(exprString(rs.X), "SortedMembers()") {
			loop = rs
		}
		return true
	})
	if loop == nil {
		r.Bad("builder.(*Enum).Build/members loop", p.PosStr(fi.Decl.Pos()), "does not range over sourceEnum.SortedMembers()")
		return
	}
	var leafOK func(s ast.Stmt) bool
	appendsCase := func(s ast.Stmt, kinds ...string) bool {
		as, ok := s.(*ast.AssignStmt)
		if !ok || len(as.Lhs) != 1 {
			return false
		}
		// the accumulator of the emitted switch cases: a local of type []jen.Code
		if t := info.TypeOf(as.Lhs[0]); t == nil || t.String() != "[]"+jenPath+".Code" {
			return false
		}
		call, ok := ast.Unparen(as.Rhs[0]).(*ast.CallExpr)
		if !ok || len(call.Args) != 2 {
			return false
		}
		ch, ok := chainOf(info, call.Args[1])
		return ok && ch.Root == nil && has(kinds, ch.Links[0].Name)
	}
	leafOK = func(s ast.Stmt) bool {
		switch x := s.(type) {
		case *ast.BlockStmt:
			if len(x.List) == 0 {
				return false
			}
			return leafOK(x.List[len(x.List)-1])
		case *ast.IfStmt:
			if x.Else == nil {
				return false
			}
			return leafOK(x.Body) && leafOK(x.Else)
		case *ast.ReturnStmt:
			last := x.Results[len(x.Results)-1]
			id, isID := ast.Unparen(last).(*ast.Ident)
			return !isID || id.Name != "nil" // error return
		case *ast.AssignStmt:
			return appendsCase(x, "Case", "Comment")
		}
		return false
	}
	if len(loop.Body.List) > 0 && leafOK(loop.Body.List[len(loop.Body.List)-1]) {
		r.OK("builder.(*Enum).Build/every member handled", p.PosStr(loop.Pos()), "each iteration ends in an appended case, an appended skip-comment or an error")
	} else {
		r.Bad("builder.(*Enum).Build/every member handled", p.PosStr(loop.Pos()), "an iteration over a source member can end without emitting a case for it")
	}
	// no continue/break inside the loop
	skip := false
	ast.Inspect(loop.Body, func(n ast.Node) bool {
		if b, ok := n.(*ast.BranchStmt); ok && (b.Tok == token.CONTINUE || b.Tok == token.BREAK) {
			skip = true
		}
		return true
	})
	if skip {
		// a `continue` after the member was handled is fine: decide per iteration — from the loop body no path
		// reaches the next iteration (or a successful return) without having emitted a case or a skip-comment
		skip = !memberLoopEmitsEval(sf)
	}
	if skip {
		r.Bad("builder.(*Enum).Build/no skipped member", p.PosStr(loop.Pos()), "continue/break in the member loop: a declared member could get no case")
	} else {
		r.OK("builder.(*Enum).Build/no skipped member", p.PosStr(loop.Pos()), "no continue/break in the member loop")
	}
	// duplicate values (SSA): every jen.Comment emitted in Enum.Build sits on the false edge of
	// enumTargetMismatches(…), and on its true edge every path returns an error
	okSkip, nComment := true, 0
	isMismatch := func(c ssa.Value) bool {
		call, ok := c.(*ssa.Call)
		return ok && ssaCalleeObj(call) != nil && ssaCalleeObj(call).Name() == "enumTargetMismatches"
	}
	allInstrs(sf, false, func(in ssa.Instruction) {
		c, ok := in.(*ssa.Call)
		if !ok || ssaCalleeObj(c) == nil || objPkgPath(ssaCalleeObj(c)) != jenPath || ssaCalleeObj(c).Name() != "Comment" {
			return
		}
		nComment++
		if !dominatedByEdge(c.Block(), false, isMismatch) {
			okSkip = false
		}
	})
	allInstrs(sf, false, func(in ssa.Instruction) {
		ifi, ok := in.(*ssa.If)
		if !ok || !isMismatch(ifi.Cond) {
			return
		}
		if g := existsPath(ifi.Block().Succs[0], 0, func(x ssa.Instruction) bool {
			if ret, ok := x.(*ssa.Return); ok && isSuccessReturn(ret) {
				return true
			}
			// leaving towards the next iteration also counts as `not an error`
			return false
		}, nil); g != nil {
			okSkip = false
		}
	})
	if okSkip && nComment >= 1 {
		r.OK("builder.(*Enum).Build/duplicate values", p.PosStr(loop.Pos()), "a member is replaced by a comment only when an earlier member has the same value and enumTargetMismatches is false; a mismatch is an error")
	} else {
		r.Bad("builder.(*Enum).Build/duplicate values", p.PosStr(loop.Pos()), "the duplicate-value handling is not `mismatch → error, else skip-comment`")
	}
	// precedence of the target name (SSA, in Enum.Build or a helper of it): the transformer lookup is made only when
	// enum:map has no entry, and the source name is used only when neither has one
	okPrec := false
	for _, f := range p.Region("builder.(*Enum).Build") {
		fsf := p.SSAFunc(f)
		var lkMap, lkTr *ssa.Lookup
		allInstrs(fsf, false, func(in ssa.Instruction) {
			lk, ok := in.(*ssa.Lookup)
			if !ok || !lk.CommaOk {
				return
			}
			if loadsFieldNamed(lk.X, "Map") {
				lkMap = lk
			} else if _, isMap := lk.X.Type().Underlying().(*types.Map); isMap && lkMap != nil && lkTr == nil {
				lkTr = lk
			}
		})
		if lkMap == nil || lkTr == nil {
			continue
		}
		okOf := func(lk *ssa.Lookup) func(ssa.Value) bool {
			var is func(c ssa.Value, depth int) bool
			is = func(c ssa.Value, depth int) bool {
				if ex, ok := c.(*ssa.Extract); ok {
					return ex.Index == 1 && ex.Tuple == ssa.Value(lk)
				}
				// `ok` re-assigned by the second lookup: φ[ok of enum:map, ok of transformers]
				if ph, ok := c.(*ssa.Phi); ok && depth < 2 {
					for _, e := range ph.Edges {
						if is(e, depth+1) {
							return true
						}
					}
				}
				return false
			}
			return func(c ssa.Value) bool { return is(c, 0) }
		}
		// the transformer lookup happens only on the !ok edge of the map lookup
		trGuarded := dominatedByEdge(lkTr.Block(), false, okOf(lkMap))
		// some φ merges [map value, transformer value, source name]; the source-name edge must come from !ok of the transformer lookup
		fallbackGuarded := false
		allInstrs(fsf, false, func(in ssa.Instruction) {
			ph, ok := in.(*ssa.Phi)
			if !ok || !types.Identical(ph.Type(), types.Typ[types.String]) {
				return
			}
			for i, e := range ph.Edges {
				if sameVar(e, lkMap.Index) {
					pred := ph.Block().Preds[i]
					if dominatedByEdge(pred, false, okOf(lkTr)) || edgeIsFalseOf(pred, ph.Block(), okOf(lkTr)) {
						fallbackGuarded = true
					}
				}
			}
		})
		// early-return spelling: `return <source name>` reached only when the transformer lookup failed
		for _, b := range fsf.Blocks {
			for _, in := range b.Instrs {
				if ret, ok := in.(*ssa.Return); ok && len(ret.Results) == 1 && sameVar(ret.Results[0], lkMap.Index) {
					if dominatedByEdge(b, false, okOf(lkTr)) {
						fallbackGuarded = true
					}
				}
			}
		}
		if trGuarded && fallbackGuarded && sameVar(lkMap.Index, lkTr.Index) {
			okPrec = true
		}
	}
	if okPrec {
		r.OK("builder.(*Enum).Build/target name precedence", p.PosStr(loop.Pos()), "enum:map, else transformers, else the identical name")
	} else {
		r.Bad("builder.(*Enum).Build/target name precedence", p.PosStr(loop.Pos()), "the target member is not resolved as enum:map > transformers > identical name")
	}
	// unknown missing → error; Default appended; both dominate the success return
	var unknownCheck, defAppend ssa.Instruction
	allInstrs(sf, false, func(in ssa.Instruction) {
		if ifi, ok := in.(*ssa.If); ok {
			if b, ok := ifi.Cond.(*ssa.BinOp); ok && b.Op == token.EQL {
				if k, ok := b.Y.(*ssa.Const); ok && k.Value != nil && k.Value.ExactString() == `""` && loadsField(b.X, "Unknown") {
					unknownCheck = in
				}
			}
		}
		if c, ok := in.(*ssa.Call); ok && ssaCalleeObj(c) != nil && objPkgPath(ssaCalleeObj(c)) == jenPath && ssaCalleeObj(c).Name() == "Default" {
			defAppend = in
		}
	})
	okDom := unknownCheck != nil && defAppend != nil
	if okDom {
		for _, b := range sf.Blocks {
			for _, in := range b.Instrs {
				if ret, ok := in.(*ssa.Return); ok && isSuccessReturn(ret) && hasNonNilCode(ret) {
					if !unknownCheck.Block().Dominates(b) || !defAppend.Block().Dominates(b) {
						okDom = false
					}
				}
			}
		}
		// the error side of the unknown check
		ifi := unknownCheck.(*ssa.If)
		if g := existsPath(ifi.Block().Succs[0], 0, func(x ssa.Instruction) bool {
			ret, ok := x.(*ssa.Return)
			return ok && isSuccessReturn(ret)
		}, nil); g != nil {
			okDom = false
		}
	}
	if !okDom {
		// the default arm may be built by a private helper: evaluate — with enum:unknown empty no success; and no
		// success without jen.Default() having been emitted
		isUnknownEmpty := func(v ssa.Value) (bool, bool) {
			b, ok := v.(*ssa.BinOp)
			if !ok || (b.Op != token.EQL && b.Op != token.NEQ) {
				return false, false
			}
			k, ok := b.Y.(*ssa.Const)
			if !ok || k.Value == nil || k.Value.ExactString() != `""` || !loadsField(b.X, "Unknown") {
				return false, false
			}
			return b.Op == token.EQL, true
		}
		nTest := 0
		sc1 := &absScenario{assume: func(v ssa.Value, _ func(ssa.Value) absVal) (absVal, bool) {
			if eq, ok := isUnknownEmpty(v); ok {
				nTest++
				return aBool(eq), true
			}
			return aUnknown, false
		}}
		okEmpty := absReach(sf, sc1, successGoal) == nil && nTest > 0
		sc2 := &absScenario{marks: func(in ssa.Instruction) (string, bool) {
			c, ok := in.(*ssa.Call)
			return "default", ok && ssaCalleeObj(c) != nil && objPkgPath(ssaCalleeObj(c)) == jenPath && ssaCalleeObj(c).Name() == "Default"
		}}
		okDefault := absReachState(sf, sc2, func(ret *ssa.Return, eval func(ssa.Value) absVal, st map[string]absVal) bool {
			return successGoal(ret, eval) && hasNonNilCode(ret) && !(st["@default"].k == absBool && st["@default"].b)
		}) == nil
		okDom = okEmpty && okDefault
	}
	if okDom {
		r.OK("builder.(*Enum).Build/unknown policy", p.PosStr(fi.Decl.Pos()), "`enum:unknown` missing → error; jen.Default() appended on every successful path")
	} else {
		r.Bad("builder.(*Enum).Build/unknown policy", p.PosStr(fi.Decl.Pos()), "success is reachable without a configured enum:unknown or without a default arm in the emitted switch")
	}
	// caseAction: mapped target must exist
	if ca, csf := needFunc(p, r, "builder.caseAction"); ca != nil {
		// the comma-ok of a lookup of the (string) target name in the Members of the *xtype.Enum parameter
		var enumPrm, namePrm *ssa.Parameter
		for _, prm := range csf.Params {
			if isNamed(derefType(prm.Type()), modPath+"/xtype", "Enum") {
				enumPrm = prm
			} else if enumPrm != nil && namePrm == nil && types.Identical(prm.Type().Underlying(), types.Typ[types.String]) {
				namePrm = prm
			}
		}
		isLookupOk := func(c ssa.Value) bool {
			ex, ok := c.(*ssa.Extract)
			if !ok || ex.Index != 1 {
				return false
			}
			lk, ok := ex.Tuple.(*ssa.Lookup)
			if !ok || !lk.CommaOk || lk.Index != ssa.Value(namePrm) {
				return false
			}
			ld, ok := lk.X.(*ssa.UnOp)
			if !ok {
				return false
			}
			fa, ok := ld.X.(*ssa.FieldAddr)
			return ok && fieldName(fa) == "Members" && rootParam(fa.X) == enumPrm
		}
		okExists := false
		if enumPrm != nil && namePrm != nil {
			for _, b := range csf.Blocks {
				ifi, ok := b.Instrs[len(b.Instrs)-1].(*ssa.If)
				if !ok || !isLookupOk(ifi.Cond) {
					continue
				}
				if g := existsPath(b.Succs[1], 0, func(x ssa.Instruction) bool {
					ret, ok := x.(*ssa.Return)
					return ok && isSuccessReturn(ret)
				}, nil); g == nil {
					okExists = true
				}
			}
		}
		if okExists {
			r.OK("builder.caseAction/target exists", p.PosStr(ca.Decl.Pos()), "a target name that is not a member of the target enum is an error")
		} else {
			dbg := ""
			if os.Getenv("GVDEBUG") != "" {
				dbg = fmt.Sprintf(" [enumPrm=%v namePrm=%v]", enumPrm, namePrm)
				for _, b := range csf.Blocks {
					if ifi, ok := b.Instrs[len(b.Instrs)-1].(*ssa.If); ok {
						dbg += fmt.Sprintf(" if %s(%T)", ifi.Cond, ifi.Cond)
						if ex, ok := ifi.Cond.(*ssa.Extract); ok {
							dbg += fmt.Sprintf("<-%s", ex.Tuple)
						}
					}
				}
			}
			r.Bad("builder.caseAction/target exists", p.PosStr(ca.Decl.Pos()), "a mapped target member is no longer checked for existence"+dbg)
		}
	}
}

// isNegatedCommaOkAssert: cond is `!ok` where ok is the comma-ok result of a type assertion to *pkg.name in fn.
func isNegatedCommaOkAssert(info *types.Info, fn ast.Node, cond ast.Expr, pkg, name string) bool {
	u, ok := ast.Unparen(cond).(*ast.UnaryExpr)
	if !ok || u.Op != token.NOT {
		return false
	}
	id, ok := ast.Unparen(u.X).(*ast.Ident)
	if !ok {
		return false
	}
	obj := info.ObjectOf(id)
	found := false
	ast.Inspect(fn, func(n ast.Node) bool {
		as, isAs := n.(*ast.AssignStmt)
		if isAs && len(as.Lhs) == 2 && len(as.Rhs) == 1 {
			if l, isID := as.Lhs[1].(*ast.Ident); isID && info.ObjectOf(l) == obj {
				if ta, isTA := ast.Unparen(as.Rhs[0]).(*ast.TypeAssertExpr); isTA && ta.Type != nil && isNamed(derefType(info.TypeOf(ta.Type)), pkg, name) {
					found = true
				}
			}
		}
		return true
	})
	return found
}

func nodeString(n ast.Node) string {
	var sb strings.Builder
	ast.Inspect(n, func(m ast.Node) bool {
		if e, ok := m.(*ast.IndexExpr); ok {
			sb.WriteString(exprString(e))
			sb.WriteString(";")
		}
		return true
	})
	return sb.String()
}

// c08R3: semantic equality of constant values.
func c08R3(p *Prog, r *Report) {
	r.Rule("C08.R3", "values taken from Enum.Members (constant.Val results: int64, string, *big.Int, *big.Rat, *big.Float) are never compared with ==/!= or used as map keys directly; they pass through a canonicaliser whose body is `constant.Make(v).ExactString()` (exact, injective), so equal values are recognised as duplicates and different values never collide", 3)
	isMembersElem := func(info *types.Info, e ast.Expr) bool {
		ix, ok := ast.Unparen(e).(*ast.IndexExpr)
		if !ok {
			return false
		}
		sel, ok := ast.Unparen(ix.X).(*ast.SelectorExpr)
		if !ok || sel.Sel.Name != "Members" {
			return false
		}
		v, ok := info.ObjectOf(sel.Sel).(*types.Var)
		return ok && v.IsField() && objPkgPath(v) == modPath+"/enum"
	}
	isCanon := func(fn *types.Func) (bool, string) {
		fi := p.funcIdx[funcKey(fn)]
		if fi == nil {
			return false, "not an own function"
		}
		info := fi.Pkg.TypesInfo
		nret, bad := 0, ""
		ast.Inspect(fi.Decl.Body, func(m ast.Node) bool {
			ret, ok := m.(*ast.ReturnStmt)
			if !ok || len(ret.Results) != 1 {
				return true
			}
			nret++
			exact := false
			ast.Inspect(ret.Results[0], func(q ast.Node) bool {
				call, ok := q.(*ast.CallExpr)
				if !ok {
					return true
				}
				f, ok := calleeObj(info, call).(*types.Func)
				if !ok || objPkgPath(f) != "go/constant" {
					return true
				}
				switch f.Name() {
				case "ExactString":
					sel := ast.Unparen(call.Fun).(*ast.SelectorExpr)
					if mk := callTo(info, sel.X, "go/constant", "", "Make"); mk != nil && isParamIdent(info, fi, mk.Args[0], 0) {
						exact = true
					}
				case "String":
					bad = "the key uses constant.Value.String(), which abbreviates floats and long strings: different values collide"
				}
				return true
			})
			if !exact && bad == "" {
				bad = "a return does not contain constant.Make(v).ExactString()"
			}
			return true
		})
		if nret == 0 {
			return false, "no return"
		}
		if bad != "" {
			return false, bad
		}
		return true, ""
	}
	n := 0
	for _, fi := range p.Funcs {
		rel := relPkg(fi.Pkg.PkgPath)
		if rel != "builder" && rel != "xtype" && rel != "enum" && rel != "generator" {
			continue
		}
		fi := fi
		info := fi.Pkg.TypesInfo
		// enum-value variables
		vals := map[types.Object]bool{}
		ast.Inspect(fi.Decl, func(m ast.Node) bool {
			as, ok := m.(*ast.AssignStmt)
			if !ok {
				return true
			}
			for i, l := range as.Lhs {
				if i < len(as.Rhs) && len(as.Lhs) == len(as.Rhs) && isMembersElem(info, as.Rhs[i]) {
					if id, ok := ast.Unparen(l).(*ast.Ident); ok {
						vals[info.ObjectOf(id)] = true
					}
				}
			}
			return true
		})
		isVal := func(e ast.Expr) bool {
			if isMembersElem(info, e) {
				return true
			}
			id, ok := ast.Unparen(e).(*ast.Ident)
			return ok && vals[info.ObjectOf(id)]
		}
		cnt := 0
		walkStack(fi.Decl, func(m ast.Node, stack []ast.Node) bool {
			switch x := m.(type) {
			case *ast.BinaryExpr:
				if (x.Op == token.EQL || x.Op == token.NEQ) && (isVal(x.X) || isVal(x.Y)) {
					n++
					cnt++
					r.Bad(fmt.Sprintf("%s/compare enum value#%d", fi.Name(), cnt), p.PosStr(x.Pos()), "enum member values are compared with "+x.Op.String()+": big and float constants are pointers, equal values compare as different (duplicate case in the generated switch) ")
				}
			case *ast.IndexExpr:
				if t := info.TypeOf(x.X); t != nil {
					if _, isMap := t.Underlying().(*types.Map); isMap && isVal(x.Index) {
						n++
						cnt++
						r.Bad(fmt.Sprintf("%s/enum value as map key#%d", fi.Name(), cnt), p.PosStr(x.Pos()), "an enum member value is used as map key directly: pointer-valued constants never collide, duplicates go undetected")
					}
				}
			case *ast.CallExpr:
				f, ok := calleeObj(info, x).(*types.Func)
				if !ok || !p.IsOwn(f.Pkg()) {
					return true
				}
				for _, a := range x.Args {
					if !isVal(a) {
						continue
					}
					// is the call result used as key / compared (directly or through a local variable)?
					parent := stack[len(stack)-1]
					keyUse := false
					switch pp := parent.(type) {
					case *ast.IndexExpr:
						keyUse = pp.Index == ast.Expr(x)
					case *ast.BinaryExpr:
						keyUse = pp.Op == token.EQL || pp.Op == token.NEQ
					case *ast.AssignStmt:
						// v := f(value); … m[v] …
						for i, rh := range pp.Rhs {
							if rh == ast.Expr(x) && i < len(pp.Lhs) {
								if id, ok := ast.Unparen(pp.Lhs[i]).(*ast.Ident); ok {
									obj := info.ObjectOf(id)
									ast.Inspect(fi.Decl, func(q ast.Node) bool {
										if ix, ok := q.(*ast.IndexExpr); ok {
											if i2, ok := ast.Unparen(ix.Index).(*ast.Ident); ok && info.ObjectOf(i2) == obj {
												keyUse = true
											}
										}
										return true
									})
								}
							}
						}
					}
					if !keyUse {
						continue
					}
					n++
					cnt++
					site := fmt.Sprintf("%s/%s(enum value)#%d", fi.Name(), f.Name(), cnt)
					if ok, why := isCanon(f); ok {
						r.OK(site, p.PosStr(x.Pos()), "canonicalised by constant.Make(v).ExactString()")
					} else {
						r.Bad(site, p.PosStr(x.Pos()), "enum values are keyed/compared through "+f.Name()+", which is not an exact canonicaliser: "+why)
					}
				}
			}
			return true
		})
	}
	if n == 0 {
		r.Bad("builder/enum value uses", "", "no comparison or keying of enum member values found: duplicate values are not detected at all")
	}
}

// isRangeElem: v is the element of a slice being ranged over (load of an IndexAddr) or a range Next extract.
func isRangeElem(v ssa.Value) bool {
	switch x := v.(type) {
	case *ssa.UnOp:
		_, ok := x.X.(*ssa.IndexAddr)
		return ok && x.Op == token.MUL
	case *ssa.Extract:
		_, ok := x.Tuple.(*ssa.Next)
		return ok
	}
	return false
}

// sameVar: identical SSA values, or two loads of the same variable cell.
func sameVar(a, b ssa.Value) bool {
	if a == b {
		return true
	}
	ua, ok1 := a.(*ssa.UnOp)
	ub, ok2 := b.(*ssa.UnOp)
	return ok1 && ok2 && ua.Op == token.MUL && ub.Op == token.MUL && ua.X == ub.X
}

// detectMemberFilterSSA: in enum.Detect and its private helpers, the store into the member map sits in a loop and is
// control-dependent, inside that loop, only on the comma-ok assertion to *types.Const and on types.Identical; the value
// stored is constant.Val(…).  "" = holds.
func detectMemberFilterSSA(p *Prog) string {
	n := 0
	why := ""
	for _, rf := range p.Region("enum.Detect") {
		sf := p.SSAFunc(rf)
		if sf == nil {
			continue
		}
		allInstrs(sf, false, func(in ssa.Instruction) {
			mu, ok := in.(*ssa.MapUpdate)
			if !ok {
				return
			}
			body, _ := loopBodyOf(mu)
			if body == nil {
				return
			}
			n++
			if c, ok := stripConv(mu.Value).(*ssa.Call); !ok || ssaCalleeObj(c) == nil || !isFunc(ssaCalleeObj(c), "go/constant", "", "Val") {
				why = "member values are not constant.Val(c.Val())"
				return
			}
			for _, f := range factsAt(mu.Block()) {
				v := f
				neg := false
				if nf, isNeg := f.(negFact); isNeg {
					v, neg = nf.Value, true
				}
				def, isInstr := v.(ssa.Instruction)
				if !isInstr || def.Block() == nil || !(body == def.Block() || body.Dominates(def.Block())) {
					continue // established before the loop
				}
				switch x := v.(type) {
				case *ssa.Extract:
					if ta, ok := x.Tuple.(*ssa.TypeAssert); ok && x.Index == 1 && !neg && isNamed(derefType(ta.AssertedType), "go/types", "Const") {
						continue
					}
					if _, isNext := x.Tuple.(*ssa.Next); isNext {
						continue // the loop's own iteration condition
					}
				case *ssa.Call:
					if !neg && ssaCalleeObj(x) != nil && isFunc(ssaCalleeObj(x), "go/types", "", "Identical") {
						continue
					}
				case *ssa.Phi, *ssa.BinOp:
					// materialised conjunctions / the loop condition itself
					if _, isPhi := v.(*ssa.Phi); isPhi {
						continue
					}
					if b, ok := v.(*ssa.BinOp); ok && b.Op == token.LSS {
						continue // the loop's own index condition
					}
				}
				why = "members are additionally filtered by `" + v.String() + "`: declared members would be missing from the generated switch and fall into enum:unknown"
			}
		})
	}
	if n == 0 {
		return "no member store found"
	}
	return why
}

// memberLoopEmitsEval: one iteration of Enum.Build's member loop (the loop that ranges over SortedMembers()), walked
// from its body to the loop header, always passes the emission of jen.Case(…) or jen.Comment(…) — or ends in an error.
func memberLoopEmitsEval(sf *ssa.Function) bool {
	// the loop: the one whose body contains a jen.Case emission
	var body, header *ssa.BasicBlock
	allInstrs(sf, false, func(in ssa.Instruction) {
		c, ok := in.(*ssa.Call)
		if ok && ssaCalleeObj(c) != nil && objPkgPath(ssaCalleeObj(c)) == jenPath && ssaCalleeObj(c).Name() == "Case" {
			if b, h := loopBodyOf(in); b != nil && body == nil {
				body, header = b, h
			}
		}
	})
	if body == nil {
		return false
	}
	emitted := func(st map[string]absVal) bool {
		return st["@emit"].k == absBool && st["@emit"].b
	}
	sc := &absScenario{
		entry:  body,
		stopAt: func(b *ssa.BasicBlock) bool { return b == header },
		onStop: func(st map[string]absVal) bool { return !emitted(st) },
		marks: func(in ssa.Instruction) (string, bool) {
			c, ok := in.(*ssa.Call)
			if ok && ssaCalleeObj(c) != nil && objPkgPath(ssaCalleeObj(c)) == jenPath && (ssaCalleeObj(c).Name() == "Case" || ssaCalleeObj(c).Name() == "Comment") {
				return "emit", true
			}
			return "", false
		},
	}
	got := absReachState(sf, sc, func(ret *ssa.Return, eval func(ssa.Value) absVal, st map[string]absVal) bool {
		return successGoal(ret, eval) && !emitted(st)
	})
	return got == nil
}
