package main

import (
	"fmt"
	"go/ast"
	"go/constant"
	"go/token"
	"go/types"
	"sort"
	"strings"

	"golang.org/x/tools/go/ssa"
)

// Rules added after the fifth, region-directed round of seeded changes.

// ---------------------------------------------------------------------------
// C01.R13 / C10.R9: the zero value emitted for a type

// zeroValueTableRule: in xtype.ZeroValue a composite literal `T{}` is emitted only for struct and array types and nil
// only for nil-able ones; a named type takes the parenthesised literal only when its underlying type is a struct.
func zeroValueTableRule(p *Prog, r *Report, id string) {
	r.Rule(id, "the zero value compared against in `source.F != <zero>` guards is the type's zero value: in xtype.ZeroValue (type switches, nested for named types) a composite literal (`.Block()` / `.Values()`) is returned only under cases *types.Struct / *types.Array and jen.Nil() only under interface, signature, pointer, map, slice, chan (and unsafe.Pointer) — `T{}` for a map or slice type is neither its zero value nor comparable", 4)
	fi := p.Func("xtype.ZeroValue")
	if fi == nil {
		r.Unresolved("xtype.ZeroValue")
		return
	}
	info := fi.Pkg.TypesInfo
	literalOK := map[string]bool{"Struct": true, "Array": true}
	nilOK := map[string]bool{"Interface": true, "Signature": true, "Pointer": true, "Map": true, "Slice": true, "Chan": true, "Basic": true}
	n := 0
	for _, rf := range p.Region("xtype.ZeroValue") {
		ast.Inspect(rf.Decl, func(nd ast.Node) bool {
			cc, ok := nd.(*ast.CaseClause)
			if !ok || len(cc.List) == 0 {
				return true
			}
			var kinds []string
			for _, e := range cc.List {
				t := info.TypeOf(e)
				if t == nil {
					continue
				}
				if nt := namedOf(derefType(t)); nt != nil && nt.Obj().Pkg() != nil && nt.Obj().Pkg().Path() == "go/types" {
					kinds = append(kinds, nt.Obj().Name())
				}
			}
			if len(kinds) == 0 {
				return true
			}
			// what the arm returns (not looking into nested switches, which are judged on their own)
			emitsLiteral, emitsNil := false, false
			var pos token.Pos
			for _, st := range cc.Body {
				ast.Inspect(st, func(m ast.Node) bool {
					switch x := m.(type) {
					case *ast.SwitchStmt, *ast.TypeSwitchStmt:
						return false
					case *ast.ReturnStmt:
						for _, res := range x.Results {
							ast.Inspect(res, func(q ast.Node) bool {
								call, ok := q.(*ast.CallExpr)
								if !ok {
									return true
								}
								if c, ok := chainOf(info, call); ok {
									for _, l := range c.Links {
										switch l.Name {
										case "Block", "Values":
											emitsLiteral = true
											pos = l.Call.Pos()
										case "Nil":
											emitsNil = true
											pos = l.Call.Pos()
										}
									}
								}
								return true
							})
						}
					}
					return true
				})
			}
			sort.Strings(kinds)
			site := fmt.Sprintf("%s/case %s", rf.Name(), strings.Join(kinds, ","))
			for _, k := range kinds {
				if k == "Named" {
					continue
				}
				n++
				switch {
				case emitsLiteral && !literalOK[k]:
					r.Bad(site, p.PosStr(pos), "the composite literal `T{}` is returned as the zero value of a "+strings.ToLower(k)+" type: it is not the zero value (nil) and, for maps and slices, not comparable — the emitted `!= T{}` guard does not compile or never skips")
					return true
				case emitsNil && !nilOK[k]:
					r.Bad(site, p.PosStr(pos), "nil is returned as the zero value of a "+strings.ToLower(k)+" type")
					return true
				}
			}
			r.OK(site, p.PosStr(cc.Pos()), "literal only for struct/array, nil only for nil-able types")
			return true
		})
	}
	if n < 4 {
		r.Bad("xtype.ZeroValue/arms", p.PosStr(fi.Decl.Pos()), fmt.Sprintf("only %d classified arms found", n))
	}
}

// ---------------------------------------------------------------------------
// C01.R14: type arguments are never dropped when a type is rendered

func typeArgsKeptRule(p *Prog, r *Report, id string) {
	r.Rule(id, "a named type is rendered with its type arguments: who-may-call(xtype.toCodeObj — the bare qualified name) = {xtype.toCodeNamed, which appends the type arguments}; every other place renders types through toCode", 1)
	fi := p.Func("xtype.toCodeObj")
	if fi == nil {
		r.Unresolved("xtype.toCodeObj")
		return
	}
	callers, vals := p.refSites(fi.Obj)
	bad := len(vals) > 0
	var cs []string
	for c := range callers {
		cs = append(cs, c)
		if f := p.Func(c); f == nil || !p.inRegion("xtype.toCodeNamed", f) {
			bad = true
		}
	}
	sort.Strings(cs)
	if bad || len(cs) == 0 {
		r.Bad("xtype.toCodeObj/callers", p.PosStr(fi.Decl.Pos()), fmt.Sprintf("toCodeObj is used by %v: a named type rendered by its object alone loses the type arguments of an instantiated generic type (the emitted `pkg.T` instead of `pkg.T[int]` does not compile)", cs))
	} else {
		r.OK("xtype.toCodeObj/callers", p.PosStr(fi.Decl.Pos()), "only toCodeNamed")
	}
}

// ---------------------------------------------------------------------------
// C03.R12: update methods are indexed on their own and never clash with conversions

func registerUpdateRule(p *Prog, r *Report, id string) {
	r.Rule(id, "an update method never collides with a conversion method of the same types (they are never looked up by signature): method.(*Index).RegisterUpdate does not read Index.Exact and has no failing return — a converter declaring both Convert(S) *T and Update(S, *T) is not rejected", 2)
	fi, sf := needFunc(p, r, "method.(*Index).RegisterUpdate")
	if fi == nil {
		return
	}
	if mentionsField(fi.Pkg.TypesInfo, fi.Decl, modPath+"/method", "Index", "Exact") {
		r.Bad("method.(*Index).RegisterUpdate/index", p.PosStr(fi.Decl.Pos()), "RegisterUpdate consults Index.Exact: update methods are checked against (or mixed with) the conversion methods, so a valid pair of a conversion and an update method for the same types is reported as overlapping")
	} else {
		r.OK("method.(*Index).RegisterUpdate/index", p.PosStr(fi.Decl.Pos()), "touches Index.Update only")
	}
	failing := ""
	if sf != nil {
		allInstrs(sf, true, func(in ssa.Instruction) {
			ret, ok := in.(*ssa.Return)
			if !ok || len(ret.Results) == 0 {
				return
			}
			if !isNilConst(ret.Results[len(ret.Results)-1]) {
				failing = p.PosStr(ret.Pos())
			}
		})
	}
	if failing != "" {
		r.Bad("method.(*Index).RegisterUpdate/total", failing, "RegisterUpdate can fail: registering an update method is rejected for some inputs although nothing can be ambiguous")
	} else {
		r.OK("method.(*Index).RegisterUpdate/total", p.PosStr(fi.Decl.Pos()), "every return carries a nil error")
	}
}

// ---------------------------------------------------------------------------
// C03.R13 / C01.R15: statements that are not one's own are cloned before they are extended

// jennifer's methods mutate their receiver.  A *jen.Statement reached through a field or parameter (assignTo.Stmt,
// sourceID.Code, j.Code …) may be held by somebody else: extending it in place changes what that holder emits later.
func cloneBeforeExtendRule(p *Prog, r *Report, id string, chains []*Chain) {
	r.Rule(id, "shared statements are never extended in place: every emission chain rooted at a *jen.Statement that is reached through a field or a parameter (assignTo.Stmt, sourceID.Code, nextID.Code, j.Code …) begins with .Clone() — jennifer's builder methods mutate their receiver, so `x.Stmt.Op(\"=\")` rewrites the statement other code still holds (the value returned by a constructor, the target of an update) and yields text such as `return x = f()`", 1)
	n, bad := 0, 0
	for _, c := range chains {
		if c.Root == nil || c.Encl == nil || len(c.Links) == 0 {
			continue
		}
		info := c.Pkg.TypesInfo
		t := info.TypeOf(c.Root)
		if t == nil || !isNamed(derefType(t), jenPath, "Statement") {
			continue
		}
		// only roots that are not a local of this function: field selections and parameters
		shared := false
		switch x := ast.Unparen(c.Root).(type) {
		case *ast.SelectorExpr:
			if v, ok := info.ObjectOf(x.Sel).(*types.Var); ok && v.IsField() {
				shared = true
			}
		case *ast.Ident:
			if v, ok := info.ObjectOf(x).(*types.Var); ok && isParamOf(c.Encl, v) {
				shared = true
			}
		}
		if !shared {
			continue
		}
		n++
		first := c.Links[0].Name
		if first == "Clone" || first == "GoString" || first == "Render" {
			continue
		}
		bad++
		r.Bad(fmt.Sprintf("%s/%s.%s", c.Encl.Name(), exprString(c.Root), strings.Join(c.Names(), ".")), p.PosStr(c.Outer.Pos()), "the statement "+exprString(c.Root)+" is extended in place (no Clone first): whoever else holds it — the caller that returns it afterwards, a later assignment to the same target — emits the extended text")
	}
	r.Analysed["chains_on_shared_statements"] = n
	if bad == 0 {
		if n < 10 {
			r.Bad("own code/shared statement chains", "", fmt.Sprintf("only %d chains on shared statements found (vacuous)", n))
		} else {
			r.OK("own code/shared statement chains", "", fmt.Sprintf("all %d chains on field- or parameter-held statements start with Clone()", n))
		}
	}
}

// ---------------------------------------------------------------------------
// C05.R13: field settings are accepted only on the targets buildMethod scopes them to

func fieldSettingTargetRule(p *Prog, r *Report, id string) {
	r.Rule(id, "field settings (map, ignore, autoMap …) on a declared method are accepted exactly for the targets they are applied to — T or *T with T a struct (buildMethod's FieldsTarget): one iteration of generator.validateMethods' loop, evaluated for an explicit method with field settings, ends in the `Invalid struct field mapping` error when the target is neither a struct nor a pointer to a struct (in particular **T), and continues otherwise", 4)
	fi, sf := needFunc(p, r, "generator.validateMethods")
	if fi == nil {
		return
	}
	// the failing return inside the loop
	var failRet *ssa.Return
	allInstrs(sf, false, func(in ssa.Instruction) {
		if ret, ok := in.(*ssa.Return); ok && len(ret.Results) == 1 && !isNilConst(ret.Results[0]) {
			if b, _ := loopBodyOf(ret); b != nil {
				failRet = ret
			}
		}
	})
	if failRet == nil {
		r.Bad("generator.validateMethods/rejection", p.PosStr(fi.Decl.Pos()), "no failing return inside the method loop: field settings on non-struct targets are accepted and silently dropped")
		return
	}
	body, header := loopBodyOf(failRet)
	suffixPath := func(v ssa.Value) string {
		var path []string
		cur := v
		for {
			u, ok := cur.(*ssa.UnOp)
			if !ok || u.Op != token.MUL {
				break
			}
			fa, ok := u.X.(*ssa.FieldAddr)
			if !ok {
				break
			}
			path = append([]string{fieldName(fa)}, path...)
			cur = fa.X
		}
		if _, isPhi := cur.(*ssa.Phi); isPhi {
			return "" // a value chosen in a loop: not the method's own target
		}
		s := strings.Join(path, ".")
		if i := strings.Index(s, "Target."); i >= 0 {
			return s[i:]
		}
		return ""
	}
	rows := []struct {
		name   string
		atoms  map[string]bool
		accept bool
	}{
		{"struct", map[string]bool{"Target.Struct": true}, true},
		{"pointer to struct", map[string]bool{"Target.Struct": false, "Target.Pointer": true, "Target.PointerInner.Struct": true}, true},
		{"pointer to non-struct (e.g. **T)", map[string]bool{"Target.Struct": false, "Target.Pointer": true, "Target.PointerInner.Struct": false}, false},
		{"neither struct nor pointer", map[string]bool{"Target.Struct": false, "Target.Pointer": false}, false},
	}
	for _, row := range rows {
		row := row
		sc := &absScenario{
			entry:  body,
			stopAt: func(b *ssa.BasicBlock) bool { return b == header },
			onStop: func(map[string]absVal) bool { return true },
			assume: func(v ssa.Value, _ func(ssa.Value) absVal) (absVal, bool) {
				if loadsField(v, "Explicit") {
					return aBool(true), true
				}
				if fieldCountOf(v, "RawFieldSettings") {
					return aInt(1), true
				}
				if sp := suffixPath(v); sp != "" {
					if want, ok := row.atoms[sp]; ok {
						return aBool(want), true
					}
				}
				return aUnknown, false
			},
		}
		// "accepted": the iteration reaches the loop header again or a successful return
		got := absReach(sf, sc, successGoal)
		site := "generator.validateMethods/target " + row.name
		switch {
		case row.accept && got == nil:
			r.Bad(site, p.PosStr(failRet.Pos()), "field settings are rejected for this target although they are applied to it")
		case !row.accept && got != nil:
			r.Bad(site, p.PosStr(failRet.Pos()), "field settings are accepted for this target, but buildMethod applies them only to T and *T (T a struct): generation succeeds and every goverter:map / ignore / autoMap on the method is silently dropped")
		default:
			r.OK(site, p.PosStr(failRet.Pos()), map[bool]string{true: "accepted", false: "rejected with the diagnostic"}[row.accept])
		}
	}
}

// fieldCountOf: v is len(<x>.<field>).
func fieldCountOf(v ssa.Value, field string) bool {
	c, ok := v.(*ssa.Call)
	if !ok {
		return false
	}
	b, ok := c.Call.Value.(*ssa.Builtin)
	return ok && b.Name() == "len" && len(c.Call.Args) == 1 && loadsField(c.Call.Args[0], field)
}

// ---------------------------------------------------------------------------
// C06.R17: useUnderlyingTypeMethods applies whenever an extend function matches through an underlying type

func underlyingMatchesCompleteRule(p *Prog, r *Report, id string) {
	r.Rule(id, "with useUnderlyingTypeMethods an extend function over an underlying type is used wherever it fits: evaluated with the setting on and findUnderlyingExtendMapping reporting a hit (source or target side), builder.(*UseUnderlyingTypeMethods).Matches cannot return false — no shortcut (identical types, …) hands the pair to the automatic rules", 2)
	fi, sf := needFunc(p, r, "builder.(*UseUnderlyingTypeMethods).Matches")
	if fi == nil {
		return
	}
	for _, side := range []int{0, 1} {
		side := side
		n := 0
		sc := &absScenario{
			assume: func(v ssa.Value, _ func(ssa.Value) absVal) (absVal, bool) {
				if loadsField(v, "UseUnderlyingTypeMethods") {
					return aBool(true), true
				}
				if ex, ok := v.(*ssa.Extract); ok {
					if c, ok := ex.Tuple.(*ssa.Call); ok && ssaCalleeObj(c) != nil && ssaCalleeObj(c).Name() == "findUnderlyingExtendMapping" {
						n++
						return aBool(ex.Index == side), true
					}
				}
				return aUnknown, false
			},
			noInline: func(callee *ssa.Function) bool { return callee.Name() == "findUnderlyingExtendMapping" },
		}
		site := fmt.Sprintf("builder.(*UseUnderlyingTypeMethods).Matches/hit on side %d", side)
		if got := absReach(sf, sc, falseGoal); got != nil {
			r.Bad(site, p.PosStr(got.Pos()), "can return false although the setting is on and an extend function matches through the underlying type: the pair falls through to the automatic conversion and the custom function is silently not used")
		} else if n == 0 {
			r.Bad(site, p.PosStr(fi.Decl.Pos()), "findUnderlyingExtendMapping is not consulted")
		} else {
			r.OK(site, p.PosStr(fi.Decl.Pos()), "returns true on every path")
		}
	}
}

// ---------------------------------------------------------------------------
// C07.R11: path constructors only ever append

func errorPathAppendOnlyRule(p *Prog, r *Report, id string) {
	r.Rule(id, "every path element is recorded: the constructors builder.(ErrorPath).Field / Index / Key return append(<receiver>, <one element>) on every path — no element is skipped, merged with the previous one or replaced, so equal consecutive names (a field that contains a field of the same name) are reported twice, as they occur", 3)
	for _, name := range []string{"Field", "Index", "Key"} {
		key := "builder.(ErrorPath)." + name
		fi, sf := needFunc(p, r, key)
		if fi == nil {
			continue
		}
		bad := ""
		nret := 0
		allInstrs(sf, true, func(in ssa.Instruction) {
			ret, ok := in.(*ssa.Return)
			if !ok || len(ret.Results) != 1 {
				return
			}
			nret++
			base, _, ok := appendOneShape(ret.Results[0], 0)
			if !ok {
				bad = p.PosStr(ret.Pos()) + ": returns something other than append(path, <one element>) — the element is not recorded on this path"
				return
			}
			if _, isPrm := base.(*ssa.Parameter); !isPrm {
				bad = p.PosStr(ret.Pos()) + ": the element is not appended to the received path"
			}
		})
		if bad != "" {
			r.Bad(key, p.PosStr(fi.Decl.Pos()), bad)
		} else if nret == 0 {
			r.Bad(key, p.PosStr(fi.Decl.Pos()), "no return found")
		} else {
			r.OK(key, p.PosStr(fi.Decl.Pos()), "append(path, element) on every path")
		}
	}
}

func arrayLen(a *ssa.Alloc) int64 {
	if pt, ok := a.Type().Underlying().(*types.Pointer); ok {
		if at, ok := pt.Elem().Underlying().(*types.Array); ok {
			return at.Len()
		}
	}
	return -1
}

// ---------------------------------------------------------------------------
// C08.R14: every enum:exclude pattern is considered

func anyPatternRule(p *Prog, r *Report, id string) {
	r.Rule(id, "a type is excluded from enum detection when ANY enum:exclude pattern matches it: the loop of enum.(IDPatterns).Matches is left early only by `return true` — a `return false` (or break) inside it makes patterns written after a non-matching one ineffective", 1)
	fi, sf := needFunc(p, r, "enum.(IDPatterns).Matches")
	if fi == nil {
		return
	}
	bad := ""
	n := 0
	allInstrs(sf, false, func(in ssa.Instruction) {
		ret, ok := in.(*ssa.Return)
		if !ok || len(ret.Results) != 1 {
			return
		}
		if body, _ := loopBodyOf(ret); body == nil {
			return
		}
		n++
		if k, ok := ret.Results[0].(*ssa.Const); !ok || k.Value == nil || k.Value.Kind() != constant.Bool || !constant.BoolVal(k.Value) {
			bad = p.PosStr(ret.Pos())
		}
	})
	// break out of the loop
	info := fi.Pkg.TypesInfo
	_ = info
	ast.Inspect(fi.Decl, func(nd ast.Node) bool {
		if br, ok := nd.(*ast.BranchStmt); ok && br.Tok == token.BREAK {
			bad = p.PosStr(br.Pos())
		}
		return true
	})
	switch {
	case bad != "":
		r.Bad("enum.(IDPatterns).Matches/loop", bad, "the pattern loop is left without a match: the remaining enum:exclude patterns are never looked at, so a type they exclude is still converted as an enum")
	case n == 0:
		r.Bad("enum.(IDPatterns).Matches/loop", p.PosStr(fi.Decl.Pos()), "no `return true` inside the pattern loop")
	default:
		r.OK("enum.(IDPatterns).Matches/loop", p.PosStr(fi.Decl.Pos()), "left early only with true")
	}
}

// ---------------------------------------------------------------------------
// C08.R15: only kinds whose constant values can be told apart qualify as enums

func enumKindMaskRule(p *Prog, r *Report, id string) {
	r.Rule(id, "member values are compared through constant.Val, which yields nil for complex constants: the BasicInfo mask that admits an underlying type in enum.Detect, evaluated as a constant, contains neither IsComplex nor IsBoolean (IsNumeric would include complex: all members of a complex-typed enum then look like duplicates of one another and all but one are dropped)", 1)
	fi := p.Func("enum.Detect")
	if fi == nil {
		r.Unresolved("enum.Detect")
		return
	}
	info := fi.Pkg.TypesInfo
	n := 0
	ast.Inspect(fi.Decl, func(nd ast.Node) bool {
		be, ok := nd.(*ast.BinaryExpr)
		if !ok || be.Op != token.AND {
			return true
		}
		call, ok := ast.Unparen(be.X).(*ast.CallExpr)
		mask := be.Y
		if !ok {
			call, ok = ast.Unparen(be.Y).(*ast.CallExpr)
			mask = be.X
		}
		if !ok {
			return true
		}
		if fn, ok := calleeObj(info, call).(*types.Func); !ok || !isFunc(fn, "go/types", "Basic", "Info") {
			return true
		}
		tv, ok := info.Types[mask]
		if !ok || tv.Value == nil {
			return true
		}
		m, _ := constant.Int64Val(tv.Value)
		n++
		site := "enum.Detect/admitted kinds"
		if m&int64(types.IsComplex) != 0 || m&int64(types.IsBoolean) != 0 {
			r.Bad(site, p.PosStr(be.Pos()), fmt.Sprintf("the mask %s admits complex or boolean underlying types", exprString(mask)))
		} else {
			r.OK(site, p.PosStr(be.Pos()), "integer, float and string kinds only")
		}
		return true
	})
	if n == 0 {
		r.Bad("enum.Detect/admitted kinds", p.PosStr(fi.Decl.Pos()), "no constant BasicInfo mask found")
	}
}

// ---------------------------------------------------------------------------
// C12.R16: a later extend replaces an earlier one whose context sets overlap in either direction

func overrideOverlapRule(p *Prog, r *Report, id string) {
	r.Rule(id, "converter-level extend overrides the CLI-level one (lines are registered global first): in method.(*Index).RegisterOverrideOverlapping one loop iteration, evaluated with satisfiesContext true for the pair in either direction, overwrites the existing entry and returns — it never moves on to the next entry or falls through to appending a second entry for the same signature", 2)
	fi, sf := needFunc(p, r, "method.(*Index).RegisterOverrideOverlapping")
	if fi == nil {
		return
	}
	// the overwriting store inside the loop
	var over ssa.Instruction
	allInstrs(sf, false, func(in ssa.Instruction) {
		st, ok := in.(*ssa.Store)
		if !ok {
			return
		}
		if _, isIdx := st.Addr.(*ssa.IndexAddr); isIdx {
			if b, _ := loopBodyOf(in); b != nil {
				over = in
			}
		}
	})
	if over == nil {
		r.Bad("method.(*Index).RegisterOverrideOverlapping/overwrite", p.PosStr(fi.Decl.Pos()), "no in-place overwrite of an existing entry inside the loop: a later extend never replaces an earlier one")
		return
	}
	body, header := loopBodyOf(over)
	for _, dir := range []int{0, 1} {
		dir := dir
		nCall := 0
		var sc *absScenario
		sc = &absScenario{
			entry:  body,
			stopAt: func(b *ssa.BasicBlock) bool { return b == header },
			onStop: func(map[string]absVal) bool { return true },
			calls: func(c *ssa.Call, _ func(ssa.Value) absVal) (absVal, bool) {
				if ssaCalleeObj(c) == nil || ssaCalleeObj(c).Name() != "satisfiesContext" || len(c.Call.Args) != 2 {
					return aUnknown, false
				}
				// direction 0: (entry, new) holds, the reverse is unknown; direction 1: the other way round
				// (inside a helper the arguments are parameters: what the caller passed decides)
				fromNew := rootIsParamOf(c.Call.Args[0], sf, sc)
				nCall++
				if (dir == 0 && !fromNew) || (dir == 1 && fromNew) {
					return aBool(true), true
				}
				return aUnknown, true
			},
			marks: func(in ssa.Instruction) (string, bool) { return "over", in == over },
		}
		// violation: the iteration ends (next entry / function end) without the overwrite
		got := absReachState(sf, sc, func(_ *ssa.Return, _ func(ssa.Value) absVal, st map[string]absVal) bool {
			return !(st["@over"].k == absBool && st["@over"].b)
		})
		// reaching the header again counts as "not overwritten" as well (onStop above): handled by stopped → non-nil
		site := fmt.Sprintf("method.(*Index).RegisterOverrideOverlapping/overlap direction %d", dir)
		switch {
		case got != nil:
			r.Bad(site, p.PosStr(over.Pos()), "the existing entry is not overwritten although the context sets overlap in this direction: both functions stay registered and the earlier one (e.g. from -g) keeps winning")
		case nCall == 0:
			r.Bad(site, p.PosStr(fi.Decl.Pos()), "satisfiesContext is not consulted")
		default:
			r.OK(site, p.PosStr(over.Pos()), "overwritten, then return")
		}
	}
}

// rootIsParamOf: v is <param>.…Context loaded from a parameter of the function (the new definition), as opposed to
// the loop's entry.
func rootIsParamOf(v ssa.Value, fn *ssa.Function, sc *absScenario) bool {
	cur := v
	for i := 0; i < 16; i++ {
		switch x := cur.(type) {
		case *ssa.UnOp:
			cur = x.X
			continue
		case *ssa.FieldAddr:
			cur = x.X
			continue
		case *ssa.Parameter:
			if x.Parent() == fn {
				return true
			}
			// a parameter of a helper being walked: what the caller passed
			if o := scOrigin(sc, x); o != ssa.Value(x) {
				cur = o
				continue
			}
		}
		return false
	}
	return false
}

// ---------------------------------------------------------------------------
// C16.R9: the argument vector reaches the CLI as it is

func argsUnmodifiedRule(p *Prog, r *Report, id string) {
	r.Rule(id, "the command line reaches the flag parser as written — an empty value (`-output-constraint ''`, `-build-tags ''`) is the documented way to switch the constraint or the tag off: cmd/goverter.main passes os.Args itself to cli.Run (no filtered or rebuilt copy), and cli.Run hands its argument slice on unchanged", 1)
	fi, sf := needFunc(p, r, "cmd/goverter.main")
	if fi == nil {
		return
	}
	n := 0
	allInstrs(sf, true, func(in ssa.Instruction) {
		c, ok := in.(ssa.CallInstruction)
		if !ok || ssaCalleeObj(c) == nil || !isFunc(ssaCalleeObj(c), modPath+"/cli", "", "Run") {
			return
		}
		n++
		a := c.Common().Args[0]
		good := false
		if ld, ok := a.(*ssa.UnOp); ok && ld.Op == token.MUL {
			if g, ok := ld.X.(*ssa.Global); ok && g.Pkg.Pkg.Path() == "os" && g.Name() == "Args" {
				good = true
			}
		}
		if good {
			r.OK("cmd/goverter.main/cli.Run(os.Args, …)", p.PosStr(in.Pos()), "os.Args itself")
		} else {
			r.Bad("cmd/goverter.main/cli.Run(os.Args, …)", p.PosStr(in.Pos()), "cli.Run does not receive os.Args itself but a derived slice: arguments (e.g. the empty value of -output-constraint '') can be dropped or shifted before the flags are parsed")
		}
	})
	if n == 0 {
		r.Bad("cmd/goverter.main/cli.Run", p.PosStr(fi.Decl.Pos()), "no call of cli.Run found")
	}
}

// appendOneShape: v is append(<base>, <one element>) — directly, or as the result of an unexported helper of package
// builder whose every return is append(<its first parameter>, <its second parameter>).  Returns the base, the element
// value and ok.
func appendOneShape(v ssa.Value, depth int) (base, elem ssa.Value, ok bool) {
	if ct, isCT := v.(*ssa.ChangeType); isCT {
		v = ct.X
	}
	if a, b, isApp := builtinAppend(v); isApp {
		sl, isSl := b.(*ssa.Slice)
		if !isSl {
			return nil, nil, false
		}
		arr, isArr := sl.X.(*ssa.Alloc)
		if !isArr || arrayLen(arr) != 1 || arr.Referrers() == nil {
			return nil, nil, false
		}
		for _, ref := range *arr.Referrers() {
			if ia, isIA := ref.(*ssa.IndexAddr); isIA && ia.Referrers() != nil {
				for _, r2 := range *ia.Referrers() {
					if st, isSt := r2.(*ssa.Store); isSt && st.Addr == ia {
						elem = st.Val
					}
				}
			}
		}
		if ct, isCT := a.(*ssa.ChangeType); isCT {
			a = ct.X
		}
		return a, elem, elem != nil
	}
	c, isCall := v.(*ssa.Call)
	if !isCall || depth > 1 {
		return nil, nil, false
	}
	callee := c.Call.StaticCallee()
	if callee == nil || callee.Object() == nil || callee.Object().Exported() || len(callee.Params) != 2 || len(c.Call.Args) != 2 || len(callee.Blocks) == 0 {
		return nil, nil, false
	}
	n := 0
	for _, b := range callee.Blocks {
		for _, in := range b.Instrs {
			ret, isRet := in.(*ssa.Return)
			if !isRet || len(ret.Results) != 1 {
				continue
			}
			n++
			hb, he, hok := appendOneShape(ret.Results[0], depth+1)
			if !hok || hb != ssa.Value(callee.Params[0]) || he != ssa.Value(callee.Params[1]) {
				return nil, nil, false
			}
		}
	}
	if n == 0 {
		return nil, nil, false
	}
	a := c.Call.Args[0]
	if ct, isCT := a.(*ssa.ChangeType); isCT {
		a = ct.X
	}
	return a, c.Call.Args[1], true
}

// elemTypeName: the concrete type of a path element value (through the interface conversion).
func elemTypeName(v ssa.Value) string {
	if mi, ok := v.(*ssa.MakeInterface); ok {
		v = mi.X
	}
	if n := namedOf(derefType(v.Type())); n != nil {
		return n.Obj().Name()
	}
	return ""
}

// ---------------------------------------------------------------------------
// C04.R8: a conversion that is the identity never hands the caller's memory to `&`

// TargetPointer.Build takes the address of whatever the inner conversion returned when that is a variable
// (JenID.Pointer).  A builder whose Build can return its own sourceID parameter unchanged therefore makes the target
// pointer alias the source — unless the value carries no memory or another rule takes T → *T first.
var identityResultAudit = map[string]string{
	"builder.(*Basic).Build":  "basic T → *T is taken by BasicTargetPointerRule, which precedes TargetPointer and copies into a fresh local (C04.R6/R7)",
	"builder.(*Struct).Build": "only for two unnamed structs without fields: there is no memory to share",
}

func identityAddressableRule(p *Prog, r *Report, id string) {
	r.Rule(id, "T → *T never aliases the source: every builder whose Build can return its own sourceID unchanged (an identity conversion, which TargetPointer.Build then takes the address of) is audited as harmless — Basic (BasicTargetPointerRule comes first) and the field-less unnamed struct shortcut; SkipCopy.Build is not: under skipCopySameType an unnamed struct S → *S becomes `&source.Items[i]` (D23, recorded)", 2)
	n := 0
	for _, fi := range p.Funcs {
		if fi.Lit != nil || relPkg(fi.Pkg.PkgPath) != "builder" || fi.Obj.Name() != "Build" {
			continue
		}
		sf := p.SSAFunc(fi)
		if sf == nil {
			continue
		}
		var src *ssa.Parameter
		for _, prm := range sf.Params {
			if pt, ok := prm.Type().(*types.Pointer); ok && isNamed(pt.Elem(), modPath+"/xtype", "JenID") {
				src = prm
			}
		}
		if src == nil {
			continue
		}
		identity := false
		var at token.Pos
		allInstrs(sf, false, func(in ssa.Instruction) {
			if ret, ok := in.(*ssa.Return); ok && len(ret.Results) == 3 && ret.Results[1] == ssa.Value(src) {
				identity = true
				at = ret.Pos()
			}
		})
		if !identity {
			continue
		}
		n++
		site := fi.Name() + "/identity result addressable"
		if why, ok := identityResultAudit[fi.Name()]; ok {
			r.OK(site, p.PosStr(at), "audited: "+why)
		} else {
			r.Bad(site, p.PosStr(at), "Build can return the caller's source expression unchanged as an addressable variable: for T → *T, TargetPointer.Build emits `&<source expression>`, so the target pointer aliases the source (a slice element, a field reached through a pointer) although T and *T are not identical types")
		}
	}
	if n < 2 {
		r.Bad("builder/identity results", "", fmt.Sprintf("only %d identity-returning builders found", n))
	}
}
