package main

import (
	"fmt"
	"go/ast"
	"go/token"
	"go/types"
	"strings"
)

func init() {
	register(&Check{
		ID:    "C09",
		Level: "other",
		Explanation: "Static order-insensitivity analysis of goverter's own code: every `range` over a map is classified " +
			"(commutative accumulation / append-then-sort / constant quantifier / audited effect loop), every sort that canonicalises " +
			"a map- or environment-ordered sequence must be total on an identifying key or stable over a canonical input, the result of " +
			"every packages.Load is canonicalised before order-sensitive use, no ambient input (time, rand, env, pid, cwd, goroutines) is " +
			"read, and no package-level variable is mutated. Decides: no source of nondeterminism inside goverter's own code reaches bytes " +
			"or diagnostics. Does not decide the behaviour itself (equality of bytes across runs).",
		NotDecided: []string{
			"determinism of jennifer's renderer and of go list / go/packages (trusted)",
			"that absolute paths never enter emitted bytes (needs a string taint through filepath.Rel)",
			"history independence beyond the build-tag wiring checked for C16",
		},
		Run: runC09,
		Controls: map[string]string{"generator/zz_gvlint_control_c09.go": `package generator

import (
	"os"
	"sort"
	"time"
)

var zzControlCache = map[string]int{}

func zzControlFirstKey(m map[string]int) string {
	for k := range m {
		return k
	}
	return ""
}

func zzControlUnsorted(m map[string]int) []string {
	var out []string
	for k := range m {
		out = append(out, k)
	}
	return out
}

func zzControlUse(m map[string]int) string {
	x := zzControlUnsorted(m)
	if len(x) > 0 {
		return x[0]
	}
	return ""
}

type zzItem struct{ Name, Other string }

func zzControlTies(m map[string]zzItem) []zzItem {
	var out []zzItem
	for _, v := range m {
		out = append(out, v)
	}
	sort.Slice(out, func(i, j int) bool { return out[i].Other < out[j].Other })
	return out
}

func zzControlAmbient() string {
	zzControlCache["x"]++
	return time.Now().String() + os.Getenv("HOME")
}
`},
		ControlRules: []string{"C09.R1", "C09.R2", "C09.R4", "C09.R5"},
	})
}

// ---------------------------------------------------------------------------

type loopCtx struct {
	p       *Prog
	fi      *FuncInfo
	info    *types.Info
	key     types.Object
	val     types.Object
	body    ast.Node
	appends map[types.Object]bool // outer slices appended to inside the loop
	returns []*ast.ReturnStmt
	why     string
	summary bool // classifying a callee body (no range key available)
	depth   int
}

func (c *loopCtx) fail(n ast.Node, format string, a ...any) bool {
	if c.why == "" {
		c.why = fmt.Sprintf("%s: %s", c.p.PosStr(n.Pos()), fmt.Sprintf(format, a...))
	}
	return false
}

// declaredInside reports whether obj is declared within the classified body.
func (c *loopCtx) declaredInside(obj types.Object) bool {
	return obj != nil && obj.Pos() >= c.body.Pos() && obj.Pos() < c.body.End()
}

func rootIdent(e ast.Expr) *ast.Ident {
	for {
		switch x := ast.Unparen(e).(type) {
		case *ast.Ident:
			return x
		case *ast.SelectorExpr:
			e = x.X
		case *ast.IndexExpr:
			e = x.X
		case *ast.StarExpr:
			e = x.X
		case *ast.SliceExpr:
			e = x.X
		default:
			return nil
		}
	}
}

func isIdempotentValue(info *types.Info, e ast.Expr) bool {
	e = ast.Unparen(e)
	if tv, ok := info.Types[e]; ok && tv.Value != nil {
		return true
	}
	if cl, ok := e.(*ast.CompositeLit); ok && len(cl.Elts) == 0 {
		return true
	}
	if id, ok := e.(*ast.Ident); ok && (id.Name == "true" || id.Name == "false" || id.Name == "nil") {
		return true
	}
	return false
}

var pureStdPkgs = map[string]bool{"strings": true, "regexp": true, "path": true, "path/filepath": true, "strconv": true, "unicode": true, "go/types": true, "go/constant": true, "go/token": true, "math": true, "bytes": true, "errors": true}

// pureExpr: the expression has no side effect that could make iteration order
// observable (calls must be builtins, conversions, selected std functions or own
// functions whose body is itself effect-free).
func (c *loopCtx) pureExpr(e ast.Expr) bool {
	ok := true
	ast.Inspect(e, func(n ast.Node) bool {
		if !ok {
			return false
		}
		switch x := n.(type) {
		case *ast.FuncLit:
			return false // a literal is a value; its body runs only if called (calls through values are rejected below)
		case *ast.CallExpr:
			if !c.pureCall(x) {
				ok = c.fail(x, "call to %s is not known to be free of side effects", exprString(x.Fun))
			}
		case *ast.UnaryExpr:
			if x.Op == token.ARROW {
				ok = c.fail(x, "channel receive")
			}
		}
		return true
	})
	return ok
}

func (c *loopCtx) pureCall(call *ast.CallExpr) bool {
	obj := calleeObj(c.info, call)
	if obj == nil {
		if tv, ok := c.info.Types[call.Fun]; ok && tv.IsType() {
			return true
		}
		return false
	}
	switch o := obj.(type) {
	case *types.Builtin:
		switch o.Name() {
		case "len", "cap", "make", "new", "append", "min", "max", "complex", "real", "imag":
			return true
		}
		return false
	case *types.Func:
		pp := objPkgPath(o)
		if pp == "fmt" {
			return strings.HasPrefix(o.Name(), "Sprint") || o.Name() == "Errorf"
		}
		if pureStdPkgs[pp] {
			return true
		}
		if c.p.IsOwnPath(pp) {
			return c.p.isEffectFree(o, c.depth+1)
		}
	}
	return false
}

var effectFreeMemo = map[*types.Func]int{} // 1 = yes, 2 = no, 3 = in progress

// isEffectFree: the function writes only to its own locals (and values it created)
// and calls only effect-free functions.
func (p *Prog) isEffectFree(fn *types.Func, depth int) bool {
	fn = fn.Origin()
	switch effectFreeMemo[fn] {
	case 1:
		return true
	case 2:
		return false
	case 3:
		return true // recursion: assume, verified by the outer frame
	}
	if depth > 4 {
		return false
	}
	fi := p.funcIdx[funcKey(fn)]
	if fi == nil {
		effectFreeMemo[fn] = 2
		return false
	}
	effectFreeMemo[fn] = 3
	c := &loopCtx{p: p, fi: fi, info: fi.Pkg.TypesInfo, body: fi.Decl.Body, summary: true, depth: depth, appends: map[types.Object]bool{}}
	ok := true
	ast.Inspect(fi.Decl.Body, func(n ast.Node) bool {
		if !ok {
			return false
		}
		switch x := n.(type) {
		case *ast.AssignStmt:
			for _, l := range x.Lhs {
				id := rootIdent(l)
				if id == nil {
					ok = false
					return false
				}
				if id.Name == "_" {
					continue
				}
				obj := c.info.ObjectOf(id)
				if !c.declaredInside(obj) { // parameter, receiver, global
					if _, isIdent := ast.Unparen(l).(*ast.Ident); isIdent {
						if v, isVar := obj.(*types.Var); isVar && !v.IsField() && obj.Parent() != obj.Pkg().Scope() {
							continue // re-assigning a parameter variable itself is local
						}
					}
					ok = false
					return false
				}
			}
		case *ast.IncDecStmt:
			id := rootIdent(x.X)
			if id == nil || !c.declaredInside(c.info.ObjectOf(id)) {
				ok = false
			}
		case *ast.CallExpr:
			if !c.pureCall(x) {
				// delete/copy/panic etc. on locals are not needed by the current code base
				ok = false
			}
		case *ast.GoStmt, *ast.SendStmt, *ast.DeferStmt:
			ok = false
		}
		return ok
	})
	if ok {
		effectFreeMemo[fn] = 1
	} else {
		effectFreeMemo[fn] = 2
	}
	return ok
}

var commutativeMemo = map[*types.Func]int{}

// isCommutativeOnParams: the function's only effects are set/map insertions with an
// idempotent value or deletions on map-typed parameters (or its map-typed receiver),
// so calling it in any order yields the same final state.
func (p *Prog) isCommutativeOnParams(fn *types.Func, depth int) bool {
	fn = fn.Origin()
	switch commutativeMemo[fn] {
	case 1:
		return true
	case 2:
		return false
	}
	if depth > 4 {
		return false
	}
	fi := p.funcIdx[funcKey(fn)]
	if fi == nil {
		return false
	}
	c := &loopCtx{p: p, fi: fi, info: fi.Pkg.TypesInfo, body: fi.Decl.Body, summary: true, depth: depth, appends: map[types.Object]bool{}}
	ok := c.stmts(fi.Decl.Body.List)
	if ok && len(c.appends) > 0 {
		ok = false
	}
	for _, ret := range c.returns {
		for _, res := range ret.Results {
			if !c.pureExpr(res) {
				ok = false
			}
		}
	}
	if ok {
		commutativeMemo[fn] = 1
	} else {
		commutativeMemo[fn] = 2
	}
	return ok
}

func (c *loopCtx) stmts(list []ast.Stmt) bool {
	for _, s := range list {
		if !c.stmt(s) {
			return false
		}
	}
	return true
}

func (c *loopCtx) isMapIndex(e ast.Expr) (*ast.IndexExpr, bool) {
	ix, ok := ast.Unparen(e).(*ast.IndexExpr)
	if !ok {
		return nil, false
	}
	t := c.info.TypeOf(ix.X)
	if t == nil {
		return nil, false
	}
	_, isMap := t.Underlying().(*types.Map)
	return ix, isMap
}

func (c *loopCtx) stmt(s ast.Stmt) bool {
	switch x := s.(type) {
	case nil:
		return true
	case *ast.EmptyStmt:
		return true
	case *ast.BlockStmt:
		return c.stmts(x.List)
	case *ast.DeclStmt:
		ok := true
		ast.Inspect(x, func(n ast.Node) bool {
			if e, isE := n.(ast.Expr); isE && ok {
				ok = c.pureExpr(e)
				return false
			}
			return ok
		})
		return ok
	case *ast.ExprStmt:
		call, ok := ast.Unparen(x.X).(*ast.CallExpr)
		if !ok {
			return c.pureExpr(x.X)
		}
		for _, a := range call.Args {
			if !c.pureExpr(a) {
				return false
			}
		}
		obj := calleeObj(c.info, call)
		if b, isB := obj.(*types.Builtin); isB && b.Name() == "delete" {
			return true
		}
		if fn, isF := obj.(*types.Func); isF && c.p.IsOwnPath(objPkgPath(fn)) {
			if c.p.isCommutativeOnParams(fn, c.depth+1) || c.p.isEffectFree(fn, c.depth+1) {
				return true
			}
			return c.fail(x, "call to %s: callee is not a pure set/map accumulation on its parameters", funcKey(fn))
		}
		if c.pureCall(call) {
			return true
		}
		return c.fail(x, "effectful call %s inside the loop body", exprString(call.Fun))
	case *ast.IncDecStmt:
		return c.pureExpr(x.X) // counters are commutative
	case *ast.AssignStmt:
		for _, rhs := range x.Rhs {
			if !c.pureExpr(rhs) {
				return false
			}
		}
		// x = append(x, …) on an outer slice → category (b)
		if len(x.Lhs) == 1 && len(x.Rhs) == 1 {
			if id, ok := ast.Unparen(x.Lhs[0]).(*ast.Ident); ok {
				obj := c.info.ObjectOf(id)
				if call, isCall := ast.Unparen(x.Rhs[0]).(*ast.CallExpr); isCall && !c.declaredInside(obj) && id.Name != "_" {
					if b, isB := calleeObj(c.info, call).(*types.Builtin); isB && b.Name() == "append" && len(call.Args) > 0 {
						if a0, ok := ast.Unparen(call.Args[0]).(*ast.Ident); ok && c.info.ObjectOf(a0) == obj {
							c.appends[obj] = true
							return true
						}
					}
				}
			}
		}
		for i, l := range x.Lhs {
			l = ast.Unparen(l)
			if id, ok := l.(*ast.Ident); ok {
				if id.Name == "_" || x.Tok == token.DEFINE && c.info.Defs[id] != nil {
					continue
				}
				obj := c.info.ObjectOf(id)
				if c.declaredInside(obj) {
					continue
				}
				return c.fail(x, "assignment to %s, which outlives one iteration (last writer wins)", id.Name)
			}
			if ix, isMap := c.isMapIndex(l); isMap {
				if !c.pureExpr(ix.Index) {
					return false
				}
				var rhs ast.Expr
				if len(x.Rhs) == len(x.Lhs) {
					rhs = x.Rhs[i]
				}
				if rhs != nil && isIdempotentValue(c.info, rhs) {
					continue // set insertion
				}
				if kid, ok := ast.Unparen(ix.Index).(*ast.Ident); ok && c.key != nil && c.info.ObjectOf(kid) == c.key && x.Tok == token.ASSIGN {
					continue // distinct keys per iteration
				}
				if rid := rootIdent(ix.X); rid != nil && c.declaredInside(c.info.ObjectOf(rid)) {
					continue // map created in this iteration
				}
				return c.fail(x, "map store %s whose key is not the range key and whose value is not idempotent", exprString(l))
			}
			if rid := rootIdent(l); rid != nil && c.declaredInside(c.info.ObjectOf(rid)) {
				if _, isStar := l.(*ast.StarExpr); !isStar {
					if _, isVar := c.info.ObjectOf(rid).(*types.Var); isVar {
						// field/element of a value created in this iteration — but a pointer obtained from
						// outside may alias shared state; accept only non-pointer locals
						if _, isPtr := c.info.TypeOf(rid).Underlying().(*types.Pointer); !isPtr {
							continue
						}
					}
				}
			}
			return c.fail(x, "store to %s inside the loop body", exprString(l))
		}
		return true
	case *ast.IfStmt:
		if !c.stmt(x.Init) || !c.pureExpr(x.Cond) || !c.stmt(x.Body) {
			return false
		}
		return c.stmt(x.Else)
	case *ast.SwitchStmt:
		if !c.stmt(x.Init) || (x.Tag != nil && !c.pureExpr(x.Tag)) {
			return false
		}
		for _, cc := range x.Body.List {
			cl := cc.(*ast.CaseClause)
			for _, e := range cl.List {
				if !c.pureExpr(e) {
					return false
				}
			}
			if !c.stmts(cl.Body) {
				return false
			}
		}
		return true
	case *ast.TypeSwitchStmt:
		if !c.stmt(x.Init) {
			return false
		}
		for _, cc := range x.Body.List {
			if !c.stmts(cc.(*ast.CaseClause).Body) {
				return false
			}
		}
		return true
	case *ast.RangeStmt:
		if !c.pureExpr(x.X) {
			return false
		}
		return c.stmt(x.Body)
	case *ast.ForStmt:
		if !c.stmt(x.Init) || (x.Cond != nil && !c.pureExpr(x.Cond)) || !c.stmt(x.Post) {
			return false
		}
		return c.stmt(x.Body)
	case *ast.BranchStmt:
		if x.Tok == token.CONTINUE {
			return true
		}
		if x.Tok == token.BREAK && c.summary {
			return true
		}
		if x.Tok == token.FALLTHROUGH {
			return true
		}
		return c.fail(x, "%s leaves the loop at an iteration that depends on map order", x.Tok)
	case *ast.ReturnStmt:
		c.returns = append(c.returns, x)
		return true
	}
	return c.fail(s, "statement %T is not recognised as order-insensitive", s)
}

// auditedEffectLoops: rule C09.R1 category (d).
var auditedEffectLoops = map[string]string{
	"goverter.writeFiles": "independent per-path writes; only OS faults can make the order observable and I/O faults are outside the property's quantifier (sub-fact re-verified: the body calls only os.MkdirAll, os.WriteFile, filepath.Dir)",
}

func runC09(p *Prog, r *Report) {
	c09R1(p, r)
	c09R3(p, r)
	c09R4(p, r)
	c09R5(p, r)
	c15R6(p, r, "C09.R6")
	c16R4(p, r, "C09.R7")
}

// sortObl is a sort call that canonicalises a sequence.
type sortInfo struct {
	call *ast.CallExpr
	fi   *FuncInfo
	why  string
}

func c09R1(p *Prog, r *Report) {
	r.Rule("C09.R1", "every `range` over a map in own code is order-insensitive: (a) commutative accumulation, (b) append followed by a sort before any other use (in the function or in every caller), (c) quantifier loop whose returns are one constant, (d) audited effect loop; anything else is a violation", 10)
	var canonSorts []sortInfo
	for _, fi := range p.Funcs {
		fi := fi
		n := 0
		walkStack(fi.Decl, func(node ast.Node, stack []ast.Node) bool {
			rs, ok := node.(*ast.RangeStmt)
			if !ok {
				return true
			}
			t := fi.Pkg.TypesInfo.TypeOf(rs.X)
			if t == nil {
				return true
			}
			if _, ok := t.Underlying().(*types.Map); !ok {
				return true
			}
			n++
			site := fmt.Sprintf("%s/range#%d(%s)", fi.Name(), n, typeKey(t))
			pos := p.PosStr(rs.Pos())
			if why, ok := auditedEffectLoops[p.anchorFor(fi, mapKeys(auditedEffectLoops))]; ok {
				if bad := verifyEffectLoop(p, fi, rs); bad != "" {
					r.Bad(site, pos, "audited effect loop no longer matches its audit: "+bad)
				} else {
					r.OK(site, pos, "(d) audited effect loop: "+why)
					r.Tables = append(r.Tables, "C09.R1 audited effect loop: "+fi.Name()+" — "+why)
				}
				return true
			}
			c := &loopCtx{p: p, fi: fi, info: fi.Pkg.TypesInfo, body: rs.Body, appends: map[types.Object]bool{}}
			if id, ok := rs.Key.(*ast.Ident); ok && id.Name != "_" {
				c.key = c.info.ObjectOf(id)
			}
			if id, ok := rs.Value.(*ast.Ident); ok && id.Name != "_" {
				c.val = c.info.ObjectOf(id)
			}
			if !c.stmts(rs.Body.List) {
				r.Bad(site, pos, "map iteration order can become observable: "+c.why)
				return true
			}
			// (c) returns
			if len(c.returns) > 0 {
				first := ""
				for i, ret := range c.returns {
					s := ""
					for _, res := range ret.Results {
						if !isIdempotentValue(c.info, res) {
							r.Bad(site, pos, fmt.Sprintf("%s: return inside the loop yields a value that depends on which entry is visited first (%s)", p.PosStr(ret.Pos()), exprString(res)))
							return true
						}
						s += exprString(res) + ","
					}
					if i == 0 {
						first = s
					} else if s != first {
						r.Bad(site, pos, fmt.Sprintf("%s: returns inside the loop yield different constants (%s vs %s): the first matching entry decides", p.PosStr(ret.Pos()), first, s))
						return true
					}
				}
			}
			if len(c.appends) == 0 {
				how := "(a) commutative accumulation"
				if len(c.returns) > 0 {
					how = "(c) quantifier loop with one constant result"
				}
				r.OK(site, pos, how)
				return true
			}
			// (b) every appended slice must be sorted before any other use
			for obj := range c.appends {
				res := p.sortedBeforeUse(fi, obj, rs, append(append([]ast.Node{}, stack...), rs), 0)
				if res.bad != "" {
					r.Bad(site, pos, fmt.Sprintf("slice %s collects map entries in iteration order and %s", obj.Name(), res.bad))
					return true
				}
				canonSorts = append(canonSorts, res.sorts...)
			}
			r.OK(site, pos, "(b) appended entries are sorted before any other use")
			return true
		})
	}
	c09R2(p, r, canonSorts)
}

func typeKey(t types.Type) string {
	s := types.TypeString(t, func(p *types.Package) string { return p.Name() })
	if len(s) > 60 {
		s = s[:60]
	}
	return s
}

func verifyEffectLoop(p *Prog, fi *FuncInfo, rs *ast.RangeStmt) string {
	return verifyEffectBody(p, fi, rs.Body, 0)
}

func verifyEffectBody(p *Prog, fi *FuncInfo, body ast.Node, depth int) string {
	bad := ""
	ast.Inspect(body, func(n ast.Node) bool {
		call, ok := n.(*ast.CallExpr)
		if !ok {
			return true
		}
		obj := calleeObj(fi.Pkg.TypesInfo, call)
		if isFunc(obj, "os", "", "MkdirAll") || isFunc(obj, "os", "", "WriteFile") || isFunc(obj, "path/filepath", "", "Dir") {
			return true
		}
		// a private helper of the audited function whose body satisfies the same audit
		if f, ok := obj.(*types.Func); ok && depth < 2 && !f.Exported() && p.IsOwn(f.Pkg()) {
			if h := p.Func(funcKey(f)); h != nil && h.Decl.Body != nil && p.inRegion(fi.Name(), h) {
				if msg := verifyEffectBody(p, h, h.Decl.Body, depth+1); msg == "" {
					return true
				}
			}
		}
		bad = fmt.Sprintf("%s: unexpected call %s", p.PosStr(call.Pos()), exprString(call.Fun))
		return false
	})
	return bad
}

type sortedRes struct {
	bad   string
	sorts []sortInfo
}

func refersTo(info *types.Info, n ast.Node, obj types.Object) bool {
	found := false
	ast.Inspect(n, func(x ast.Node) bool {
		if id, ok := x.(*ast.Ident); ok && info.ObjectOf(id) == obj {
			found = true
		}
		return !found
	})
	return found
}

var sortFuncs = map[string]bool{"sort.Strings": true, "sort.Ints": true, "sort.Float64s": true, "sort.Slice": true, "sort.SliceStable": true, "sort.Sort": true, "sort.Stable": true, "slices.Sort": true, "slices.SortFunc": true, "slices.SortStableFunc": true}

func sortCallOn(info *types.Info, s ast.Stmt, obj types.Object) *ast.CallExpr {
	es, ok := s.(*ast.ExprStmt)
	if !ok {
		return nil
	}
	call, ok := ast.Unparen(es.X).(*ast.CallExpr)
	if !ok || len(call.Args) == 0 {
		return nil
	}
	fn, ok := calleeObj(info, call).(*types.Func)
	if !ok || !sortFuncs[objPkgPath(fn)+"."+fn.Name()] {
		return nil
	}
	if id := rootIdent(call.Args[0]); id != nil && info.ObjectOf(id) == obj {
		if _, plain := ast.Unparen(call.Args[0]).(*ast.Ident); plain {
			return call
		}
	}
	return nil
}

// onlyAppendsTo: every reference to obj inside n is of the form obj = append(obj, …).
func onlyAppendsTo(info *types.Info, n ast.Node, obj types.Object) bool {
	ok := true
	allowed := map[*ast.Ident]bool{}
	ast.Inspect(n, func(x ast.Node) bool {
		as, isAs := x.(*ast.AssignStmt)
		if !isAs || len(as.Lhs) != 1 || len(as.Rhs) != 1 {
			return true
		}
		l, isId := ast.Unparen(as.Lhs[0]).(*ast.Ident)
		call, isCall := ast.Unparen(as.Rhs[0]).(*ast.CallExpr)
		if !isId || !isCall || info.ObjectOf(l) != obj || len(call.Args) == 0 {
			return true
		}
		if b, isB := calleeObj(info, call).(*types.Builtin); !isB || b.Name() != "append" {
			return true
		}
		a0, isId0 := ast.Unparen(call.Args[0]).(*ast.Ident)
		if !isId0 || info.ObjectOf(a0) != obj {
			return true
		}
		for _, a := range call.Args[1:] {
			if refersTo(info, a, obj) {
				return true
			}
		}
		allowed[l] = true
		allowed[a0] = true
		return true
	})
	ast.Inspect(n, func(x ast.Node) bool {
		if id, isId := x.(*ast.Ident); isId && info.ObjectOf(id) == obj && !allowed[id] {
			ok = false
		}
		return ok
	})
	return ok
}

// sortedBeforeUse scans the statements that follow `after` (walking outwards through
// the enclosing statement lists) and decides whether obj is sorted before any use
// other than appending to it.  A `return obj` / `return append(obj, …)` defers the
// obligation to every caller.
func (p *Prog) sortedBeforeUse(fi *FuncInfo, obj types.Object, after ast.Node, stack []ast.Node, depth int) sortedRes {
	info := fi.Pkg.TypesInfo
	cur := after
	for i := len(stack) - 1; i >= 0; i-- {
		var list []ast.Stmt
		switch b := stack[i].(type) {
		case *ast.BlockStmt:
			list = b.List
		case *ast.CaseClause:
			list = b.Body
		default:
			continue
		}
		idx := -1
		for k, s := range list {
			if s.Pos() <= cur.Pos() && cur.End() <= s.End() {
				idx = k
			}
		}
		if idx < 0 {
			continue
		}
		for _, s := range list[idx+1:] {
			if !refersTo(info, s, obj) {
				continue
			}
			if call := sortCallOn(info, s, obj); call != nil {
				return sortedRes{sorts: []sortInfo{{call: call, fi: fi, why: "canonicalises entries collected from a map"}}}
			}
			if onlyAppendsTo(info, s, obj) {
				continue
			}
			if ret, ok := s.(*ast.ReturnStmt); ok {
				// which result index?
				for ri, res := range ret.Results {
					if !refersTo(info, res, obj) {
						continue
					}
					okForm := false
					if id, isId := ast.Unparen(res).(*ast.Ident); isId && info.ObjectOf(id) == obj {
						okForm = true
					}
					if call, isCall := ast.Unparen(res).(*ast.CallExpr); isCall {
						if b, isB := calleeObj(info, call).(*types.Builtin); isB && b.Name() == "append" {
							okForm = true
						}
					}
					if !okForm {
						return sortedRes{bad: fmt.Sprintf("is used unsorted in %s", p.PosStr(ret.Pos()))}
					}
					return p.callersSort(fi, ri, depth)
				}
			}
			return sortedRes{bad: fmt.Sprintf("is used before being sorted at %s", p.PosStr(s.Pos()))}
		}
		cur = stack[i]
		// leaving a loop statement: the collected slice is still being built
	}
	// end of function reached: named result?
	if sig := fi.Obj.Type().(*types.Signature); sig.Results() != nil {
		for ri := 0; ri < sig.Results().Len(); ri++ {
			if sig.Results().At(ri) == obj {
				return p.callersSort(fi, ri, depth)
			}
		}
	}
	return sortedRes{} // never used again
}

// callersSort: result #ri of fi carries map order; every caller must bind it to a
// variable and sort that variable before any other use.
func (p *Prog) callersSort(fi *FuncInfo, ri int, depth int) sortedRes {
	if depth > 3 {
		return sortedRes{bad: "is returned unsorted through more than 3 call levels"}
	}
	var out sortedRes
	ncallers := 0
	for _, cs := range p.Calls() {
		fn, ok := cs.Callee.(*types.Func)
		if !ok || fn.Origin() != fi.Obj.Origin() {
			continue
		}
		ncallers++
		if cs.Encl == nil {
			return sortedRes{bad: fmt.Sprintf("is returned unsorted to a package-level initialiser at %s", p.PosStr(cs.Call.Pos()))}
		}
		// the call must be the sole RHS of an assignment/definition
		if len(cs.Stack) == 0 {
			return sortedRes{bad: "is returned unsorted to an unrecognised call context"}
		}
		as, ok := cs.Stack[len(cs.Stack)-1].(*ast.AssignStmt)
		if !ok || len(as.Rhs) != 1 || ast.Unparen(as.Rhs[0]) != cs.Call || ri >= len(as.Lhs) {
			return sortedRes{bad: fmt.Sprintf("is returned unsorted and used directly by the caller at %s", p.PosStr(cs.Call.Pos()))}
		}
		id, ok := ast.Unparen(as.Lhs[ri]).(*ast.Ident)
		if !ok {
			return sortedRes{bad: fmt.Sprintf("is returned unsorted and stored into %s at %s", exprString(as.Lhs[ri]), p.PosStr(cs.Call.Pos()))}
		}
		if id.Name == "_" {
			continue
		}
		obj := cs.Encl.Pkg.TypesInfo.ObjectOf(id)
		res := p.sortedBeforeUse(cs.Encl, obj, as, cs.Stack[:len(cs.Stack)-1], depth+1)
		if res.bad != "" {
			return sortedRes{bad: fmt.Sprintf("is returned unsorted by %s; in caller %s it %s", fi.Name(), cs.Encl.Name(), res.bad)}
		}
		out.sorts = append(out.sorts, res.sorts...)
	}
	// references that are not calls (method values) cannot be followed
	for _, pkg := range p.Own {
		for id, o := range pkg.TypesInfo.Uses {
			if f, ok := o.(*types.Func); ok && f.Origin() == fi.Obj.Origin() {
				isCall := false
				for _, cs := range p.Calls() {
					if cs.Call.Fun.Pos() <= id.Pos() && id.End() <= cs.Call.Fun.End() {
						isCall = true
						break
					}
				}
				if !isCall {
					return sortedRes{bad: fmt.Sprintf("is returned unsorted by %s, which is also used as a function value at %s", fi.Name(), p.PosStr(id.Pos()))}
				}
			}
		}
	}
	_ = ncallers
	return out
}

// identifyingKeys: table B6 — fields that identify an element of the sorted
// sequence, so that a sort on them is total (no ties, hence no residue of the input order).
var identifyingKeys = map[string]string{
	"generator.generatedMethod.Name": "method names are unique per converter: explicit ones are distinct Go identifiers of one interface/var block, generated ones come from one allocator (namer.Name)",
	"packages.Package.ID":            "go list package IDs are unique within one load",
	"packages.Package.PkgPath":       "with Tests=false one package per import path is loaded",
}

// stableOverCanonical: sorts whose key is NOT identifying; they must be stable and
// their input order must be canonical (established by another rule).
var stableOverCanonical = map[string]string{
	"config.Converter.Name": "two packages may both declare `type Converter`; input order is canonical because comments.ParseDocs sorts the loaded packages by ID (C09.R3) and walks files/declarations in syntactic order",
}

func c09R2(p *Prog, r *Report, canon []sortInfo) {
	r.Rule("C09.R2", "every sort with a comparator is total on an identifying key (table B6) or is a stable sort over a canonical input; sorts of []string / []int are total by construction", 3)
	isCanon := map[*ast.CallExpr]string{}
	for _, s := range canon {
		isCanon[s.call] = s.why
	}
	perFunc := map[string]int{}
	for _, cs := range p.Calls() {
		fn, ok := cs.Callee.(*types.Func)
		if !ok || !sortFuncs[objPkgPath(fn)+"."+fn.Name()] || cs.Encl == nil {
			continue
		}
		name := objPkgPath(fn) + "." + fn.Name()
		perFunc[cs.Encl.Name()]++
		site := fmt.Sprintf("%s/%s#%d", cs.Encl.Name(), name, perFunc[cs.Encl.Name()])
		pos := p.PosStr(cs.Call.Pos())
		info := cs.Pkg.TypesInfo
		switch name {
		case "sort.Strings", "sort.Ints", "sort.Float64s", "slices.Sort":
			r.OK(site, pos, "total order on basic values (equal elements are indistinguishable)")
			continue
		case "sort.Sort", "sort.Stable":
			r.Bad(site, pos, "sort through sort.Interface: comparator not analysable")
			continue
		}
		if len(cs.Call.Args) < 2 {
			r.Bad(site, pos, "unrecognised sort call")
			continue
		}
		elem := sliceElemNamed(info.TypeOf(cs.Call.Args[0]))
		lit, ok := ast.Unparen(cs.Call.Args[1]).(*ast.FuncLit)
		if elem == nil || !ok {
			r.Bad(site, pos, "comparator is not a function literal over a named element type: cannot establish totality")
			continue
		}
		// collect fields of the element type read by the comparator
		fields := map[string]bool{}
		ast.Inspect(lit.Body, func(n ast.Node) bool {
			sel, ok := n.(*ast.SelectorExpr)
			if !ok {
				return true
			}
			if s := info.Selections[sel]; s != nil && s.Kind() == types.FieldVal {
				if namedOf(info.TypeOf(sel.X)) != nil && namedOf(info.TypeOf(sel.X)).Obj() == elem.Obj() {
					fields[sel.Sel.Name] = true
				}
			}
			return true
		})
		stable := strings.Contains(name, "Stable")
		elemKey := elem.Obj().Pkg().Name() + "." + elem.Obj().Name()
		identifying := false
		var used []string
		for f := range fields {
			used = append(used, f)
			if why, ok := identifyingKeys[elemKey+"."+f]; ok {
				identifying = true
				r.Tables = append(r.Tables, "C09.R2 identifying key "+elemKey+"."+f+" — "+why)
			}
		}
		if identifying {
			r.OK(site, pos, fmt.Sprintf("comparator reads identifying key of %s (%s)", elemKey, strings.Join(used, ",")))
			continue
		}
		okStable := false
		for f := range fields {
			if why, ok := stableOverCanonical[elemKey+"."+f]; ok && stable {
				okStable = true
				r.Tables = append(r.Tables, "C09.R2 stable-over-canonical "+elemKey+"."+f+" — "+why)
			}
		}
		if okStable {
			r.OK(site, pos, fmt.Sprintf("stable sort on %s.%s over an input that C09.R3 shows canonical", elemKey, strings.Join(used, ",")))
			continue
		}
		if why, isC := isCanon[cs.Call]; isC {
			r.Bad(site, pos, fmt.Sprintf("this sort %s, but its comparator (fields %v of %s) is not known to identify elements: ties keep map iteration order", why, used, elemKey))
			continue
		}
		if stable {
			r.Bad(site, pos, fmt.Sprintf("stable sort on non-identifying key %v of %s: the input order must be shown canonical (no table row)", used, elemKey))
			continue
		}
		r.Bad(site, pos, fmt.Sprintf("unstable sort on key %v of %s, which is not known to identify elements: ties are ordered by the (environment dependent) input order", used, elemKey))
	}
}

func sliceElemNamed(t types.Type) *types.Named {
	if t == nil {
		return nil
	}
	s, ok := t.Underlying().(*types.Slice)
	if !ok {
		return nil
	}
	return namedOf(s.Elem())
}

// c09R3: the slice returned by packages.Load is in pattern order.
func c09R3(p *Prog, r *Report) {
	r.Rule("C09.R3", "the package list returned by every packages.Load call only populates a map keyed by the package, or is sorted by an identifying key before any order-sensitive use", 2)
	for _, cs := range p.Calls() {
		if !isFunc(cs.Callee, "golang.org/x/tools/go/packages", "", "Load") || cs.Encl == nil {
			continue
		}
		site := cs.Encl.Name() + "/packages.Load"
		pos := p.PosStr(cs.Call.Pos())
		as, ok := cs.Stack[len(cs.Stack)-1].(*ast.AssignStmt)
		if !ok || len(as.Lhs) < 1 {
			r.Bad(site, pos, "result of packages.Load is not bound to a variable")
			continue
		}
		id, ok := ast.Unparen(as.Lhs[0]).(*ast.Ident)
		if !ok {
			r.Bad(site, pos, "result of packages.Load is not bound to a plain variable")
			continue
		}
		info := cs.Pkg.TypesInfo
		obj := info.ObjectOf(id)
		// scan following statements in the enclosing list
		verdict, how := scanLoadUses(p, cs, obj, as)
		if verdict {
			r.OK(site, pos, how)
		} else {
			r.Bad(site, pos, how)
		}
	}
}

func scanLoadUses(p *Prog, cs *CallSite, obj types.Object, after ast.Stmt) (bool, string) {
	info := cs.Pkg.TypesInfo
	var list []ast.Stmt
	for i := len(cs.Stack) - 1; i >= 0; i-- {
		if b, ok := cs.Stack[i].(*ast.BlockStmt); ok {
			list = b.List
			break
		}
	}
	started := false
	for _, s := range list {
		if s == after {
			started = true
			continue
		}
		if !started || !refersTo(info, s, obj) {
			continue
		}
		if call := sortCallOn(info, s, obj); call != nil {
			return true, "sorted before use at " + p.PosStr(call.Pos()) + " (comparator checked by C09.R2)"
		}
		if rs, ok := s.(*ast.RangeStmt); ok {
			if id, isId := ast.Unparen(rs.X).(*ast.Ident); isId && info.ObjectOf(id) == obj {
				// body must be a pure map population keyed by a field of the element
				c := &loopCtx{p: p, fi: cs.Encl, info: info, body: rs.Body, appends: map[types.Object]bool{}}
				okBody := len(rs.Body.List) > 0
				for _, st := range rs.Body.List {
					as, isAs := st.(*ast.AssignStmt)
					if !isAs || len(as.Lhs) != 1 {
						okBody = false
						break
					}
					ix, isMap := c.isMapIndex(as.Lhs[0])
					if !isMap || !c.pureExpr(ix.Index) || !c.pureExpr(as.Rhs[0]) {
						okBody = false
						break
					}
					// key must be an identifying field of the element
					sel, isSel := ast.Unparen(ix.Index).(*ast.SelectorExpr)
					if !isSel {
						okBody = false
						break
					}
					if _, ok := identifyingKeys["packages.Package."+sel.Sel.Name]; !ok {
						okBody = false
						break
					}
				}
				if okBody {
					continue
				}
				return false, fmt.Sprintf("the package list is iterated in pattern order at %s without being sorted first (appends/early returns follow the order of the command line patterns)", p.PosStr(rs.Pos()))
			}
		}
		// an error check on the sibling result does not reference obj; anything else is a use
		return false, fmt.Sprintf("the package list is used in pattern order at %s", p.PosStr(s.Pos()))
	}
	return true, "only populates a map keyed by an identifying field of the package"
}

var ambientFuncs = map[string]string{
	"time.Now": "", "time.Since": "", "time.Until": "",
	"os.Getenv": "", "os.LookupEnv": "", "os.Environ": "", "os.Getpid": "", "os.Getppid": "", "os.Hostname": "", "os.Getuid": "", "os.Getgid": "",
	"os.UserHomeDir": "", "os.UserCacheDir": "", "os.UserConfigDir": "", "os.Executable": "", "os.TempDir": "", "os.Getwd": "",
	"os.ExpandEnv": "", "os.Getpagesize": "",
	"runtime.NumCPU": "", "runtime.NumGoroutine": "", "runtime.GOMAXPROCS": "", "runtime.Caller": "", "runtime.Callers": "", "runtime.Stack": "",
	"path/filepath.Abs": "", "path/filepath.EvalSymlinks": "",
	"os/user.Current": "",
}

// allowed ambient calls: function key → callee
var ambientAllowed = map[string]string{
	"config/parse.File|path/filepath.Abs": "the documented @cwd/ rule resolves against the configured working directory",
}

func c09R4(p *Prog, r *Report) {
	r.Rule("C09.R4", "own code reads no ambient input: no time/rand/env/pid/hostname/cwd call (filepath.Abs only in config/parse.File), no %p verb, no goroutine, select or channel operation", 1)
	n := 0
	for _, cs := range p.Calls() {
		fn, ok := cs.Callee.(*types.Func)
		if !ok {
			continue
		}
		pp := objPkgPath(fn)
		full := pp + "." + fn.Name()
		encl := "<package init>"
		if cs.Encl != nil {
			encl = cs.Encl.Name()
		}
		_, amb := ambientFuncs[full]
		if pp == "math/rand" || pp == "math/rand/v2" || pp == "crypto/rand" {
			amb = true
		}
		if amb {
			n++
			site := encl + "/" + full
			if why, ok := ambientAllowed[encl+"|"+full]; ok {
				r.OK(site, p.PosStr(cs.Call.Pos()), "audited: "+why)
				r.Tables = append(r.Tables, "C09.R4 allowed ambient call "+site+" — "+why)
			} else {
				r.Bad(site, p.PosStr(cs.Call.Pos()), "ambient input "+full+" can make output or diagnostics depend on the environment")
			}
			continue
		}
		// format verbs
		if pp == "fmt" || pp == "log" {
			for _, a := range cs.Call.Args {
				if s, ok := constString(cs.Pkg.TypesInfo, a); ok && strings.Contains(s, "%p") {
					r.Bad(encl+"/%p", p.PosStr(cs.Call.Pos()), "%p prints an address, which differs between runs")
				}
			}
		}
	}
	conc := 0
	for _, fi := range p.Funcs {
		fi := fi
		ast.Inspect(fi.Decl, func(n ast.Node) bool {
			switch x := n.(type) {
			case *ast.GoStmt:
				conc++
				r.Bad(fi.Name()+"/go", p.PosStr(x.Pos()), "goroutine: scheduling can reorder effects")
			case *ast.SelectStmt:
				conc++
				r.Bad(fi.Name()+"/select", p.PosStr(x.Pos()), "select: nondeterministic choice")
			case *ast.SendStmt:
				conc++
				r.Bad(fi.Name()+"/send", p.PosStr(x.Pos()), "channel send")
			case *ast.UnaryExpr:
				if x.Op == token.ARROW {
					conc++
					r.Bad(fi.Name()+"/recv", p.PosStr(x.Pos()), "channel receive")
				}
			}
			return true
		})
	}
	r.OK("own code/concurrency constructs", "", fmt.Sprintf("%d own functions scanned: %d go/select/channel constructs, %d ambient call sites", len(p.Funcs), conc, n))
	r.Analysed["call_sites"] = len(p.Calls())
}

// c09R5 (= C12.R7): package-level variables are never mutated after initialisation.
func c09R5(p *Prog, r *Report) { pkgLevelStateRule(p, r, "C09.R5") }

func pkgLevelStateRule(p *Prog, r *Report, id string) {
	r.Rule(id, "no package-level variable of own code is assigned, element/field-stored, appended to, deleted from (unless provably empty) or has its address taken outside its initialiser: no state is carried between converters, methods or runs", 5)
	globals := map[types.Object]*types.Var{}
	for _, pkg := range p.Own {
		sc := pkg.Types.Scope()
		for _, name := range sc.Names() {
			if v, ok := sc.Lookup(name).(*types.Var); ok {
				globals[v] = v
			}
		}
	}
	bad := map[types.Object]string{}
	mark := func(fi *FuncInfo, e ast.Expr, n ast.Node, what string) {
		id := rootIdent(e)
		if id == nil {
			return
		}
		obj := fi.Pkg.TypesInfo.ObjectOf(id)
		if _, ok := globals[obj]; ok {
			if _, dup := bad[obj]; !dup {
				bad[obj] = fmt.Sprintf("%s: %s in %s", p.PosStr(n.Pos()), what, fi.Name())
			}
		}
	}
	for _, fi := range p.Funcs {
		fi := fi
		ast.Inspect(fi.Decl, func(n ast.Node) bool {
			switch x := n.(type) {
			case *ast.AssignStmt:
				if x.Tok == token.DEFINE {
					return true
				}
				for _, l := range x.Lhs {
					mark(fi, l, x, "assignment to "+exprString(l))
				}
			case *ast.IncDecStmt:
				mark(fi, x.X, x, "increment of "+exprString(x.X))
			case *ast.UnaryExpr:
				if x.Op == token.AND {
					mark(fi, x.X, x, "address of "+exprString(x.X)+" taken")
				}
			case *ast.CallExpr:
				if b, ok := calleeObj(fi.Pkg.TypesInfo, x).(*types.Builtin); ok && len(x.Args) > 0 {
					switch b.Name() {
					case "delete", "clear", "copy":
						mark(fi, x.Args[0], x, b.Name()+" on "+exprString(x.Args[0]))
					}
				}
				// a pointer-receiver method called on an addressable global (sync.Map.Store,
				// sync.Once.Do, bytes.Buffer.Write …) implicitly takes its address
				if sel, ok := ast.Unparen(x.Fun).(*ast.SelectorExpr); ok {
					if s := fi.Pkg.TypesInfo.Selections[sel]; s != nil && s.Kind() == types.MethodVal {
						if sig, ok := s.Obj().Type().(*types.Signature); ok && sig.Recv() != nil {
							_, ptrRecv := sig.Recv().Type().(*types.Pointer)
							_, xIsPtr := fi.Pkg.TypesInfo.TypeOf(sel.X).Underlying().(*types.Pointer)
							if ptrRecv && !xIsPtr {
								mark(fi, sel.X, x, "pointer-receiver method "+s.Obj().Name()+" called on "+exprString(sel.X))
							}
						}
					}
				}
			}
			return true
		})
	}
	// a map-typed global handed out by a function lets callers mutate it: `delete`
	// through an alias is accepted only for globals that are empty maps initialised
	// with an empty literal and never stored to (audited sub-fact for builder.emptyFields).
	for obj, v := range globals {
		site := relPkg(v.Pkg().Path()) + "." + v.Name()
		if why, isBad := bad[obj]; isBad {
			r.Bad(site, p.PosStr(v.Pos()), "package-level variable is mutated: "+why)
		} else {
			r.OK(site, p.PosStr(v.Pos()), "never written outside its initialiser")
		}
	}
}
