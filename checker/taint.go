package main

import (
	"go/ast"
	"go/types"
)

// Source-expression tracking inside one generator function (AST level).
//
// A value is *source-derived* when it denotes (part of) the source expression of the
// conversion being generated without having gone through a conversion: the sourceID
// parameter, sourceID.Deref(..), VariableID(sourceID.Code…Index(i)), the range
// key/value names handed out by ctx.Map(), and anything assigned from an expression
// that mentions such a value — except the results of *converter calls*
// (gen.Build/Assign/CallMethod, BuildByAssign, AssignByBuild, buildTargetVar and the
// generator's own dispatch methods), whose results are converted values.

type srcTaint struct {
	fi      *FuncInfo
	info    *types.Info
	derived map[types.Object]bool
}

var converterCallNames = map[string]bool{
	"Build": true, "Assign": true, "CallMethod": true, "BuildByAssign": true, "AssignByBuild": true, "buildTargetVar": true,
	"callExisting": true, "createSubMethod": true, "buildNoLookup": true, "assignNoLookup": true, "convertTo": true, "delegateMethod": true, "ToAssignable": true,
}

func isJenIDPtr(t types.Type) bool {
	p, ok := types.Unalias(t).(*types.Pointer)
	return ok && isNamed(p.Elem(), modPath+"/xtype", "JenID")
}

func isXType(t types.Type) bool {
	p, ok := types.Unalias(t).(*types.Pointer)
	return ok && isNamed(p.Elem(), modPath+"/xtype", "Type")
}

// sourceSeeds: the *xtype.JenID parameters of a function that also takes (source, target *xtype.Type).
func sourceSeeds(fi *FuncInfo) []*types.Var {
	sig := fi.Obj.Type().(*types.Signature)
	nType := 0
	var ids []*types.Var
	for i := 0; i < sig.Params().Len(); i++ {
		prm := sig.Params().At(i)
		if isXType(prm.Type()) {
			nType++
		}
		if isJenIDPtr(prm.Type()) {
			ids = append(ids, prm)
		}
	}
	if nType >= 2 {
		return ids
	}
	// a private helper that is handed a source expression together with one type
	// (the statement constructors split off from Assign/Build functions)
	if nType >= 1 && !fi.Obj.Exported() && fi.Obj.Type().(*types.Signature).Recv() == nil {
		return ids
	}
	// a private statement constructor that is handed the source expression alone (`indexLoop(index, sourceID, body)`):
	// its *JenID parameter is the source when every call passes a source seed of the caller
	if nType == 0 && len(ids) > 0 && !fi.Obj.Exported() && sig.Recv() == nil && fi.P != nil && !fi.P.seedBusy[fi] {
		if fi.P.seedBusy == nil {
			fi.P.seedBusy = map[*FuncInfo]bool{}
		}
		fi.P.seedBusy[fi] = true
		defer delete(fi.P.seedBusy, fi)
		var out []*types.Var
		for _, prm := range ids {
			idx := -1
			for i := 0; i < sig.Params().Len(); i++ {
				if sig.Params().At(i) == prm {
					idx = i
				}
			}
			n, all := 0, true
			for _, cs := range fi.P.Calls() {
				f, ok := cs.Callee.(*types.Func)
				if !ok || f.Origin() != fi.Obj.Origin() || cs.Encl == nil {
					continue
				}
				n++
				okArg := false
				if idx < len(cs.Call.Args) {
					if aid, isID := ast.Unparen(cs.Call.Args[idx]).(*ast.Ident); isID {
						for _, s := range sourceSeeds(cs.Encl) {
							if cs.Pkg.TypesInfo.ObjectOf(aid) == s {
								okArg = true
							}
						}
					}
				}
				if !okArg {
					all = false
				}
			}
			if n > 0 && all {
				out = append(out, prm)
			}
		}
		return out
	}
	return nil
}

// carriesCode: only values that can hold (a name of) generated code propagate derivation.
func carriesCode(t types.Type) bool {
	if t == nil {
		return false
	}
	if isJenIDPtr(t) {
		return true
	}
	s := t.String()
	return s == "*"+jenPath+".Statement" || s == jenPath+".Code" || s == "[]"+jenPath+".Code"
}

func newSrcTaint(fi *FuncInfo) *srcTaint {
	t := &srcTaint{fi: fi, info: fi.Pkg.TypesInfo, derived: map[types.Object]bool{}}
	for _, s := range sourceSeeds(fi) {
		t.derived[s] = true
	}
	// range names from ctx.Map()
	ast.Inspect(fi.Decl, func(n ast.Node) bool {
		as, ok := n.(*ast.AssignStmt)
		if !ok || len(as.Rhs) != 1 {
			return true
		}
		call, ok := ast.Unparen(as.Rhs[0]).(*ast.CallExpr)
		if !ok {
			return true
		}
		if fn, ok := calleeObj(t.info, call).(*types.Func); ok && isNamerAlloc(fn) && fn.Name() == "Map" {
			for _, l := range as.Lhs {
				if id, ok := ast.Unparen(l).(*ast.Ident); ok && id.Name != "_" {
					t.derived[t.info.ObjectOf(id)] = true
				}
			}
		}
		return true
	})
	// fixpoint over assignments
	for changed := true; changed; {
		changed = false
		ast.Inspect(fi.Decl, func(n ast.Node) bool {
			as, ok := n.(*ast.AssignStmt)
			if !ok {
				return true
			}
			if len(as.Rhs) == 1 && len(as.Lhs) > 1 {
				// tuple from a call
				if t.isConverterCall(as.Rhs[0]) {
					return true
				}
				if t.mentions(as.Rhs[0]) {
					for _, l := range as.Lhs {
						if id, ok := ast.Unparen(l).(*ast.Ident); ok && id.Name != "_" {
							if o := t.info.ObjectOf(id); o != nil && !t.derived[o] && carriesCode(o.Type()) {
								t.derived[o] = true
								changed = true
							}
						}
					}
				}
				return true
			}
			for i, l := range as.Lhs {
				if i >= len(as.Rhs) {
					break
				}
				id, ok := ast.Unparen(l).(*ast.Ident)
				if !ok || id.Name == "_" {
					continue
				}
				if t.isConverterCall(as.Rhs[i]) || t.isSanitised(as.Rhs[i]) {
					continue
				}
				if t.mentions(as.Rhs[i]) {
					if o := t.info.ObjectOf(id); o != nil && !t.derived[o] && carriesCode(o.Type()) {
						t.derived[o] = true
						changed = true
					}
				}
			}
			return true
		})
	}
	return t
}

// isConverterCall: e is a call (possibly f(...)(...)) to one of the conversion entry points.
func (t *srcTaint) isConverterCall(e ast.Expr) bool {
	call, ok := ast.Unparen(e).(*ast.CallExpr)
	if !ok {
		return false
	}
	if inner, ok := ast.Unparen(call.Fun).(*ast.CallExpr); ok {
		return t.isConverterCall(inner) || t.argsAreConverter(call)
	}
	if fn, ok := calleeObj(t.info, call).(*types.Func); ok && converterCallNames[fn.Name()] {
		pp := objPkgPath(fn)
		return pp == modPath+"/builder" || pp == modPath+"/generator"
	}
	return false
}

func (t *srcTaint) argsAreConverter(call *ast.CallExpr) bool {
	for _, a := range call.Args {
		if t.isConverterCall(a) {
			return true
		}
	}
	return false
}

// isSanitised: a statement value whose only use of the source is a read inside a
// condition or inside an argument list of a jen.If/For/Switch header.
func (t *srcTaint) isSanitised(e ast.Expr) bool {
	ch, ok := chainOf(t.info, e)
	if !ok || ch.Root != nil {
		return false
	}
	switch ch.Links[0].Name {
	case "If", "For", "Switch":
		return true
	}
	return false
}

// mentions: e refers to a source-derived object, outside nested converter calls.
func (t *srcTaint) mentions(e ast.Node) bool {
	found := false
	ast.Inspect(e, func(n ast.Node) bool {
		if found {
			return false
		}
		if x, ok := n.(ast.Expr); ok && t.isConverterCall(x) {
			return false
		}
		if id, ok := n.(*ast.Ident); ok && t.derived[t.info.ObjectOf(id)] {
			found = true
		}
		return !found
	})
	return found
}
