package main

import (
	"fmt"
	"go/ast"
	"go/token"
	"go/types"
	"strings"

	"golang.org/x/tools/go/ssa"
)

func init() {
	register(&Check{
		ID: "C10", Level: "other",
		Explanation: "Decides structural necessary conditions of update methods: (R1) method.Parse accepts an update target only with no result or exactly one error result and requires the named argument to exist (C14.R2 guards, re-checked here); " +
			"(R2) generator.convertTo rejects a target that is not a pointer to struct and a source that is neither struct nor pointer to struct, delegates the field-wise writes to Struct.Assign on the pointee, wraps them in " +
			"If(source != nil) for a pointer source, and emits no assignment of its own (no whole-struct copy); (R3) shouldCheckAgainstZero returns true only on an edge that read the matching Ignore{Struct,Basic,Nillable}ZeroValueField flag, " +
			"returns false outside update contexts, and uses the target type only inside types.Identical(source, target); the emitted guard is `<source value> != ZeroValue(<source type>)` around exactly the field's statements; " +
			"(R4) comparability: an emitted `!= ZeroValue(T)` for a struct is preceded by a types.Comparable test that turns non-comparable structs into a diagnostic; (R5) every emitted write goes through assignTo (C04.R2). " +
			"Which fields survive for which pre-state and source value is not decided.",
		NotDecided: []string{"which fields keep their value for a given pre-state × source value at run time"},
		Run:        runC10,
	})
	register(&Check{
		ID: "C11", Level: "other",
		Explanation: "Decides structural necessary conditions of pointer and default-constructor semantics: (R1) *T → U is generated only under useZeroValueOnPointerInconsistency (SourcePointer.Matches gate) and its absence yields the " +
			"dedicated TypeMismatch hint; (R2) rule precedence: the relative order of the known builders in generator.BuildSteps whose Matches overlap; (R3) T → *U yields a non-nil pointer: TargetPointer/BasicTargetPointerRule return " +
			"`&` of a fresh local or the constructor's variable, never a nil-able expression; (R4) constructor typestate: buildTargetVar uses the constructor only under UseConstructor ∧ identical method source/target types and clears " +
			"UseConstructor before calling it, so FUNC runs exactly once for the method's own target; (R5) with default:update the source is applied on top of FUNC's result only inside If(source != nil), without it a nil source returns " +
			"FUNC's result unchanged; (R6) map values are always assigned (nil *T value → zero value entry). Run-time values for nil/non-nil inputs are not decided.",
		NotDecided: []string{"the values returned for nil / non-nil inputs at run time", "that FUNC's fields survive for ignored fields (follows from Struct.Assign writing only mapped fields, C10)"},
		Run:        runC11,
	})
}

func runC10(p *Prog, r *Report) {
	// R1: reuse the C14 guards that concern update signatures
	r.Rule("C10.R1", "update signature validation in method.Parse: the update argument must exist, and an update method has no result or exactly one result that is the built-in error (guards return an error)", 2)
	sub := newReport("C14", r.Tier)
	if fi := p.Func("method.Parse"); fi != nil {
		c14R2(p, sub, fi)
		c14R3(p, sub)
		for _, o := range sub.Obls {
			if strings.Contains(o.Site, "update") || strings.Contains(o.Site, "isError") {
				if o.Verdict == "violation" {
					r.Bad(o.Site, o.Pos, o.How)
				} else {
					r.OK(o.Site, o.Pos, o.How)
				}
			}
		}
	} else {
		r.Unresolved("method.Parse")
	}
	c10R2(p, r)
	c10R3(p, r)
	c10R4(p, r)
	ignoreUnexportedRule(p, r, "C10.R6")
	umbrellaSettingRule(p, r, "C10.R7")
	typeStringOpaqueRule(p, r, "C10.R8")
	zeroValueTableRule(p, r, "C10.R9")
	fieldsAccessorRule(p, r, "C10.R10")
	r.Rule("C10.R5", "only the target is written: every emitted `=`/`:=`/`++` has a left-hand side derived from assignTo, a fresh local or `_` (same analysis as C04.R2)", 1)
	sub2 := newReport("C04", r.Tier)
	c04R1R2(p, sub2, "C04.R1", "C04.R2")
	for _, o := range sub2.Obls {
		if o.Rule != "C04.R2" {
			continue
		}
		if o.Verdict == "violation" {
			r.Bad(o.Site, o.Pos, o.How)
		} else {
			r.OK(o.Site, o.Pos, o.How)
		}
	}
}

func c10R2(p *Prog, r *Report) {
	r.Rule("C10.R2", "update entry point generator.convertTo: returns an error unless target is a pointer to struct and source is a struct or pointer to struct; calls Struct.Assign with the target's pointee; for a pointer source every returned statement sits inside If(sourceID != nil); the function itself emits no assignment (the only operator it emits is the nil comparison)", 4)
	fi, sf := needFunc(p, r, "generator.(*generator).convertTo")
	if fi == nil {
		return
	}
	info := fi.Pkg.TypesInfo
	// guards
	type g struct {
		name string
		test func(cond ast.Expr) bool
	}
	guards := []g{
		{"target must be pointer to struct", func(c ast.Expr) bool {
			s := exprString(c)
			return strings.Contains(s, "!target.Pointer") && strings.Contains(s, "!target.PointerInner.Struct")
		}},
		{"source must be struct or pointer to struct", func(c ast.Expr) bool { return exprString(c) == "!source.Struct" }},
	}
	for _, gd := range guards {
		found := false
		ast.Inspect(fi.Decl, func(n ast.Node) bool {
			ifs, ok := n.(*ast.IfStmt)
			if !ok || !gd.test(ifs.Cond) {
				return true
			}
			// the block (or its else part for the source test) returns a builder.NewError
			ast.Inspect(ifs, func(m ast.Node) bool {
				if ret, ok := m.(*ast.ReturnStmt); ok && len(ret.Results) == 2 && callTo(info, ret.Results[1], modPath+"/builder", "", "NewError") != nil {
					found = true
				}
				return true
			})
			return true
		})
		site := "generator.(*generator).convertTo/guard: " + gd.name
		if found {
			r.OK(site, p.PosStr(fi.Decl.Pos()), "violations return a builder.NewError")
		} else {
			r.Bad(site, p.PosStr(fi.Decl.Pos()), "an update method with an unsupported "+strings.Split(gd.name, " ")[0]+" shape is no longer rejected")
		}
	}
	// Struct.Assign on target.PointerInner
	calls := findCalls(info, fi.Decl, modPath+"/builder", "Struct", "Assign")
	if len(calls) == 1 && exprString(calls[0].Args[5]) == "target.PointerInner" {
		r.OK("generator.(*generator).convertTo/field-wise", p.PosStr(calls[0].Pos()), "delegates to Struct.Assign(…, source, target.PointerInner, …): only mapped fields are written")
	} else {
		r.Bad("generator.(*generator).convertTo/field-wise", p.PosStr(fi.Decl.Pos()), "the update is not performed field-wise by Struct.Assign on the target's pointee")
	}
	// emitted operators in convertTo
	bad := ""
	nOps := 0
	for _, c := range p.Chains() {
		if c.Encl != fi {
			continue
		}
		for _, l := range c.Links {
			if l.Name == "Op" {
				nOps++
				if s, _ := constString(info, l.Args[0]); s != "!=" {
					bad = fmt.Sprintf("%s: convertTo emits `%s` itself", p.PosStr(l.Call.Pos()), s)
				}
			}
		}
	}
	if bad != "" {
		r.Bad("generator.(*generator).convertTo/no own assignment", p.PosStr(fi.Decl.Pos()), bad+": a whole-struct assignment would overwrite ignored/unmapped fields and bypass update:ignoreZeroValueField")
	} else {
		r.OK("generator.(*generator).convertTo/no own assignment", p.PosStr(fi.Decl.Pos()), fmt.Sprintf("%d operator(s) emitted, all `!=` (nil guard)", nOps))
	}
	// pointer source → nil guard: the returned stmt on the sourcePointer path is []jen.Code{ If(sourceID.Code.Clone().Op("!=").Nil()).Block(stmt...) }
	// the locals involved are found by what they hold, not by name:
	// flagObj — the bool set to true under a test of source.Pointer; stmtObj — the statements returned by Struct.Assign
	var flagObj, stmtObj types.Object
	setOK := false
	ast.Inspect(fi.Decl, func(n ast.Node) bool {
		as, ok := n.(*ast.AssignStmt)
		if !ok {
			return true
		}
		if len(as.Lhs) == 1 && len(as.Rhs) == 1 && exprString(as.Rhs[0]) == "true" {
			if id0, ok := as.Lhs[0].(*ast.Ident); ok {
				for _, g := range guardsOf(stackTo(fi.Decl, as), as) {
					if g.Cond != nil && !g.Neg && strings.Contains(exprString(g.Cond), "source.Pointer") {
						flagObj = info.ObjectOf(id0)
						setOK = true
					}
				}
			}
		}
		if len(as.Rhs) == 1 && len(as.Lhs) >= 1 {
			if call, ok := ast.Unparen(as.Rhs[0]).(*ast.CallExpr); ok {
				if f, ok := calleeObj(info, call).(*types.Func); ok && isFunc(f, modPath+"/builder", "Struct", "Assign") {
					if id0, ok := as.Lhs[0].(*ast.Ident); ok {
						stmtObj = info.ObjectOf(id0)
					}
				}
			}
		}
		return true
	})
	isObjIdent := func(e ast.Expr, o types.Object) bool {
		id0, ok := ast.Unparen(e).(*ast.Ident)
		return ok && o != nil && info.ObjectOf(id0) == o
	}
	okGuard := false
	ast.Inspect(fi.Decl, func(n ast.Node) bool {
		ifs, ok := n.(*ast.IfStmt)
		if !ok || !isObjIdent(ifs.Cond, flagObj) || len(ifs.Body.List) != 1 {
			return true
		}
		as, ok := ifs.Body.List[0].(*ast.AssignStmt)
		if !ok || !isObjIdent(as.Lhs[0], stmtObj) {
			return true
		}
		cl, ok := ast.Unparen(as.Rhs[0]).(*ast.CompositeLit)
		if !ok || len(cl.Elts) != 1 {
			return true
		}
		if g := p.nilGuard(info, cl.Elts[0]); g != nil && g.Cond == "sourceID.Code" && len(g.BlockArgs) == 1 && isObjIdent(g.BlockArgs[0], stmtObj) {
			okGuard = true
		}
		return true
	})
	if okGuard && setOK {
		r.OK("generator.(*generator).convertTo/nil source", p.PosStr(fi.Decl.Pos()), "pointer source: all statements inside If(source != nil) — a nil source leaves the target untouched")
	} else {
		r.Bad("generator.(*generator).convertTo/nil source", p.PosStr(fi.Decl.Pos()), "for a pointer source the field assignments are not wrapped in If(source != nil): a nil source would panic or modify the target")
	}
	_ = sf
}

func c10R3(p *Prog, r *Report) {
	r.Rule("C10.R3", "category table: builder.shouldCheckAgainstZero returns true only after reading the Ignore*ZeroValueField flag of the matching category (struct ↔ s.Struct, basic ↔ s.Basic, nillable ↔ chan/map/func/signature/interface, slices and pointers only for custom calls or skipCopySameType with identical types), returns false when neither the method nor the position is an update, and refers to the target type only inside types.Identical; the guard it controls is `<source value> != xtype.ZeroValue(<source type>)` around the field's statements", 5)
	fi, sf := needFunc(p, r, "builder.shouldCheckAgainstZero")
	if fi == nil {
		return
	}
	// each return that may be true: facts must include a flag and its category
	pairs := map[string][]string{
		"IgnoreStructZeroValueField":   {"Struct"},
		"IgnoreBasicZeroValueField":    {"Basic"},
		"IgnoreNillableZeroValueField": {"Chan", "Map", "Func", "Signature", "Interface", "List", "Pointer"},
	}
	nTrue := 0
	for _, b := range sf.Blocks {
		for _, in := range b.Instrs {
			ret, ok := in.(*ssa.Return)
			if !ok {
				continue
			}
			facts, may := trueFactsOfReturn(ret)
			if !may {
				continue
			}
			nTrue++
			site := fmt.Sprintf("builder.shouldCheckAgainstZero/return true#%d", nTrue)
			flag := ""
			for f := range pairs {
				for _, x := range facts {
					if loadsField(x, f) {
						flag = f
					}
				}
			}
			if flag == "" {
				r.Bad(site, p.PosStr(ret.Pos()), "can return true without any Ignore*ZeroValueField flag having been read as true: zero-valued source fields would be skipped although the setting is off")
				continue
			}
			// category evidence: a fact (or the returned expression) reads one of the category flags of s
			okCat := false
			var walk func(v ssa.Value, depth int)
			walk = func(v ssa.Value, depth int) {
				if depth > 6 || v == nil {
					return
				}
				for _, cfield := range pairs[flag] {
					if fieldPathOfParam(v, cfield) == 1 {
						okCat = true
					}
				}
				switch x := v.(type) {
				case *ssa.Phi:
					for _, e := range x.Edges {
						walk(e, depth+1)
					}
				case *ssa.BinOp:
					walk(x.X, depth+1)
					walk(x.Y, depth+1)
				case *ssa.UnOp:
					if x.Op == token.NOT {
						walk(x.X, depth+1)
					}
				}
			}
			for _, x := range facts {
				if nf, ok := x.(negFact); ok {
					walk(nf.Value, 0)
				} else {
					walk(x, 0)
				}
			}
			// the nillable arm ORs its categories: look at all conditions in the function that lead here
			if !okCat {
				for d := b; d != nil; d = d.Idom() {
					for _, y := range d.Instrs {
						if ifi, ok := y.(*ssa.If); ok {
							walk(ifi.Cond, 0)
						}
					}
				}
			}
			if okCat {
				r.OK(site, p.PosStr(ret.Pos()), flag+" with its own category")
			} else {
				r.Bad(site, p.PosStr(ret.Pos()), flag+" is honoured for a source that is not of its category")
			}
		}
	}
	if nTrue < 3 {
		r.Bad("builder.shouldCheckAgainstZero/categories", p.PosStr(fi.Decl.Pos()), fmt.Sprintf("only %d path(s) can return true; the three categories struct/basic/nillable are no longer all honoured", nTrue))
	}
	// true only in update contexts: no path reaches a may-be-true return without the method being an
	// update method (ctx.Conf.UpdateTarget) or the position an update position (isUpdate)
	isUpd := sf.Params[3]
	goalTrue := func(in ssa.Instruction) bool {
		ret, ok := in.(*ssa.Return)
		if !ok {
			return false
		}
		if k, isK := ret.Results[0].(*ssa.Const); isK && k.Value != nil && !constantBool(k) {
			return false
		}
		return true
	}
	if g := existsPathAvoidingAtoms(sf, func(v ssa.Value) bool { return v == ssa.Value(isUpd) || loadsField(v, "UpdateTarget") }, goalTrue); g == nil {
		r.OK("builder.shouldCheckAgainstZero/only for updates", p.PosStr(fi.Decl.Pos()), "every path to a possibly-true result has seen UpdateTarget or isUpdate true")
	} else {
		r.Bad("builder.shouldCheckAgainstZero/only for updates", p.PosStr(g.Pos()), "a true result is reachable although neither the method is an update method nor the position an update position: the zero-value guard would appear in ordinary conversions")
	}
	// t only inside types.Identical
	info := fi.Pkg.TypesInfo
	tParam := fi.Obj.Type().(*types.Signature).Params().At(2)
	badT := ""
	walkStack(fi.Decl.Body, func(n ast.Node, stack []ast.Node) bool {
		id, ok := n.(*ast.Ident)
		if !ok || info.ObjectOf(id) != tParam {
			return true
		}
		okUse := false
		for _, s := range stack {
			if call, ok := s.(*ast.CallExpr); ok {
				if f, ok := calleeObj(info, call).(*types.Func); ok && isFunc(f, "go/types", "", "Identical") {
					okUse = true
				}
			}
		}
		if !okUse {
			badT = p.PosStr(id.Pos())
		}
		return true
	})
	if badT == "" {
		r.OK("builder.shouldCheckAgainstZero/target type", p.PosStr(fi.Decl.Pos()), "the target type is used only in types.Identical(source, target)")
	} else {
		r.Bad("builder.shouldCheckAgainstZero/target type", badT, "the decision whether a zero-valued SOURCE field is skipped depends on the target type outside types.Identical: the guard would disappear for some source/target combinations")
	}
	// the guard emission in Struct.Assign
	sa := p.Func("builder.(*Struct).Assign")
	if sa == nil {
		r.Unresolved("builder.(*Struct).Assign")
		return
	}
	sinfo := sa.Pkg.TypesInfo
	n := 0
	ast.Inspect(sa.Decl, func(m ast.Node) bool {
		ifs, ok := m.(*ast.IfStmt)
		if !ok || len(findCalls(sinfo, ifs.Cond, modPath+"/builder", "", "shouldCheckAgainstZero")) != 1 {
			return true
		}
		n++
		sc := findCalls(sinfo, ifs.Cond, modPath+"/builder", "", "shouldCheckAgainstZero")[0]
		srcT := exprString(sc.Args[1])
		site := fmt.Sprintf("builder.(*Struct).Assign/zero guard#%d", n)
		// then-branch: stmt = append(stmt, <If(X != ZeroValue(srcT.T)){ S… }>) — in place or via a helper; else: stmt = append(stmt, S…)
		okThen, okElse := false, false
		var inner string
		ast.Inspect(ifs.Body, func(q ast.Node) bool {
			call, ok := q.(*ast.CallExpr)
			if !ok {
				return true
			}
			if zt, blk, ok := p.zeroGuardOf(sinfo, call); ok && zt == srcT+".T" {
				okThen = true
				inner = strings.TrimSuffix(blk, "...")
			}
			return true
		})
		if els, ok := ifs.Else.(*ast.BlockStmt); ok && len(els.List) == 1 {
			if as, ok := els.List[0].(*ast.AssignStmt); ok {
				if call, ok := ast.Unparen(as.Rhs[0]).(*ast.CallExpr); ok && len(call.Args) == 2 && exprString(call.Args[1]) == inner {
					okElse = true
				}
			}
		}
		if okThen && okElse {
			r.OK(site, p.PosStr(ifs.Pos()), "if <source> != ZeroValue("+srcT+".T) { same statements } else-less emission of the same statements")
		} else {
			r.Bad(site, p.PosStr(ifs.Pos()), "the zero-value guard does not compare the source value with the zero value of the SOURCE type around exactly the field's statements")
		}
		return true
	})
	if n < 2 {
		// the guards may live in private helpers of Struct.Assign: decide on control and data dependence instead
		good, bad := zeroGuardSitesSSA(p)
		if good >= 2 && bad == "" {
			r.OK("builder.(*Struct).Assign/zero guards", p.PosStr(sa.Decl.Pos()), fmt.Sprintf("%d emissions of `!= ZeroValue(S.T)`, each under shouldCheckAgainstZero(ctx, S, …) for that same S, the guarded statements also emitted unguarded on the other path", good))
		} else {
			if bad == "" {
				bad = "expected the guard for mapped fields and for custom function fields"
			}
			r.Bad("builder.(*Struct).Assign/zero guards", p.PosStr(sa.Decl.Pos()), bad)
		}
	}
}

// zeroGuardSitesSSA: in Struct.Assign and its private helpers, every call of xtype.ZeroValue(V.T) is dominated by an
// edge on which shouldCheckAgainstZero(ctx, V, …) — for that same V — is true, and the statement list wrapped by the
// emitted If(…).Block(S...) is also appended or returned as it is (the unguarded emission of the other path).
func zeroGuardSitesSSA(p *Prog) (int, string) {
	good := 0
	bad := ""
	for _, rf := range p.Region("builder.(*Struct).Assign") {
		sf := p.SSAFunc(rf)
		if sf == nil {
			continue
		}
		allInstrs(sf, true, func(in ssa.Instruction) {
			zc, ok := in.(*ssa.Call)
			if !ok || ssaCalleeObj(zc) == nil || !isFunc(ssaCalleeObj(zc), modPath+"/xtype", "", "ZeroValue") || len(zc.Call.Args) != 1 {
				return
			}
			var v ssa.Value
			if ld, ok := zc.Call.Args[0].(*ssa.UnOp); ok && ld.Op == token.MUL {
				if fa, ok := ld.X.(*ssa.FieldAddr); ok && fieldName(fa) == "T" {
					v = fa.X
				}
			}
			pos := p.PosStr(zc.Pos())
			if v == nil {
				bad = pos + ": ZeroValue is not applied to <type>.T"
				return
			}
			guarded := false
			for _, f := range factsAt(zc.Block()) {
				if fc, ok := f.(*ssa.Call); ok && ssaCalleeObj(fc) != nil && isFunc(ssaCalleeObj(fc), modPath+"/builder", "", "shouldCheckAgainstZero") && len(fc.Call.Args) > 1 && fc.Call.Args[1] == v {
					guarded = true
				}
			}
			if !guarded {
				bad = pos + ": the zero value compared with is not that of the source type the guard decision was made for (shouldCheckAgainstZero(ctx, S, …) with the same S does not dominate it)"
				return
			}
			// follow the emission chain to .Block(S...)
			var blockArg ssa.Value
			seen := map[ssa.Value]bool{}
			var follow func(x ssa.Value, d int)
			follow = func(x ssa.Value, d int) {
				if d > 8 || seen[x] || x.Referrers() == nil || blockArg != nil {
					return
				}
				seen[x] = true
				for _, ref := range *x.Referrers() {
					switch y := ref.(type) {
					case *ssa.Call:
						if o := ssaCalleeObj(y); o != nil && objPkgPath(o) == jenPath {
							if o.Name() == "Block" && len(y.Call.Args) > 0 {
								blockArg = y.Call.Args[len(y.Call.Args)-1]
								return
							}
							follow(y, d+1)
						}
					case *ssa.Store:
						// element of a variadic argument list
						if ia, ok := y.Addr.(*ssa.IndexAddr); ok {
							if arr, ok := ia.X.(*ssa.Alloc); ok && arr.Referrers() != nil {
								for _, r2 := range *arr.Referrers() {
									if sl, ok := r2.(*ssa.Slice); ok {
										follow(sl, d+1)
									}
								}
							}
						}
					case *ssa.MakeInterface:
						follow(y, d+1)
					}
				}
			}
			follow(zc, 0)
			if blockArg == nil {
				bad = pos + ": the comparison with the zero value does not guard a block of statements"
				return
			}
			plain := false
			if blockArg.Referrers() != nil {
				for _, ref := range *blockArg.Referrers() {
					switch y := ref.(type) {
					case *ssa.Return:
						plain = true
					case *ssa.Call:
						if b, ok := y.Call.Value.(*ssa.Builtin); ok && b.Name() == "append" && len(y.Call.Args) == 2 && y.Call.Args[1] == blockArg {
							plain = true
						}
					}
				}
			}
			if !plain {
				bad = pos + ": the guarded statements are not emitted unguarded on the path where no zero-value check is wanted"
				return
			}
			good++
		})
	}
	return good, bad
}

func c10R4(p *Prog, r *Report) {
	r.Rule("C10.R4", "comparability: every emitted `!= xtype.ZeroValue(X.T)` is preceded, under the same condition, by an early exit on a comparability helper applied to X (a function that returns an error when X is a struct for which types.Comparable is false)", 2)
	isHelper := func(fn *types.Func) bool {
		fi := p.funcIdx[funcKey(fn)]
		if fi == nil {
			return false
		}
		info := fi.Pkg.TypesInfo
		cmp := findCalls(info, fi.Decl, "go/types", "", "Comparable")
		if len(cmp) == 0 {
			return false
		}
		// types.Comparable(<param>.T)
		if !strings.HasSuffix(exprString(cmp[0].Args[0]), ".T") || !isParamIdent(info, fi, cmp[0].Args[0].(*ast.SelectorExpr).X, 0) {
			return false
		}
		retErr := false
		ast.Inspect(fi.Decl, func(n ast.Node) bool {
			if ret, ok := n.(*ast.ReturnStmt); ok && len(ret.Results) == 1 && callTo(info, ret.Results[0], modPath+"/builder", "", "NewError") != nil {
				retErr = true
			}
			return true
		})
		return retErr
	}
	n := 0
	for _, cs := range p.Calls() {
		if !isFunc(cs.Callee, modPath+"/xtype", "", "ZeroValue") || cs.Encl == nil {
			continue
		}
		if relPkg(cs.Pkg.PkgPath) == "xtype" {
			continue // recursion inside ZeroValue
		}
		n++
		info := cs.Pkg.TypesInfo
		site := fmt.Sprintf("%s/ZeroValue(%s)#%d", cs.Encl.Name(), short(exprString(cs.Call.Args[0]), 30), n)
		x := strings.TrimSuffix(exprString(cs.Call.Args[0]), ".T")
		ok := p.comparabilityEstablished(cs.Encl, cs.Stack, cs.Call, x, isHelper, 2)
		_ = info
		if ok {
			r.OK(site, p.PosStr(cs.Call.Pos()), "non-comparable structs are turned into a diagnostic before the comparison is emitted")
		} else {
			r.Bad(site, p.PosStr(cs.Call.Pos()), "`!= <zero value>` is emitted without establishing that the type is comparable: for a struct containing a slice, map or func the generated code does not compile")
		}
	}
	if n == 0 {
		r.Unresolved("uses of xtype.ZeroValue")
	}
}

// ---------------------------------------------------------------------------
// C11

func runC11(p *Prog, r *Report) {
	// R1
	r.Rule("C11.R1", "*T → U only by opt-in: SourcePointer.Matches is gated by UseZeroValueOnPointerInconsistency ∧ source.Pointer ∧ !target.Pointer (same analysis as C03.R3), SourcePointer.Assign wraps the assignment in If(source != nil) leaving the zero value otherwise, and typeMismatch has the dedicated `source.Pointer && !target.Pointer` hint", 3)
	sub := newReport("C03", r.Tier)
	matchesGates(p, sub, "C03.R3")
	for _, o := range sub.Obls {
		if strings.Contains(o.Site, "SourcePointer") || strings.Contains(o.Site, "TargetPointer") || strings.Contains(o.Site, "(*Pointer)") {
			if o.Verdict == "violation" {
				r.Bad(o.Site, o.Pos, o.How)
			} else {
				r.OK(o.Site, o.Pos, o.How)
			}
		}
	}
	if fi := p.Func("generator.typeMismatch"); fi != nil {
		ok := false
		ast.Inspect(fi.Decl, func(n ast.Node) bool {
			ifs, isIf := n.(*ast.IfStmt)
			if isIf && exprString(ifs.Cond) == "source.Pointer && !target.Pointer" && endsInExit(ifs.Body) {
				ast.Inspect(ifs.Body, func(m ast.Node) bool {
					if bl, isBL := m.(*ast.BasicLit); isBL && strings.Contains(bl.Value, "useZeroValueOnPointerInconsistency") {
						ok = true
					}
					return true
				})
			}
			return true
		})
		if ok {
			r.OK("generator.typeMismatch/pointer hint", p.PosStr(fi.Decl.Pos()), "pointer → non-pointer mismatch names useZeroValueOnPointerInconsistency")
		} else {
			r.Bad("generator.typeMismatch/pointer hint", p.PosStr(fi.Decl.Pos()), "the dedicated *T → U mismatch diagnostic is gone")
		}
	} else {
		r.Unresolved("generator.typeMismatch")
	}
	// SourcePointer.Assign guarded (C02.R2 covers Deref); here: reuse
	sub2 := newReport("C02", r.Tier)
	c02R2(p, sub2)
	for _, o := range sub2.Obls {
		if strings.Contains(o.Site, "Pointer") {
			if o.Verdict == "violation" {
				r.Bad(o.Site, o.Pos, o.How)
			} else {
				r.OK(o.Site, o.Pos, o.How)
			}
		}
	}

	c11R2(p, r)
	c11R3(p, r)
	c11R4(p, r)
	c11R5(p, r)
	updateFlagRule(p, r, "C11.R7")
	constructorUnguardedRule(p, r, "C11.R8")
	updateNoDelegateRule(p, r, "C11.R9")
	constructorAlwaysUsedRule(p, r, "C11.R10")
	updateReachesGuardRule(p, r, "C11.R12")
	roleOrderRule(p, r, "C11.R13")
	updatePositionSufficesRule(p, r, "C11.R14")
	mustAssignRule(p, r, "C11.R6")
}

// precedencePairs: table B5 — builders whose Matches overlap and whose order matters.
var precedencePairs = [][3]string{
	{"UseUnderlyingTypeMethods", "SkipCopy", "underlying-type extend functions are looked up before identical types are short-circuited"},
	{"SkipCopy", "Enum", "identical enum types are copied, not switched over, under skipCopySameType"},
	{"SkipCopy", "Pointer", "identical pointer types short-circuit"},
	{"SkipCopy", "Basic", "identical types short-circuit"},
	{"SkipCopy", "Struct", "identical types short-circuit"},
	{"SkipCopy", "List", "identical types short-circuit"},
	{"SkipCopy", "Map", "identical types short-circuit"},
	{"Enum", "Basic", "enum types are named basics: the enum switch must win over the plain conversion"},
	{"BasicTargetPointerRule", "TargetPointer", "a basic value is copied into a fresh local before its address is taken"},
	{"Pointer", "SourcePointer", "both-pointer case before the pointer/non-pointer cases"},
	{"Pointer", "TargetPointer", "both-pointer case before the pointer/non-pointer cases"},
	{"SourcePointer", "Basic", "a pointer source is unwrapped before the value rules"},
	{"TargetPointer", "Basic", "a pointer target is handled before the value rules"},
}

func c11R2(p *Prog, r *Report) { precedenceRule(p, r, "C11.R2") }

// precedenceRule checks table B5, or only the pairs whose first builder is named.
func precedenceRule(p *Prog, r *Report, id string, first ...string) {
	floor := 10
	if len(first) > 0 {
		floor = 1
	}
	r.Rule(id, "rule precedence: in generator.BuildSteps every pair of known builders whose Matches overlap keeps its documented relative order (table B5); unknown additional builders are ignored"+onlyNote(first), floor)
	gp := p.Pkg("generator")
	order := map[string]int{}
	for _, f := range gp.Syntax {
		ast.Inspect(f, func(n ast.Node) bool {
			vs, ok := n.(*ast.ValueSpec)
			if !ok || len(vs.Names) != 1 || vs.Names[0].Name != "BuildSteps" || len(vs.Values) != 1 {
				return true
			}
			cl, ok := vs.Values[0].(*ast.CompositeLit)
			if !ok {
				return true
			}
			for i, e := range cl.Elts {
				if nt := namedOf(gp.TypesInfo.TypeOf(e)); nt != nil {
					order[nt.Obj().Name()] = i + 1
				}
			}
			return true
		})
	}
	if len(order) == 0 {
		r.Unresolved("generator.BuildSteps")
		return
	}
	for _, pr := range precedencePairs {
		if len(first) > 0 && !has(first, pr[0]) {
			continue
		}
		site := fmt.Sprintf("generator.BuildSteps/%s < %s", pr[0], pr[1])
		a, b := order[pr[0]], order[pr[1]]
		switch {
		case a == 0 || b == 0:
			r.Bad(site, "", fmt.Sprintf("builder %s or %s is no longer in the rule table", pr[0], pr[1]))
		case a < b:
			r.OK(site, "", pr[2])
		default:
			r.Bad(site, "", fmt.Sprintf("%s now comes after %s: %s", pr[0], pr[1], pr[2]))
		}
	}
}

func c11R3(p *Prog, r *Report) { targetPointerNonNilRule(p, r, "C11.R3") }

func targetPointerNonNilRule(p *Prog, r *Report, id string) {
	r.Rule(id, "T → *U is never nil: the *JenID returned on the success paths of TargetPointer.Build and BasicTargetPointerRule.Build is `&` of a fresh local (JenID.Pointer on a converted value, or jen.Op(\"&\").Id(<allocator name>)) or the constructor's variable; JenID.Pointer always yields an address-of expression", 3)
	if fi := p.Func("xtype.(*JenID).Pointer"); fi != nil {
		info := fi.Pkg.TypesInfo
		okAll, n := true, 0
		ast.Inspect(fi.Decl, func(m ast.Node) bool {
			ret, ok := m.(*ast.ReturnStmt)
			if !ok || len(ret.Results) != 2 {
				return true
			}
			n++
			c := callTo(info, ret.Results[1], modPath+"/xtype", "", "OtherID")
			if c == nil {
				okAll = false
				return true
			}
			ch, ok := chainOf(info, c.Args[0])
			if !ok || ch.Root != nil || ch.Links[0].Name != "Op" {
				okAll = false
				return true
			}
			if s, _ := constString(info, ch.Links[0].Args[0]); s != "&" {
				okAll = false
			}
			return true
		})
		if okAll && n == 2 {
			r.OK("xtype.(*JenID).Pointer", p.PosStr(fi.Decl.Pos()), "both paths return `&x` (of the variable itself or of a fresh copy)")
		} else {
			r.Bad("xtype.(*JenID).Pointer", p.PosStr(fi.Decl.Pos()), "JenID.Pointer can return something else than an address-of expression")
		}
	} else {
		r.Unresolved("xtype.(*JenID).Pointer")
	}
	for _, k := range []string{"builder.(*TargetPointer).Build", "builder.(*BasicTargetPointerRule).Build"} {
		fi := p.Func(k)
		if fi == nil {
			r.Unresolved(k)
			continue
		}
		info := fi.Pkg.TypesInfo
		n, bad := 0, ""
		ast.Inspect(fi.Decl, func(m ast.Node) bool {
			ret, ok := m.(*ast.ReturnStmt)
			if !ok || len(ret.Results) != 3 || exprString(ret.Results[1]) == "nil" {
				return true
			}
			n++
			e := ast.Unparen(ret.Results[1])
			okRes := false
			// (a) identifier defined by X.Pointer(…)
			if id, isID := e.(*ast.Ident); isID {
				var def ast.Expr
				ast.Inspect(fi.Decl, func(q ast.Node) bool {
					as, isAs := q.(*ast.AssignStmt)
					if isAs && len(as.Rhs) == 1 {
						for _, l := range as.Lhs {
							if li, ok := ast.Unparen(l).(*ast.Ident); ok && info.ObjectOf(li) == info.ObjectOf(id) {
								def = as.Rhs[0]
							}
						}
					}
					return true
				})
				if call, isC := ast.Unparen(def).(*ast.CallExpr); isC {
					if f, isF := calleeObj(info, call).(*types.Func); isF && f.Name() == "Pointer" && recvTypeName(f) == "JenID" {
						okRes = true
					}
				}
			}
			// (b) xtype.OtherID(jen.Op("&").Id(name)) / via local newID
			if c := callTo(info, e, modPath+"/xtype", "", "OtherID"); c != nil {
				arg := c.Args[0]
				if id, isID := ast.Unparen(arg).(*ast.Ident); isID {
					if d := localDef(info, fi.Decl, info.ObjectOf(id)); d != nil {
						arg = d
					}
				}
				if ch, ok := chainOf(info, arg); ok && ch.Root == nil && ch.Links[0].Name == "Op" {
					if s, _ := constString(info, ch.Links[0].Args[0]); s == "&" && ch.Has("Id") != nil {
						if okN, _ := nameOriginOK(p, fi, ch.Has("Id").Args[0], map[string]bool{}, 0); okN {
							okRes = true
						}
					}
				}
			}
			// (c) xtype.VariableID(valueVar) from buildTargetVar (constructor / fresh var of pointer type, assigned through *valueVar)
			if c := callTo(info, e, modPath+"/xtype", "", "VariableID"); c != nil {
				if id, isID := ast.Unparen(c.Args[0]).(*ast.Ident); isID {
					var def ast.Expr
					ast.Inspect(fi.Decl, func(q ast.Node) bool {
						as, isAs := q.(*ast.AssignStmt)
						if isAs && len(as.Rhs) == 1 {
							for _, l := range as.Lhs {
								if li, ok := ast.Unparen(l).(*ast.Ident); ok && info.ObjectOf(li) == info.ObjectOf(id) {
									def = as.Rhs[0]
								}
							}
						}
						return true
					})
					if callTo(info, def, modPath+"/builder", "", "buildTargetVar") != nil {
						okRes = true
					}
				}
			}
			if !okRes {
				bad = p.PosStr(ret.Pos()) + ": returns " + short(exprString(e), 40)
			}
			return true
		})
		if bad == "" && n > 0 {
			r.OK(k+"/result", p.PosStr(fi.Decl.Pos()), fmt.Sprintf("%d success return(s): address of a fresh local / constructor variable", n))
		} else {
			r.Bad(k+"/result", p.PosStr(fi.Decl.Pos()), bad+", which is not the address of a fresh local: the target pointer could be nil or alias the source")
		}
	}
}

func c11R4(p *Prog, r *Report) {
	r.Rule("C11.R4", "constructor typestate in builder.buildTargetVar: the constructor is called only when ctx.UseConstructor holds and both the method's source and target types are identical to the current ones; ctx.UseConstructor is set to false before gen.CallMethod; the plain path declares a fresh zero-valued variable", 3)
	fi, sf := needFunc(p, r, "builder.buildTargetVar")
	if fi == nil {
		return
	}
	calls := callsIn(sf, false, func(o *types.Func) bool { return o.Name() == "CallMethod" })
	callFn := sf
	if len(calls) == 0 {
		// the constructor path may live in a private helper of buildTargetVar
		for _, rf := range p.Region("builder.buildTargetVar") {
			if hf := p.SSAFunc(rf); hf != nil && hf != sf {
				if cs := callsIn(hf, false, func(o *types.Func) bool { return o.Name() == "CallMethod" }); len(cs) > 0 {
					calls = append(calls, cs...)
					callFn = hf
				}
			}
		}
	}
	if len(calls) != 1 {
		r.Bad("builder.buildTargetVar/constructor call", p.PosStr(fi.Decl.Pos()), fmt.Sprintf("expected exactly one gen.CallMethod (the constructor), found %d", len(calls)))
		return
	}
	call := calls[0].(ssa.Instruction)
	// the constructor argument
	if !loadsField(calls[0].Common().Args[1], "Constructor") {
		r.Bad("builder.buildTargetVar/constructor call", p.PosStr(call.Pos()), "CallMethod is not invoked with ctx.Conf.Constructor")
	} else {
		r.OK("builder.buildTargetVar/constructor call", p.PosStr(call.Pos()), "gen.CallMethod(ctx, ctx.Conf.Constructor, …)")
	}
	// guard: the constructor call is reached only when UseConstructor ∧ Identical(method source, source) ∧
	// Identical(method target, target) — decided by evaluation: with any one of the three fixed to false no
	// return is reached after the call (private predicate helpers are followed)
	{
		identKind := func(v ssa.Value) string {
			c, ok := v.(*ssa.Call)
			if !ok || ssaCalleeObj(c) == nil || !isFunc(ssaCalleeObj(c), "go/types", "", "Identical") || len(c.Call.Args) != 2 {
				return ""
			}
			kind := ""
			for _, a := range c.Call.Args {
				var walk func(x ssa.Value, d int)
				walk = func(x ssa.Value, d int) {
					if d > 6 || x == nil {
						return
					}
					switch y := x.(type) {
					case *ssa.UnOp:
						walk(y.X, d+1)
					case *ssa.MakeInterface:
						walk(y.X, d+1)
					case *ssa.FieldAddr:
						if n := fieldName(y); n == "Conf" {
							return
						} else if (n == "Source" || n == "Target") && kind == "" {
							// Conf.Source / Conf.Target: only when reached through the method configuration
							if inner, ok := y.X.(*ssa.UnOp); ok {
								if fa2, ok := inner.X.(*ssa.FieldAddr); ok && fieldName(fa2) == "Conf" {
									kind = n
								}
							}
							if fa2, ok := y.X.(*ssa.FieldAddr); ok && (fieldName(fa2) == "Conf" || fieldName(fa2) == "Method" || fieldName(fa2) == "Definition" || fieldName(fa2) == "Parameters") {
								kind = n
							}
						}
						walk(y.X, d+1)
					case *ssa.Field:
						walk(y.X, d+1)
					}
				}
				walk(a, 0)
			}
			return kind
		}
		run := func(which string) (*ssa.Return, int) {
			nAtoms := 0
			sc := &absScenario{
				assume: func(v ssa.Value, _ func(ssa.Value) absVal) (absVal, bool) {
					if loadsFieldNamed(v, "UseConstructor") {
						nAtoms++
						return aBool(which != "UseConstructor"), true
					}
					if k := identKind(v); k != "" {
						nAtoms++
						return aBool(which != k), true
					}
					return aUnknown, false
				},
				marks: func(in ssa.Instruction) (string, bool) {
					return "ctor", in == call
				},
			}
			got := absReachState(sf, sc, func(ret *ssa.Return, _ func(ssa.Value) absVal, st map[string]absVal) bool {
				_, passed := st["@ctor"]
				return passed
			})
			return got, nAtoms
		}
		bad := ""
		for _, which := range []string{"UseConstructor", "Source", "Target"} {
			if got, _ := run(which); got != nil {
				bad = "the constructor can be called although " + map[string]string{"UseConstructor": "ctx.UseConstructor is false", "Source": "the method's source type is not identical to the current source", "Target": "the method's target type is not identical to the current target"}[which] + ": FUNC would run for nested values or more than once"
			}
		}
		if got, n := run("none"); bad == "" && (got == nil || n < 3) {
			bad = "the guard of the constructor call (UseConstructor and two types.Identical tests on the method's source/target) is not recognisable"
		}
		if bad == "" {
			r.OK("builder.buildTargetVar/guard", p.PosStr(call.Pos()), "UseConstructor ∧ types.Identical(method source, source) ∧ types.Identical(method target, target)")
		} else {
			r.Bad("builder.buildTargetVar/guard", p.PosStr(call.Pos()), bad)
		}
	}
	// UseConstructor = false before the call
	var clr ssa.Instruction
	allInstrs(callFn, false, func(in ssa.Instruction) {
		if st, ok := in.(*ssa.Store); ok {
			if fa, ok := st.Addr.(*ssa.FieldAddr); ok && fieldName(fa) == "UseConstructor" {
				if k, ok := st.Val.(*ssa.Const); ok && !constantBool(k) {
					clr = in
				}
			}
		}
	})
	b := call.Block()
	if clr != nil && (clr.Block().Dominates(b) && (clr.Block() != b || instrIndex(clr) < instrIndex(call))) {
		r.OK("builder.buildTargetVar/used once", p.PosStr(clr.Pos()), "ctx.UseConstructor = false dominates the constructor call")
	} else {
		r.Bad("builder.buildTargetVar/used once", p.PosStr(fi.Decl.Pos()), "ctx.UseConstructor is not cleared before the constructor is called: nested conversions of the same type pair would call FUNC again")
	}
	// buildMethod sets UseConstructor from Constructor != nil
	if bm := p.Func("generator.(*generator).buildMethod"); bm != nil {
		info := bm.Pkg.TypesInfo
		ok := false
		p.inspectRegion("generator.(*generator).buildMethod", func(_ *FuncInfo, n ast.Node) bool {
			cl, isCl := n.(*ast.CompositeLit)
			if isCl && isNamed(info.TypeOf(cl), modPath+"/builder", "MethodContext") {
				if v := compositeField(cl, "UseConstructor"); v != nil && strings.HasSuffix(exprString(v), ".Constructor != nil") {
					ok = true
				}
			}
			return true
		})
		if ok {
			r.OK("generator.(*generator).buildMethod/UseConstructor", p.PosStr(bm.Decl.Pos()), "UseConstructor = (method has a default FUNC)")
		} else {
			r.Bad("generator.(*generator).buildMethod/UseConstructor", p.PosStr(bm.Decl.Pos()), "UseConstructor is not initialised from `Constructor != nil`")
		}
	}
}

func c11R5(p *Prog, r *Report) {
	r.Rule("C11.R5", "default:update: in Pointer.Build and SourcePointer.Build the branch `ctx.UseConstructor && ctx.Conf.DefaultUpdate` builds the target from the constructor (buildTargetVar), applies the source on top of it with an update assignment (IsUpdate) and places those statements inside If(source != nil); TargetPointer.Build with a constructor assigns through *valueVar as an update", 3)
	for _, k := range []string{"builder.(*Pointer).Build", "builder.(*SourcePointer).Build"} {
		fi := p.Func(k)
		if fi == nil {
			r.Unresolved(k)
			continue
		}
		info := fi.Pkg.TypesInfo
		var br *ast.IfStmt
		ast.Inspect(fi.Decl, func(n ast.Node) bool {
			ifs, ok := n.(*ast.IfStmt)
			if ok && br == nil && strings.Contains(exprString(ifs.Cond), "UseConstructor") && strings.Contains(exprString(ifs.Cond), "DefaultUpdate") {
				br = ifs
			}
			return true
		})
		site := k + "/default:update branch"
		if br == nil {
			// the branch may be spelled as an early return for the other case: evaluate
			if defaultUpdateEval(p, fi) {
				r.OK(site, p.PosStr(fi.Decl.Pos()), "evaluated with UseConstructor and DefaultUpdate true: every successful return passed buildTargetVar, an IsUpdate() assignment and an emitted If(…)")
			} else {
				r.Bad(site, p.PosStr(fi.Decl.Pos()), "no branch for UseConstructor && DefaultUpdate: default:update would replace FUNC's result instead of updating it")
			}
			continue
		}
		// the branch body, plus the bodies of private helpers it delegates to
		scopes := []ast.Node{br.Body}
		ast.Inspect(br.Body, func(n ast.Node) bool {
			if call, ok := n.(*ast.CallExpr); ok {
				if f, ok := calleeObj(info, call).(*types.Func); ok && !f.Exported() && objPkgPath(f) == modPath+"/builder" && f.Name() != "buildTargetVar" {
					if h := p.Func(funcKey(f)); h != nil && h.Decl.Body != nil {
						scopes = append(scopes, h.Decl.Body)
					}
				}
			}
			return true
		})
		nTV := 0
		hasUpd := false
		guarded := false
		for _, sc := range scopes {
			nTV += len(findCalls(info, sc, modPath+"/builder", "", "buildTargetVar"))
			ast.Inspect(sc, func(n ast.Node) bool {
				call, ok := n.(*ast.CallExpr)
				if !ok {
					return true
				}
				if f, ok := calleeObj(info, call).(*types.Func); ok && f.Name() == "IsUpdate" {
					hasUpd = true
				}
				// buildStmt = append(buildStmt, <If(sourceID != nil){ stmt… }>) — in place or through a helper
				if cond, blk, ok := p.nilGuardOf(info, call); ok && cond == "sourceID.Code" && strings.HasPrefix(blk, "stmt") {
					guarded = true
				}
				return true
			})
		}
		hasTV := nTV == 1
		if !(hasTV && hasUpd && guarded) && defaultUpdateEval(p, fi) {
			hasTV, hasUpd, guarded = true, true, true
		}
		if hasTV && hasUpd && guarded {
			r.OK(site, p.PosStr(br.Pos()), "FUNC's result, then If(source != nil){ update with the source }")
		} else {
			r.Bad(site, p.PosStr(br.Pos()), fmt.Sprintf("default:update branch incomplete (constructor: %v, update assignment: %v, nil guard: %v): a nil source would not return FUNC's result unchanged", hasTV, hasUpd, guarded))
		}
	}
	if fi := p.Func("builder.(*TargetPointer).Build"); fi != nil {
		ok := false
		for _, f := range p.Region("builder.(*TargetPointer).Build") {
			sf := p.SSAFunc(f)
			if sf == nil {
				continue
			}
			for _, c := range callsIn(sf, false, isObj(modPath+"/builder", "", "buildTargetVar")) {
				b := c.(ssa.Instruction).Block()
				under := false
				for _, fact := range factsAt(b) {
					if loadsField(fact, "UseConstructor") {
						under = true
					}
				}
				if !under && f != fi {
					// the constructor path was moved into a private helper: the test sits at its call sites
					sites := p.SSACallSites(sf)
					under = len(sites) > 0
					for _, cs := range sites {
						at := false
						for _, fact := range factsAt(cs.Block()) {
							if loadsField(fact, "UseConstructor") {
								at = true
							}
						}
						if !at {
							under = false
						}
					}
				}
				upd := false
				for _, u := range callsIn(sf, false, isObj(modPath+"/builder", "AssignTo", "IsUpdate")) {
					if b.Dominates(u.(ssa.Instruction).Block()) {
						upd = true
					}
				}
				if under && upd {
					ok = true
				}
			}
		}
		if ok {
			r.OK("builder.(*TargetPointer).Build/constructor", p.PosStr(fi.Decl.Pos()), "with a default FUNC the source is applied on top of FUNC's pointer result")
		} else {
			r.Bad("builder.(*TargetPointer).Build/constructor", p.PosStr(fi.Decl.Pos()), "T → *U with default FUNC no longer starts from FUNC's result")
		}
	} else {
		r.Unresolved("builder.(*TargetPointer).Build")
	}
}

func nodeText(n ast.Node) string {
	var sb strings.Builder
	ast.Inspect(n, func(m ast.Node) bool {
		if id, ok := m.(*ast.Ident); ok {
			sb.WriteString(id.Name)
			sb.WriteString(" ")
		}
		return true
	})
	return sb.String()
}

// comparabilityEstablished: before node n (in an enclosing block) there is
// `if err := <comparability helper>(x); err != nil { return … }`; if x is a parameter of an
// unexported helper, the same must hold for the corresponding argument at every call site.
func (p *Prog) comparabilityEstablished(fi *FuncInfo, stack []ast.Node, n ast.Node, x string, isHelper func(*types.Func) bool, depth int) bool {
	info := fi.Pkg.TypesInfo
	for i := len(stack) - 1; i >= 0; i-- {
		var list []ast.Stmt
		switch b := stack[i].(type) {
		case *ast.BlockStmt:
			list = b.List
		case *ast.CaseClause:
			list = b.Body
		default:
			continue
		}
		for _, s := range list {
			if s.End() > n.Pos() {
				break
			}
			ifs, isIf := s.(*ast.IfStmt)
			if !isIf || ifs.Init == nil || !endsInExit(ifs.Body) {
				continue
			}
			as, isAs := ifs.Init.(*ast.AssignStmt)
			if !isAs || len(as.Rhs) != 1 {
				continue
			}
			call, isC := ast.Unparen(as.Rhs[0]).(*ast.CallExpr)
			if !isC || len(call.Args) != 1 || exprString(call.Args[0]) != x {
				continue
			}
			if f, isF := calleeObj(info, call).(*types.Func); isF && isHelper(f) {
				return true
			}
		}
	}
	if depth <= 0 || fi.Obj.Exported() {
		return false
	}
	// x is a parameter?
	sig := fi.Obj.Type().(*types.Signature)
	idx := -1
	for i := 0; i < sig.Params().Len(); i++ {
		if paramCanonName(fi, i) == x {
			idx = i
		}
	}
	if idx < 0 {
		return false
	}
	nc := 0
	for _, cs := range p.Calls() {
		f, ok := cs.Callee.(*types.Func)
		if !ok || f.Origin() != fi.Obj.Origin() {
			continue
		}
		nc++
		if cs.Encl == nil || idx >= len(cs.Call.Args) {
			return false
		}
		if !p.comparabilityEstablished(cs.Encl, cs.Stack, cs.Call, exprString(cs.Call.Args[idx]), isHelper, depth-1) {
			return false
		}
	}
	return nc > 0
}

// zeroGuardOf recognises jen.If(<X>.Op("!=").Add(xtype.ZeroValue(<T>))).Block(<B>…) in place or
// returned by an own helper; it returns the text of T and of B (helper parameters substituted).
func (p *Prog) zeroGuardOf(info *types.Info, e ast.Expr) (zeroType, block string, ok bool) {
	try := func(info *types.Info, e ast.Expr, subst map[types.Object]ast.Expr) (string, string, bool) {
		ch, ok := chainOf(info, e)
		if !ok || ch.Root != nil || len(ch.Links) != 2 || ch.Links[0].Name != "If" || ch.Links[1].Name != "Block" || len(ch.Links[0].Args) != 1 {
			return "", "", false
		}
		cond, ok := chainOf(info, ch.Links[0].Args[0])
		if !ok || cond.Has("Op") == nil || cond.Has("Add") == nil {
			return "", "", false
		}
		if s, _ := constString(info, cond.Has("Op").Args[0]); s != "!=" {
			return "", "", false
		}
		zv := callTo(info, cond.Has("Add").Args[0], modPath+"/xtype", "", "ZeroValue")
		if zv == nil {
			return "", "", false
		}
		var parts []string
		for _, a := range ch.Links[1].Args {
			parts = append(parts, substString(info, a, subst))
		}
		return substString(info, zv.Args[0], subst), strings.Join(parts, ", "), true
	}
	if z, b, ok := try(info, e, nil); ok {
		return z, b, true
	}
	if ret, h, subst := p.helperReturn(info, e); ret != nil {
		return try(h.Pkg.TypesInfo, ret, subst)
	}
	return "", "", false
}

// defaultUpdateEval: with ctx.UseConstructor and ctx.Conf.DefaultUpdate true, every successful return of the builder
// has called buildTargetVar (FUNC's result), made an update assignment (IsUpdate) and emitted an If(…) — the nil guard
// around the update — on its path.
func defaultUpdateEval(p *Prog, fi *FuncInfo) bool {
	sf := p.SSAFunc(fi)
	if sf == nil {
		return false
	}
	nFlag := 0
	sc := &absScenario{
		assume: func(v ssa.Value, _ func(ssa.Value) absVal) (absVal, bool) {
			if loadsFieldNamed(v, "UseConstructor") || loadsFieldNamed(v, "DefaultUpdate") {
				nFlag++
				return aBool(true), true
			}
			return aUnknown, false
		},
		marks: func(in ssa.Instruction) (string, bool) {
			c, ok := in.(ssa.CallInstruction)
			if !ok || ssaCalleeObj(c) == nil {
				return "", false
			}
			o := ssaCalleeObj(c)
			switch {
			case isFunc(o, modPath+"/builder", "", "buildTargetVar"):
				return "ctor", true
			case o.Name() == "IsUpdate" && objPkgPath(o) == modPath+"/builder":
				return "upd", true
			case objPkgPath(o) == jenPath && o.Name() == "If":
				return "if", true
			}
			return "", false
		},
		noInline: func(callee *ssa.Function) bool { return callee.Name() == "buildTargetVar" },
	}
	got := absReachState(sf, sc, func(ret *ssa.Return, eval func(ssa.Value) absVal, st map[string]absVal) bool {
		if !successGoal(ret, eval) {
			return false
		}
		for _, m := range []string{"@ctor", "@upd", "@if"} {
			if v, ok := st[m]; !ok || !v.b {
				return true
			}
		}
		return false
	})
	return got == nil && nFlag >= 2
}
