package main

import (
	"fmt"
	"go/ast"
	"go/types"
	"sort"
	"strings"
)

func init() {
	register(&Check{
		ID: "C02", Level: "other",
		Explanation: "Decides the panic-freedom, termination-shape and nil-ness clauses for the code goverter itself emits, as properties of the closed set of emission sites: (R1) the emitted vocabulary (operators and " +
			"constructs) is the audited one — only dereference, indexed assignment and panic can fail at run time; (R2) every statement and value produced from a dereferenced source (JenID.Deref) is placed inside " +
			"If(<same source> != nil), and mapField guards every pointer hop of a path and hands out a temporary when a hop was guarded; (R3) containers are allocated with make(T, len(source)) under source != nil before " +
			"they are indexed (this is also nil → nil / empty → empty); (R4) every emitted loop is `i := 0; i < len(source); i++` over the indexed source with one index variable, or a range over the source; " +
			"(R5) panic is emitted only for the enum @panic action; (R6) Build and Assign of every builder are derived from one another; (R7) map entries are always assigned (MustAssign), so nil values keep their key. " +
			"Does not decide value equality of the converted parts (a run-time relation over all values).",
		NotDecided: []string{"equality of every converted field/element/entry with the structural mapping", "slice order, map entry count, unchanged basic values (run-time relations over all values of all generated programs)"},
		Run:        runC02,
		Controls:   map[string]string{"builder/zz_gvlint_control_c02.go": controlBuilder},

		ControlRules: []string{"C02.R1", "C02.R2", "C02.R4", "C02.R5", "C02.R6"},
	})
}

var allowedOps = map[string]string{
	"=": "assignment", ":=": "definition", "!=": "comparison with nil / zero value", "&&": "conjunction of nil tests", "<": "loop bound", "++": "loop increment",
	"&": "address of a local", "*": "dereference / pointer type", "<-": "channel type (xtype.toChan only)",
}

var allowedConstructs = map[string]bool{
	"Add": true, "Block": true, "Call": true, "Case": true, "Chan": true, "Clone": true, "Comment": true, "Default": true, "Dot": true, "For": true, "Func": true,
	"HeaderComment": true, "Id": true, "If": true, "Index": true, "Interface": true, "Len": true, "List": true, "Lit": true, "Make": true, "Map": true, "NewFilePath": true,
	"NewFilePathName": true, "Nil": true, "Op": true, "Panic": true, "Params": true, "Parens": true, "Qual": true, "Range": true, "Render": true, "Return": true, "Struct": true,
	"Switch": true, "Type": true, "Var": true,
	// basic type names
	"Bool": true, "Complex128": true, "Complex64": true, "Float32": true, "Float64": true, "Int": true, "Int8": true, "Int16": true, "Int32": true, "Int64": true, "String": true,
	"Uint": true, "Uint8": true, "Uint16": true, "Uint32": true, "Uint64": true, "Uintptr": true, "Byte": true, "Rune": true, "Error": true,
}

func runC02(p *Prog, r *Report) {
	chains := p.Chains()
	r.Analysed["emission_chains"] = len(chains)
	vocabularyRule(p, r, "C02.R1", chains)

	c02R2(p, r)
	containersFromMake(p, r, "C02.R3", true)
	c02R4(p, r, chains)

	// ---- R5
	r.Rule("C02.R5", "emitted panic ownership: jen.Panic is emitted only in builder.caseAction under the case of config.EnumActionPanic", 1)
	for _, c := range chains {
		for _, l := range c.Links {
			if l.Name != "Panic" {
				continue
			}
			site := p.anchorFor(c.Encl, []string{"builder.caseAction"}) + "/jen.Panic"
			okArm := false
			if p.inRegion("builder.caseAction", c.Encl) {
				for _, g := range guardsOf(c.Stack, c.Outer) {
					if g.Cond != nil && g.Tag != nil && strings.HasSuffix(exprString(g.Cond), "EnumActionPanic") {
						okArm = true
					}
				}
			}
			if okArm {
				r.OK(site, p.PosStr(l.Call.Pos()), "enum @panic action (documented, opt-in)")
			} else {
				r.Bad(site, p.PosStr(l.Call.Pos()), "generated code would contain a panic outside the enum @panic action")
			}
		}
	}

	c02R6(p, r)
	mustAssignRule(p, r, "C02.R7")
	matchesGates(p, r, "C02.R8", "builder.(*List).Matches", "builder.(*Basic).Matches")
	fieldPathRule(p, r, "C02.R9")
	precedenceRule(p, r, "C02.R10", "SkipCopy")
	derefOwnershipRule(p, r, "C02.R11", chains)
	allocatorContractRule(p, r, "C02.R12")
	targetPointerNonNilRule(p, r, "C02.R13")
	componentRecursionRule(p, r, "C02.R14")
}

// vocabularyRule (C02.R1, shared as C01.R8): the closed vocabulary of emitted operators and constructs.
func vocabularyRule(p *Prog, r *Report, id string, chains []*Chain) {
	r.Rule(id, "closed emission vocabulary: every operator literal passed to jen Op() is one of = := != && < ++ & * (and <- in toChan), every jennifer construct used is in the audited list; anything else (arithmetic, ==, +=, slicing, type assertions, go/defer, append …) is not covered by the panic-freedom argument and is reported", 40)
	nOps := 0
	for _, c := range chains {
		info := c.Pkg.TypesInfo
		for _, l := range c.Links {
			if l.Name == "Op" {
				nOps++
				site := c.Encl.Name() + "/Op"
				s, ok := constString(info, l.Args[0])
				if !ok {
					r.Bad(site+"(non-constant)", p.PosStr(l.Call.Pos()), "operator is not a constant: the emitted operation is unknown")
					continue
				}
				if _, ok := allowedOps[s]; !ok {
					r.Bad(fmt.Sprintf("%s(%q)", site, s), p.PosStr(l.Call.Pos()), fmt.Sprintf("operator %q is outside the audited vocabulary of generated code", s))
					continue
				}
				if s == "<-" && c.Encl.Name() != "xtype.toChan" {
					r.Bad(fmt.Sprintf("%s(%q)", site, s), p.PosStr(l.Call.Pos()), "channel operation emitted outside type rendering")
					continue
				}
				r.OK(fmt.Sprintf("%s(%q)", site, s), p.PosStr(l.Call.Pos()), allowedOps[s])
				continue
			}
			if !allowedConstructs[l.Name] {
				r.Bad(c.Encl.Name()+"/jen."+l.Name, p.PosStr(l.Call.Pos()), "construct jen."+l.Name+" is outside the audited vocabulary of generated code (not covered by the panic-freedom / termination argument)")
			}
		}
	}
	r.Analysed["emitted_operators"] = nOps
}

// c02R2: guarded dereference.
func c02R2(p *Prog, r *Report) {
	r.Rule("C02.R2", "guarded dereference: in every function that calls JenID.Deref, the statements and values obtained from converting the dereferenced source reach a return only inside jen.If(<the same sourceID>.Code…Op(\"!=\").Nil()).Block(…); mapField adds `x != nil` to its condition at every pointer hop before selecting a member and wraps the access in If(condition)", 4)
	for _, fi := range p.Funcs {
		info := fi.Pkg.TypesInfo
		rel := relPkg(fi.Pkg.PkgPath)
		if rel != "builder" && rel != "generator" {
			continue
		}
		// calls to Deref
		var derefs []*ast.CallExpr
		ast.Inspect(fi.Decl, func(n ast.Node) bool {
			if call, ok := n.(*ast.CallExpr); ok {
				if fn, ok := calleeObj(info, call).(*types.Func); ok && fn.Name() == "Deref" && recvTypeName(fn) == "JenID" {
					derefs = append(derefs, call)
				}
			}
			return true
		})
		if len(derefs) == 0 {
			continue
		}
		// tainted: variables assigned from an expression containing a Deref call (the results of the
		// nested conversion of *source) and whatever is computed from them
		tainted := map[types.Object]bool{}
		containsDeref := func(e ast.Node) bool {
			f := false
			ast.Inspect(e, func(n ast.Node) bool {
				for _, d := range derefs {
					if n == ast.Node(d) {
						f = true
					}
				}
				return !f
			})
			return f
		}
		var guardOK func(e ast.Expr) bool
		// sanitiser: jen.If(COND).Block(...) with COND = <recv of Deref>.Code…Op("!=").Nil()
		derefRecv := map[string]bool{}
		for _, d := range derefs {
			if sel, ok := ast.Unparen(d.Fun).(*ast.SelectorExpr); ok {
				derefRecv[exprString(sel.X)] = true
			}
		}
		guardOK = func(e ast.Expr) bool {
			cond, _, ok := p.nilGuardOf(info, e)
			if !ok {
				return false
			}
			for rcv := range derefRecv {
				if cond == rcv+".Code" {
					return true
				}
			}
			return false
		}
		mentionsTainted := func(e ast.Node) bool {
			f := false
			ast.Inspect(e, func(n ast.Node) bool {
				if f {
					return false
				}
				if x, ok := n.(ast.Expr); ok && guardOK(x) {
					return false // everything below a proper guard is fine
				}
				if id, ok := n.(*ast.Ident); ok && tainted[info.ObjectOf(id)] {
					f = true
				}
				return !f
			})
			return f
		}
		for changed := true; changed; {
			changed = false
			ast.Inspect(fi.Decl, func(n ast.Node) bool {
				as, ok := n.(*ast.AssignStmt)
				if !ok {
					return true
				}
				rhsT := false
				for _, rh := range as.Rhs {
					if containsDeref(rh) || mentionsTainted(rh) {
						rhsT = true
					}
				}
				if !rhsT {
					return true
				}
				for _, l := range as.Lhs {
					if id, ok := ast.Unparen(l).(*ast.Ident); ok && id.Name != "_" {
						o := info.ObjectOf(id)
						if o != nil && !tainted[o] && (carriesCode(o.Type())) {
							tainted[o] = true
							changed = true
						}
					}
				}
				return true
			})
		}
		site := fi.Name() + "/Deref"
		bad := ""
		ast.Inspect(fi.Decl, func(n ast.Node) bool {
			ret, ok := n.(*ast.ReturnStmt)
			if !ok {
				return true
			}
			// error returns carry nil statements
			for _, res := range ret.Results {
				if !carriesCode(info.TypeOf(res)) {
					continue
				}
				if mentionsTainted(res) || containsDeref(res) && !guardOK(res) {
					bad = fmt.Sprintf("%s: `%s` derives from the dereferenced source and is returned outside If(source != nil)", p.PosStr(ret.Pos()), short(exprString(res), 40))
				}
			}
			return true
		})
		if bad != "" {
			r.Bad(site, p.PosStr(derefs[0].Pos()), bad+": the generated code would dereference a nil pointer")
		} else {
			r.OK(site, p.PosStr(derefs[0].Pos()), fmt.Sprintf("%d Deref call(s); every value computed from them is returned only inside If(source != nil)", len(derefs)))
		}
	}
	// mapField
	fi := p.Func("builder.mapField")
	if fi == nil {
		r.Unresolved("builder.mapField")
		return
	}
	info := fi.Pkg.TypesInfo
	// (1) pointer hop: inside `if nextSource.Pointer {…}` the condition gets `nextIDCode…Op("!=").Nil()` and nextSource = nextSource.PointerInner
	hopOK, dotAfter := false, false
	var hop *ast.IfStmt
	ast.Inspect(fi.Decl, func(n ast.Node) bool {
		ifs, ok := n.(*ast.IfStmt)
		if !ok || hop != nil {
			return true
		}
		if sel, ok := ast.Unparen(ifs.Cond).(*ast.SelectorExpr); ok && sel.Sel.Name == "Pointer" && isXType(info.TypeOf(sel.X)) {
			addsCond, steps := false, false
			isNilTest := func(info2 *types.Info, m ast.Node) bool {
				if call, ok := m.(*ast.CallExpr); ok {
					if ch, ok := chainOf(info2, call); ok && ch.Has("Nil") != nil && ch.Has("Op") != nil {
						if s, _ := constString(info2, ch.Has("Op").Args[0]); s == "!=" {
							return true
						}
					}
				}
				return false
			}
			ast.Inspect(ifs.Body, func(m ast.Node) bool {
				if isNilTest(info, m) {
					addsCond = true
				}
				// one level of own helpers (e.g. condition = andNotNil(condition, value))
				if call, ok := m.(*ast.CallExpr); ok {
					if f, ok := calleeObj(info, call).(*types.Func); ok {
						if h := p.funcIdx[funcKey(f)]; h != nil && h.Pkg == fi.Pkg {
							ast.Inspect(h.Decl, func(q ast.Node) bool {
								if isNilTest(h.Pkg.TypesInfo, q) {
									addsCond = true
								}
								return true
							})
						}
					}
				}
				if as, ok := m.(*ast.AssignStmt); ok && len(as.Rhs) == 1 {
					if s, ok := ast.Unparen(as.Rhs[0]).(*ast.SelectorExpr); ok && s.Sel.Name == "PointerInner" {
						steps = true
					}
				}
				return true
			})
			if addsCond && steps {
				hop = ifs
				hopOK = true
			}
		}
		return true
	})
	if hop != nil {
		// the member selection (.Dot) of the same iteration comes after the hop
		ast.Inspect(fi.Decl, func(n ast.Node) bool {
			if call, ok := n.(*ast.CallExpr); ok && call.Pos() > hop.End() {
				if ch, ok := chainOf(info, call); ok && ch.Has("Dot") != nil {
					dotAfter = true
				}
			}
			return true
		})
	}
	if hopOK && dotAfter {
		r.OK("builder.mapField/pointer hop", p.PosStr(hop.Pos()), "a pointer in the path adds `x != nil` to the condition before the member is selected")
	} else {
		r.Bad("builder.mapField/pointer hop", p.PosStr(fi.Decl.Pos()), "a pointer hop in a goverter:map path is not guarded by a nil test before the member selection")
	}
	// (2) If(condition).Block(innerStmt…) and the temp variable
	// the result variable: first operand of the success returns (last result nil) that is a plain local
	resultObjs := map[types.Object]bool{}
	ast.Inspect(fi.Decl, func(n ast.Node) bool {
		ret, ok := n.(*ast.ReturnStmt)
		if !ok || len(ret.Results) < 2 {
			return true
		}
		if last, ok := ast.Unparen(ret.Results[len(ret.Results)-1]).(*ast.Ident); !ok || last.Name != "nil" {
			return true
		}
		if id0, ok := ast.Unparen(ret.Results[0]).(*ast.Ident); ok && id0.Name != "nil" {
			if o := info.ObjectOf(id0); o != nil {
				resultObjs[o] = true
			}
		}
		return true
	})
	wraps, temp := false, false
	ast.Inspect(fi.Decl, func(n ast.Node) bool {
		ifs, ok := n.(*ast.IfStmt)
		if !ok {
			return true
		}
		b, ok := ast.Unparen(ifs.Cond).(*ast.BinaryExpr)
		if !ok || exprString(b.Y) != "nil" || b.Op.String() != "!=" {
			return true
		}
		id, ok := ast.Unparen(b.X).(*ast.Ident)
		if !ok || !strings.Contains(info.TypeOf(id).String(), "jen.Statement") {
			return true
		}
		ast.Inspect(ifs.Body, func(m ast.Node) bool {
			if call, ok := m.(*ast.CallExpr); ok {
				if ch, ok := chainOf(info, call); ok && ch.Root == nil && len(ch.Links) >= 2 && ch.Links[0].Name == "If" && ch.Links[1].Name == "Block" {
					if a, ok := ast.Unparen(ch.Links[0].Args[0]).(*ast.Ident); ok && info.ObjectOf(a) == info.ObjectOf(id) {
						wraps = true
					}
				}
			}
			if as, ok := m.(*ast.AssignStmt); ok && len(as.Lhs) == 1 && isResultIdent(info, as.Lhs[0], resultObjs) {
				if c := callTo(info, as.Rhs[0], modPath+"/xtype", "", "VariableID"); c != nil {
					if ch, ok := chainOf(info, c.Args[0]); ok && ch.Links[0].Name == "Id" {
						if okN, _ := nameOriginOK(nil, fi, ch.Links[0].Args[0], map[string]bool{}, 0); okN {
							temp = true
						}
					}
				}
			}
			return true
		})
		return true
	})
	if wraps && temp {
		r.OK("builder.mapField/guarded access", p.PosStr(fi.Decl.Pos()), "when a hop was guarded the access runs inside If(condition) and a fresh temporary (nil when a hop is nil) is handed out")
	} else {
		r.Bad("builder.mapField/guarded access", p.PosStr(fi.Decl.Pos()), "with a guarded pointer hop the member access is not wrapped in If(condition) or the raw path expression is handed out instead of the temporary")
	}
}

func isResultIdent(info *types.Info, e ast.Expr, objs map[types.Object]bool) bool {
	id0, ok := ast.Unparen(e).(*ast.Ident)
	return ok && objs[info.ObjectOf(id0)]
}

// c02R4: loop shape.
func c02R4(p *Prog, r *Report, chains []*Chain) {
	r.Rule("C02.R4", "every emitted loop is bounded by the source: jen.For(i := 0; i < len(S); i++) with one allocator-named index i and S the source that is indexed, or jen.For(k, v := range S) over the source", 2)
	for _, c := range chains {
		if c.Root != nil || c.Links[0].Name != "For" {
			continue
		}
		info := c.Pkg.TypesInfo
		site := c.Encl.Name() + "/jen.For"
		pos := p.PosStr(c.Outer.Pos())
		args := c.Links[0].Args
		t := newSrcTaint(c.Encl)
		switch len(args) {
		case 3:
			init, ok1 := chainOf(info, args[0])
			cond, ok2 := chainOf(info, args[1])
			post, ok3 := chainOf(info, args[2])
			if !ok1 || !ok2 || !ok3 {
				r.Bad(site, pos, "loop clauses are not literal emission chains")
				continue
			}
			idOf := func(ch Chain) string {
				if ch.Root == nil && ch.Links[0].Name == "Id" {
					return exprString(ch.Links[0].Args[0])
				}
				ch.Encl, ch.Pkg = c.Encl, c.Pkg
				if nm := idCloneArg(&ch); nm != nil {
					return exprString(nm)
				}
				return ""
			}
			opOf := func(ch Chain) string {
				if l := ch.Has("Op"); l != nil {
					s, _ := constString(info, l.Args[0])
					return s
				}
				return ""
			}
			i := idOf(init)
			bad := ""
			switch {
			case i == "" || idOf(cond) != i || idOf(post) != i:
				bad = "init, condition and increment do not use the same index variable"
			case opOf(init) != ":=" || init.Has("Lit") == nil:
				bad = "the loop does not start with i := 0"
			case opOf(cond) != "<" || cond.Has("Len") == nil:
				bad = "the loop condition is not i < len(…)"
			case opOf(post) != "++":
				bad = "the loop does not advance with i++"
			}
			if bad == "" {
				if v, ok := constInt(info, init.Has("Lit").Args[0]); !ok || v != 0 {
					bad = "the loop does not start at 0"
				}
			}
			if bad == "" {
				ln := cond.Has("Len")
				if len(ln.Args) != 1 || !t.mentions(ln.Args[0]) {
					bad = "the loop bound is not the length of the source (" + exprString(ln.Args[0]) + "): indexing the source could run out of range"
				}
			}
			if bad == "" {
				nameExpr := ast.Expr(nil)
				if init.Root == nil && len(init.Links[0].Args) > 0 {
					nameExpr = init.Links[0].Args[0]
				} else {
					ic := init
					ic.Encl, ic.Pkg = c.Encl, c.Pkg
					nameExpr = idCloneArg(&ic)
				}
				if nameExpr == nil {
					bad = "index variable: not traceable"
				} else if okN, how := nameOriginOK(p, c.Encl, nameExpr, map[string]bool{}, 0); !okN {
					bad = "index variable: " + how
				}
			}
			if bad != "" {
				r.Bad(site, pos, bad)
			} else {
				r.OK(site, pos, "for "+i+" := 0; "+i+" < len(source); "+i+"++")
			}
		case 1:
			ch, ok := chainOf(info, args[0])
			if !ok || ch.Has("Range") == nil {
				r.Bad(site, pos, "single-clause loop that is not a range: termination not established")
				continue
			}
			// … .Range().Add(sourceID.Code)
			okSrc := false
			for _, l := range ch.Links {
				if l.Name == "Add" && len(l.Args) == 1 && t.mentions(l.Args[0]) {
					okSrc = true
				}
			}
			if okSrc {
				r.OK(site, pos, "range over the source")
			} else {
				r.Bad(site, pos, "range over something else than the source")
			}
		default:
			r.Bad(site, pos, fmt.Sprintf("loop with %d clauses: not one of the two bounded forms", len(args)))
		}
	}
}

// c02R6: Build/Assign sibling agreement.
func c02R6(p *Prog, r *Report) {
	r.Rule("C02.R6", "for every implementer of builder.Builder, Assign is AssignByBuild(self, …) or Build is BuildByAssign(self, …) / self.Assign(…) on its default path, or both are trivial: a conversion means the same at top level and in field/element position", 11)
	bp := p.Pkg("builder")
	tn, _ := bp.Types.Scope().Lookup("Builder").(*types.TypeName)
	if tn == nil {
		r.Unresolved("builder.Builder")
		return
	}
	iface := tn.Type().Underlying().(*types.Interface)
	var impls []*types.TypeName
	for _, o := range p.Own {
		impls = append(impls, implementersOf(o.Types, iface)...)
	}
	sort.Slice(impls, func(i, j int) bool { return impls[i].Name() < impls[j].Name() })
	for _, im := range impls {
		name := relPkg(im.Pkg().Path()) + ".(*" + im.Name() + ")"
		b, a := p.Func(name+".Build"), p.Func(name+".Assign")
		site := name + "/Build~Assign"
		if b == nil || a == nil {
			r.Bad(site, "", "Build or Assign not found")
			continue
		}
		callsSelf := func(fi *FuncInfo, fn string) bool {
			info := fi.Pkg.TypesInfo
			found := false
			ast.Inspect(fi.Decl, func(n ast.Node) bool {
				call, ok := n.(*ast.CallExpr)
				if !ok {
					return true
				}
				f, ok := calleeObj(info, call).(*types.Func)
				if !ok {
					return true
				}
				recv := fi.Decl.Recv.List[0]
				if len(recv.Names) == 0 {
					return true
				}
				self := info.ObjectOf(recv.Names[0])
				if (f.Name() == "AssignByBuild" || f.Name() == "BuildByAssign") && f.Name() == fn && len(call.Args) > 0 {
					if id, ok := ast.Unparen(call.Args[0]).(*ast.Ident); ok && info.ObjectOf(id) == self {
						found = true
					}
				}
				if fn == "self.Assign" && f.Name() == "Assign" {
					if sel, ok := ast.Unparen(call.Fun).(*ast.SelectorExpr); ok {
						if id, ok := ast.Unparen(sel.X).(*ast.Ident); ok && info.ObjectOf(id) == self {
							found = true
						}
					}
				}
				return true
			})
			return found
		}
		usesGen := func(fi *FuncInfo) bool {
			info := fi.Pkg.TypesInfo
			u := false
			ast.Inspect(fi.Decl.Body, func(n ast.Node) bool {
				if call, ok := n.(*ast.CallExpr); ok {
					if f, ok := calleeObj(info, call).(*types.Func); ok && converterCallNames[f.Name()] {
						u = true
					}
				}
				return true
			})
			return u
		}
		switch {
		case callsSelf(a, "AssignByBuild"):
			r.OK(site, p.PosStr(a.Decl.Pos()), "Assign = AssignByBuild(self)")
		case callsSelf(b, "BuildByAssign"):
			r.OK(site, p.PosStr(b.Decl.Pos()), "Build = BuildByAssign(self) on its default path")
		case callsSelf(b, "self.Assign"):
			r.OK(site, p.PosStr(b.Decl.Pos()), "Build delegates to self.Assign")
		case !usesGen(a) && !usesGen(b):
			r.OK(site, p.PosStr(b.Decl.Pos()), "both trivial (no nested conversion)")
		default:
			r.Bad(site, p.PosStr(b.Decl.Pos()), "Build and Assign are implemented independently: the conversion may differ between top-level and field/element position")
		}
	}
}

// mustAssignRule (C02.R7 / C11.R6): map values are always assigned.
func mustAssignRule(p *Prog, r *Report, id string) {
	r.Rule(id, "in Map.Assign the AssignTo handed to the value conversion is assignTo.WithIndex(<converted key>).MustAssign() unconditionally: the entry is always stored, so a nil pointer/slice/map value keeps its key (entry count preserved; *T → U under useZeroValueOnPointerInconsistency yields the zero value)", 1)
	fi := p.Func("builder.(*Map).Assign")
	if fi == nil {
		r.Unresolved("builder.(*Map).Assign")
		return
	}
	info := fi.Pkg.TypesInfo
	n := 0
	ast.Inspect(fi.Decl, func(nn ast.Node) bool {
		call, ok := nn.(*ast.CallExpr)
		if !ok {
			return true
		}
		f, ok := calleeObj(info, call).(*types.Func)
		if !ok || f.Name() != "Assign" || !strings.HasSuffix(objPkgPath(f), "/builder") || len(call.Args) < 6 {
			return true
		}
		if sel, ok := ast.Unparen(call.Fun).(*ast.SelectorExpr); !ok || exprString(sel.X) != "gen" {
			return true
		}
		n++
		site := fmt.Sprintf("builder.(*Map).Assign/value conversion#%d", n)
		arg := ast.Unparen(call.Args[1])
		// a local that names the entry (`entry := assignTo.WithIndex(k).MustAssign()`) stands for it
		if lid, isID := arg.(*ast.Ident); isID {
			if def := localDef(info, fi.Decl, info.ObjectOf(lid)); def != nil {
				arg = ast.Unparen(def)
			}
		}
		okMust := false
		if c2, ok := arg.(*ast.CallExpr); ok {
			if f2, ok := calleeObj(info, c2).(*types.Func); ok && f2.Name() == "MustAssign" {
				if sel, ok := ast.Unparen(c2.Fun).(*ast.SelectorExpr); ok {
					if c3, ok := ast.Unparen(sel.X).(*ast.CallExpr); ok {
						if f3, ok := calleeObj(info, c3).(*types.Func); ok && f3.Name() == "WithIndex" {
							okMust = true
						}
					}
				}
			}
		}
		if okMust {
			r.OK(site, p.PosStr(call.Pos()), "assignTo.WithIndex(key).MustAssign()")
		} else {
			r.Bad(site, p.PosStr(call.Pos()), "the map value is converted into "+short(exprString(arg), 40)+" which is not unconditionally MustAssign(): builders that assign only under `source != nil` (Pointer, SourcePointer, List, Map) would drop the key of a nil value")
		}
		return true
	})
	if n == 0 {
		r.Unresolved("gen.Assign call in Map.Assign")
	}
	// MustAssign semantics: generator.Assign with Must goes through Build + unconditional assignment
	if g := p.Func("generator.(*generator).Assign"); g != nil {
		ginfo := g.Pkg.TypesInfo
		ok := false
		ast.Inspect(g.Decl, func(nn ast.Node) bool {
			ifs, isIf := nn.(*ast.IfStmt)
			if !isIf {
				return true
			}
			if sel, isSel := ast.Unparen(ifs.Cond).(*ast.SelectorExpr); isSel && sel.Sel.Name == "Must" {
				if len(ifs.Body.List) == 1 {
					if ret, isRet := ifs.Body.List[0].(*ast.ReturnStmt); isRet && len(ret.Results) == 1 {
						s := exprString(ret.Results[0])
						if strings.HasPrefix(s, "builder.ToAssignable(assignTo)(g.Build(") {
							ok = true
						}
					}
				}
			}
			_ = ginfo
			return true
		})
		if ok {
			r.OK("generator.(*generator).Assign/Must", p.PosStr(g.Decl.Pos()), "Must → ToAssignable(assignTo)(g.Build(…)): value built first, then assigned unconditionally")
		} else {
			r.Bad("generator.(*generator).Assign/Must", p.PosStr(g.Decl.Pos()), "AssignTo.Must is no longer honoured by building the value and assigning it unconditionally")
		}
	} else {
		r.Unresolved("generator.(*generator).Assign")
	}
}

const controlBuilder = `package builder

import (
	"github.com/dave/jennifer/jen"
	"github.com/jmattheis/goverter/xtype"
)

type zzControl struct{}

func (*zzControl) Matches(_ *MethodContext, source, target *xtype.Type) bool { return false }

func (z *zzControl) Build(gen Generator, ctx *MethodContext, sourceID *xtype.JenID, source, target *xtype.Type, path ErrorPath) ([]jen.Code, *xtype.JenID, *Error) {
	stmt, id, err := gen.Build(ctx, sourceID.Deref(source), source.PointerInner, target, path)
	if err != nil {
		return nil, nil, err
	}
	stmt = append(stmt, jen.Panic(jen.Lit("boom")), jen.Id("x").Op("+=").Lit(1), jen.Go().Func().Params().Block())
	stmt = append(stmt, sourceID.Code.Clone().Dot("F").Op("=").Nil())
	if target.Named {
		return stmt, sourceID, nil
	}
	return stmt, id, nil
}

func (z *zzControl) Assign(gen Generator, ctx *MethodContext, assignTo *AssignTo, sourceID *xtype.JenID, source, target *xtype.Type, path ErrorPath) ([]jen.Code, *Error) {
	return []jen.Code{jen.For(jen.Id("i").Op(":=").Lit(0), jen.Id("i").Op("<").Len(assignTo.Stmt.Clone()), jen.Id("j").Op("++")).Block()}, nil
}
`
