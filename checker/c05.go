package main

import (
	"fmt"
	"go/ast"
	"go/token"
	"go/types"
	"strings"

	"golang.org/x/tools/go/ssa"
)

func init() {
	register(&Check{
		ID: "C05", Level: "other",
		Explanation: "Decides structural necessary conditions of `field settings select sources as documented and are never silently dropped`: (R1) the method-local settings (Fields, AutoMap, EnumMapping) are read in package " +
			"builder only under a comparison of ctx.FieldsTarget with the current target (directly or at every caller), so they affect only the target struct of the method they are written on; (R2) unused-setting " +
			"detection: Struct.Assign deletes every visited target field from the defined set unconditionally at the head of the field loop and reports left-overs before returning success (same for enum:map keys); " +
			"(R3) generateConverter validates before it builds, validateMethods and the overlap check look at Method.RawFieldSettings, and parseMethodLine records every field setting there (map, ignore, autoMap, " +
			"ignoreUnexported, update:ignoreZeroValueField, matchIgnoreCase, ignoreMissing); (R4) both dispatchers check for overlapping settings first; (R5) candidate enumeration in findAllFields visits every field and every " +
			"method (no early cut depending on earlier matches) and FindField resolves exact > case-insensitive with 0 → NoMatchError, 1 → match, >1 → ambiguity error; (R6) mapField uses the explicit path if one is configured and the lookup otherwise.",
		NotDecided: []string{"which source value a field receives at run time", "nil behaviour of dotted paths at run time (shape decided by C02.R2)"},
		Run:        runC05,
	})
}

func runC05(p *Prog, r *Report) {
	c05R1(p, r)
	c05R2(p, r, "C05.R2", []string{"builder.(*Struct).Assign", "builder.(*Enum).Build"})
	c05R3(p, r)
	c03R1(p, r, "C05.R4")
	c05R5(p, r)
	ignoreUnexportedRule(p, r, "C05.R6")
	c03R4(p, r, "C05.R8", []string{"builder"})
	candidatesUnfilteredRule(p, r, "C05.R9")
	fieldPathRule(p, r, "C05.R10")
	ignoreEveryFieldRule(p, r, "C05.R11")
	typeStringOpaqueRule(p, r, "C05.R12")
	fieldSettingTargetRule(p, r, "C05.R13")
	lookupContextRule(p, r, "C05.R14")
	fieldsAccessorRule(p, r, "C05.R15")
	armStoresRule(p, r, "C05.R7", "config.parseMethodLine", "map", "ignore", "autoMap")
}

var methodLocalSettings = map[string]bool{"Fields": true, "AutoMap": true, "EnumMapping": true}

var auditedUngatedReads = map[string]string{
	"builder.(*Enum).Build": "Enum.Build only runs as the root conversion of a method whose signature is that enum pair: nested enum pairs get their own generated method with an empty EnumMapping (sub-fact re-verified: shouldCreateSubMethod has the enum arm and createSubMethod gives an empty EnumMapping)",
}

func c05R1(p *Prog, r *Report) {
	r.Rule("C05.R1", "method-local settings of config.Method (Fields, AutoMap, EnumMapping) are read in package builder only under a comparison of ctx.FieldsTarget with the current target's String — in the reading function or in every caller of it", 4)
	bp := p.Pkg("builder")
	for _, fi := range p.Funcs {
		if fi.Pkg != bp {
			continue
		}
		fi := fi
		info := fi.Pkg.TypesInfo
		cnt := map[string]int{}
		walkStack(fi.Decl, func(n ast.Node, stack []ast.Node) bool {
			sel, ok := n.(*ast.SelectorExpr)
			if !ok || !methodLocalSettings[sel.Sel.Name] || !fieldOwnerIs(info, sel, modPath+"/config", "Method") {
				return true
			}
			cnt[sel.Sel.Name]++
			site := fmt.Sprintf("%s/read %s#%d", fi.Name(), sel.Sel.Name, cnt[sel.Sel.Name])
			pos := p.PosStr(sel.Pos())
			if gatedByFieldsTarget(info, stack, sel) {
				r.OK(site, pos, "under a ctx.FieldsTarget comparison in this function")
				return true
			}
			// all callers gated?
			nc, bad := 0, ""
			for _, cs := range p.Calls() {
				f, ok := cs.Callee.(*types.Func)
				if !ok || f != fi.Obj || cs.Encl == nil {
					continue
				}
				nc++
				if !gatedByFieldsTarget(cs.Pkg.TypesInfo, cs.Stack, cs.Call) {
					bad = cs.Encl.Name() + " (" + p.PosStr(cs.Call.Pos()) + ")"
				}
			}
			if nc > 0 && bad == "" {
				r.OK(site, pos, fmt.Sprintf("every caller (%d) calls this function under a ctx.FieldsTarget comparison", nc))
				return true
			}
			if why, ok := auditedUngatedReads[p.anchorFor(fi, mapKeys(auditedUngatedReads))]; ok {
				if m := enumRootFacts(p); m != "" {
					r.Bad(site, pos, "audited ungated read, but its sub-fact no longer holds: "+m)
				} else {
					r.OK(site, pos, "audited: "+why)
					r.Tables = append(r.Tables, "C05.R1 "+fi.Name()+" — "+why)
				}
				return true
			}
			msg := "the method-local setting " + sel.Sel.Name + " is read without restricting it to the method's own target struct (ctx.FieldsTarget): it would also be applied to nested structs converted inline"
			if bad != "" {
				msg += "; ungated caller: " + bad
			}
			r.Bad(site, pos, msg)
			return true
		})
	}
}

func gatedByFieldsTarget(info *types.Info, stack []ast.Node, n ast.Node) bool {
	for _, g := range guardsOf(stack, n) {
		if g.Cond == nil {
			continue
		}
		for _, c := range disjunctsOrConjuncts(g) {
			b, ok := ast.Unparen(c).(*ast.BinaryExpr)
			if !ok {
				continue
			}
			mentions := strings.HasSuffix(exprString(b.X), ".FieldsTarget") || strings.HasSuffix(exprString(b.Y), ".FieldsTarget")
			other := strings.HasSuffix(exprString(b.X), ".String") || strings.HasSuffix(exprString(b.Y), ".String")
			if !mentions || !other {
				continue
			}
			// taken guard with ==, or early exit on !=
			if (!g.Neg && b.Op == token.EQL) || (g.Neg && b.Op == token.NEQ) {
				return true
			}
		}
	}
	return false
}

func enumRootFacts(p *Prog) string {
	fi := p.Func("generator.(*generator).shouldCreateSubMethod")
	if fi == nil {
		return "shouldCreateSubMethod not found"
	}
	hasEnumArm := false
	ast.Inspect(fi.Decl, func(n ast.Node) bool {
		cc, ok := n.(*ast.CaseClause)
		if ok && len(cc.List) == 1 && strings.Count(exprString(cc.List[0]), ".Enum(") == 2 && strings.Contains(exprString(cc.List[0]), ".OK") {
			hasEnumArm = true
		}
		return true
	})
	if !hasEnumArm {
		return "shouldCreateSubMethod no longer creates a sub-method for enum pairs: Enum.Build could run inline with the outer method's enum:map"
	}
	cs := p.Func("generator.(*generator).createSubMethod")
	if cs == nil {
		return "createSubMethod not found"
	}
	info := cs.Pkg.TypesInfo
	okEmpty := false
	var regionDecls []ast.Node
	for _, rf := range p.Region("generator.(*generator).createSubMethod") {
		regionDecls = append(regionDecls, rf.Decl)
	}
	for _, d := range regionDecls {
		ast.Inspect(d, func(n ast.Node) bool {
			cl, ok := n.(*ast.CompositeLit)
			if ok && isNamed(info.TypeOf(cl), modPath+"/config", "Method") {
				em, _ := unaddr(compositeField(cl, "EnumMapping")).(*ast.CompositeLit)
				fl, _ := ast.Unparen(compositeField(cl, "Fields")).(*ast.CompositeLit)
				if em != nil && fl != nil && len(fl.Elts) == 0 {
					if m, ok := ast.Unparen(compositeField(em, "Map")).(*ast.CompositeLit); ok && len(m.Elts) == 0 && compositeField(em, "Transformers") == nil {
						okEmpty = true
					}
				}
			}
			return true
		})
	}
	if !okEmpty {
		return "generated sub-methods no longer start with empty Fields/EnumMapping"
	}
	return ""
}

func c05R2(p *Prog, r *Report, id string, fns []string) {
	r.Rule(id, "unused-setting detection: in Struct.Assign `delete(definedFields, targetField.Name())` is the unconditional head of the field loop (before any continue) and every success return is preceded by the left-over check; Enum.Build does the same for enum:map keys over all source members", 3)
	type spec struct{ fn, set, from string }
	for _, s := range []spec{{"builder.(*Struct).Assign", "definedFields", "DefinedFields"}, {"builder.(*Enum).Build", "definedKeys", "DefinedEnumFields"}} {
		if !has(fns, s.fn) {
			continue
		}
		fi, sf := needFunc(p, r, s.fn)
		if fi == nil {
			continue
		}
		info := fi.Pkg.TypesInfo
		// the set variable: defined by ctx.DefinedFields(target)
		var setObj types.Object
		ast.Inspect(fi.Decl, func(n ast.Node) bool {
			as, ok := n.(*ast.AssignStmt)
			if ok && len(as.Lhs) == 1 && len(as.Rhs) == 1 {
				if c, ok := ast.Unparen(as.Rhs[0]).(*ast.CallExpr); ok {
					if f, ok := calleeObj(info, c).(*types.Func); ok && f.Name() == s.from {
						if id, ok := as.Lhs[0].(*ast.Ident); ok {
							setObj = info.ObjectOf(id)
						}
					}
				}
			}
			return true
		})
		if setObj == nil {
			r.Bad(s.fn+"/defined set", p.PosStr(fi.Decl.Pos()), "the set of configured names (ctx."+s.from+") is no longer collected")
			continue
		}
		// delete at loop head
		okDel := false
		var loopBody *ast.BlockStmt
		ast.Inspect(fi.Decl, func(n ast.Node) bool {
			var body *ast.BlockStmt
			switch x := n.(type) {
			case *ast.ForStmt:
				body = x.Body
			case *ast.RangeStmt:
				body = x.Body
			}
			if body == nil || okDel {
				return true
			}
			for _, st := range body.List {
				// statements before the delete may only be definitions (no continue / if)
				if es, ok := st.(*ast.ExprStmt); ok {
					if c, ok := es.X.(*ast.CallExpr); ok {
						if b, ok := calleeObj(info, c).(*types.Builtin); ok && b.Name() == "delete" {
							if id, ok := ast.Unparen(c.Args[0]).(*ast.Ident); ok && info.ObjectOf(id) == setObj {
								okDel = true
								loopBody = body
							}
						}
					}
					break
				}
				if _, isDef := st.(*ast.AssignStmt); !isDef {
					break
				}
			}
			return true
		})
		if okDel {
			r.OK(s.fn+"/delete at loop head", p.PosStr(loopBody.Pos()), "every visited name is removed from the defined set before any skip")
		} else {
			r.Bad(s.fn+"/delete at loop head", p.PosStr(fi.Decl.Pos()), "a visited name is not removed from the defined set unconditionally at the head of the loop: a skipped (ignored/unexported/duplicate) entry would be reported as `does not exist`, or an unknown name would go unnoticed")
		}
		// left-over check before success return: every success return must be preceded (dominated) by a
		// range/loop over the set (directly or via UsageChecker(set).Unused()) whose body returns an error
		var check ssa.Instruction
		allInstrs(sf, false, func(in ssa.Instruction) {
			// a Range/Next over the set or a call Unused() on a conversion of the set
			switch x := in.(type) {
			case *ssa.Range:
				if valueIsObj(x.X, setObj, sf) {
					check = in
				}
			case ssa.CallInstruction:
				if o := ssaCalleeObj(x); o != nil && o.Name() == "Unused" && len(x.Common().Args) > 0 && valueIsObj(stripConv(x.Common().Args[0]), setObj, sf) {
					check = in
				}
			}
		})
		if check == nil {
			r.Bad(s.fn+"/left-over check", p.PosStr(fi.Decl.Pos()), "configured names that match nothing are no longer reported: a misspelled field setting would be dropped silently")
			continue
		}
		okAll := true
		for _, b := range sf.Blocks {
			for _, in := range b.Instrs {
				if ret, ok := in.(*ssa.Return); ok && isSuccessReturn(ret) && hasNonNilCode(ret) {
					if !check.Block().Dominates(b) {
						okAll = false
					}
				}
			}
		}
		if okAll {
			r.OK(s.fn+"/left-over check", p.PosStr(check.Pos()), "dominates every success return that carries generated code")
		} else {
			r.Bad(s.fn+"/left-over check", p.PosStr(check.Pos()), "a success return is reachable without the left-over check")
		}
	}
	// Enum.Build iterates all members
	if fi := p.Func("builder.(*Enum).Build"); fi != nil {
		info := fi.Pkg.TypesInfo
		ok := false
		ast.Inspect(fi.Decl, func(n ast.Node) bool {
			if rs, isR := n.(*ast.RangeStmt); isR {
				if c, isC := ast.Unparen(rs.X).(*ast.CallExpr); isC {
					if f, isF := calleeObj(info, c).(*types.Func); isF && f.Name() == "SortedMembers" {
						ok = true
					}
				}
			}
			return true
		})
		if ok {
			r.OK("builder.(*Enum).Build/members loop", p.PosStr(fi.Decl.Pos()), "ranges over sourceEnum.SortedMembers()")
		} else {
			r.Bad("builder.(*Enum).Build/members loop", p.PosStr(fi.Decl.Pos()), "does not range over all source members")
		}
	}
}

// valueIsObj: v is (a load of) the local variable obj — approximated through the debug name of phis/allocs.
func valueIsObj(v ssa.Value, obj types.Object, fn *ssa.Function) bool {
	// go/ssa keeps the source variable in DebugRef only when built with debug info; use the defining call instead:
	// the set is the result of ctx.DefinedFields(...) / DefinedEnumFields(...)
	switch x := v.(type) {
	case *ssa.Call:
		if o := ssaCalleeObj(x); o != nil && (o.Name() == "DefinedFields" || o.Name() == "DefinedEnumFields") {
			return true
		}
	case *ssa.ChangeType:
		return valueIsObj(x.X, obj, fn)
	case *ssa.Phi:
		for _, e := range x.Edges {
			if valueIsObj(e, obj, fn) {
				return true
			}
		}
	}
	return false
}

func hasNonNilCode(ret *ssa.Return) bool {
	for _, v := range ret.Results {
		if strings.Contains(v.Type().String(), "jen.Code") && !isNilConst(v) {
			return true
		}
	}
	return false
}

func c05R3(p *Prog, r *Report) {
	r.Rule("C05.R3", "settings that cannot take effect are rejected: generateConverter calls validateMethods before buildMethods; validateMethods and getOverlappingStructDefinition decide on len(Method.RawFieldSettings); parseMethodLine appends the line to RawFieldSettings whenever the setting is a field setting, and the field-setting classification covers map, ignore, autoMap, ignoreUnexported, update:ignoreZeroValueField, matchIgnoreCase, ignoreMissing", 6)
	anchorGC := "generator.generateConverter"
	if p.Func(anchorGC) == nil {
		anchorGC = "generator.Generate" // generateConverter inlined
	}
	if fi, sf := needFunc(p, r, anchorGC); fi != nil {
		v := callsIn(sf, false, isObj(modPath+"/generator", "", "validateMethods"))
		b := callsIn(sf, false, isObj(modPath+"/generator", "generator", "buildMethods"))
		if len(v) == 1 && len(b) == 1 && (strictlyBefore(v[0], b[0]) || sameIterationBefore(v[0], b[0])) {
			r.OK("generator.generateConverter/validate before build", p.PosStr(v[0].Pos()), "validateMethods dominates buildMethods")
		} else {
			r.Bad("generator.generateConverter/validate before build", p.PosStr(fi.Decl.Pos()), "methods are built without (or before) validating that field settings sit on struct targets")
		}
	}
	for _, key := range []string{"generator.validateMethods", "generator.(*generator).getOverlappingStructDefinition"} {
		fi := p.Func(key)
		if fi == nil {
			r.Unresolved(key)
			continue
		}
		info := fi.Pkg.TypesInfo
		// the decision must be made on len(x.RawFieldSettings) compared with 0 (any polarity / guard form)
		ok := false
		ast.Inspect(fi.Decl, func(n ast.Node) bool {
			b, isB := n.(*ast.BinaryExpr)
			if !isB {
				return true
			}
			call, isC := ast.Unparen(b.X).(*ast.CallExpr)
			if !isC || len(call.Args) != 1 {
				return true
			}
			if bi, isBi := calleeObj(info, call).(*types.Builtin); isBi && bi.Name() == "len" && isFieldSel(info, call.Args[0], modPath+"/config", "Method", "RawFieldSettings") {
				if v, isK := constInt(info, b.Y); isK && (v == 0 && (b.Op == token.GTR || b.Op == token.NEQ || b.Op == token.EQL) || v == 1 && (b.Op == token.GEQ || b.Op == token.LSS)) {
					ok = true
				}
			}
			return true
		})
		// no other notion of "has field settings"
		usesOther := mentionsField(info, fi.Decl, modPath+"/config", "Method", "Fields") || mentionsField(info, fi.Decl, modPath+"/config", "Method", "AutoMap")
		if ok && !usesOther {
			r.OK(key+"/has field settings", p.PosStr(fi.Decl.Pos()), "decides on len(RawFieldSettings) > 0 — the complete record of field settings incl. flag-style ones")
		} else {
			r.Bad(key+"/has field settings", p.PosStr(fi.Decl.Pos()), "does not decide on Method.RawFieldSettings: flag-style field settings (matchIgnoreCase, ignoreMissing, ignoreUnexported, update:ignoreZeroValueField) on a bypassed or non-struct method would be dropped silently")
		}
	}
	fieldSettingRecordedRule(p, r)
}

func c05R5(p *Prog, r *Report) {
	r.Rule("C05.R5", "source selection: findAllFields visits every struct field and (for named types) every method — the loops are not conditional on earlier matches — and returns an exact match at once; FindField prefers exact matches over case-insensitive ones and maps 1 → match, 0 → NoMatchError, >1 → ambiguity error; mapField uses the configured path when there is one and FindField(name, MatchIgnoreCase, source, autoMap sources) otherwise", 4)
	fi := p.Func("xtype.(Type).findAllFields")
	if fi == nil {
		r.Unresolved("xtype.(Type).findAllFields")
	} else {
		info := fi.Pkg.TypesInfo
		nLoops := 0
		walkStack(fi.Decl, func(n ast.Node, stack []ast.Node) bool {
			// `for y := 0; y < X.NumFields(); y++` or `for y := range X.NumFields()`
			var fs ast.Stmt
			bound := ""
			switch x := n.(type) {
			case *ast.ForStmt:
				fs, bound = x, exprString(x.Cond)
			case *ast.RangeStmt:
				fs, bound = x, exprString(x.X)
			default:
				return true
			}
			kind := ""
			switch {
			case strings.Contains(bound, "NumFields()"):
				kind = "fields"
			case strings.Contains(bound, "NumMethods()"):
				kind = "methods"
			default:
				return true
			}
			nLoops++
			site := "xtype.(Type).findAllFields/loop over " + kind
			bad := ""
			for _, g := range guardsOf(stack, fs) {
				if g.Cond == nil {
					continue
				}
				// allowed: conditions over the receiver only (t.Struct, t.Named)
				okCond := true
				ast.Inspect(g.Cond, func(m ast.Node) bool {
					if id, ok := m.(*ast.Ident); ok {
						if v, ok := info.ObjectOf(id).(*types.Var); ok && !v.IsField() {
							recv := fi.Decl.Recv.List[0].Names[0]
							if info.ObjectOf(recv) != v {
								okCond = false
							}
						}
					}
					return true
				})
				if !okCond {
					bad = "the loop is conditional on " + exprString(g.Cond) + ", which depends on earlier matches: candidates are hidden (no exact-over-case-insensitive precedence, no ambiguity error)"
				}
			}
			if bad != "" {
				r.Bad(site, p.PosStr(fs.Pos()), bad)
			} else {
				r.OK(site, p.PosStr(fs.Pos()), "unconditional (guards read the receiver type only)")
			}
			return true
		})
		if nLoops != 2 {
			r.Bad("xtype.(Type).findAllFields/loops", p.PosStr(fi.Decl.Pos()), fmt.Sprintf("expected a loop over fields and one over methods, found %d", nLoops))
		}
	}
	if ff, fsf := needFunc(p, r, "xtype.FindField"); ff != nil {
		// SSA form, independent of switch/if spelling:
		//  * a return with a nil error returns matches[0] and is dominated by len(matches) == 1;
		//  * a return of *NoMatchError is dominated by len(matches) == 0;
		//  * every other return carries a non-nil error (ambiguity);
		//  * `matches` is the exact matches unless there are none (then the case-insensitive ones).
		lenIs := func(k int64) func(ssa.Value) bool {
			return func(c ssa.Value) bool {
				b, ok := c.(*ssa.BinOp)
				if !ok || b.Op != token.EQL {
					return false
				}
				kc, ok := b.Y.(*ssa.Const)
				if !ok || kc.Value == nil || kc.Int64() != k {
					return false
				}
				call, ok := b.X.(*ssa.Call)
				if !ok {
					return false
				}
				bi, ok := call.Call.Value.(*ssa.Builtin)
				return ok && bi.Name() == "len"
			}
		}
		bad := ""
		nOK, nNone, nAmb := 0, 0, 0
		// FindField and the private helpers it hands the decision to
		var blocks []*ssa.BasicBlock
		regionObjs := map[*types.Func]bool{}
		for _, rf := range p.Region("xtype.FindField") {
			regionObjs[rf.Obj.Origin()] = true
			if rsf := p.SSAFunc(rf); rsf != nil && rsf.Signature.Results().Len() == 2 {
				blocks = append(blocks, rsf.Blocks...)
			}
		}
		for _, b := range blocks {
			for _, in := range b.Instrs {
				ret, ok := in.(*ssa.Return)
				if !ok || len(ret.Results) != 2 {
					continue
				}
				// `return helper(…)`: the decision is the helper's
				if ex, isEx := ret.Results[1].(*ssa.Extract); isEx {
					if c, isC := ex.Tuple.(*ssa.Call); isC && ssaCalleeObj(c) != nil && regionObjs[ssaCalleeObj(c).Origin()] {
						continue
					}
				}
				switch {
				case isNilConst(ret.Results[1]):
					nOK++
					if !dominatedByEdge(b, true, lenIs(1)) {
						bad = p.PosStr(ret.Pos()) + ": a match is returned without `exactly one candidate` having been established"
					}
					// matches[0]
					if ld, ok := ret.Results[0].(*ssa.UnOp); !ok {
						bad = p.PosStr(ret.Pos()) + ": the returned match is not an element of the candidate list"
					} else if ia, ok := ld.X.(*ssa.IndexAddr); !ok {
						bad = p.PosStr(ret.Pos()) + ": the returned match is not an element of the candidate list"
					} else if k, ok := ia.Index.(*ssa.Const); !ok || k.Int64() != 0 {
						bad = p.PosStr(ret.Pos()) + ": the returned match is not candidate 0"
					}
				case isNoMatchErr(ret.Results[1]):
					nNone++
					if !dominatedByEdge(b, true, lenIs(0)) {
						bad = p.PosStr(ret.Pos()) + ": NoMatchError is returned although candidates may exist"
					}
				default:
					nAmb++
				}
			}
		}
		// exact preferred: a φ [exactMatches, ignoreCaseMatches] whose second edge comes from len(exact) == 0
		okPref := false
		allInstrs(fsf, false, func(in ssa.Instruction) {
			ph, ok := in.(*ssa.Phi)
			if !ok || len(ph.Edges) != 2 || !strings.Contains(ph.Type().String(), "StructField") {
				return
			}
			for i := range ph.Edges {
				pred := ph.Block().Preds[i]
				if dominatedByEdge(pred, true, lenIs(0)) || edgeIsTrueOf(pred, ph.Block(), lenIs(0)) {
					okPref = true
				}
			}
		})
		if !okPref {
			// call form: the case-insensitive candidates are handed to the deciding helper only where the exact
			// list is known to be empty (`if len(exact) > 0 { return pick(exact) }; return pick(ignoreCase)`)
			var tainted func(v ssa.Value, d int) bool
			tainted = func(v ssa.Value, d int) bool {
				if d > 6 {
					return false
				}
				switch x := v.(type) {
				case *ssa.Extract:
					c, ok := x.Tuple.(*ssa.Call)
					return ok && x.Index == 1 && ssaCalleeObj(c) != nil && ssaCalleeObj(c).Name() == "findAllFields"
				case *ssa.Call:
					if a, b, ok := builtinAppend(x); ok {
						return tainted(a, d+1) || tainted(b, d+1)
					}
				case *ssa.Phi:
					for _, e := range x.Edges {
						if tainted(e, d+1) {
							return true
						}
					}
				case *ssa.Slice:
					return tainted(x.X, d+1)
				}
				return false
			}
			emptyList := func(f ssa.Value) ssa.Value {
				neg := false
				if nf, ok := f.(negFact); ok {
					neg, f = true, nf.Value
				}
				b, ok := f.(*ssa.BinOp)
				if !ok {
					return nil
				}
				k, ok := b.Y.(*ssa.Const)
				if !ok || k.Value == nil || k.Int64() != 0 {
					return nil
				}
				c, ok := b.X.(*ssa.Call)
				if !ok {
					return nil
				}
				if bi, ok := c.Call.Value.(*ssa.Builtin); !ok || bi.Name() != "len" {
					return nil
				}
				if (!neg && b.Op == token.EQL) || (neg && (b.Op == token.GTR || b.Op == token.NEQ)) {
					return c.Call.Args[0]
				}
				return nil
			}
			nUse, nGuarded := 0, 0
			allInstrs(fsf, false, func(in ssa.Instruction) {
				c, ok := in.(*ssa.Call)
				if !ok || ssaCalleeObj(c) == nil || !regionObjs[ssaCalleeObj(c).Origin()] || ssaCalleeObj(c).Name() == "findAllFields" {
					return
				}
				for _, a := range c.Call.Args {
					if !tainted(a, 0) {
						continue
					}
					nUse++
					for _, f := range factsAt(c.Block()) {
						if l := emptyList(f); l != nil && !tainted(l, 0) {
							nGuarded++
							break
						}
					}
				}
			})
			if nUse > 0 && nUse == nGuarded {
				okPref = true
			}
		}
		switch {
		case bad != "":
			r.Bad("xtype.FindField/resolution", p.PosStr(ff.Decl.Pos()), bad)
		case nOK != 1 || nNone < 1 || nAmb < 1:
			r.Bad("xtype.FindField/resolution", p.PosStr(ff.Decl.Pos()), fmt.Sprintf("expected one match return, a NoMatchError return and an ambiguity error return; found %d/%d/%d", nOK, nNone, nAmb))
		case !okPref:
			r.Bad("xtype.FindField/resolution", p.PosStr(ff.Decl.Pos()), "case-insensitive candidates are not restricted to the case `no exact candidate`: an exact-name match no longer takes precedence")
		default:
			r.OK("xtype.FindField/resolution", p.PosStr(ff.Decl.Pos()), "exact matches first; exactly one → match, none → NoMatchError, several → ambiguity error (SSA dominance)")
		}
	}
	if mf := p.Func("builder.mapField"); mf != nil {
		info := mf.Pkg.TypesInfo
		calls := findCalls(info, mf.Decl, modPath+"/xtype", "", "FindField")
		ok := false
		if len(calls) == 1 && len(calls[0].Args) == 4 {
			a := calls[0].Args
			if strings.HasSuffix(exprString(a[0]), ".Name()") && isFieldSel(info, a[1], modPath+"/config", "Common", "MatchIgnoreCase") && isParamIdent(info, mf, a[2], 4) && isParamIdent(info, mf, a[3], 6) {
				// only when no explicit path is configured
				st := stackTo(mf.Decl, calls[0])
				for _, g := range guardsOf(st, calls[0]) {
					if g.Cond != nil && !g.Neg && strings.HasSuffix(exprString(g.Cond), `== ""`) {
						ok = true
					}
				}
			}
		}
		if ok {
			r.OK("builder.mapField/lookup", p.PosStr(mf.Decl.Pos()), "explicit goverter:map path if configured, else FindField(target field name, matchIgnoreCase, source, autoMap sources)")
		} else {
			r.Bad("builder.mapField/lookup", p.PosStr(mf.Decl.Pos()), "the source lookup is not FindField(targetField.Name(), ctx.Conf.MatchIgnoreCase, source, additionalFieldSources) under `no explicit path`")
		}
	} else {
		r.Unresolved("builder.mapField")
	}
}

func isNoMatchErr(v ssa.Value) bool {
	mi, ok := v.(*ssa.MakeInterface)
	return ok && isNamed(mi.X.Type(), modPath+"/xtype", "NoMatchError")
}

func edgeIsTrueOf(pred, succ *ssa.BasicBlock, is func(ssa.Value) bool) bool {
	ifi, ok := pred.Instrs[len(pred.Instrs)-1].(*ssa.If)
	return ok && is(ifi.Cond) && len(pred.Succs) == 2 && pred.Succs[0] == succ
}

// sameIterationBefore: both calls sit in the same loop body and a precedes b within one iteration
// (a's block dominates b's block; dominance inside a loop body is per iteration).
func sameIterationBefore(a, b ssa.CallInstruction) bool {
	ai, bi := a.(ssa.Instruction), b.(ssa.Instruction)
	return ai.Block().Dominates(bi.Block()) && ai.Block() != bi.Block()
}
