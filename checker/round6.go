package main

import (
	"fmt"
	"go/ast"
	"go/token"
	"go/types"
	"strings"

	"golang.org/x/tools/go/ssa"
)

// Rules added after the sixth round of seeded changes (property groups, any file).

// ---------------------------------------------------------------------------
// C05.R14 / C06.R18: lookups are made with the contexts that are available, not with the method's own

func lookupContextRule(p *Prog, r *Report, id string) {
	r.Rule(id, "whether a declared method or extend function exists for a type pair is asked with the context arguments that can be passed at that point: every call of method.(*Index).Get in package generator receives ctx.AvailableContext (or the available-context parameter of buildMethod), never the Context of the method configuration — inside generated helpers the two differ, and a declared method that needs a context would be overlooked (its field settings bypassed, or the automatic conversion used instead)", 5)
	n := 0
	for _, fi := range p.Funcs {
		if fi.Lit != nil || relPkg(fi.Pkg.PkgPath) != "generator" {
			continue
		}
		sf := p.SSAFunc(fi)
		if sf == nil {
			continue
		}
		cnt := 0
		allInstrs(sf, true, func(in ssa.Instruction) {
			c, ok := in.(ssa.CallInstruction)
			if !ok || ssaCalleeObj(c) == nil || ssaCalleeObj(c).Name() != "Get" || recvTypeName(ssaCalleeObj(c)) != "Index" {
				return
			}
			args := c.Common().Args
			if len(args) < 3 {
				return
			}
			n++
			cnt++
			site := fmt.Sprintf("%s/Index.Get#%d available context", fi.Name(), cnt)
			a := args[2]
			_, isPrm := a.(*ssa.Parameter)
			isAvail := loadsField(a, "AvailableContext")
			if call, isCall := a.(*ssa.Call); isCall && ssaCalleeObj(call) != nil && ssaCalleeObj(call).Name() == "availableContext" {
				isAvail = true
			}
			switch {
			case isAvail || isPrm:
				r.OK(site, p.PosStr(in.Pos()), "the available context")
			default:
				r.Bad(site, p.PosStr(in.Pos()), "the lookup is made with "+a.String()+" instead of the available context: in a generated helper the method's own Context holds only what was retrofitted so far, so a declared method / extend function that needs a context is not found")
			}
		})
	}
	r.Analysed["index_get_calls"] = n
}

// ---------------------------------------------------------------------------
// C06.R19: an extend function on the underlying type of any named type is found

func underlyingMappingCompleteRule(p *Prog, r *Report, id string) {
	r.Rule(id, "useUnderlyingTypeMethods unwraps every named type, not only some kinds: evaluated with source.Named (resp. target.Named) true and every ctx.HasMethod(…) answer true, builder.findUnderlyingExtendMapping cannot return (false, false) — no further test on the kind of the named type (Basic, Struct …) hides an extend function declared on its underlying type", 2)
	fi, sf := needFunc(p, r, "builder.findUnderlyingExtendMapping")
	if fi == nil {
		return
	}
	for _, role := range []string{"source", "target"} {
		role := role
		n := 0
		sc := &absScenario{
			assume: func(v ssa.Value, _ func(ssa.Value) absVal) (absVal, bool) {
				if rl, path := roleFieldPath(v); rl == role && path == "Named" {
					return aBool(true), true
				}
				return aUnknown, false
			},
			calls: func(c *ssa.Call, _ func(ssa.Value) absVal) (absVal, bool) {
				if loadsField(c.Call.Value, "HasMethod") {
					n++
					return aBool(true), true
				}
				return aUnknown, false
			},
		}
		got := absReach(sf, sc, func(ret *ssa.Return, eval func(ssa.Value) absVal) bool {
			if len(ret.Results) != 2 {
				return false
			}
			a, b := eval(ret.Results[0]), eval(ret.Results[1])
			return !(a.k == absBool && a.b) && !(b.k == absBool && b.b) && !(a.k == absUnknown && false)
		})
		site := "builder.findUnderlyingExtendMapping/named " + role
		switch {
		case got != nil:
			r.Bad(site, p.PosStr(got.Pos()), "no hit can be reported although the "+role+" type is named and a function for its underlying type exists: the named type is not unwrapped for some kinds, so the extend function is silently bypassed")
		case n == 0:
			r.Bad(site, p.PosStr(fi.Decl.Pos()), "ctx.HasMethod is not consulted")
		default:
			r.OK(site, p.PosStr(fi.Decl.Pos()), "a hit is reported on every path")
		}
	}
}

// ---------------------------------------------------------------------------
// C08.R16: the results of all configured transformers are merged

func transformersMergedRule(p *Prog, r *Report, id string) {
	r.Rule(id, "several enum:transform lines all take effect: builder.executeTransformers returns the one map it created before the loop over the configured transformers, filled by map updates inside that loop — the accumulator is never replaced by the result of a single transformer", 1)
	fi, sf := needFunc(p, r, "builder.executeTransformers")
	if fi == nil {
		return
	}
	bad := ""
	n := 0
	allInstrs(sf, false, func(in ssa.Instruction) {
		ret, ok := in.(*ssa.Return)
		if !ok || len(ret.Results) == 0 {
			return
		}
		if len(ret.Results) == 2 && !isNilConst(ret.Results[1]) {
			return // failing return
		}
		n++
		v := ret.Results[0]
		if ld, ok := v.(*ssa.UnOp); ok && ld.Op == token.MUL {
			if cell, ok := ld.X.(*ssa.Alloc); ok && cell.Referrers() != nil {
				for _, ref := range *cell.Referrers() {
					if st, ok := ref.(*ssa.Store); ok && st.Addr == cell {
						if _, isMake := st.Val.(*ssa.MakeMap); !isMake {
							bad = p.PosStr(st.Pos()) + ": the accumulator is assigned " + st.Val.String()
						}
					}
				}
				return
			}
		}
		if _, isMake := v.(*ssa.MakeMap); !isMake {
			bad = p.PosStr(ret.Pos()) + ": the returned mapping is " + v.String() + ", not the map created before the loop"
		}
	})
	// and it is filled inside the loop
	filled := false
	allInstrs(sf, false, func(in ssa.Instruction) {
		if mu, ok := in.(*ssa.MapUpdate); ok {
			if b, _ := loopBodyOf(mu); b != nil {
				filled = true
			}
		}
	})
	switch {
	case bad != "":
		r.Bad("builder.executeTransformers/accumulator", p.PosStr(fi.Decl.Pos()), bad+": with several transformers only the last one's result survives")
	case n == 0 || !filled:
		r.Bad("builder.executeTransformers/accumulator", p.PosStr(fi.Decl.Pos()), "no accumulating map found")
	default:
		r.OK("builder.executeTransformers/accumulator", p.PosStr(fi.Decl.Pos()), "one map, filled for every transformer")
	}
}

// ---------------------------------------------------------------------------
// C13.R2h: a pointer taken from a map may be nil

func mapLookupNilRule(p *Prog, r *Report, id string) {
	r.Rule(id, "a *packages.Package read from the loader's table without comma-ok is nil for a package that was not loaded: every field access through such a value is dominated by a nil test of it — the table is asked for packages named in directives, and a package path written differently there must end in the `failed to load package` diagnostic, not in a nil dereference", 1)
	n := 0
	for _, fi := range p.Funcs {
		if fi.Lit != nil {
			continue
		}
		sf := p.SSAFunc(fi)
		if sf == nil {
			continue
		}
		cnt := 0
		allInstrs(sf, true, func(in ssa.Instruction) {
			lk, ok := in.(*ssa.Lookup)
			if !ok || lk.CommaOk || lk.Referrers() == nil {
				return
			}
			if _, isMap := lk.X.Type().Underlying().(*types.Map); !isMap {
				return
			}
			pt, isPtr := lk.Type().Underlying().(*types.Pointer)
			if !isPtr || !isNamed(pt.Elem(), "golang.org/x/tools/go/packages", "Package") {
				return // tables whose keys exist by construction (files by name, contexts by type) are not meant
			}
			for _, ref := range *lk.Referrers() {
				var use ssa.Instruction
				switch x := ref.(type) {
				case *ssa.FieldAddr:
					if x.X == ssa.Value(lk) {
						use = x
					}
				case *ssa.UnOp:
					if x.Op == token.MUL && x.X == ssa.Value(lk) {
						use = x
					}
				}
				if use == nil {
					continue
				}
				n++
				cnt++
				site := fmt.Sprintf("%s/map element dereferenced#%d", fi.Name(), cnt)
				guarded := false
				for _, f := range factsAt(use.Block()) {
					v := f
					neg := false
					if nf, isNeg := f.(negFact); isNeg {
						v, neg = nf.Value, true
					}
					if b, ok := v.(*ssa.BinOp); ok && (b.X == ssa.Value(lk) || b.Y == ssa.Value(lk)) {
						other := b.Y
						if other == ssa.Value(lk) {
							other = b.X
						}
						if isNilConst(other) && ((b.Op == token.NEQ && !neg) || (b.Op == token.EQL && neg)) {
							guarded = true
						}
					}
				}
				if guarded {
					r.OK(site, p.PosStr(use.Pos()), "under a nil test of the looked-up pointer")
				} else {
					r.Bad(site, p.PosStr(use.Pos()), "the pointer read from the map is dereferenced without a nil test: a key that is not in the map (e.g. a package path written differently in a directive) crashes goverter instead of producing a diagnostic")
				}
			}
		})
	}
	r.Analysed["map_pointer_derefs"] = n
	if n == 0 {
		r.Bad("own code/map pointer lookups", "", "no dereferenced map lookup found (vacuous)")
	}
}

// ---------------------------------------------------------------------------
// C14.R13 / C19.R12: per-package caches are keyed by the package path

func localsKeyRule(p *Prog, r *Report, id string) {
	r.Rule(id, "function-level settings are cached per package *path*: every read and write of PackageLoader.locals uses <pkg>.PkgPath as key — the package name is not unique (a/util and b/util), a shared entry would apply one package's `goverter:context` declarations to the other's functions", 2)
	n := 0
	for _, rf := range p.Region("pkgload.(*PackageLoader).localConfig") {
		sf := p.SSAFunc(rf)
		if sf == nil {
			continue
		}
		allInstrs(sf, true, func(in ssa.Instruction) {
			var m, key ssa.Value
			switch x := in.(type) {
			case *ssa.Lookup:
				m, key = x.X, x.Index
			case *ssa.MapUpdate:
				m, key = x.Map, x.Key
			default:
				return
			}
			if !loadsField(m, "locals") {
				return
			}
			n++
			site := fmt.Sprintf("%s/locals[…]#%d", rf.Name(), n)
			if loadsField(key, "PkgPath") {
				r.OK(site, p.PosStr(in.Pos()), "keyed by PkgPath")
			} else {
				r.Bad(site, p.PosStr(in.Pos()), "the cache of function-level settings is keyed by "+key.String()+", not by the package path: packages that merely share a name share their entries")
			}
		})
	}
	if n < 2 {
		r.Bad("pkgload.(*PackageLoader).localConfig/locals", "", fmt.Sprintf("only %d accesses of the locals cache found", n))
	}
}

// ---------------------------------------------------------------------------
// C15.R11 / C12.R17: a converter-level setting writes its own fields only

var converterArmFields = map[string][]string{
	"name":           {"Name"},
	"output:raw":     {"OutputRaw"},
	"output:file":    {"OutputFile"},
	"output:format":  {"OutputFormat"},
	"output:package": {"OutputPackagePath", "OutputPackageName"},
	"struct:comment": {"Comments"},
	"extend":         {"Extend"},
}

func converterArmInventoryRule(p *Prog, r *Report, id string) {
	r.Rule(id, "a converter-level setting changes its own fields and no others: evaluated with the command fixed, no successful return of config.parseConverterLine is reached after a store to a ConverterConfig field that belongs to another setting (output:file does not reset output:package, name does not touch the output file …) — the result must not depend on the order in which the lines are written", len(converterArmFields))
	fi, sf := needFunc(p, r, "config.parseConverterLine")
	if fi == nil {
		return
	}
	all := map[string]bool{}
	for _, fs := range converterArmFields {
		for _, f := range fs {
			all[f] = true
		}
	}
	for key, allowed := range converterArmFields {
		key, allowed := key, allowed
		tracked := map[string]absVal{}
		for f := range all {
			tracked[f] = aStr("<unset>")
		}
		nCmd := 0
		sc := &absScenario{
			tracked:     tracked,
			unsetMarker: "<unset>",
			onStore:     func(string, absVal) absVal { return aStr("<set>") },
			fieldOK: func(fa *ssa.FieldAddr) bool {
				// fields of ConverterConfig / Converter only
				if pt, ok := fa.X.Type().Underlying().(*types.Pointer); ok {
					return isNamed(pt.Elem(), modPath+"/config", "ConverterConfig") || isNamed(pt.Elem(), modPath+"/config", "Converter")
				}
				return false
			},
			assume: func(v ssa.Value, _ func(ssa.Value) absVal) (absVal, bool) {
				if extractOf(v, 0, modPath+"/config/parse", "Command") {
					nCmd++
					return aStr(key), true
				}
				return aUnknown, false
			},
		}
		other := ""
		got := absReachState(sf, sc, func(ret *ssa.Return, eval func(ssa.Value) absVal, st map[string]absVal) bool {
			if a := eval(ret.Results[len(ret.Results)-1]); a.k == absNonNil {
				return false
			}
			for f := range all {
				if has(allowed, f) {
					continue
				}
				if v := st[f]; !(v.k == absStr && v.s == "<unset>") {
					other = f
					return true
				}
			}
			return false
		})
		site := fmt.Sprintf("config.parseConverterLine/%q writes only %s", key, strings.Join(allowed, ", "))
		switch {
		case nCmd == 0:
			r.Bad(site, p.PosStr(fi.Decl.Pos()), "the command (first result of parse.Command) is not recognisable")
		case got != nil:
			r.Bad(site, p.PosStr(got.Pos()), fmt.Sprintf("the setting also writes .%s: a value configured by another line (e.g. an earlier output:package, or one given with -g) is silently replaced, and the result depends on the order of the lines", other))
		default:
			r.OK(site, p.PosStr(fi.Decl.Pos()), "no other field is stored")
		}
	}
}

// ---------------------------------------------------------------------------
// C15.R12: generator.Generate rejects nothing on its own

func generateNoOwnErrorsRule(p *Prog, r *Report, id string) {
	r.Rule(id, "converters that select the same file and agree on the package are merged: generator.Generate (with its private helpers) constructs no diagnostic of its own — every error it returns comes from setupGenerator, validateMethods, the builders or fileManager (whose only rejection is the PackageID comparison, C15.R4); a further uniqueness check there would refuse valid combinations", 1)
	fi := p.Func("generator.Generate")
	if fi == nil {
		r.Unresolved("generator.Generate")
		return
	}
	n := 0
	// Generate and the receiver-less private functions it calls directly or through other such functions — not what
	// is reached through methods of generator / fileManager (the builders' and the file manager's own diagnostics)
	plain := map[*FuncInfo]bool{fi: true}
	for changed := true; changed; {
		changed = false
		for _, cs := range p.Calls() {
			f, ok := cs.Callee.(*types.Func)
			if !ok || cs.Encl == nil || !plain[cs.Encl] || f.Exported() || f.Type().(*types.Signature).Recv() != nil || objPkgPath(f) != modPath+"/generator" {
				continue
			}
			if h := p.Func(funcKey(f)); h != nil && !plain[h] && h.Name() != "generator.setupGenerator" && h.Name() != "generator.validateMethods" {
				plain[h] = true
				changed = true
			}
		}
	}
	for _, rf := range p.Funcs {
		if !plain[rf] {
			continue
		}
		info := rf.Pkg.TypesInfo
		ast.Inspect(rf.Decl, func(nd ast.Node) bool {
			call, ok := nd.(*ast.CallExpr)
			if !ok {
				return true
			}
			fn, ok := calleeObj(info, call).(*types.Func)
			if !ok {
				return true
			}
			if isFunc(fn, "fmt", "", "Errorf") || isFunc(fn, "errors", "", "New") || isFunc(fn, modPath+"/builder", "", "NewError") {
				n++
				r.Bad(rf.Name()+"/"+fn.Name(), p.PosStr(call.Pos()), "generator.Generate creates a diagnostic of its own: converters that may legitimately share a file (same package, e.g. two `output:format function` converters with equally named interfaces) can be rejected")
			}
			return true
		})
	}
	if n == 0 {
		r.OK("generator.Generate/no own diagnostics", p.PosStr(fi.Decl.Pos()), "only propagates errors")
	}
}

// ---------------------------------------------------------------------------
// C01.R17: a conversion is the identity only between types that are assignable as they are

func structIdentityRule(p *Prog, r *Report, id string) {
	r.Rule(id, "the `return source as it is` shortcut of builder.(*Struct).Build applies to unnamed struct types only: every return of the unmodified sourceID is dominated by the facts !source.Named and !target.Named — two different named struct types with identical underlying structs are not assignable to one another (`return source` would not compile)", 1)
	fi, sf := needFunc(p, r, "builder.(*Struct).Build")
	if fi == nil {
		return
	}
	var src *ssa.Parameter
	for _, prm := range sf.Params {
		if pt, ok := prm.Type().(*types.Pointer); ok && isNamed(pt.Elem(), modPath+"/xtype", "JenID") {
			src = prm
		}
	}
	n := 0
	allInstrs(sf, false, func(in ssa.Instruction) {
		ret, ok := in.(*ssa.Return)
		if !ok || len(ret.Results) != 3 || src == nil || ret.Results[1] != ssa.Value(src) {
			return
		}
		n++
		need := map[string]bool{"source": false, "target": false}
		for _, f := range factsAt(ret.Block()) {
			nf, isNeg := f.(negFact)
			if !isNeg {
				continue
			}
			if role, path := roleFieldPath(nf.Value); path == "Named" {
				need[role] = true
			}
		}
		site := fmt.Sprintf("builder.(*Struct).Build/identity return#%d", n)
		if !(need["source"] && need["target"]) {
			// the condition may be a private predicate: evaluate with either type named
			if structIdentityUnreachable(sf, "source.Named") && structIdentityUnreachable(sf, "target.Named") {
				need["source"], need["target"] = true, true
			}
		}
		if need["source"] && need["target"] {
			r.OK(site, p.PosStr(ret.Pos()), "only for two unnamed struct types")
		} else {
			r.Bad(site, p.PosStr(ret.Pos()), "the source is returned unconverted although source or target may be a named struct type: `return source` does not type-check between two different named types")
		}
	})
	if n == 0 {
		r.OK("builder.(*Struct).Build/identity return", p.PosStr(fi.Decl.Pos()), "no identity shortcut")
	}
}

// ---------------------------------------------------------------------------
// C19.R9 (addition): the settings of every package-level function are collected

// localConfigAllFunctionsSSA: the store into the per-name table depends, inside the loops over files and
// declarations, only on `is a *ast.FuncDecl`, `Recv == nil` and `there are setting lines` — no further filter (exported
// names only, …) drops the doc settings of a function that can legally be used as custom function.  "" = holds.
func localConfigAllFunctionsSSA(p *Prog) string {
	n := 0
	why := ""
	for _, rf := range p.Region("pkgload.(*PackageLoader).localConfig") {
		sf := p.SSAFunc(rf)
		if sf == nil {
			continue
		}
		allInstrs(sf, false, func(in ssa.Instruction) {
			mu, ok := in.(*ssa.MapUpdate)
			if !ok {
				return
			}
			mt, ok := mu.Map.Type().Underlying().(*types.Map)
			if !ok || !isNamed(mt.Elem(), modPath+"/method", "LocalOpts") {
				return
			}
			body, _ := loopBodyOf(mu)
			if body == nil {
				return
			}
			// outermost loop body that still dominates the store
			for {
				var outer *ssa.BasicBlock
				for d := body.Idom(); d != nil; d = d.Idom() {
					if strings.HasSuffix(d.Comment, ".body") {
						outer = d
						break
					}
				}
				if outer == nil {
					break
				}
				body = outer
			}
			n++
			for _, f := range factsAt(mu.Block()) {
				v := f
				neg := false
				if nf, isNeg := f.(negFact); isNeg {
					v, neg = nf.Value, true
				}
				def, isInstr := v.(ssa.Instruction)
				if !isInstr || def.Block() == nil || !(body == def.Block() || body.Dominates(def.Block())) {
					continue
				}
				switch x := v.(type) {
				case *ssa.Phi:
					continue
				case *ssa.Extract:
					if ta, ok := x.Tuple.(*ssa.TypeAssert); ok && x.Index == 1 && !neg && isNamed(derefType(ta.AssertedType), "go/ast", "FuncDecl") {
						continue
					}
					if _, isNext := x.Tuple.(*ssa.Next); isNext {
						continue
					}
				case *ssa.BinOp:
					if x.Op == token.LSS {
						continue // loop index condition
					}
					if loadsField(x.X, "Recv") && isNilConst(x.Y) && ((x.Op == token.EQL && !neg) || (x.Op == token.NEQ && neg)) {
						continue
					}
					if c, ok := x.X.(*ssa.Call); ok {
						if b, ok := c.Call.Value.(*ssa.Builtin); ok && b.Name() == "len" {
							continue // `no setting lines` skip
						}
					}
				}
				why = "the doc settings of a package-level function are recorded only under the additional condition `" + v.String() + "`: functions it excludes (e.g. unexported ones, which are valid custom functions inside their own package) lose their `goverter:context` declarations"
			}
		})
	}
	if n == 0 {
		return "store into the per-name settings table not found"
	}
	return why
}

// structIdentityUnreachable evaluates builder.(*Struct).Build with one condition of its empty-struct shortcut violated
// (which: "source.Named", "target.Named", "source.fields", "target.fields") and reports whether the return of the
// unmodified sourceID is then unreachable.  Private predicate helpers are walked into.
func structIdentityUnreachable(sf *ssa.Function, which string) bool {
	var src *ssa.Parameter
	for _, prm := range sf.Params {
		if pt, ok := prm.Type().(*types.Pointer); ok && isNamed(pt.Elem(), modPath+"/xtype", "JenID") {
			src = prm
		}
	}
	if src == nil {
		return false
	}
	n := 0
	sc := &absScenario{
		assume: func(v ssa.Value, _ func(ssa.Value) absVal) (absVal, bool) {
			if role, path := roleFieldPath(v); path == "Named" && role+".Named" == which {
				n++
				return aBool(true), true
			}
			if b, ok := v.(*ssa.BinOp); ok && (b.Op == token.EQL || b.Op == token.NEQ) {
				if c, ok := b.X.(*ssa.Call); ok && ssaCalleeObj(c) != nil && isFunc(ssaCalleeObj(c), "go/types", "Struct", "NumFields") && len(c.Call.Args) == 1 {
					if k, ok := b.Y.(*ssa.Const); ok && k.Value != nil && k.Int64() == 0 {
						if role, path := roleFieldPath(c.Call.Args[0]); path == "StructType" && role+".fields" == which {
							n++
							return aBool(b.Op == token.NEQ), true // the struct has fields
						}
					}
				}
			}
			return aUnknown, false
		},
	}
	got := absReach(sf, sc, func(ret *ssa.Return, _ func(ssa.Value) absVal) bool {
		return len(ret.Results) == 3 && ret.Results[1] == ssa.Value(src)
	})
	return got == nil && n > 0
}
