package main

import (
	"fmt"
	"go/ast"
	"go/token"
	"go/types"
	"strings"
)

func init() {
	register(&Check{
		ID: "C14", Level: "other",
		Explanation: "Decides structural necessary conditions of method.Parse and its users: (R1) in the parameter loop every path through the role switch assigns arg.Use exactly once and the argument is appended " +
			"to RawArgs exactly once per iteration, unconditionally and in index order; generator.buildMethod walks RawArgs in order and emits exactly one parameter per non-panicking role; (R2) the success return of " +
			"Parse is preceded by every validation guard (accessibility, is-a-function, result arity 1..2 evaluated on 0..4, second result must be error, generics unless allowed, source count vs. mode, " +
			"additional sources, update argument exists, update results), each returning an error; (R3) isError recognises exactly the built-in error (named, name `error`, no package — or identity with the universe type), " +
			"never by underlying type; (R4) the documented method.ParseOpts per use site (converter method, extend, map|FUNC, default, struct-method source) incl. the context regex of the right level.",
		NotDecided: []string{"the classification as a function of all parameter permutations (run-time behaviour of Parse)", "run-time argument routing in generated code"},
		Run:        runC14,
	})
}

func runC14(p *Prog, r *Report) {
	fi := p.Func("method.Parse")
	if fi == nil {
		r.Rule("C14.R1", "anchors", 0)
		r.Unresolved("method.Parse")
		return
	}
	info := fi.Pkg.TypesInfo

	// ---- R1
	r.Rule("C14.R1", "one role per parameter: in method.Parse's parameter loop each arm of the role switch (incl. default) assigns arg.Use once, and `RawArgs = append(RawArgs, arg)` occurs once per iteration outside any condition; buildMethod ranges over RawArgs and appends exactly one emitted parameter per role arm", 6)
	// the parameter loop is the loop whose body appends to Parameters.RawArgs (whatever its header looks like)
	var loop *ast.ForStmt
	walkStack(fi.Decl, func(n ast.Node, stack []ast.Node) bool {
		as, ok := n.(*ast.AssignStmt)
		if !ok || loop != nil || len(as.Lhs) != 1 || !isFieldSel(info, as.Lhs[0], modPath+"/method", "Parameters", "RawArgs") {
			return true
		}
		for i := len(stack) - 1; i >= 0; i-- {
			if fs, ok := stack[i].(*ast.ForStmt); ok {
				loop = fs
				break
			}
			if rs, ok := stack[i].(*ast.RangeStmt); ok {
				// normalise to the fields the rule uses
				loop = &ast.ForStmt{For: rs.For, Body: rs.Body}
				break
			}
		}
		return true
	})
	if loop == nil {
		r.Unresolved("parameter loop in method.Parse")
	} else {
		// append at top level of loop body
		nApp, appTop := 0, false
		for _, s := range loop.Body.List {
			if as, ok := s.(*ast.AssignStmt); ok && len(as.Lhs) == 1 && isFieldSel(info, as.Lhs[0], modPath+"/method", "Parameters", "RawArgs") {
				appTop = true
			}
		}
		ast.Inspect(loop.Body, func(n ast.Node) bool {
			if as, ok := n.(*ast.AssignStmt); ok && len(as.Lhs) == 1 && isFieldSel(info, as.Lhs[0], modPath+"/method", "Parameters", "RawArgs") {
				nApp++
			}
			return true
		})
		if nApp == 1 && appTop {
			r.OK("method.Parse/RawArgs append", p.PosStr(loop.Pos()), "exactly one unconditional append per parameter, in index order")
		} else {
			r.Bad("method.Parse/RawArgs append", p.PosStr(loop.Pos()), fmt.Sprintf("RawArgs is appended %d time(s) per iteration (unconditional: %v): parameters would be dropped, duplicated or reordered in the emitted signature", nApp, appTop))
		}
		// role switch
		var sw *ast.SwitchStmt
		for _, s := range loop.Body.List {
			if x, ok := s.(*ast.SwitchStmt); ok {
				sw = x
			}
		}
		if sw == nil {
			r.Bad("method.Parse/role switch", p.PosStr(loop.Pos()), "no role switch at the top level of the parameter loop")
		} else {
			hasDefault := false
			for i, c := range sw.Body.List {
				cc := c.(*ast.CaseClause)
				if len(cc.List) == 0 {
					hasDefault = true
				}
				n := 0
				ast.Inspect(cc, func(m ast.Node) bool {
					if as, ok := m.(*ast.AssignStmt); ok {
						for _, l := range as.Lhs {
							if isFieldSel(info, l, modPath+"/method", "Arg", "Use") {
								n++
							}
						}
					}
					return true
				})
				label := "default"
				if len(cc.List) > 0 {
					label = short(exprString(cc.List[0]), 60)
				}
				site := fmt.Sprintf("method.Parse/role arm %d (%s)", i+1, label)
				if n == 1 {
					r.OK(site, p.PosStr(cc.Pos()), "assigns arg.Use once")
				} else {
					r.Bad(site, p.PosStr(cc.Pos()), fmt.Sprintf("assigns arg.Use %d times: the parameter would have no role or two", n))
				}
			}
			if !hasDefault {
				r.Bad("method.Parse/role switch default", p.PosStr(sw.Pos()), "the role switch has no default: a parameter could stay without role")
			}
			// arm order: interface → update target → context → first source → additional source
			roles := []string{}
			for _, c := range sw.Body.List {
				cc := c.(*ast.CaseClause)
				ast.Inspect(cc, func(m ast.Node) bool {
					if as, ok := m.(*ast.AssignStmt); ok {
						for i, l := range as.Lhs {
							if isFieldSel(info, l, modPath+"/method", "Arg", "Use") && len(as.Rhs) == len(as.Lhs) {
								roles = append(roles, exprString(as.Rhs[i]))
							}
						}
					}
					return true
				})
			}
			want := "ArgUseInterface,ArgUseTarget,ArgUseContext,ArgUseSource,ArgUseMultiSource"
			if strings.Join(roles, ",") == want {
				r.OK("method.Parse/role precedence", p.PosStr(sw.Pos()), "converter interface > update target > context > first source > additional source")
			} else {
				r.Bad("method.Parse/role precedence", p.PosStr(sw.Pos()), "role arms are "+strings.Join(roles, ",")+"; documented precedence is "+want)
			}
		}
	}
	if region := p.Region("generator.(*generator).buildMethod"); region != nil {
		var rng *ast.RangeStmt
		var bm *FuncInfo
		for _, f := range region {
			binfo := f.Pkg.TypesInfo
			ast.Inspect(f.Decl, func(n ast.Node) bool {
				if rs, ok := n.(*ast.RangeStmt); ok && rng == nil && isFieldSel(binfo, rs.X, modPath+"/method", "Parameters", "RawArgs") {
					// the loop that emits `name type` parameters (not the argument loops of the call emitters)
					emits := false
					ast.Inspect(rs.Body, func(m ast.Node) bool {
						if call, ok := m.(*ast.CallExpr); ok {
							if ch, ok := chainOf(binfo, call); ok && ch.Root == nil && ch.Links[0].Name == "Id" && len(ch.Links) >= 2 && ch.Links[1].Name == "Add" {
								emits = true
							}
						}
						return true
					})
					if emits {
						rng = rs
						bm = f
					}
				}
				return true
			})
		}
		if rng == nil {
			r.Bad("generator.(*generator).buildMethod/params", p.PosStr(region[0].Decl.Pos()), "buildMethod does not range over RawArgs: emitted parameters would not follow the declared order")
		} else {
			binfo := bm.Pkg.TypesInfo
			var sw *ast.SwitchStmt
			for _, s := range rng.Body.List {
				if x, ok := s.(*ast.SwitchStmt); ok {
					sw = x
				}
			}
			okAll := sw != nil
			if sw != nil {
				for _, c := range sw.Body.List {
					cc := c.(*ast.CaseClause)
					nApp, isPanic := 0, false
					ast.Inspect(cc, func(m ast.Node) bool {
						if as, ok := m.(*ast.AssignStmt); ok && len(as.Lhs) == 1 && len(as.Rhs) == 1 {
							if call, ok := ast.Unparen(as.Rhs[0]).(*ast.CallExpr); ok && len(call.Args) == 2 {
								if b, ok := calleeObj(binfo, call).(*types.Builtin); ok && b.Name() == "append" && exprString(call.Args[0]) == exprString(as.Lhs[0]) {
									if ch, ok := chainOf(binfo, call.Args[1]); ok && ch.Root == nil && ch.Links[0].Name == "Id" && len(ch.Links) >= 2 && ch.Links[1].Name == "Add" {
										nApp++
									}
								}
							}
						}
						if call, ok := m.(*ast.CallExpr); ok {
							if b, ok := calleeObj(binfo, call).(*types.Builtin); ok && b.Name() == "panic" {
								isPanic = true
							}
						}
						return true
					})
					if !isPanic && nApp != 1 {
						okAll = false
					}
				}
			}
			if okAll {
				r.OK("generator.(*generator).buildMethod/params", p.PosStr(rng.Pos()), "one emitted parameter per RawArgs element, in order")
			} else {
				r.Bad("generator.(*generator).buildMethod/params", p.PosStr(rng.Pos()), "a role arm of buildMethod does not append exactly one parameter")
			}
		}
	} else {
		r.Unresolved("generator.(*generator).buildMethod")
	}

	c14R2(p, r, fi)
	c14R3(p, r)
	c14R4(p, r)
	parseOptsOutputPkgRule(p, r, "C14.R5")
	noMemoParseRule(p, r, "C14.R6")
	sharedMapAliasRule(p, r, "C14.R7")
	signatureAssertRule(p, r, "C14.R8")
	localConfigFunctionsOnlyRule(p, r, "C14.R9")
	declaredSignatureRule(p, r, "C14.R10")
	localConfigNameRule(p, r, "C14.R11")
	patternsUnmodifiedRule(p, r, "C14.R12")
	localsKeyRule(p, r, "C14.R13")
	contextNamesAlwaysConsultedRule(p, r, "C14.R14")
}

// guardSpec: a validation that must exist in method.Parse as `if COND { return nil, <error> }`.
type guardSpec struct {
	name string
	test func(info *types.Info, cond ast.Expr) bool
}

// clauseRejects: the statement list ends in a return whose last result is not a zero literal
// (nil, "", false): the declaration is rejected. For (nil, error) shapes see returnsNilErr.
func clauseRejects(info *types.Info, list []ast.Stmt) bool {
	if len(list) == 0 {
		return false
	}
	ret, ok := list[len(list)-1].(*ast.ReturnStmt)
	if !ok || len(ret.Results) == 0 {
		return false
	}
	last := ast.Unparen(ret.Results[len(ret.Results)-1])
	if id, ok := last.(*ast.Ident); ok && (id.Name == "nil" || id.Name == "false") {
		return false
	}
	if s, ok := constString(info, last); ok && s == "" {
		return false
	}
	return true
}

// helperResultRejected: in anchor, the result of calling helper h is tested and leads to return (nil, error).
func helperResultRejected(p *Prog, anchor, h *FuncInfo) bool {
	if h == anchor {
		return true
	}
	info := anchor.Pkg.TypesInfo
	ok := false
	ast.Inspect(anchor.Decl, func(n ast.Node) bool {
		ifs, isIf := n.(*ast.IfStmt)
		if !isIf {
			return true
		}
		calls := false
		check := func(m ast.Node) {
			if m == nil {
				return
			}
			ast.Inspect(m, func(q ast.Node) bool {
				if c, isC := q.(*ast.CallExpr); isC {
					if f, isF := calleeObj(info, c).(*types.Func); isF && f == h.Obj {
						calls = true
					}
				}
				return true
			})
		}
		check(ifs.Init)
		check(ifs.Cond)
		if calls && returnsNilErr(info, ifs.Body) {
			ok = true
		}
		return true
	})
	return ok
}

func c14R2(p *Prog, r *Report, fi *FuncInfo) {
	r.Rule("C14.R2", "method.Parse rejects what the documentation rejects. Result validation is decided as a table by path-sensitive evaluation of the function (absint.go): for each combination of result count 0..4, `is the built-in error` at position 0/1, update argument set or not, and generic with/without AllowTypeParams, a success return is unreachable exactly for the undocumented shapes (and reachable for the documented ones); with goverter:update ARG no success is reachable while no parameter was recognised as ARG. Guards found structurally: inaccessible function; not a function; source count vs. ParamsNone/ParamsRequired; additional sources", 12)
	parseResultTable(p, r, fi)
	info := fi.Pkg.TypesInfo
	ment := func(pkg, typ, f string) func(info *types.Info, e ast.Expr) bool {
		return func(info *types.Info, e ast.Expr) bool { return mentionsField(info, e, pkg, typ, f) }
	}
	mp := modPath + "/method"
	guards := []guardSpec{
		{"inaccessible function (xtype.Accessible)", func(info *types.Info, c ast.Expr) bool {
			u, ok := ast.Unparen(c).(*ast.UnaryExpr)
			return ok && u.Op == token.NOT && callTo(info, u.X, modPath+"/xtype", "", "Accessible") != nil
		}},
		{"not a function (*types.Signature assertion failed)", func(info *types.Info, c ast.Expr) bool {
			u, ok := ast.Unparen(c).(*ast.UnaryExpr)
			if !ok || u.Op != token.NOT {
				return false
			}
			id, ok := ast.Unparen(u.X).(*ast.Ident)
			if !ok {
				return false
			}
			// ok variable of obj.Type().(*types.Signature)
			found := false
			ast.Inspect(fi.Decl, func(n ast.Node) bool {
				as, isAs := n.(*ast.AssignStmt)
				if isAs && len(as.Lhs) == 2 && len(as.Rhs) == 1 {
					if l, isID := as.Lhs[1].(*ast.Ident); isID && info.ObjectOf(l) == info.ObjectOf(id) {
						if ta, isTA := ast.Unparen(as.Rhs[0]).(*ast.TypeAssertExpr); isTA && isNamed(info.TypeOf(ta.Type), "go/types", "Signature") {
							found = true
						}
					}
				}
				return true
			})
			return found
		}},
	}
	site := func(g string) string { return "method.Parse/guard: " + g }
	region := p.Region("method.Parse")
	findGuard := func(test func(info *types.Info, cond ast.Expr) bool) (*ast.IfStmt, bool) {
		var hit *ast.IfStmt
		errRet := false
		for _, f := range region {
			ast.Inspect(f.Decl, func(n ast.Node) bool {
				ifs, ok := n.(*ast.IfStmt)
				if !ok || hit != nil {
					return true
				}
				if test(info, ifs.Cond) {
					hit = ifs
					if f == fi {
						errRet = returnsNilErr(info, ifs.Body)
					} else {
						errRet = clauseRejects(info, ifs.Body.List) && helperResultRejected(p, fi, f)
					}
				}
				return true
			})
		}
		return hit, errRet
	}
	for _, g := range guards {
		hit, errRet := findGuard(g.test)
		switch {
		case hit == nil:
			r.Bad(site(g.name), p.PosStr(fi.Decl.Pos()), "validation missing: such a declaration would be accepted and mis-generated")
		case !errRet:
			r.Bad(site(g.name), p.PosStr(hit.Pos()), "the guard no longer returns (nil, error)")
		default:
			r.OK(site(g.name), p.PosStr(hit.Pos()), "returns (nil, error)")
		}
	}
	// source count switch
	{
		checks := map[string]func(info *types.Info, e ast.Expr) bool{
			"no source allowed (ParamsNone) but one present": func(info *types.Info, e ast.Expr) bool {
				return strings.Contains(exprString(e), "ParamsNone") && ment(mp, "Parameters", "Source")(info, e)
			},
			"source required (ParamsRequired) but none present": func(info *types.Info, e ast.Expr) bool {
				return strings.Contains(exprString(e), "ParamsRequired") && ment(mp, "Parameters", "Source")(info, e)
			},
			"additional source parameters": func(info *types.Info, e ast.Expr) bool {
				return ment(mp, "ParseOpts", "ParamsMultiSource")(info, e) && ment(mp, "Parameters", "MultiSources")(info, e)
			},
		}
		for name, test := range checks {
			ok := false
			var where ast.Node = fi.Decl
			for _, f := range region {
				f := f
				rejects := func(list []ast.Stmt) bool {
					if f == fi {
						if len(list) == 0 {
							return false
						}
						ret, isRet := list[len(list)-1].(*ast.ReturnStmt)
						return isRet && retIsNilErr(info, ret)
					}
					return clauseRejects(info, list) && helperResultRejected(p, fi, f)
				}
				ast.Inspect(f.Decl, func(n ast.Node) bool {
					switch x := n.(type) {
					case *ast.CaseClause:
						if len(x.List) == 1 && test(info, x.List[0]) && rejects(x.Body) {
							ok, where = true, x
						}
					case *ast.IfStmt:
						if test(info, x.Cond) && rejects(x.Body.List) {
							ok, where = true, x
						}
					}
					return true
				})
			}
			if ok {
				r.OK(site(name), p.PosStr(where.Pos()), "rejected with an error")
			} else {
				r.Bad(site(name), p.PosStr(fi.Decl.Pos()), "validation missing")
			}
		}
	}
}

func callsIn2(info *types.Info, e ast.Node, pkg, name string) bool {
	return len(findCalls(info, e, pkg, "", name)) > 0
}

func retIsNilErr(info *types.Info, ret *ast.ReturnStmt) bool {
	if len(ret.Results) != 2 {
		return false
	}
	id, ok := ast.Unparen(ret.Results[0]).(*ast.Ident)
	if !ok || id.Name != "nil" {
		return false
	}
	if id2, ok := ast.Unparen(ret.Results[1]).(*ast.Ident); ok && id2.Name == "nil" {
		return false
	}
	return isErrorType(info.TypeOf(ret.Results[1]))
}

func returnsNilErr(info *types.Info, b *ast.BlockStmt) bool {
	if b == nil || len(b.List) == 0 {
		return false
	}
	ret, ok := b.List[len(b.List)-1].(*ast.ReturnStmt)
	return ok && retIsNilErr(info, ret)
}

// singleIntVar: cond is built from comparisons of one int variable with constants.
func singleIntVar(info *types.Info, cond ast.Expr) types.Object {
	var v types.Object
	ok := true
	var walk func(e ast.Expr)
	walk = func(e ast.Expr) {
		e = ast.Unparen(e)
		b, isB := e.(*ast.BinaryExpr)
		if !isB {
			ok = false
			return
		}
		switch b.Op {
		case token.LOR, token.LAND:
			walk(b.X)
			walk(b.Y)
		case token.EQL, token.NEQ, token.LSS, token.GTR, token.LEQ, token.GEQ:
			id, isID := ast.Unparen(b.X).(*ast.Ident)
			if !isID {
				ok = false
				return
			}
			if _, isC := constInt(info, b.Y); !isC {
				ok = false
				return
			}
			o := info.ObjectOf(id)
			if v != nil && v != o {
				ok = false
			}
			v = o
		default:
			ok = false
		}
	}
	walk(cond)
	if !ok {
		return nil
	}
	return v
}

func isResultsLen(info *types.Info, fi *FuncInfo, v types.Object) bool {
	def := localDef(info, fi.Decl, v)
	return def != nil && strings.Contains(exprString(def), "Results().Len()")
}

func evalIntCond(info *types.Info, cond ast.Expr, n int64) (bool, bool) {
	cond = ast.Unparen(cond)
	b, ok := cond.(*ast.BinaryExpr)
	if !ok {
		return false, false
	}
	switch b.Op {
	case token.LOR:
		x, ok1 := evalIntCond(info, b.X, n)
		y, ok2 := evalIntCond(info, b.Y, n)
		return x || y, ok1 && ok2
	case token.LAND:
		x, ok1 := evalIntCond(info, b.X, n)
		y, ok2 := evalIntCond(info, b.Y, n)
		return x && y, ok1 && ok2
	}
	k, ok := constInt(info, b.Y)
	if !ok {
		return false, false
	}
	switch b.Op {
	case token.EQL:
		return n == k, true
	case token.NEQ:
		return n != k, true
	case token.LSS:
		return n < k, true
	case token.GTR:
		return n > k, true
	case token.LEQ:
		return n <= k, true
	case token.GEQ:
		return n >= k, true
	}
	return false, false
}

func c14R3(p *Prog, r *Report) {
	r.Rule("C14.R3", "isError recognises exactly the built-in error: a *types.Named whose object is called `error` and has no package (or types.Identical with the universe's error type); it never looks at the underlying type", 1)
	fi := p.Func("method.isError")
	if fi == nil {
		r.Unresolved("method.isError")
		return
	}
	info := fi.Pkg.TypesInfo
	site := "method.isError"
	pos := p.PosStr(fi.Decl.Pos())
	usesUnderlying, named, nameErr, pkgNil, identical := false, false, false, false, false
	ast.Inspect(fi.Decl, func(n ast.Node) bool {
		switch x := n.(type) {
		case *ast.CallExpr:
			if fn, ok := calleeObj(info, x).(*types.Func); ok && objPkgPath(fn) == "go/types" {
				switch fn.Name() {
				case "Underlying", "Implements", "AssignableTo", "ConvertibleTo", "NewMethodSet", "MissingMethod":
					usesUnderlying = true
				case "Identical":
					if strings.Contains(exprString(x), "Universe") {
						identical = true
					}
				}
			}
		case *ast.TypeAssertExpr:
			if x.Type != nil && isNamed(info.TypeOf(x.Type), "go/types", "Named") {
				named = true
			}
		case *ast.BinaryExpr:
			if x.Op == token.EQL {
				if s, ok := constString(info, x.Y); ok && s == "error" && strings.HasSuffix(exprString(x.X), ".Name()") {
					nameErr = true
				}
				if id, ok := ast.Unparen(x.Y).(*ast.Ident); ok && id.Name == "nil" && strings.HasSuffix(exprString(x.X), ".Pkg()") {
					pkgNil = true
				}
			}
		}
		return true
	})
	switch {
	case usesUnderlying:
		r.Bad(site, pos, "isError inspects the underlying type / method set: user types such as `type MyErr error` would be accepted as error result, but the generated method returns the built-in error")
	case identical || (named && nameErr && pkgNil):
		r.OK(site, pos, "named type ∧ name == \"error\" ∧ Pkg() == nil")
	default:
		r.Bad(site, pos, fmt.Sprintf("isError is not the conjunction named(%v) ∧ name==error(%v) ∧ Pkg()==nil(%v)", named, nameErr, pkgNil))
	}
}

// optsSpec: documented ParseOpts per use site (Appendix B2).
type optsSpec struct {
	fn, label   string // enclosing function, case label ("" = whole function)
	params      string
	typeParams  bool
	converter   string // "nil" | "typeForMethod"
	ctxOwner    string // Method | Converter | StructMethodContextRegex
	generated   bool
	updateParam bool
	customCall  bool
}

var optsTable = []optsSpec{
	{"config.parseMethod", "", "ParamsRequired", false, "nil", "Method", true, true, false},
	{"config.parseConverterLine", "extend", "ParamsRequired", false, "typeForMethod", "Converter", false, false, false},
	{"config.parseMethodLine", "map", "ParamsOptional", true, "typeForMethod", "Method", false, false, false},
	{"config.parseMethodLine", "default", "ParamsOptional", true, "typeForMethod", "Method", false, false, false},
	{"builder.mapField", "", "ParamsNone", false, "nil", "StructMethodContextRegex", false, false, true},
}

func c14R4(p *Prog, r *Report) {
	r.Rule("C14.R4", "per-use parse options as documented: converter methods and extend require a source, map|FUNC and default make it optional and allow generics, struct-method sources take none; Converter/Generated/UpdateParam/CustomCall as in the reference table; the context regex is the one of the level the setting is written on", 5)
	for _, spec := range optsTable {
		fi := p.Func(spec.fn)
		if fi == nil {
			r.Unresolved(spec.fn)
			continue
		}
		var scope ast.Node = fi.Decl
		if spec.label != "" {
			if si := cmdSwitch(fi); si != nil && si.labels[spec.label] != nil {
				scope = si.labels[spec.label]
			} else {
				r.Bad(spec.fn+"/"+spec.label, p.PosStr(fi.Decl.Pos()), "case arm not found")
				continue
			}
		}
		site := spec.fn + "/" + spec.label + " ParseOpts"
		var lit *ast.CompositeLit
		var owner *FuncInfo
		for _, lc := range loaderCallsIn(p, fi, scope, 1) {
			if lit == nil {
				lit, owner = resolveParseOpts(p, lc.owner, lc.opt, 0)
			}
		}
		if lit == nil {
			r.Bad(site, p.PosStr(scope.Pos()), "no method.ParseOpts literal reaches the loader/parser call here")
			continue
		}
		linfo := owner.Pkg.TypesInfo
		var bad []string
		// Params
		pv := compositeField(lit, "Params")
		got := "ParamsRequired" // zero value
		if pv != nil {
			got = strings.TrimPrefix(exprString(pv), "method.")
		}
		if got != spec.params {
			bad = append(bad, fmt.Sprintf("Params is %s, documented %s", got, spec.params))
		}
		atp := compositeField(lit, "AllowTypeParams")
		gotATP := atp != nil && exprString(atp) == "true"
		if atp != nil && exprString(atp) != "true" && exprString(atp) != "false" {
			bad = append(bad, "AllowTypeParams is not a constant")
		}
		if gotATP != spec.typeParams {
			bad = append(bad, fmt.Sprintf("AllowTypeParams is %v, documented %v", gotATP, spec.typeParams))
		}
		cv := compositeField(lit, "Converter")
		gotConv := "nil"
		if cv != nil && exprString(cv) != "nil" {
			gotConv = "other"
			if c, ok := ast.Unparen(cv).(*ast.CallExpr); ok {
				if fn, ok := calleeObj(linfo, c).(*types.Func); ok && fn.Name() == "typeForMethod" {
					gotConv = "typeForMethod"
				}
			}
		}
		if gotConv != spec.converter {
			bad = append(bad, fmt.Sprintf("Converter is %s, documented %s", gotConv, spec.converter))
		}
		if g := compositeField(lit, "Generated"); (g != nil && exprString(g) == "true") != spec.generated {
			bad = append(bad, "Generated differs from the reference")
		}
		if (compositeField(lit, "UpdateParam") != nil) != spec.updateParam {
			bad = append(bad, "UpdateParam differs from the reference")
		}
		if (compositeField(lit, "CustomCall") != nil) != spec.customCall {
			bad = append(bad, "CustomCall differs from the reference")
		}
		if compositeField(lit, "ParamsMultiSource") != nil {
			bad = append(bad, "ParamsMultiSource must not be set (multi source is unsupported)")
		}
		cm := compositeField(lit, "ContextMatch")
		switch {
		case cm == nil:
			bad = append(bad, "ContextMatch missing")
		case spec.ctxOwner == "StructMethodContextRegex":
			if !strings.HasSuffix(exprString(cm), "StructMethodContextRegex") {
				bad = append(bad, "ContextMatch is not config.StructMethodContextRegex")
			}
		default:
			sel, ok := ast.Unparen(cm).(*ast.SelectorExpr)
			if !ok || sel.Sel.Name != "ArgContextRegex" {
				bad = append(bad, "ContextMatch is not an ArgContextRegex")
			} else if nt := namedOf(linfo.TypeOf(sel.X)); nt == nil || nt.Obj().Name() != spec.ctxOwner {
				bad = append(bad, "ContextMatch is not the "+spec.ctxOwner+"'s ArgContextRegex (the level this setting is written on)")
			}
		}
		if len(bad) > 0 {
			r.Bad(site, p.PosStr(lit.Pos()), strings.Join(bad, "; "))
		} else {
			r.OK(site, p.PosStr(lit.Pos()), fmt.Sprintf("%s, generics=%v, converter=%s, context regex of %s", spec.params, spec.typeParams, spec.converter, spec.ctxOwner))
		}
	}
}

// loaderCall is a call that hands a *method.ParseOpts to the loader/parser.
type loaderCall struct {
	call  *ast.CallExpr
	owner *FuncInfo
	opt   ast.Expr
	name  string
}

// loaderCallsIn finds such calls below scope, and — one level deep — inside own helper
// functions of the same package that are called below scope.
func loaderCallsIn(p *Prog, fi *FuncInfo, scope ast.Node, depth int) []loaderCall {
	info := fi.Pkg.TypesInfo
	var direct []loaderCall
	var helpers []*FuncInfo
	ast.Inspect(scope, func(n ast.Node) bool {
		call, ok := n.(*ast.CallExpr)
		if !ok {
			return true
		}
		fn, ok := calleeObj(info, call).(*types.Func)
		if !ok {
			return true
		}
		switch {
		case isFunc(fn, modPath+"/pkgload", "PackageLoader", "GetOne"), isFunc(fn, modPath+"/pkgload", "PackageLoader", "GetMatching"):
			direct = append(direct, loaderCall{call, fi, call.Args[2], fn.Name()})
		case isFunc(fn, modPath+"/method", "", "Parse"):
			direct = append(direct, loaderCall{call, fi, call.Args[1], fn.Name()})
		default:
			if fn.Pkg() == fi.Pkg.Types && !fn.Exported() {
				if h := p.funcIdx[funcKey(fn)]; h != nil && h != fi {
					helpers = append(helpers, h)
				}
			}
		}
		return true
	})
	if len(direct) > 0 || depth <= 0 {
		return direct
	}
	// the call was moved into a helper of this scope
	var out []loaderCall
	for _, h := range helpers {
		out = append(out, loaderCallsIn(p, h, h.Decl.Body, depth-1)...)
	}
	return out
}
