package main

// Rules about the shared helpers (xtype, method index) on which several properties rest.

import (
	"fmt"
	"go/ast"
	"go/token"
	"go/types"
	"sort"
	"strings"

	"golang.org/x/tools/go/ssa"
)

// applyToTable: the classification flags that xtype.applyTo sets per go/types kind. The
// builders' Matches predicates (C03.R3) are stated over these flags, so they are part of
// the documented convertibility relation.
var applyToTable = map[string][]string{
	"Pointer":   {"Pointer", "PointerInner", "PointerType"},
	"Basic":     {"Basic", "BasicType"},
	"Map":       {"Map", "MapKey", "MapType", "MapValue"},
	"Slice":     {"List", "ListInner"},
	"Array":     {"List", "ListFixed", "ListInner"},
	"Named":     {"Named", "NamedType"},
	"Struct":    {"Struct", "StructType"},
	"Interface": {"Interface", "InterfaceType"},
	"Signature": {"Signature", "SignatureType"},
	"Chan":      {"Chan", "ChanType"},
	"TypeParam": {},
}

// typeClassificationRule (C03.R7): every arm of applyTo sets exactly its documented flags.
func typeClassificationRule(p *Prog, r *Report, id string) {
	r.Rule(id, "type classification: each arm of xtype.applyTo's type switch sets exactly the documented flags of xtype.Type (Array = List+ListFixed, Slice = List, Named = Named + classification of the underlying type, …) and nothing else; TypeOf unaliases, stores T and String; the shape predicates of the builders are stated over these flags", 10)
	fi := p.Func("xtype.applyTo")
	if fi == nil {
		r.Unresolved("xtype.applyTo")
		return
	}
	info := fi.Pkg.TypesInfo
	var sw *ast.TypeSwitchStmt
	ast.Inspect(fi.Decl, func(n ast.Node) bool {
		if s, ok := n.(*ast.TypeSwitchStmt); ok && sw == nil {
			sw = s
		}
		return true
	})
	if sw == nil {
		r.Bad("xtype.applyTo/type switch", p.PosStr(fi.Decl.Pos()), "no type switch over the go/types kinds")
		return
	}
	rt := fi.Obj.Type().(*types.Signature).Params().At(0)
	for _, c := range sw.Body.List {
		cc := c.(*ast.CaseClause)
		for _, e := range cc.List {
			nt := namedOf(info.TypeOf(e))
			if nt == nil {
				continue
			}
			kind := nt.Obj().Name()
			want, known := applyToTable[kind]
			if !known {
				r.Note("xtype.applyTo/case "+kind, p.PosStr(cc.Pos()), "kind not in the reference table")
				continue
			}
			got := map[string]bool{}
			recurses := false
			ast.Inspect(cc, func(m ast.Node) bool {
				switch x := m.(type) {
				case *ast.AssignStmt:
					for _, l := range x.Lhs {
						if sel, ok := ast.Unparen(l).(*ast.SelectorExpr); ok {
							if id, ok := ast.Unparen(sel.X).(*ast.Ident); ok && info.ObjectOf(id) == rt {
								got[sel.Sel.Name] = true
							}
						}
					}
				case *ast.CallExpr:
					if f, ok := calleeObj(info, x).(*types.Func); ok && f == fi.Obj {
						recurses = true
					}
				}
				return true
			})
			var gs []string
			for k := range got {
				gs = append(gs, k)
			}
			sort.Strings(gs)
			site := "xtype.applyTo/case " + kind
			ok := strings.Join(gs, ",") == strings.Join(want, ",")
			if kind == "Named" && !recurses {
				ok = false
			}
			if ok {
				r.OK(site, p.PosStr(cc.Pos()), "sets "+strings.Join(want, ", "))
			} else {
				r.Bad(site, p.PosStr(cc.Pos()), fmt.Sprintf("sets {%s}, documented {%s}: the builders' shape predicates would classify %s values differently (e.g. an array treated as a slice)", strings.Join(gs, ","), strings.Join(want, ","), kind))
			}
		}
	}
	// TypeOf/typeOf: Unalias, T and String of the same (unaliased) type
	okT := false
	for _, f := range p.Funcs {
		if relPkg(f.Pkg.PkgPath) != "xtype" || !strings.EqualFold(f.Obj.Name(), "typeof") {
			continue
		}
		finfo := f.Pkg.TypesInfo
		hasUnalias := len(findCalls(finfo, f.Decl, "go/types", "", "Unalias")) > 0
		setsT, setsS := false, false
		ast.Inspect(f.Decl, func(n ast.Node) bool {
			as, ok := n.(*ast.AssignStmt)
			if !ok || len(as.Lhs) != 1 || len(as.Rhs) != 1 {
				return true
			}
			if isFieldSel(finfo, as.Lhs[0], modPath+"/xtype", "Type", "T") {
				if _, isID := ast.Unparen(as.Rhs[0]).(*ast.Ident); isID {
					setsT = true
				}
			}
			if isFieldSel(finfo, as.Lhs[0], modPath+"/xtype", "Type", "String") && strings.HasSuffix(exprString(as.Rhs[0]), ".String()") {
				setsS = true
			}
			return true
		})
		if hasUnalias && setsT && setsS {
			okT = true
		}
	}
	if okT {
		r.OK("xtype.TypeOf/identity", p.PosStr(fi.Decl.Pos()), "types.Unalias, then T and String() of that same type")
	} else {
		r.Bad("xtype.TypeOf/identity", p.PosStr(fi.Decl.Pos()), "TypeOf no longer records the unaliased type and its String(): signatures (source.String == target.String) would compare differently")
	}
}

// accessibleRule (C01.R4b / C03.R5b): xtype.Accessible.
func accessibleRule(p *Prog, r *Report, id string) {
	r.Rule(id, "xtype.Accessible(obj, outputPackagePath) is true only if obj is exported, has no package (universe), or its package PATH equals the output package path; it is the test used by Struct.Assign (target fields), mapField (source path) and method.Parse (functions)", 1)
	fi, sf := needFunc(p, r, "xtype.Accessible")
	if fi == nil {
		return
	}
	// condition inventory: every comparison in the function is `<pkg> == nil` or `<pkg>.Path() == outputPackagePath`,
	// every call used as a condition is obj.Exported(), and there is at least one of each kind
	bad := ""
	nNil, nPath, nExp := 0, 0, 0
	allInstrs(sf, false, func(in ssa.Instruction) {
		switch x := in.(type) {
		case *ssa.BinOp:
			if x.Op != token.EQL && x.Op != token.NEQ {
				return
			}
			isPath := func(v ssa.Value) bool {
				c, ok := v.(*ssa.Call)
				return ok && ssaCalleeObj(c) != nil && isFunc(ssaCalleeObj(c), "go/types", "Package", "Path")
			}
			isParam := func(v ssa.Value) bool { return v == ssa.Value(sf.Params[1]) }
			switch {
			case isNilConst(x.X) || isNilConst(x.Y):
				nNil++
			case (isPath(x.X) && isParam(x.Y)) || (isPath(x.Y) && isParam(x.X)):
				nPath++
			default:
				bad = p.PosStr(x.Pos()) + ": accessibility is decided by the comparison " + x.String() + ", which is not `Pkg() == nil` or `Pkg().Path() == outputPackagePath`"
			}
		case *ssa.If:
			if c, ok := x.Cond.(*ssa.Call); ok {
				name := ""
				if c.Call.Method != nil {
					name = c.Call.Method.Name()
				} else if o := ssaCalleeObj(c); o != nil {
					name = o.Name()
				}
				if name == "Exported" {
					nExp++
				} else {
					bad = p.PosStr(x.Pos()) + ": accessibility depends on " + name + "()"
				}
			}
		}
	})
	switch {
	case bad != "":
		r.Bad("xtype.Accessible", p.PosStr(fi.Decl.Pos()), bad+": members that the output package cannot name would be read or written by generated code")
	case nNil < 1 || nPath < 1 || nExp < 1:
		r.Bad("xtype.Accessible", p.PosStr(fi.Decl.Pos()), fmt.Sprintf("expected the three tests exported / no package / same package path, found %d/%d/%d", nExp, nNil, nPath))
	default:
		r.OK("xtype.Accessible", p.PosStr(fi.Decl.Pos()), "exported ∨ universe ∨ same package path")
	}
}

// indexRule (C06.R5): the method index hands out a function only when its context is satisfied.
func indexRule(p *Prog, r *Report, id string) {
	r.Rule(id, "method index: Index.Get returns an item only on the true edge of satisfiesContext(hit.Def.Context, available) and an error when a signature has hits but none is satisfied; satisfiesContext returns false as soon as one required context type is unavailable; Register rejects a second method whose contexts are contained in (or contain) an existing one's", 3)
	if fi, sf := needFunc(p, r, "method.(*Index).Get"); fi != nil {
		bad := ""
		n := 0
		for _, b := range sf.Blocks {
			for _, in := range b.Instrs {
				ret, ok := in.(*ssa.Return)
				if !ok || len(ret.Results) != 2 || isNilConst(ret.Results[0]) {
					continue
				}
				n++
				if !dominatedByEdge(b, true, func(c ssa.Value) bool {
					call, ok := c.(*ssa.Call)
					return ok && ssaCalleeObj(call) != nil && ssaCalleeObj(call).Name() == "satisfiesContext"
				}) {
					bad = p.PosStr(ret.Pos()) + ": an item is returned without its required contexts being available"
				}
			}
		}
		// some return carries a non-nil error (hits but none satisfied)
		hasErr := false
		for _, b := range sf.Blocks {
			for _, in := range b.Instrs {
				if ret, ok := in.(*ssa.Return); ok && len(ret.Results) == 2 && !isNilConst(ret.Results[1]) {
					hasErr = true
				}
			}
		}
		switch {
		case bad != "":
			r.Bad("method.(*Index).Get", p.PosStr(fi.Decl.Pos()), bad)
		case n == 0 || !hasErr:
			r.Bad("method.(*Index).Get", p.PosStr(fi.Decl.Pos()), "Get no longer distinguishes `found and usable`, `found but context missing` (error) and `not found`")
		default:
			r.OK("method.(*Index).Get", p.PosStr(fi.Decl.Pos()), "item only under satisfiesContext; otherwise an error or nothing")
		}
	}
	if fi, sf := needFunc(p, r, "method.satisfiesContext"); fi != nil {
		// `return true` must not be inside the loop; `return false` must be on the !ok edge of a lookup in m
		okTrue, okFalse := true, false
		for _, b := range sf.Blocks {
			for _, in := range b.Instrs {
				ret, ok := in.(*ssa.Return)
				if !ok {
					continue
				}
				k, isK := ret.Results[0].(*ssa.Const)
				if !isK {
					okTrue = false
					continue
				}
				if constantBool(k) {
					if inCycle(b) {
						okTrue = false
					}
				} else if dominatedByEdge(b, false, func(c ssa.Value) bool {
					ex, ok := c.(*ssa.Extract)
					if !ok || ex.Index != 1 {
						return false
					}
					lk, ok := ex.Tuple.(*ssa.Lookup)
					return ok && lk.X == ssa.Value(sf.Params[1])
				}) {
					okFalse = true
				}
			}
		}
		if okTrue && okFalse {
			r.OK("method.satisfiesContext", p.PosStr(fi.Decl.Pos()), "false on the first required type missing from the available ones; true only after all were found")
		} else {
			r.Bad("method.satisfiesContext", p.PosStr(fi.Decl.Pos()), "satisfiesContext is no longer `every required context type is available`")
		}
	}
	if fi, _ := needFunc(p, r, "method.(*Index).Register"); fi != nil {
		// Register and the private helpers it delegates to
		region := p.Region("method.(*Index).Register")
		inRegion := map[*types.Func]bool{}
		for _, f := range region {
			inRegion[f.Obj.Origin()] = true
		}
		n := 0
		okErr := true
		for _, f := range region {
			sf := p.SSAFunc(f)
			if sf == nil {
				continue
			}
			n += len(callsIn(sf, false, func(o *types.Func) bool { return o.Name() == "checkOverlap" }))
			for _, ec := range errorCalls(sf) {
				if ec.calle != nil && (ec.calle.Name() == "checkOverlap" || inRegion[ec.calle.Origin()]) {
					if len(ec.vals) < ec.nErr {
						okErr = false
					}
					for _, v := range ec.vals {
						if vd := checkErrValue(ec, v); !vd.ok {
							okErr = false
						}
					}
				}
			}
		}
		if n >= 2 && okErr {
			r.OK("method.(*Index).Register", p.PosStr(fi.Decl.Pos()), "overlap is checked in both directions and reported")
		} else {
			r.Bad("method.(*Index).Register", p.PosStr(fi.Decl.Pos()), "two methods with the same signature and overlapping contexts can be registered: which one is used would be ambiguous")
		}
	}
}

// assignabilityRule (C06.R2b): CallMethod verifies that the found function fits before emitting the call.
func assignabilityRule(p *Prog, r *Report, id string) {
	r.Rule(id, "before emitting a call CallMethod checks that the conversion source is assignable to the function's source parameter and the function's result to the conversion target (unless the function is generic); a mismatch is a generation error", 2)
	fi := p.Func("generator.(*generator).CallMethod")
	if fi == nil {
		r.Unresolved("generator.(*generator).CallMethod")
		return
	}
	info := fi.Pkg.TypesInfo
	type chk struct{ name, recv, arg string }
	for _, c := range []chk{{"source fits the parameter", "source", "definition.Source"}, {"result fits the target", "definition.Target", "target"}} {
		found := false
		p.inspectRegion("generator.(*generator).CallMethod", func(_ *FuncInfo, n ast.Node) bool {
			ifs, ok := n.(*ast.IfStmt)
			if !ok || !endsInExit(ifs.Body) {
				return true
			}
			for _, cj := range conjuncts(ifs.Cond) {
				if tv, ok := info.Types[cj]; ok && tv.Value != nil && tv.Value.String() == "false" {
					return true // constant-false conjunct: the guard is dead
				}
			}
			for _, cj := range conjuncts(ifs.Cond) {
				u, ok := ast.Unparen(cj).(*ast.UnaryExpr)
				if !ok || u.Op != token.NOT {
					continue
				}
				call, ok := ast.Unparen(u.X).(*ast.CallExpr)
				if !ok || len(call.Args) != 1 {
					continue
				}
				f, ok := calleeObj(info, call).(*types.Func)
				if !ok || f.Name() != "AssignableTo" {
					continue
				}
				sel := ast.Unparen(call.Fun).(*ast.SelectorExpr)
				if exprString(sel.X) == c.recv && exprString(call.Args[0]) == c.arg {
					// body returns an error
					if ret, ok := ifs.Body.List[len(ifs.Body.List)-1].(*ast.ReturnStmt); ok && len(ret.Results) >= 1 && exprString(ret.Results[len(ret.Results)-1]) != "nil" {
						found = true
					}
				}
			}
			return true
		})
		site := "generator.(*generator).CallMethod/" + c.name
		if found {
			r.OK(site, p.PosStr(fi.Decl.Pos()), "!"+c.recv+".AssignableTo("+c.arg+") → generation error")
		} else {
			r.Bad(site, p.PosStr(fi.Decl.Pos()), "the assignability of "+c.recv+" to "+c.arg+" is no longer checked before the call is emitted: a function found under a signature key could be called with a value of another type")
		}
	}
	if at := p.Func("xtype.(*Type).AssignableTo"); at != nil {
		if len(findCalls(at.Pkg.TypesInfo, at.Decl, "go/types", "", "AssignableTo")) == 1 {
			r.OK("xtype.(*Type).AssignableTo", p.PosStr(at.Decl.Pos()), "types.AssignableTo(t.T, other.T)")
		} else {
			r.Bad("xtype.(*Type).AssignableTo", p.PosStr(at.Decl.Pos()), "no longer go/types' assignability")
		}
	}
}

// wrapErrorsLastRule (C07.R5b): WrapErrors names the innermost (last) path element.
func wrapErrorsLastRule(p *Prog, r *Report) {
	fi := p.Func("builder.(ErrorPath).WrapErrors")
	if fi == nil {
		r.Unresolved("builder.(ErrorPath).WrapErrors")
		return
	}
	ok := false
	ast.Inspect(fi.Decl, func(n ast.Node) bool {
		ix, isIx := n.(*ast.IndexExpr)
		if isIx && isLenMinus(fi.Pkg.TypesInfo, ix.Index, ix.X) {
			ok = true
		}
		return true
	})
	if ok {
		r.OK("builder.(ErrorPath).WrapErrors/innermost element", p.PosStr(fi.Decl.Pos()), "wraps with e[len(e)-1], the element the enclosing method was setting")
	} else {
		r.Bad("builder.(ErrorPath).WrapErrors/innermost element", p.PosStr(fi.Decl.Pos()), "wrapErrors no longer names the innermost path element (e[len(e)-1])")
	}
	// the path constructors append exactly their own element kind
	for _, k := range [][2]string{{"Field", "errElmField"}, {"Index", "errElmIndex"}, {"Key", "errElmKey"}} {
		f := p.Func("builder.(ErrorPath)." + k[0])
		site := "builder.(ErrorPath)." + k[0]
		if f == nil {
			r.Bad(site, "", "path constructor missing")
			continue
		}
		s := ""
		ast.Inspect(f.Decl, func(n ast.Node) bool {
			if ret, ok := n.(*ast.ReturnStmt); ok && len(ret.Results) == 1 {
				s = exprString(ret.Results[0])
			}
			return true
		})
		okShape := strings.HasPrefix(s, "append(errPath, "+k[1])
		if !okShape {
			// data-flow form: every return is append(receiver, e) — possibly through a private one-line helper —
			// with e of this constructor's element type
			if sf := p.SSAFunc(f); sf != nil {
				nret, good := 0, 0
				allInstrs(sf, false, func(in ssa.Instruction) {
					if ret, ok := in.(*ssa.Return); ok && len(ret.Results) == 1 {
						nret++
						if base, elem, ok := appendOneShape(ret.Results[0], 0); ok && elemTypeName(elem) == k[1] {
							if _, isPrm := base.(*ssa.Parameter); isPrm {
								good++
							}
						}
					}
				})
				okShape = nret > 0 && nret == good
			}
		}
		if okShape {
			r.OK(site, p.PosStr(f.Decl.Pos()), "append(path, "+k[1]+"…): adds its element at the end")
		} else {
			r.Bad(site, p.PosStr(f.Decl.Pos()), "does not append a "+k[1]+" at the end of the path")
		}
	}
}
